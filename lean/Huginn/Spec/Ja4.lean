import Huginn.Model.Ja4
/-
Specification of C04, written from the property statement and FoxIO's JA4.md (JA4: TLS client
fingerprinting, technical details), *not* from the code.

The input is an abstract, RFC-shaped `ClientHello` (RFC 8446 §4.1.2 / RFC 5246 §7.4.1.2): legacy
version, random, session id, cipher suites, compression methods and — when present — the extension
list in wire order, with the extensions the fingerprint looks into decoded (server_name RFC 6066 §3,
ALPN RFC 7301 §3.1, supported_versions RFC 8446 §4.2.1, signature_algorithms §4.2.3,
supported_groups §4.2.7, ec_point_formats RFC 8422 §5.1.2) and every other extension opaque.
`encode` is the wire format of those RFCs. `ja4` is the fingerprint JA4.md assigns:

  JA4_a  `t` (TLS over TCP) · version · `d`/`i` (SNI extension present / absent) · two-digit count of
         cipher suites · two-digit count of extensions (both ignoring GREASE, capped at 99) · first and
         last character of the first ALPN value (`00` when there is none)
         version = highest non-GREASE value of supported_versions when that extension is present,
         otherwise the legacy version; 0x0304→13 0x0303→12 0x0302→11 0x0301→10 0x0300→s3 0x0002→s2,
         anything else → 00
  JA4_b  cipher suites without GREASE as 4-digit lowercase hex joined by `,` — sorted (JA4, JA4_r) or in
         wire order (JA4_o, JA4_ro)
  JA4_c  extension types without GREASE — sorted and without SNI (0000) and ALPN (0010) for JA4/JA4_r, in
         wire order with them for JA4_o/JA4_ro — then `_` and the signature algorithms in wire order;
         no `_` when there are no signature algorithms
  hashed forms: first 12 hex digits of SHA-256 of the part; `000000000000` when the list of the part
         (ciphers for b, extensions for c) is empty.

GREASE (RFC 8701) is characterised arithmetically here (both bytes equal, low nibble 0xA), not by the
table the code carries. Sorting is insertion sort (the code's is `sort_unstable`, modelled by merge sort).

Where JA4.md's revisions differ or it is silent the specification is *undefined* (`none`) and the
check compares the implementation with the model only: an ALPN value of one byte or whose first or
last byte is not an ASCII alphanumeric; a supported_versions list with no non-GREASE entry; DTLS
version codes inside a TLS-over-TCP hello.
-/
namespace Huginn.Tls.Spec
open Huginn.Tls

/-! ### abstract ClientHello and its wire format -/

inductive Ext where
  | serverName (names : List (Nat × Bytes))         -- (name_type, HostName) list
  | alpn (protocols : List Bytes)
  | supportedVersions (versions : List Nat)
  | signatureAlgorithms (schemes : List Nat)
  | supportedGroups (groups : List Nat)
  | ecPointFormats (formats : Bytes)
  | other (ty : Nat) (body : Bytes)
  deriving DecidableEq, Repr, Inhabited

structure ClientHello where
  recordVersion : Nat
  legacyVersion : Nat
  random : Bytes
  sessionId : Bytes
  ciphers : List Nat
  compression : Bytes
  extensions : Option (List Ext)
  deriving DecidableEq, Repr, Inhabited

def Ext.type : Ext → Nat
  | .serverName _ => 0 | .alpn _ => 16 | .supportedVersions _ => 43 | .signatureAlgorithms _ => 13
  | .supportedGroups _ => 10 | .ecPointFormats _ => 11 | .other t _ => t

def e8 (n : Nat) : Bytes := [UInt8.ofNat n]
def e16 (n : Nat) : Bytes := [UInt8.ofNat (n / 256), UInt8.ofNat (n % 256)]
def e24 (n : Nat) : Bytes := [UInt8.ofNat (n / 65536), UInt8.ofNat (n / 256 % 256), UInt8.ofNat (n % 256)]

/-- `opaque v<0..2^8-1>` / `<0..2^16-1>` / `<0..2^24-1>` vectors -/
def vec8 (b : Bytes) : Bytes := e8 b.length ++ b
def vec16 (b : Bytes) : Bytes := e16 b.length ++ b
def vec24 (b : Bytes) : Bytes := e24 b.length ++ b

def encName (n : Nat × Bytes) : Bytes := e8 n.1 ++ vec16 n.2

def Ext.body : Ext → Bytes
  | .serverName names => vec16 (names.flatMap encName)
  | .alpn ps => vec16 (ps.flatMap vec8)
  | .supportedVersions vs => vec8 (vs.flatMap e16)
  | .signatureAlgorithms xs => vec16 (xs.flatMap e16)
  | .supportedGroups xs => vec16 (xs.flatMap e16)
  | .ecPointFormats f => vec8 f
  | .other _ b => b

def Ext.encode (x : Ext) : Bytes := e16 x.type ++ vec16 x.body

/-- the optional `Extension extensions<0..2^16-1>` block -/
def extBlock : Option (List Ext) → Bytes
  | none => []
  | some es => vec16 (es.flatMap Ext.encode)

def ClientHello.body (ch : ClientHello) : Bytes :=
  e16 ch.legacyVersion ++ ch.random ++ vec8 ch.sessionId ++ vec16 (ch.ciphers.flatMap e16)
    ++ vec8 ch.compression ++ extBlock ch.extensions

/-- handshake message (type 1 = client_hello) inside one handshake record (type 22). -/
def ClientHello.handshake (ch : ClientHello) : Bytes := e8 1 ++ vec24 ch.body
def encode (ch : ClientHello) : Bytes := e8 22 ++ e16 ch.recordVersion ++ vec16 ch.handshake

def ClientHello.exts (ch : ClientHello) : List Ext := ch.extensions.getD []

/-! ### JA4.md -/

/-- RFC 8701: 0x0A0A, 0x1A1A, …, 0xFAFA. -/
def IsGrease (v : Nat) : Prop := v < 65536 ∧ v / 256 = v % 256 ∧ v % 16 = 10
instance (v : Nat) : Decidable (IsGrease v) := by unfold IsGrease; exact inferInstance

def noGrease (l : List Nat) : List Nat := l.filter (fun v => !decide (IsGrease v))

def insertAsc (x : Nat) : List Nat → List Nat
  | [] => [x]
  | y :: r => if x ≤ y then x :: y :: r else y :: insertAsc x r
def sortAsc (l : List Nat) : List Nat := l.foldr insertAsc []

def hexChar (d : Nat) : Char := "0123456789abcdef".toList.getD d '?'
def hex4 (n : Nat) : Str :=
  [hexChar (n / 4096 % 16), hexChar (n / 256 % 16), hexChar (n / 16 % 16), hexChar (n % 16)]
def dec2 (n : Nat) : Str := [hexChar (n / 10 % 10), hexChar (n % 10)]
/-- 4-digit hex values separated by commas -/
def commaHex : List Nat → Str
  | [] => []
  | x :: r => hex4 x ++ r.flatMap (fun y => ',' :: hex4 y)

def versionCode (v : Nat) : Str :=
  if v = 0x0304 then ['1', '3'] else if v = 0x0303 then ['1', '2'] else if v = 0x0302 then ['1', '1']
  else if v = 0x0301 then ['1', '0'] else if v = 0x0300 then ['s', '3'] else if v = 0x0002 then ['s', '2']
  else ['0', '0']

def supportedVersionsOf : List Ext → Option (List Nat)
  | [] => none
  | .supportedVersions vs :: _ => some vs
  | _ :: r => supportedVersionsOf r
def alpnOf : List Ext → Option (List Bytes)
  | [] => none
  | .alpn ps :: _ => some ps
  | _ :: r => alpnOf r
def sigAlgsOf : List Ext → List Nat
  | [] => []
  | .signatureAlgorithms xs :: _ => xs
  | _ :: r => sigAlgsOf r
def groupsOf : List Ext → List Nat
  | [] => []
  | .supportedGroups xs :: _ => xs
  | _ :: r => groupsOf r
def serverNameOf : List Ext → Option (List (Nat × Bytes))
  | [] => none
  | .serverName ns :: _ => some ns
  | _ :: r => serverNameOf r

def maxOf : List Nat → Nat := fun l => l.foldl max 0

def isDtlsCode (v : Nat) : Bool := v = 0xfeff || v = 0xfefd || v = 0xfefc

/-- The version the fingerprint reports, as a protocol version number; `none` = undefined. -/
def versionNumber (ch : ClientHello) : Option Nat :=
  match supportedVersionsOf ch.exts with
  | some vs =>
    let ng := noGrease vs
    if ng.isEmpty then none else
    let m := maxOf ng
    if isDtlsCode m then none else some m
  | none => if isDtlsCode ch.legacyVersion then none else some ch.legacyVersion

def isAlnum (b : UInt8) : Bool :=
  let x := b.toNat
  (decide (0x30 ≤ x) && decide (x ≤ 0x39)) || (decide (0x41 ≤ x) && decide (x ≤ 0x5A))
    || (decide (0x61 ≤ x) && decide (x ≤ 0x7A))

/-- first/last character of the first ALPN value; `none` = undefined (see header). -/
def alpnChars (ch : ClientHello) : Option (Char × Char) :=
  match alpnOf ch.exts with
  | none => some ('0', '0')
  | some [] => none
  | some (p :: _) =>
    match p.head?, p.getLast? with
    | some f, some l =>
      if 2 ≤ p.length ∧ isAlnum f ∧ isAlnum l then some (Char.ofNat f.toNat, Char.ofNat l.toNat) else none
    | _, _ => none

def sniFlag (ch : ClientHello) : Str := if (ch.exts.any (fun x => x.type = 0)) then ['d'] else ['i']

def cipherList (ch : ClientHello) : List Nat := noGrease ch.ciphers
def extList (ch : ClientHello) : List Nat := noGrease (ch.exts.map Ext.type)
def sigList (ch : ClientHello) : List Nat := noGrease (sigAlgsOf ch.exts)

def partA (ch : ClientHello) : Option Str :=
  match versionNumber ch, alpnChars ch with
  | some v, some (f, l) =>
    some (['t'] ++ versionCode v ++ sniFlag ch ++ dec2 (min (cipherList ch).length 99)
      ++ dec2 (min (extList ch).length 99) ++ [f, l])
  | _, _ => none

def ciphersFor (sorted : Bool) (ch : ClientHello) : List Nat :=
  if sorted then sortAsc (cipherList ch) else cipherList ch
def extsFor (sorted : Bool) (ch : ClientHello) : List Nat :=
  if sorted then sortAsc ((extList ch).filter (fun t => t ≠ 0 ∧ t ≠ 16)) else extList ch

def partB (sorted : Bool) (ch : ClientHello) : Str := commaHex (ciphersFor sorted ch)
def partC (sorted : Bool) (ch : ClientHello) : Str :=
  let e := commaHex (extsFor sorted ch)
  if (sigList ch).isEmpty then e else e ++ ['_'] ++ commaHex (sigList ch)

def zeros12 : Str := List.replicate 12 '0'
/-- first 12 hex digits of the digest (of the ASCII text) -/
def trunc12 (sha : Bytes → Bytes) (s : Str) : Str :=
  (sha (s.map (fun c => UInt8.ofNat c.toNat))).take 6 |>.flatMap (fun x => [hexChar (x.toNat / 16), hexChar (x.toNat % 16)])

def hashB (sha : Bytes → Bytes) (sorted : Bool) (ch : ClientHello) : Str :=
  if (ciphersFor sorted ch).isEmpty then zeros12 else trunc12 sha (partB sorted ch)
def hashC (sha : Bytes → Bytes) (sorted : Bool) (ch : ClientHello) : Str :=
  if (extsFor sorted ch).isEmpty then zeros12 else trunc12 sha (partC sorted ch)

structure Ja4 where
  ja4 : Str      -- a_hash(b)_hash(c), sorted
  ja4r : Str     -- a_b_c, sorted
  ja4o : Str     -- original order, hashed
  ja4ro : Str    -- original order, raw
  deriving DecidableEq, Repr, Inhabited

def ja4 (sha : Bytes → Bytes) (ch : ClientHello) : Option Ja4 :=
  (partA ch).map fun a =>
    { ja4 := a ++ ['_'] ++ hashB sha true ch ++ ['_'] ++ hashC sha true ch,
      ja4r := a ++ ['_'] ++ partB true ch ++ ['_'] ++ partC true ch,
      ja4o := a ++ ['_'] ++ hashB sha false ch ++ ['_'] ++ hashC sha false ch,
      ja4ro := a ++ ['_'] ++ partB false ch ++ ['_'] ++ partC false ch }

/-! ### the separately reported fields ("follow the bytes exactly") -/

/-- name of the `TlsVersion` variant that must be reported -/
def versionField (ch : ClientHello) : Option String :=
  (versionNumber ch).map fun v =>
    if v = 0x0304 then "V1_3" else if v = 0x0303 then "V1_2" else if v = 0x0302 then "V1_1"
    else if v = 0x0301 then "V1_0" else if v = 0x0300 then "Ssl3_0" else if v = 0x0002 then "Ssl2_0"
    else "Unknown"

/-- host name of the first server_name entry -/
def sniField (ch : ClientHello) : Option Bytes :=
  match serverNameOf ch.exts with
  | some ((_, h) :: _) => some h
  | _ => none
/-- first ALPN value -/
def alpnField (ch : ClientHello) : Option Bytes :=
  match alpnOf ch.exts with
  | some (p :: _) => some p
  | _ => none

/-- What the statement demands to be reported; `none` where the specification is undefined. -/
def specReport (sha : Bytes → Bytes) (ch : ClientHello) : Option Report :=
  match ja4 sha ch, versionField ch with
  | some j, some v =>
    some { ja4 := j.ja4, ja4r := j.ja4r, ja4o := j.ja4o, ja4ro := j.ja4ro, version := v,
           sni := sniField ch, alpn := alpnField ch, ciphers := cipherList ch, extensions := extList ch,
           sigAlgs := sigAlgsOf ch.exts, groups := groupsOf ch.exts }
  | _, _ => none

/-! ### well-formedness (what "RFC-conformant" means here) -/

def fits (n : Nat) (l : List Nat) : Prop := ∀ x ∈ l, x < n
instance (n : Nat) (l : List Nat) : Decidable (fits n l) := by unfold fits; exact inferInstance

/-- the six extension types this specification decodes -/
def decodedTypes : List Nat := [0, 10, 11, 13, 16, 43]

def Ext.WF (bodyOk : Nat → Bytes → Bool) : Ext → Prop
  | .serverName names =>
      (∀ n ∈ names, n.1 < 256 ∧ n.2.length < 65536) ∧ (names.flatMap encName).length < 65534
      ∧ (match names with | [] => False | n :: _ => validUtf8 n.2 = true)
  | .alpn ps => ps ≠ [] ∧ (∀ p ∈ ps, p.length < 256) ∧ (ps.flatMap vec8).length < 65534
  | .supportedVersions vs => vs ≠ [] ∧ fits 65536 vs ∧ vs.length < 128
  | .signatureAlgorithms xs => fits 65536 xs ∧ xs.length < 32767
  | .supportedGroups xs => fits 65536 xs ∧ xs.length < 32767
  | .ecPointFormats f => f.length < 256
  | .other t b => t < 65536 ∧ t ∉ decodedTypes ∧ b.length < 65536 ∧ bodyOk t b = true
instance (bodyOk : Nat → Bytes → Bool) (x : Ext) : Decidable (x.WF bodyOk) := by
  cases x with
  | serverName names => unfold Ext.WF; cases names <;> exact inferInstance
  | alpn _ => unfold Ext.WF; exact inferInstance
  | supportedVersions _ => unfold Ext.WF; exact inferInstance
  | signatureAlgorithms _ => unfold Ext.WF; exact inferInstance
  | supportedGroups _ => unfold Ext.WF; exact inferInstance
  | ecPointFormats _ => unfold Ext.WF; exact inferInstance
  | other _ _ => unfold Ext.WF; exact inferInstance

/-- RFC 8446 §4.2: "There MUST NOT be more than one extension of the same type" — needed here only
for the six decoded types. -/
def distinctDecoded (es : List Ext) : Prop :=
  ∀ t ∈ decodedTypes, ((es.map Ext.type).filter (· = t)).length ≤ 1
instance (es : List Ext) : Decidable (distinctDecoded es) := by unfold distinctDecoded; exact inferInstance

def ClientHello.WF (bodyOk : Nat → Bytes → Bool) (ch : ClientHello) : Prop :=
  ch.recordVersion < 65536 ∧ ch.legacyVersion < 65536 ∧ ch.random.length = 32 ∧ ch.sessionId.length ≤ 32
  ∧ fits 65536 ch.ciphers ∧ ch.ciphers.length < 32768 ∧ ch.compression.length < 256
  ∧ (∀ x ∈ ch.exts, x.WF bodyOk) ∧ distinctDecoded ch.exts
  ∧ (ch.exts.flatMap Ext.encode).length < 65536
  ∧ ch.handshake.length ≤ 16384     -- one TLSPlaintext fragment (RFC 8446 §5.1)
instance (bodyOk : Nat → Bytes → Bool) (ch : ClientHello) : Decidable (ch.WF bodyOk) := by
  unfold ClientHello.WF; exact inferInstance

/-! ### known-finding classes of the current tree -/
end Huginn.Tls.Spec

namespace Huginn.KF.C04
open Huginn.Tls Huginn.Tls.Spec

/-- first ALPN value with alphanumeric first and last byte that is not valid UTF-8 as a whole: the
code drops the value (`from_utf8(..).ok()`) and prints `00`. -/
def alpnNotUtf8 (ch : ClientHello) : Prop :=
  ∃ p, alpnField ch = some p ∧ alpnChars ch ≠ none ∧ validUtf8 p = false
instance (ch : ClientHello) : Decidable (alpnNotUtf8 ch) := by
  unfold alpnNotUtf8
  cases h : alpnField ch with
  | none => exact isFalse (by simp)
  | some p =>
    by_cases h2 : alpnChars ch ≠ none ∧ validUtf8 p = false
    · exact isTrue ⟨p, rfl, h2.1, h2.2⟩
    · exact isFalse (by rintro ⟨q, hq, a, b⟩; cases hq; exact h2 ⟨a, b⟩)

/-- the classes still open -/
def any (ch : ClientHello) : Prop := alpnNotUtf8 ch
instance (ch : ClientHello) : Decidable (any ch) := by unfold any; exact inferInstance

end Huginn.KF.C04
