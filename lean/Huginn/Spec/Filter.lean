import Huginn.Model.Filter
/-
Specification of C14, written from the property statement, not from the code:

  with no sub-filter everything passes; in allow mode a packet passes iff every
  configured sub-filter matches; in deny mode iff not all of them match.
  A port filter matches iff each side that has constraints has its port in the
  listed ports or half-open ranges (or, in any-port mode, either port is in the
  union); an address filter iff an enabled side's address is listed; a subnet
  filter iff an enabled side's address lies inside a listed CIDR block.

The specification talks about what the *user wrote* (half-open ranges `lo..hi`,
CIDR blocks as address/prefix) — `UserPort` etc. — and `build` is the model of the
builder calls that turn it into the stored configuration.
-/
namespace Huginn.Filter.Spec
open Huginn.Filter

structure UserPort where
  srcPorts  : List Nat := []
  dstPorts  : List Nat := []
  srcRanges : List (Nat × Nat) := []   -- half-open lo..hi as written
  dstRanges : List (Nat × Nat) := []
  anyPort   : Bool := false
  deriving Repr

def InHalfOpen (p : Nat) (r : Nat × Nat) : Prop := r.1 ≤ p ∧ p < r.2
instance (p r) : Decidable (InHalfOpen p r) := by unfold InHalfOpen; exact inferInstance

/-- `p` is in the listed ports or in one of the half-open ranges. -/
def Listed (ports : List Nat) (ranges : List (Nat × Nat)) (p : Nat) : Prop :=
  p ∈ ports ∨ ∃ r ∈ ranges, InHalfOpen p r
instance (a b p) : Decidable (Listed a b p) := by unfold Listed; exact inferInstance

/-- A side "has constraints" when a port is listed for it or a non-empty range is. -/
def Constrained (ports : List Nat) (ranges : List (Nat × Nat)) : Prop :=
  ports ≠ [] ∨ ∃ r ∈ ranges, r.1 < r.2
instance (a b) : Decidable (Constrained a b) := by unfold Constrained; exact inferInstance

def UserPort.Matches (f : UserPort) (sp dp : Nat) : Prop :=
  if f.anyPort then
    Listed (f.srcPorts ++ f.dstPorts) (f.srcRanges ++ f.dstRanges) sp ∨
    Listed (f.srcPorts ++ f.dstPorts) (f.srcRanges ++ f.dstRanges) dp
  else
    (Constrained f.srcPorts f.srcRanges → Listed f.srcPorts f.srcRanges sp) ∧
    (Constrained f.dstPorts f.dstRanges → Listed f.dstPorts f.dstRanges dp)
instance (f : UserPort) (a b) : Decidable (f.Matches a b) := by
  unfold UserPort.Matches; exact inferInstance

def AddrListed (f : IpFilter) : Addr → Prop
  | .v4 a => a ∈ f.v4
  | .v6 a => a ∈ f.v6
instance (f : IpFilter) (a) : Decidable (AddrListed f a) := by
  cases a <;> (unfold AddrListed; exact inferInstance)

def IpMatches (f : IpFilter) (s d : Addr) : Prop :=
  (f.checkSrc = true ∧ AddrListed f s) ∨ (f.checkDst = true ∧ AddrListed f d)
instance (f : IpFilter) (s d) : Decidable (IpMatches f s d) := by
  unfold IpMatches; exact inferInstance

/-- An address of width `w` lies inside block `n` iff its `pfx` leading bits
(bits `w-1 … w-pfx`) equal the block's. -/
def InBlock (w : Nat) (n : Net) (ip : Nat) : Prop :=
  ∀ i, i < n.pfx → ip.testBit (w - 1 - i) = n.addr.testBit (w - 1 - i)
instance (w n ip) : Decidable (InBlock w n ip) := by unfold InBlock; exact inferInstance

def InSomeBlock (f : SubnetFilter) : Addr → Prop
  | .v4 a => ∃ n ∈ f.v4, InBlock 32 n a
  | .v6 a => ∃ n ∈ f.v6, InBlock 128 n a
instance (f : SubnetFilter) (a) : Decidable (InSomeBlock f a) := by
  cases a <;> (unfold InSomeBlock; exact inferInstance)

def SubnetMatches (f : SubnetFilter) (s d : Addr) : Prop :=
  (f.checkSrc = true ∧ InSomeBlock f s) ∨ (f.checkDst = true ∧ InSomeBlock f d)
instance (f : SubnetFilter) (s d) : Decidable (SubnetMatches f s d) := by
  unfold SubnetMatches; exact inferInstance

structure UserConfig where
  port   : Option UserPort := none
  ip     : Option IpFilter := none
  subnet : Option SubnetFilter := none
  mode   : Mode := .allow
  deriving Repr

/-- `P` holds of the sub-filter if one is configured. -/
def IfConfigured {α} (o : Option α) (P : α → Prop) : Prop :=
  match o with
  | none => True
  | some x => P x
instance {α} (o : Option α) (P : α → Prop) [DecidablePred P] : Decidable (IfConfigured o P) := by
  cases o <;> (unfold IfConfigured; exact inferInstance)

def AllMatch (c : UserConfig) (s d : Addr) (sp dp : Nat) : Prop :=
  IfConfigured c.port (fun f => f.Matches sp dp) ∧
  IfConfigured c.ip (fun f => IpMatches f s d) ∧
  IfConfigured c.subnet (fun f => SubnetMatches f s d)
instance (c s d sp dp) : Decidable (AllMatch c s d sp dp) := by unfold AllMatch; exact inferInstance

/-- The documented rule. -/
def Admits (c : UserConfig) (s d : Addr) (sp dp : Nat) : Prop :=
  if c.port = none ∧ c.ip = none ∧ c.subnet = none then True
  else match c.mode with
    | .allow => AllMatch c s d sp dp
    | .deny  => ¬ AllMatch c s d sp dp

instance (c : UserConfig) (s d sp dp) : Decidable (Admits c s d sp dp) := by
  unfold Admits
  cases c.mode <;> cases c.port <;> cases c.ip <;> cases c.subnet <;> simp <;> exact inferInstance

instance : DecidableEq UserPort := fun a b => by
  cases a; cases b; simp only [UserPort.mk.injEq]; exact inferInstance

/-- Builder model: what the chained builder calls store. -/
def UserPort.build (u : UserPort) : PortFilter :=
  let f0 : PortFilter := {}
  let f1 := (f0.sourceList u.srcPorts).destinationList u.dstPorts
  let f2 := u.srcRanges.foldl (fun f r => f.sourceRange r.1 r.2) f1
  let f3 := u.dstRanges.foldl (fun f r => f.destinationRange r.1 r.2) f2
  if u.anyPort then f3.anyPort else f3

def UserConfig.build (c : UserConfig) : Config :=
  { port := c.port.map UserPort.build, ip := c.ip, subnet := c.subnet, mode := c.mode }

/-- The part of the configuration space on which the statement does not say whether a
side "has constraints": its only constraints are empty ranges. The check does not
compare implementation and specification there (either reading is accepted). -/
def Unspecified (u : UserPort) : Prop :=
  (u.srcPorts = [] ∧ u.srcRanges ≠ [] ∧ ∀ r ∈ u.srcRanges, ¬ r.1 < r.2) ∨
  (u.dstPorts = [] ∧ u.dstRanges ≠ [] ∧ ∀ r ∈ u.dstRanges, ¬ r.1 < r.2)
instance (u) : Decidable (Unspecified u) := by unfold Unspecified; exact inferInstance

end Huginn.Filter.Spec
