import Huginn.Model.HttpFlow
/-
Specification of C09, written from the property statement and RFC 793 sequence-number arithmetic
(everything modulo 2^32), not from the code.

A connection is opened by a SYN carrying the client's initial sequence number `isnC`; the server's
SYN-ACK carries `isnS`. The byte with stream offset `o` of a direction has sequence number
`isn + 1 + o (mod 2^32)`. `stream isn segs` is the longest gap-free run of bytes starting at
`isn + 1` that the received segments cover. After every data segment the analyzer may look at
the stream *so far*; a head is reported the first time the parser accepts that stream, once per
direction, attributed to the packet's direction. Nothing else is ever reported.
-/
namespace Huginn.HttpFlow.Spec
open Huginn.HttpFlow

def M32 : Nat := 4294967296

/-- stream offset of sequence number `s` when the first stream byte is `isn + 1` (mod 2^32).
(irreducible: unfolding `+ 2^32` in definitional-equality checks would never end) -/
@[irreducible] def rel (isn s : Nat) : Nat := (s % M32 + M32 - (isn + 1) % M32) % M32

/-- bytes a segment contributes from stream offset `off` on, if it covers that offset -/
def coverFrom (isn off : Nat) (seg : Seg) : Option Bytes :=
  let r := rel isn seg.seq
  if r ≤ off ∧ off < r + seg.data.length then some (seg.data.drop (off - r)) else none

def firstCover (isn off : Nat) (segs : List Seg) : Option Bytes := segs.findSome? (coverFrom isn off)

def totalLen : List Seg → Nat
  | [] => 0
  | s :: r => s.data.length + totalLen r

def streamAux (isn : Nat) (segs : List Seg) : Nat → Nat → Bytes
  | 0, _ => []
  | fuel + 1, off =>
    match firstCover isn off segs with
    | none => []
    | some b => b ++ streamAux isn segs fuel (off + b.length)

/-- the longest gap-free run starting at `isn + 1` -/
def stream (isn : Nat) (segs : List Seg) : Bytes := streamAux isn segs (totalLen segs + 1) 0

/-! ### a connection and its data segments -/

structure Conn where
  client : FlowKey      -- the SYN's (src ip, dst ip, src port, dst port)
  isnC : Nat
  isnS : Nat
  deriving Repr, Inhabited

structure DataPkt where
  fromClient : Bool
  seq : Nat
  flags : Nat
  payload : Bytes
  deriving DecidableEq, Repr, Inhabited

structure St where
  segsC : List Seg := []
  segsS : List Seg := []
  doneC : Bool := false
  doneS : Bool := false

/-- what must be reported, packet by packet: every data segment is recorded; a head is reported
the first time the parser accepts the direction's stream so far -/
def specRun {ρ σ} (P : Parsers ρ σ) (c : Conn) : St → List DataPkt → List (Option ρ × Option σ)
  | _, [] => []
  | st, p :: ps =>
    if p.payload.isEmpty then (none, none) :: specRun P c st ps
    else if p.fromClient then
      let segs := st.segsC ++ [⟨p.seq, p.payload⟩]
      if st.doneC then (none, none) :: specRun P c { st with segsC := segs } ps else
      match P.request (stream c.isnC segs) with
      | some r => (some r, none) :: specRun P c { st with segsC := segs, doneC := true } ps
      | none => (none, none) :: specRun P c { st with segsC := segs } ps
    else
      let segs := st.segsS ++ [⟨p.seq, p.payload⟩]
      if st.doneS then (none, none) :: specRun P c { st with segsS := segs } ps else
      match P.response (stream c.isnS segs) with
      | some r => (none, some r) :: specRun P c { st with segsS := segs, doneS := true } ps
      | none => (none, none) :: specRun P c { st with segsS := segs } ps

/-- the packets of a connection as the analyzer sees them: SYN, SYN-ACK, data -/
def Conn.packets (c : Conn) (ds : List DataPkt) : List Pkt :=
  let k := c.client
  ⟨k.srcIp, k.dstIp, k.srcPort, k.dstPort, c.isnC, 2, []⟩ ::
  ⟨k.dstIp, k.srcIp, k.dstPort, k.srcPort, c.isnS, 18, []⟩ ::
  ds.map (fun d =>
    if d.fromClient then ⟨k.srcIp, k.dstIp, k.srcPort, k.dstPort, d.seq, d.flags, d.payload⟩
    else ⟨k.dstIp, k.srcIp, k.dstPort, k.srcPort, d.seq, d.flags, d.payload⟩)

def specConn {ρ σ} (P : Parsers ρ σ) (c : Conn) (ds : List DataPkt) : List (Option ρ × Option σ) :=
  (none, none) :: (none, none) :: specRun P c {} ds

/-! ### classes of inputs -/

def segsOf (fromClient : Bool) (ds : List DataPkt) : List Seg :=
  (ds.filter (fun d => d.fromClient == fromClient && !d.payload.isEmpty)).map (fun d => ⟨d.seq, d.payload⟩)

/-- no segment of the direction reaches across 2^32: raw `u32` order is stream order -/
def NoWrap (isn : Nat) (segs : List Seg) : Prop :=
  ∀ s ∈ segs, s.seq < M32 ∧ (isn + 1) % M32 + rel isn s.seq + s.data.length ≤ M32
instance (isn segs) : Decidable (NoWrap isn segs) := by unfold NoWrap; exact inferInstance

/-- two segments cover a common stream offset (retransmission, overlap) -/
def overlaps (isn : Nat) (a b : Seg) : Bool :=
  let ra := rel isn a.seq; let rb := rel isn b.seq
  decide (ra < rb + b.data.length) && decide (rb < ra + a.data.length)

def hasOverlap (isn : Nat) : List Seg → Bool
  | [] => false
  | a :: r => r.any (overlaps isn a) || hasOverlap isn r

/-- the segments tile `[0, n)` exactly: sorted by offset, each starts where the previous ended -/
def tilesFrom (isn : Nat) : Nat → List Seg → Bool
  | _, [] => true
  | off, s :: r => rel isn s.seq == off && tilesFrom isn (off + s.data.length) r

/-- the segments arrive in stream order, each starting where the previous one ended, the first at
the first stream byte: at every moment what was received is a gap-free, overlap-free run -/
def AlwaysContiguous (isn : Nat) (segs : List Seg) : Bool := tilesFrom isn 0 segs

end Huginn.HttpFlow.Spec

namespace Huginn.HttpFlow.Spec
open Huginn.HttpFlow

/-- the segments of a direction are pieces of one byte stream `S` (first byte = sequence number
`isn + 1`): retransmissions and overlaps carry the same bytes. This is the statement's domain —
"every division of those bytes into TCP segments". -/
def Consistent (isn : Nat) (S : Bytes) (segs : List Seg) : Prop :=
  S.length < M32 ∧ ∀ s ∈ segs, rel isn s.seq + s.data.length ≤ S.length ∧
    s.data = (S.drop (rel isn s.seq)).take s.data.length

end Huginn.HttpFlow.Spec

/-! No known-finding class is open: sequence wrap, gap assembly and duplicated segments were repaired
in /repo (fixes/C09-1) and their predicates deleted. `NoWrap`, `hasOverlap`, `AlwaysContiguous` remain
as input features (the driver labels cases with them so that coverage of those inputs stays a gate). -/
