import Huginn.Spec.H2
import Huginn.Model.H2Message
/-
Specification of "HTTP/2 requests and responses are decoded as RFC 7540/7541 define them" (C16).

Source: the property statement; RFC 7540 §6.2/§6.10 for the header block (via `Spec.H2.headerBlock`:
PADDED and PRIORITY fields removed, CONTINUATION fragments joined *before* decompression); RFC 7541 with
a fresh context per connection for the field list (HPACK is the parameter `H`); RFC 7540 §8.1.2
for pseudo-header fields; RFC 6265 §4.2.1 / RFC 7540 §8.1.2.5 for cookie crumbs; the p0f signature
language for `ver:horder:habsent:expsw` with its header lists applied case-insensitively.

Shape: everything is a function of the decoded *field list* (in wire order), read as text:

    fields ──▶ message (method, path, authority, scheme | status, ordered header list, cookies,
               referer, user agent, language, signature)

The output vocabulary (`Hdr`, `Cookie`, `SigHdr`) is shared with the model, and so are the text
primitives `lossy`, `lowerAscii`, `trimAscii`, `splitOn` and the language selection (a parameter).
-/
namespace Huginn.Spec.H2Message
open Huginn.H2 Huginn.Spec.H2

/-- names and values are reported as text: UTF-8, ill-formed sequences replaced by U+FFFD -/
def textFields (hs : List Field) : List Field := hs.map (fun f => (lossy f.1, lossy f.2))

def isPseudoField (f : Field) : Bool := f.1.head? == some 58

def eqIgnoreCase (a b : Bytes) : Bool := lowerAscii a == lowerAscii b
def inListIgnoreCase (l : List Bytes) (n : Bytes) : Bool := l.any (eqIgnoreCase n)

/-- value of the pseudo-header `name` -/
def pseudoValue (hs : List Field) (name : Bytes) : Option Bytes :=
  (hs.find? (fun f => f.1 == name)).map (fun f => f.2)

/-- regular fields as text with their index in the decoded list -/
def regular (hs : List Field) : List Hdr :=
  (hs.zipIdx.filter (fun p => !isPseudoField p.1)).map
    (fun p => { name := p.1.1, value := some p.1.2, position := p.2 })

def isCookie (h : Hdr) : Bool := eqIgnoreCase h.name nCookie
def isReferer (h : Hdr) : Bool := eqIgnoreCase h.name nReferer

/-- RFC 6265 cookie-pairs of all cookie fields, in order -/
def crumbs (hs : List Hdr) : List Bytes :=
  ((hs.filter isCookie).flatMap (fun h => splitOn 59 (h.value.getD []))).map trimAscii |>.filter (· ≠ [])

def cookieOfCrumb (c : Bytes) (i : Nat) : Cookie :=
  if c.contains 61 then
    { name := trimAscii (c.takeWhile (· != 61)), value := some (trimAscii ((c.dropWhile (· != 61)).drop 1)), position := i }
  else { name := c, value := none, position := i }

def cookies (hs : List Hdr) : List Cookie := (crumbs hs).zipIdx.map (fun p => cookieOfCrumb p.1 p.2)

def valueOf (hs : List Hdr) (name : Bytes) : Option Bytes :=
  (hs.find? (fun h => eqIgnoreCase h.name name)).bind (·.value)

/-- p0f signature element of one header -/
def sigOf (optionalList skipList : List Bytes) (h : Hdr) : SigHdr :=
  if inListIgnoreCase optionalList h.name then { optional := true, name := h.name, value := none }
  else if inListIgnoreCase skipList h.name then { optional := false, name := h.name, value := none }
  else { optional := false, name := h.name, value := h.value }

def absent (commonList : List Bytes) (hs : List Hdr) : List SigHdr :=
  (commonList.filter (fun c => !hs.any (fun h => eqIgnoreCase h.name c))).map
    (fun c => { optional := false, name := c, value := none })

/-- what the statement lists for a request -/
structure ReqCore where
  method : Bytes
  path : Bytes
  authority : Option Bytes
  scheme : Option Bytes
  headers : List Hdr
  cookies : List Cookie
  referer : Option Bytes
  deriving DecidableEq, Repr

structure ObsReqCore where
  method : Bytes
  uri : Bytes
  headers : List Hdr
  cookies : List Cookie
  referer : Option Bytes
  userAgent : Option Bytes
  lang : Option Bytes
  horder : List SigHdr
  habsent : List SigHdr
  expsw : Bytes
  deriving DecidableEq, Repr

structure RespCore where
  status : Nat
  headers : List Hdr
  deriving DecidableEq, Repr

structure ObsRespCore where
  status : Nat
  headers : List Hdr
  horder : List SigHdr
  habsent : List SigHdr
  expsw : Bytes
  deriving DecidableEq, Repr

/-- ordered header list of a request: regular fields, cookie and referer reported separately -/
def requestHeaders (hs : List Field) : List Hdr := (regular hs).filter (fun h => !isCookie h && !isReferer h)

def requestOf (fields : List Field) : ReqCore :=
  let hs := textFields fields
  { method := (pseudoValue hs nMethod).getD [], path := (pseudoValue hs nPath).getD [],
    authority := pseudoValue hs nAuthority, scheme := pseudoValue hs nScheme,
    headers := requestHeaders hs, cookies := cookies (regular hs), referer := valueOf (regular hs) nReferer }

def obsRequestOf (lang : Bytes → Option Bytes) (hs : List Field) : ObsReqCore :=
  let r := requestOf hs
  let ua := valueOf r.headers nUserAgent
  { method := r.method, uri := r.path, headers := r.headers, cookies := r.cookies, referer := r.referer,
    userAgent := ua, lang := (valueOf r.headers nAcceptLanguage).bind lang,
    horder := r.headers.map (sigOf Gen.H2Lists.requestOptionalHeaders Gen.H2Lists.requestSkipValueHeaders),
    habsent := absent Gen.H2Lists.requestCommonHeaders r.headers,
    expsw := ua.getD unknownSw }

def statusOf (hs : List Field) : Option Nat := (pseudoValue hs nStatus).bind parseU16

def responseOf (fields : List Field) : RespCore :=
  let hs := textFields fields
  { status := (statusOf hs).getD 0, headers := regular hs }

def obsResponseOf (hs : List Field) : ObsRespCore :=
  let r := responseOf hs
  { status := r.status, headers := r.headers,
    horder := r.headers.map (sigOf Gen.H2Lists.responseOptionalHeaders Gen.H2Lists.responseSkipValueHeaders),
    habsent := absent Gen.H2Lists.responseCommonHeaders r.headers,
    expsw := (valueOf r.headers nServer).getD unknownSw }

/-! ### which field lists the statement covers (RFC 7540 §8.1.2) -/

def count (hs : List Field) (name : Bytes) : Nat := (hs.filter (fun f => f.1 == name)).length
def countHdr (hs : List Hdr) (name : Bytes) : Nat := (hs.filter (fun h => eqIgnoreCase h.name name)).length

/-- request: the only pseudo-headers are :method, :path (exactly once each), :scheme, :authority (at
most once); user-agent, accept-language and referer occur at most once -/
def legalRequestFields (fields : List Field) : Bool :=
  let hs := textFields fields
  (hs.filter isPseudoField).all (fun f => f.1 == nMethod || f.1 == nPath || f.1 == nScheme || f.1 == nAuthority) &&
  count hs nMethod == 1 && count hs nPath == 1 && count hs nScheme ≤ 1 && count hs nAuthority ≤ 1 &&
  countHdr (regular hs) nUserAgent ≤ 1 && countHdr (regular hs) nAcceptLanguage ≤ 1 && countHdr (regular hs) nReferer ≤ 1

/-- response: exactly one pseudo-header, :status, a decimal number; server at most once -/
def legalResponseFields (fields : List Field) : Bool :=
  let hs := textFields fields
  (hs.filter isPseudoField).all (fun f => f.1 == nStatus) && count hs nStatus == 1 && (statusOf hs).isSome &&
  ((pseudoValue hs nStatus).getD []).head? != some 43 &&
  countHdr (regular hs) nServer ≤ 1

def isMsgHeaders (f : Frame) : Bool := isHeaders f && f.sid != 0

/-- the message's header block and the frames after its first frame -/
def primaryBlock (frames : List Frame) : Option (Frame × List Frame × Block) :=
  (firstWithRest isMsgHeaders frames).map (fun x => (x.1, x.2, headerBlock x.1 x.2))

/-- number of frames the block occupies after the HEADERS frame -/
def contCount (f : Frame) (after : List Frame) : Nat :=
  if endHeaders f then 0
  else (after.takeWhile (fun g => !endHeaders g)).length + 1

/-- nothing else on the message's stream carries header fields after the block (no trailers,
no second request on the stream) -/
def noLaterBlocks (f : Frame) (after : List Frame) : Bool :=
  ((after.drop (contCount f after)).filter (fun g => g.sid == f.sid)).all (fun g => !isHeaders g && !isContinuation g)

/-! ### projections of the code's output records onto what the statement lists -/

def reqCore (r : Request) : ReqCore :=
  { method := r.method, path := r.path, authority := r.authority, scheme := r.scheme,
    headers := r.headers, cookies := r.cookies, referer := r.referer }

def obsReqCore (o : ObsRequest) : ObsReqCore :=
  { method := o.method, uri := o.uri, headers := o.headers, cookies := o.cookies, referer := o.referer,
    userAgent := o.userAgent, lang := o.lang, horder := o.horder, habsent := o.habsent, expsw := o.expsw }

def respCore (r : Response) : RespCore := { status := r.status, headers := r.headers }

def obsRespCore (o : ObsResponse) : ObsRespCore :=
  { status := o.status, headers := o.headers, horder := o.horder, habsent := o.habsent, expsw := o.expsw }

end Huginn.Spec.H2Message

/-! ### known-finding classes of C16 -/
namespace Huginn.KF.C16
open Huginn.H2 Huginn.Spec.H2 Huginn.Spec.H2Message

/-- the message's header block has started but its END_HEADERS has not arrived: the code decodes
the fragments received so far (and reports a message, or an error), the specification reports nothing yet -/
def headersContinued (frames : List Frame) : Bool :=
  match primaryBlock frames with
  | some (_, _, .incomplete) => true
  | _ => false

end Huginn.KF.C16
