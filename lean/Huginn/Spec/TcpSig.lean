import Huginn.Model.TcpExtract
/-!
Specification for C03 — "TCP packets are rendered into the p0f signature their headers define".

Written from the property statement and the p0f v3 README §"TCP signatures" (field list
`ver:ittl:olen:mss:wsize,scale:olayout:quirks:pclass`, the option tokens, the 17 quirks), not from the
Rust code. Only the *types* of `Model/TcpExtract.lean` are used (`Fields`: the header fields of one
segment; `Outcome`: what an analysis run reports). Flags are read with `Nat.testBit`, the option area
through a grammar (`Area`, `encode`) and its decoder `parseArea`, the window through divisibility
predicates, quirks as a set (`q ∈ quirks ↔ cond q`, no duplicates).
-/
namespace Huginn.TcpSig.Spec
open Huginn.Sig
open Huginn.TcpExtract (Bytes Fields Outcome Report Err)

/-- `match o with | none => dflt | some a => P a`, with a `Decidable` instance -/
def onOpt {α : Type} (o : Option α) (dflt : Prop) (P : α → Prop) : Prop :=
  match o with
  | none => dflt
  | some a => P a
instance {α : Type} (o : Option α) (d : Prop) (P : α → Prop) [Decidable d] [∀ a, Decidable (P a)] :
    Decidable (onOpt o d P) :=
  match o with
  | none => inferInstanceAs (Decidable d)
  | some a => inferInstanceAs (Decidable (P a))

/-! ### header views -/
def FinF (f : Fields) : Prop := f.tcp.flags.testBit 0 = true
def Syn  (f : Fields) : Prop := f.tcp.flags.testBit 1 = true
def Rst  (f : Fields) : Prop := f.tcp.flags.testBit 2 = true
def Psh  (f : Fields) : Prop := f.tcp.flags.testBit 3 = true
def Ack  (f : Fields) : Prop := f.tcp.flags.testBit 4 = true
def Urg  (f : Fields) : Prop := f.tcp.flags.testBit 5 = true
def Ece  (f : Fields) : Prop := f.tcp.flags.testBit 6 = true
def Cwr  (f : Fields) : Prop := f.tcp.flags.testBit 7 = true
/-- IPv4 flag bits (3-bit field): bit 2 reserved ("must be zero"), bit 1 DF, bit 0 MF -/
def Df   (f : Fields) : Prop := f.ip.flags.testBit 1 = true
def Mf   (f : Fields) : Prop := f.ip.flags.testBit 0 = true
def Mbz  (f : Fields) : Prop := f.ip.flags.testBit 2 = true
/-- the two ECN bits of the IPv4 TOS byte / IPv6 traffic class -/
def ipEcn (f : Fields) : Nat := f.ip.ecn % 4

instance (f) : Decidable (FinF f) := by unfold FinF; exact inferInstance
instance (f) : Decidable (Syn f) := by unfold Syn; exact inferInstance
instance (f) : Decidable (Rst f) := by unfold Rst; exact inferInstance
instance (f) : Decidable (Psh f) := by unfold Psh; exact inferInstance
instance (f) : Decidable (Ack f) := by unfold Ack; exact inferInstance
instance (f) : Decidable (Urg f) := by unfold Urg; exact inferInstance
instance (f) : Decidable (Ece f) := by unfold Ece; exact inferInstance
instance (f) : Decidable (Cwr f) := by unfold Cwr; exact inferInstance
instance (f) : Decidable (Df f) := by unfold Df; exact inferInstance
instance (f) : Decidable (Mf f) := by unfold Mf; exact inferInstance
instance (f) : Decidable (Mbz f) := by unfold Mbz; exact inferInstance

/-- minimal IP + TCP header size: 40 (IPv4) / 60 (IPv6) -/
def minHdr (f : Fields) : Nat := if f.ip.v6 then 60 else 40

/-! ### ittl -/

def initialTtls : List Nat := [32, 64, 128, 255]

/-- `init` is the smallest common initial TTL that is `≥ t`. -/
def NextInit (t init : Nat) : Prop :=
  init ∈ initialTtls ∧ t ≤ init ∧ ∀ j ∈ initialTtls, t ≤ j → init ≤ j
instance (t i) : Decidable (NextInit t i) := by unfold NextInit; exact inferInstance

/-- 0 is bad; a distance of at most 30 hops to the next initial TTL is reported as `t+d`; otherwise
the raw value. -/
def TtlOk (t : Nat) (r : Ttl) : Prop :=
  if t = 0 then r = .bad 0
  else ∀ init ∈ initialTtls, NextInit t init →
    (if init - t ≤ 30 then r = .distance t (init - t) else r = .value t)
instance (t r) : Decidable (TtlOk t r) := by unfold TtlOk; exact inferInstance

/-! ### the option area -/

inductive Item
  | nop
  | opt (kind : Nat) (data : Bytes)
  deriving DecidableEq, Repr

/-- Options up to an optional end-of-options marker, which is followed by padding. -/
structure Area where
  items : List Item
  pad   : Option Bytes
  deriving DecidableEq, Repr

def Item.encode : Item → Bytes
  | .nop => [1]
  | .opt k d => k :: (2 + d.length) :: d

def Area.encode (a : Area) : Bytes :=
  a.items.flatMap Item.encode ++ (match a.pad with | none => [] | some p => 0 :: p)

/-- payload size of the options with a fixed format (RFC 793/7323/2018): MSS 2, window scale 1,
SACK-permitted 0, SACK 8·n (1 ≤ n ≤ 4), timestamps 8. -/
def fixedLenOk (k n : Nat) : Bool :=
  match k with
  | 2 => n == 2
  | 3 => n == 1
  | 4 => n == 0
  | 5 => decide (8 ≤ n ∧ n ≤ 32 ∧ n % 8 = 0)
  | 8 => n == 8
  | _ => true

def Item.WF : Item → Prop
  | .nop => True
  | .opt k d => 2 ≤ k ∧ fixedLenOk k d.length = true
instance : (i : Item) → Decidable i.WF
  | .nop => by unfold Item.WF; exact inferInstance
  | .opt _ _ => by unfold Item.WF; exact inferInstance

def Area.WF (a : Area) : Prop := ∀ i ∈ a.items, i.WF

/-- Decoder of the grammar (reference function; `Props.C03.parseArea_encode`,
`parseArea_sound` show it inverts `encode` on well-formed areas). -/
def parseItems : Nat → Bytes → Option (List Item × Option Bytes)
  | _, [] => some ([], none)
  | _, 0 :: pad => some ([], some pad)
  | 0, _ :: _ => none
  | n + 1, 1 :: r => (parseItems n r).map fun x => (.nop :: x.1, x.2)
  | _ + 1, [_] => none
  | n + 1, k :: l :: r =>
    if 2 ≤ l ∧ l - 2 ≤ r.length ∧ fixedLenOk k (l - 2) = true then
      (parseItems n (r.drop (l - 2))).map fun x => (.opt k (r.take (l - 2)) :: x.1, x.2)
    else none

def parseArea (b : Bytes) : Option Area := (parseItems b.length b).map fun x => ⟨x.1, x.2⟩

/-- README tokens: `nop`, `mss`, `ws`, `sok`, `sack`, `ts`, `?n`. -/
def Item.tok : Item → TcpOption
  | .nop => .nop
  | .opt 2 _ => .mss
  | .opt 3 _ => .ws
  | .opt 4 _ => .sok
  | .opt 5 _ => .sack
  | .opt 8 _ => .ts
  | .opt k _ => .unknown k

/-- kinds in wire order up to and including the first EOL, which carries the padding count -/
def Area.layout (a : Area) : List TcpOption :=
  a.items.map Item.tok ++ (match a.pad with | none => [] | some p => [.eol p.length])

def Item.mssVal : Item → Option Nat
  | .opt 2 [x, y] => some (x * 256 + y)
  | _ => none
def Item.wsVal : Item → Option Nat
  | .opt 3 [x] => some x
  | _ => none
/-- `(TSval, TSecr)` of a timestamp option -/
def Item.tsVal : Item → Option (Nat × Nat)
  | .opt 8 [a, b, c, d, e, f, g, h] =>
    some (((a * 256 + b) * 256 + c) * 256 + d, ((e * 256 + f) * 256 + g) * 256 + h)
  | _ => none

def mssValues (a : Area) : List Nat := a.items.filterMap Item.mssVal
def wsValues (a : Area) : List Nat := a.items.filterMap Item.wsVal
def tsValues (a : Area) : List (Nat × Nat) := a.items.filterMap Item.tsVal

/-- The statement does not say which value counts when MSS, window scale or timestamps occur more
than once: such segments are left unspecified. -/
def Area.Ambiguous (a : Area) : Prop :=
  1 < (mssValues a).length ∨ 1 < (wsValues a).length ∨ 1 < (tsValues a).length
instance (a : Area) : Decidable a.Ambiguous := by unfold Area.Ambiguous; exact inferInstance

/-! ### wsize -/

/-- `w` is `(w / d) × d` with a multiplier that fits the one-byte `mss*N` / `mtu*N` field -/
def Mult (w d : Nat) : Prop := d ≠ 0 ∧ w % d = 0 ∧ w / d ≤ 255
instance (w d) : Decidable (Mult w d) := by unfold Mult; exact inferInstance

/-- `d` is the first element of `ds` of which `w` is a multiple -/
def FirstMult (w : Nat) (ds : List Nat) (d : Nat) : Prop :=
  ∃ k, k < ds.length ∧ ds[k]? = some d ∧ Mult w d ∧ ∀ d' ∈ ds.take k, ¬ Mult w d'
instance (w ds d) : Decidable (FirstMult w ds d) := by unfold FirstMult; exact inferInstance

def NoMult (w : Nat) (ds : List Nat) : Prop := ∀ d ∈ ds, ¬ Mult w d
instance (w ds) : Decidable (NoMult w ds) := by unfold NoMult; exact inferInstance

def powMods : List Nat := [4096, 2048, 1024, 512, 256]

/-- MSS forms: the MSS itself, then the MSS minus the 12 bytes of a timestamp option -/
def mssForms (mss : Nat) (ts : Bool) : List Nat := [mss] ++ (if ts then [mss - 12] else [])

/-- MTU forms: Ethernet 1500; 1500 minus the minimal headers (and minus 12 with timestamps);
the MTU implied by the MSS (MSS plus the minimal headers). -/
def mtuForms (mss hdr : Nat) (ts : Bool) : List Nat :=
  [1500, 1500 - hdr] ++ (if ts then [1500 - hdr - 12] else []) ++ [mss + hdr]

/-- Stated priority: window 0 or MSS < 100 (or absent) → raw; first MSS form → `mss*n`; else the
largest of 4096…256 dividing it → `%m`; else first MTU form → `mtu*n`; else raw. -/
def WinOk (w : Nat) (mss : Option Nat) (hdr : Nat) (ts : Bool) (r : WindowSize) : Prop :=
  match mss with
  | none => r = .value w
  | some m =>
    if w = 0 ∨ m < 100 then r = .value w
    else
      (∀ d ∈ mssForms m ts, FirstMult w (mssForms m ts) d → r = .mss (w / d)) ∧
      (NoMult w (mssForms m ts) →
        (∀ p ∈ powMods, w % p = 0 → (∀ p' ∈ powMods, w % p' = 0 → p' ≤ p) → r = .mod p) ∧
        ((∀ p ∈ powMods, w % p ≠ 0) →
          (∀ d ∈ mtuForms m hdr ts, FirstMult w (mtuForms m hdr ts) d → r = .mtu (w / d)) ∧
          (NoMult w (mtuForms m hdr ts) → r = .value w)))
instance (w mss hdr ts r) : Decidable (WinOk w mss hdr ts r) := by
  unfold WinOk; cases mss <;> exact inferInstance

/-! ### quirks -/

def allQuirks : List Quirk :=
  [.df, .nonZeroID, .zeroID, .ecn, .mustBeZero, .flowID, .seqNumZero, .ackNumNonZero, .ackNumZero,
   .nonZeroURG, .urg, .push, .ownTimestampZero, .peerTimestampNonZero, .trailingNonZero,
   .excessiveWindowScaling, .optBad]

/-- Defining header condition of each quirk (README). `area = none`: the options are malformed, the
option-derived quirks other than `bad` are then left open (`True ↔` is not demanded, see `SigOk`). -/
def QuirkCond (f : Fields) (area : Option Area) : Quirk → Prop
  | .df            => ¬ f.ip.v6 ∧ Df f
  | .nonZeroID     => ¬ f.ip.v6 ∧ Df f ∧ f.ip.ipid ≠ 0
  | .zeroID        => ¬ f.ip.v6 ∧ ¬ Df f ∧ f.ip.ipid = 0
  | .ecn           => ipEcn f ≠ 0 ∨ Ece f ∨ Cwr f
  | .mustBeZero    => ¬ f.ip.v6 ∧ Mbz f
  | .flowID        => f.ip.v6 ∧ f.ip.flow ≠ 0
  | .seqNumZero    => f.tcp.seq = 0
  | .ackNumNonZero => f.tcp.ack ≠ 0 ∧ ¬ Ack f
  | .ackNumZero    => f.tcp.ack = 0 ∧ Ack f
  | .nonZeroURG    => f.tcp.urg ≠ 0 ∧ ¬ Urg f
  | .urg           => Urg f
  | .push          => Psh f
  | .ownTimestampZero => onOpt area False fun a => ∃ v ∈ tsValues a, v.1 = 0
  | .peerTimestampNonZero => onOpt area False fun a => (Syn f ∧ ¬ Ack f) ∧ ∃ v ∈ tsValues a, v.2 ≠ 0
  | .trailingNonZero => onOpt area False fun a => onOpt a.pad False fun p => ∃ b ∈ p, b ≠ 0
  | .excessiveWindowScaling => onOpt area False fun a => ∃ v ∈ wsValues a, 14 < v
  | .optBad        => area = none

instance (f : Fields) (area : Option Area) (q : Quirk) : Decidable (QuirkCond f area q) := by
  cases q <;> unfold QuirkCond <;> exact inferInstance

def optionQuirks : List Quirk :=
  [.ownTimestampZero, .peerTimestampNonZero, .trailingNonZero, .excessiveWindowScaling]

/-! ### one signature -/

/-- The signature `s` is the one the header fields `f` define. -/
def SigOk (f : Fields) (s : TcpSig) : Prop :=
  let area := parseArea f.tcp.opts
  s.version = (if f.ip.v6 then .v6 else .v4) ∧
  TtlOk f.ip.ttl s.ittl ∧
  s.olen = (if f.ip.v6 then 0 else (f.ip.ihl - 5) * 4) ∧
  s.pclass = (if f.tcp.payLen = 0 then .zero else .nonZero) ∧
  s.quirks.Nodup ∧
  (∀ q ∈ allQuirks, (area = none → q ∉ optionQuirks) → (q ∈ s.quirks ↔ QuirkCond f area q)) ∧
  (onOpt area True fun a =>
     s.olayout = a.layout ∧
     s.mss = (mssValues a).head? ∧
     s.wscale = (wsValues a).head? ∧
     WinOk f.tcp.window (mssValues a).head? (minHdr f) (a.items.any (fun i => i.tok == .ts)) s.wsize)

instance (f s) : Decidable (SigOk f s) := by
  unfold SigOk; exact inferInstance

/-! ### the analysis outcome -/

/-- p0f's sanity filter: SYN with FIN or RST, FIN with RST, and "none of SYN/ACK/FIN/RST" are
rejected. -/
def ValidFlags (f : Fields) : Prop :=
  ¬ (Syn f ∧ (FinF f ∨ Rst f)) ∧ ¬ (FinF f ∧ Rst f) ∧ (Syn f ∨ Ack f ∨ FinF f ∨ Rst f)
instance (f) : Decidable (ValidFlags f) := by unfold ValidFlags; exact inferInstance

def Nothing (o : Outcome) : Prop :=
  match o with
  | .error _ => True
  | .ok r => r.syn = none ∧ r.synAck = none ∧ r.mtu = none
instance (o) : Decidable (Nothing o) := by unfold Nothing; cases o <;> exact inferInstance

/-- MTU = MSS + minimal IP and TCP header sizes (left open where that does not fit 16 bits). -/
def MtuOk (f : Fields) (m : Option Nat) : Prop :=
  onOpt (parseArea f.tcp.opts) True fun a =>
    onOpt (mssValues a).head? (m = none) fun v => v + minHdr f ≤ 65535 → m = some (v + minHdr f)
instance (f m) : Decidable (MtuOk f m) := by unfold MtuOk; exact inferInstance

/-- A SYN yields a client signature plus the MTU, a SYN+ACK a server signature, anything else
(non-handshake segments, rejected flag combinations) nothing. -/
def Holds (f : Fields) (o : Outcome) : Prop :=
  if ¬ ValidFlags f then Nothing o
  else if ¬ Syn f then Nothing o
  else match o with
    | .error _ => False
    | .ok r =>
      if Ack f then r.syn = none ∧ r.mtu = none ∧ onOpt r.synAck False (fun s => SigOk f s)
      else r.synAck = none ∧ MtuOk f r.mtu ∧ onOpt r.syn False (fun s => SigOk f s)

instance (f o) : Decidable (Holds f o) := by
  unfold Holds
  cases o <;> exact inferInstance

/-- Domain of the statement: unfragmented TCP segments whose options do not repeat MSS, window scale
or timestamps. -/
def Specified (f : Fields) : Prop :=
  f.ip.proto = 6 ∧ (f.ip.v6 ∨ (f.ip.fragOff = 0 ∧ ¬ Mf f)) ∧
  onOpt (parseArea f.tcp.opts) True fun a => ¬ a.Ambiguous
instance (f) : Decidable (Specified f) := by unfold Specified; exact inferInstance

/-- link label: exact lookup of the MTU in the `[mtu]` table (first label in file order) -/
def LinkOk (tbl : List (String × List Nat)) (m : Nat) (r : Option String) : Prop :=
  onOpt r (∀ e ∈ tbl, m ∉ e.2) fun l =>
    ∃ k, k < tbl.length ∧ onOpt tbl[k]? False (fun e => e.1 = l ∧ m ∈ e.2) ∧ ∀ e ∈ tbl.take k, m ∉ e.2
instance (tbl m r) : Decidable (LinkOk tbl m r) := by unfold LinkOk; exact inferInstance

end Huginn.TcpSig.Spec

/-! ### known-finding classes (DESIGN §7 C03 (a)–(c), §8 #3–#5) — the three the golden snapshot pins.
(d) ecn twice, (e) window classifier header, (h) saturated MTU divisor, (g) `bad` never reported and
(i) option-derived quirks listed twice in a malformed area were repaired in /repo (fixes/C03-*.patch). -/
namespace Huginn.KF.C03
open Huginn.TcpSig.Spec Huginn.TcpExtract

/-- (a) an end-of-options marker followed by at least one byte: the code keeps walking and renders
the padding as further options. -/
def optionsAfterEol (f : Fields) : Prop :=
  onOpt (parseArea f.tcp.opts) False fun a => onOpt a.pad False fun p => p ≠ []
instance (f) : Decidable (optionsAfterEol f) := by unfold optionsAfterEol; exact inferInstance

/-- (b) every accepted segment without SYN is reported with a server ("SYN+ACK") signature. -/
def nonHandshakeAsServer (f : Fields) : Prop := ValidFlags f ∧ ¬ Syn f
instance (f) : Decidable (nonHandshakeAsServer f) := by unfold nonHandshakeAsServer; exact inferInstance

/-- header bytes the code adds to the MSS: IHL·4 (v4) / 40 (v6) plus "TCP header length, minus 20
when larger than 20" -/
def codeMtuHdr (f : Fields) : Nat :=
  (if f.ip.v6 then 40 else f.ip.ihl * 4) + (if f.tcp.doff * 4 > 20 then f.tcp.doff * 4 - 20 else f.tcp.doff * 4)

/-- (c) client MTU computed from the actual header lengths instead of the minimal ones. -/
def mtuFromHeaderLengths (f : Fields) : Prop :=
  Syn f ∧ ¬ Ack f ∧ codeMtuHdr f ≠ minHdr f ∧
  onOpt (parseArea f.tcp.opts) False fun a => mssValues a ≠ []
instance (f) : Decidable (mtuFromHeaderLengths f) := by unfold mtuFromHeaderLengths; exact inferInstance

def any (f : Fields) : Prop :=
  optionsAfterEol f ∨ nonHandshakeAsServer f ∨ mtuFromHeaderLengths f
instance (f) : Decidable (any f) := by unfold any; exact inferInstance

def names (f : Fields) : List String :=
  (if optionsAfterEol f then ["KF.C03.optionsAfterEol"] else []) ++
  (if nonHandshakeAsServer f then ["KF.C03.nonHandshakeAsServer"] else []) ++
  (if mtuFromHeaderLengths f then ["KF.C03.mtuFromHeaderLengths"] else [])

end Huginn.KF.C03
