/-
SHA-256 (FIPS 180-4), written from the standard, for the driver only.

`sha2::Sha256` is third-party code: the theorems of C04 treat the digest as an arbitrary
function `sha : List UInt8 → List UInt8`. The driver needs a concrete digest to compare the
hashed JA4 strings; this file provides it. The `#guard`s at the end are a *test of this
definition* against the FIPS / NIST example vectors (labelled as such; not a theorem).
-/
namespace Huginn.Sha256

def K : Array UInt32 := #[
  0x428a2f98, 0x71374491, 0xb5c0fbcf, 0xe9b5dba5, 0x3956c25b, 0x59f111f1, 0x923f82a4, 0xab1c5ed5,
  0xd807aa98, 0x12835b01, 0x243185be, 0x550c7dc3, 0x72be5d74, 0x80deb1fe, 0x9bdc06a7, 0xc19bf174,
  0xe49b69c1, 0xefbe4786, 0x0fc19dc6, 0x240ca1cc, 0x2de92c6f, 0x4a7484aa, 0x5cb0a9dc, 0x76f988da,
  0x983e5152, 0xa831c66d, 0xb00327c8, 0xbf597fc7, 0xc6e00bf3, 0xd5a79147, 0x06ca6351, 0x14292967,
  0x27b70a85, 0x2e1b2138, 0x4d2c6dfc, 0x53380d13, 0x650a7354, 0x766a0abb, 0x81c2c92e, 0x92722c85,
  0xa2bfe8a1, 0xa81a664b, 0xc24b8b70, 0xc76c51a3, 0xd192e819, 0xd6990624, 0xf40e3585, 0x106aa070,
  0x19a4c116, 0x1e376c08, 0x2748774c, 0x34b0bcb5, 0x391c0cb3, 0x4ed8aa4a, 0x5b9cca4f, 0x682e6ff3,
  0x748f82ee, 0x78a5636f, 0x84c87814, 0x8cc70208, 0x90befffa, 0xa4506ceb, 0xbef9a3f7, 0xc67178f2]

def H0 : Array UInt32 := #[
  0x6a09e667, 0xbb67ae85, 0x3c6ef372, 0xa54ff53a, 0x510e527f, 0x9b05688c, 0x1f83d9ab, 0x5be0cd19]

@[inline] def rotr (x : UInt32) (n : UInt32) : UInt32 := (x >>> n) ||| (x <<< (32 - n))
@[inline] def ch (x y z : UInt32) : UInt32 := (x &&& y) ^^^ ((~~~ x) &&& z)
@[inline] def maj (x y z : UInt32) : UInt32 := (x &&& y) ^^^ (x &&& z) ^^^ (y &&& z)
@[inline] def bsig0 (x : UInt32) : UInt32 := rotr x 2 ^^^ rotr x 13 ^^^ rotr x 22
@[inline] def bsig1 (x : UInt32) : UInt32 := rotr x 6 ^^^ rotr x 11 ^^^ rotr x 25
@[inline] def ssig0 (x : UInt32) : UInt32 := rotr x 7 ^^^ rotr x 18 ^^^ (x >>> 3)
@[inline] def ssig1 (x : UInt32) : UInt32 := rotr x 17 ^^^ rotr x 19 ^^^ (x >>> 10)

/-- §5.1.1: message ‖ 0x80 ‖ 0…0 ‖ 64-bit big-endian bit length, to a multiple of 64 bytes. -/
def pad (msg : List UInt8) : Array UInt8 := Id.run do
  let l := msg.length
  let zeros := (64 - ((l + 9) % 64)) % 64
  let mut a : Array UInt8 := msg.toArray
  a := a.push 0x80
  for _ in [0:zeros] do a := a.push 0
  let bits := l * 8
  for i in [0:8] do
    a := a.push (UInt8.ofNat ((bits >>> (8 * (7 - i))) % 256))
  return a

def word (a : Array UInt8) (i : Nat) : UInt32 :=
  (a[i]!.toUInt32 <<< 24) ||| (a[i+1]!.toUInt32 <<< 16) ||| (a[i+2]!.toUInt32 <<< 8) ||| a[i+3]!.toUInt32

/-- §6.2.2 for the 64-byte block starting at `off`. -/
def compress (h : Array UInt32) (m : Array UInt8) (off : Nat) : Array UInt32 := Id.run do
  let mut w : Array UInt32 := Array.mkEmpty 64
  for t in [0:16] do w := w.push (word m (off + 4 * t))
  for t in [16:64] do
    w := w.push (ssig1 w[t-2]! + w[t-7]! + ssig0 w[t-15]! + w[t-16]!)
  let mut a := h[0]!; let mut b := h[1]!; let mut c := h[2]!; let mut d := h[3]!
  let mut e := h[4]!; let mut f := h[5]!; let mut g := h[6]!; let mut hh := h[7]!
  for t in [0:64] do
    let t1 := hh + bsig1 e + ch e f g + K[t]! + w[t]!
    let t2 := bsig0 a + maj a b c
    hh := g; g := f; f := e; e := d + t1; d := c; c := b; b := a; a := t1 + t2
  return #[h[0]! + a, h[1]! + b, h[2]! + c, h[3]! + d, h[4]! + e, h[5]! + f, h[6]! + g, h[7]! + hh]

def sha256 (msg : List UInt8) : List UInt8 := Id.run do
  let m := pad msg
  let mut h := H0
  for i in [0:m.size / 64] do h := compress h m (64 * i)
  let mut out : List UInt8 := []
  for x in h.toList.reverse do
    out := (x >>> 24).toUInt8 :: (x >>> 16).toUInt8 :: (x >>> 8).toUInt8 :: x.toUInt8 :: out
  return out

def hexDigit (n : Nat) : Char := if n < 10 then Char.ofNat (48 + n) else Char.ofNat (87 + n)
def hex (b : List UInt8) : String :=
  String.ofList (b.flatMap (fun x => [hexDigit (x.toNat / 16), hexDigit (x.toNat % 16)]))
def ofAscii (s : String) : List UInt8 := s.toList.map (fun c => UInt8.ofNat c.toNat)

/-! Test vectors (FIPS 180-4 / NIST CAVS examples) — a test of the definition above. -/
#guard hex (sha256 (ofAscii "abc")) = "ba7816bf8f01cfea414140de5dae2223b00361a396177a9cb410ff61f20015ad"
#guard hex (sha256 []) = "e3b0c44298fc1c149afbf4c8996fb92427ae41e4649b934ca495991b7852b855"
#guard hex (sha256 (ofAscii "abcdbcdecdefdefgefghfghighijhijkijkljklmklmnlmnomnopnopq")) =
  "248d6a61d20638b8e5c026930c3e6039a33ce45964ff2167f6ecedd419db06c1"
#guard hex (sha256 (ofAscii
  "abcdefghbcdefghicdefghijdefghijkefghijklfghijklmghijklmnhijklmnoijklmnopjklmnopqklmnopqrlmnopqrsmnopqrstnopqrstu")) =
  "cf5b16a778af8380036ce59e7b0492370b249b11e8f07a51afac45037afee9d1"
-- 55/56/64-byte boundary cases of the padding rule
#guard hex (sha256 (List.replicate 55 0x61)) = "9f4390f8d30c2dd92ec9f095b65e2b9ae9b0a925a5258e241c9f1e910f734318"
#guard hex (sha256 (List.replicate 56 0x61)) = "b35439a4ac6f0948b6d6f9e3c6af0f5f590ce20f1bde7090ef7970686ec6738a"
#guard hex (sha256 (List.replicate 64 0x61)) = "ffe054fe7ae0cb6dc65c3af9b61d5209f439851db43d0ba5997337df154668eb"
#guard hex (sha256 (List.replicate 1000 0x61)) = "41edece42d63e8d9bf515a9ba6932e1c20cbc9f5a5d134645adb5db1b9737ea3"

end Huginn.Sha256
