import Huginn.Model.SigText
/-
Specification side of C06, written from the property statement and the p0f signature
language (README section 5 / the comments of p0f.fp), not from db_parse.rs:

* which values are "over the p0f vocabulary" (`WFTcp`, `WFHttp`: Rust field widths, header
  names over `[A-Za-z0-9-]`, bracketed values without `]`, HTTP version 0/1/*);
* a *reference reader* of TCP signature text that works by splitting the line at `:` and `,`
  and interpreting each field on its own (`refTcp`) — a different shape from the nom parser
  (which scans left to right with ordered alternatives);
* the grammar of canonical lines (`CanonTcp`, `CanonHttp`): declarative, as concatenations;
* the abstract document type `Doc`, its rendering and what loading it must yield (`flatten`);
* (the three known-finding classes `KF.C06.*` of the first round are gone: the defects were fixed in /repo).
-/
namespace Huginn.SigText.Spec
open Huginn.Sig Huginn.SigText

/-! ### values over the vocabulary -/

def WFTtl : Ttl → Prop
  | .value t => t ≤ 255
  | .distance t d => t ≤ 255 ∧ d ≤ 255
  | .guess t => t ≤ 255
  | .bad t => t ≤ 255
instance : DecidablePred WFTtl := fun t => by cases t <;> (unfold WFTtl; exact inferInstance)

def WFWSize : WindowSize → Prop
  | .mss n => n ≤ 255
  | .mtu n => n ≤ 255
  | .value n => n ≤ 65535
  | .mod n => n ≤ 65535
  | .any => True
instance : DecidablePred WFWSize := fun t => by cases t <;> (unfold WFWSize; exact inferInstance)

def WFOpt : TcpOption → Prop
  | .eol n => n ≤ 255
  | .unknown n => n ≤ 255
  | _ => True
instance : DecidablePred WFOpt := fun t => by cases t <;> (unfold WFOpt; exact inferInstance)

def WFOptNat (max : Nat) : Option Nat → Prop
  | some n => n ≤ max
  | none => True
instance (m) : DecidablePred (WFOptNat m) := fun t => by cases t <;> (unfold WFOptNat; exact inferInstance)

/-- every numeric field within its Rust width; lists of any length (also empty) -/
structure WFTcp (s : TcpSig) : Prop where
  ittl : WFTtl s.ittl
  olen : s.olen ≤ 255
  mss : WFOptNat 65535 s.mss
  wsize : WFWSize s.wsize
  wscale : WFOptNat 255 s.wscale
  olayout : ∀ o ∈ s.olayout, WFOpt o
instance (s : TcpSig) : Decidable (WFTcp s) :=
  decidable_of_iff (WFTtl s.ittl ∧ s.olen ≤ 255 ∧ WFOptNat 65535 s.mss ∧ WFWSize s.wsize ∧
      WFOptNat 255 s.wscale ∧ ∀ o ∈ s.olayout, WFOpt o)
    ⟨fun ⟨a, b, c, d, e, f⟩ => ⟨a, b, c, d, e, f⟩, fun ⟨a, b, c, d, e, f⟩ => ⟨a, b, c, d, e, f⟩⟩

/-- header-name characters of the vocabulary -/
def nameChar (c : Char) : Bool := c.isAlphanum || c == '-'

/-- names over `[A-Za-z0-9-]` (possibly empty here; see `WFHttp`), bracketed values without `]` -/
def WFHdrL (h : HeaderL) : Prop :=
  (∀ c ∈ h.name, nameChar c = true) ∧ (∀ v ∈ h.value, ']' ∉ v)
instance (h : HeaderL) : Decidable (WFHdrL h) := by unfold WFHdrL; exact inferInstance

def versionInGrammar : HttpVersion → Bool
  | .v10 | .v11 | .any => true
  | _ => false

/-- HTTP signature values over the vocabulary: version 0/1/*, headers with non-empty names over
`[A-Za-z0-9-]`, optional marks, bracketed values without `]`, any `expsw`; both lists of any
length — also empty. -/
structure WFHttpL (s : HttpSigL) : Prop where
  version : versionInGrammar s.version = true
  horder : ∀ h ∈ s.horder, WFHdrL h ∧ h.name ≠ []
  habsent : ∀ h ∈ s.habsent, WFHdrL h ∧ h.name ≠ []
instance (s : HttpSigL) : Decidable (WFHttpL s) :=
  decidable_of_iff (versionInGrammar s.version = true ∧ (∀ h ∈ s.horder, WFHdrL h ∧ h.name ≠ []) ∧
      ∀ h ∈ s.habsent, WFHdrL h ∧ h.name ≠ [])
    ⟨fun ⟨a, b, c⟩ => ⟨a, b, c⟩, fun ⟨a, b, c⟩ => ⟨a, b, c⟩⟩

def WFHttp (s : HttpSig) : Prop := WFHttpL (.ofSig s)
instance (s : HttpSig) : Decidable (WFHttp s) := by unfold WFHttp; exact inferInstance

/-! ### reference reader of TCP signature text (split at `:` and `,`, field by field) -/

/-- split at every `c` (always at least one piece) -/
def splitOn (c : Char) : Str → List Str
  | [] => [[]]
  | x :: xs =>
    if x = c then [] :: splitOn c xs
    else match splitOn c xs with
      | [] => [[x]]
      | p :: ps => (x :: p) :: ps

/-- a decimal number: non-empty, digits only, value within the field's width -/
def refNum (max : Nat) (t : Str) : Option Nat :=
  if t ≠ [] ∧ t.all Char.isDigit = true ∧ decVal t ≤ max then some (decVal t) else none

def refStar {α} (f : Str → Option α) (t : Str) : Option (Option α) :=
  if t = ['*'] then some none else (f t).map some

def refIpVersion (t : Str) : Option IpVersion :=
  if t = ['4'] then some .v4 else if t = ['6'] then some .v6 else if t = ['*'] then some .any else none

/-- `n`, `n+d`, `n+?`, `n-` -/
def refTtl (t : Str) : Option Ttl :=
  match splitOn '+' t with
  | [a] =>
    match a.reverse with
    | '-' :: r => (refNum 255 r.reverse).map .bad
    | _ => (refNum 255 a).map .value
  | [a, b] =>
    if b = ['?'] then (refNum 255 a).map .guess
    else match refNum 255 a, refNum 255 b with
      | some x, some y => some (.distance x y)
      | _, _ => none
  | _ => none

/-- `*`, `mss*n`, `mtu*n`, `%n`, `n` -/
def refWSize (t : Str) : Option WindowSize :=
  if t = ['*'] then some .any else
  match t with
  | 'm' :: 's' :: 's' :: '*' :: r => (refNum 255 r).map .mss
  | 'm' :: 't' :: 'u' :: '*' :: r => (refNum 255 r).map .mtu
  | '%' :: r => (refNum 65535 r).map .mod
  | _ => (refNum 65535 t).map .value

def refOpt (t : Str) : Option TcpOption :=
  match t with
  | 'e' :: 'o' :: 'l' :: '+' :: r => (refNum 255 r).map .eol
  | '?' :: r => (refNum 255 r).map .unknown
  | _ =>
    if t = "nop".toList then some .nop else if t = "mss".toList then some .mss
    else if t = "ws".toList then some .ws else if t = "sok".toList then some .sok
    else if t = "sack".toList then some .sack else if t = "ts".toList then some .ts else none

/-- quirk names as documented in p0f.fp / tcp.rs doc comments -/
def refQuirk (t : Str) : Option Quirk :=
  [("df", Quirk.df), ("id+", .nonZeroID), ("id-", .zeroID), ("ecn", .ecn), ("0+", .mustBeZero),
   ("flow", .flowID), ("seq-", .seqNumZero), ("ack+", .ackNumNonZero), ("ack-", .ackNumZero),
   ("uptr+", .nonZeroURG), ("urgf+", .urg), ("pushf+", .push), ("ts1-", .ownTimestampZero),
   ("ts2+", .peerTimestampNonZero), ("opt+", .trailingNonZero), ("exws", .excessiveWindowScaling),
   ("bad", .optBad)].findSome? fun (n, q) => if n.toList = t then some q else none

def refPayload (t : Str) : Option PayloadSize :=
  if t = ['0'] then some .zero else if t = ['+'] then some .nonZero else if t = ['*'] then some .any else none

/-- comma-delimited list, possibly empty -/
def refList {α} (f : Str → Option α) (t : Str) : Option (List α) :=
  if t = [] then some [] else (splitOn ',' t).mapM f

/-- `ver:ittl:olen:mss:wsize,scale:olayout:quirks:pclass` -/
def refTcp (t : Str) : Option TcpSig :=
  match splitOn ':' t with
  | [ver, ittl, olen, mss, win, olayout, quirks, pclass] =>
    match splitOn ',' win with
    | [wsize, scale] => do
      let version ← refIpVersion ver
      let ittl ← refTtl ittl
      let olen ← refNum 255 olen
      let mss ← refStar (refNum 65535) mss
      let wsize ← refWSize wsize
      let wscale ← refStar (refNum 255) scale
      let olayout ← refList refOpt olayout
      let quirks ← refList refQuirk quirks
      let pclass ← refPayload pclass
      pure { version, ittl, olen, mss, wsize, wscale, olayout, quirks, pclass }
    | _ => none
  | _ => none

end Huginn.SigText.Spec

/-! ## documents: what a database text is made of, and what loading it must yield -/
namespace Huginn.SigText.Spec
open Huginn.Sig Huginn.SigText

/-- layout of one line: whitespace before, spaces/tabs around `=`, whitespace after -/
structure Pad where
  lead  : Str := []
  pre   : Str := [' ']
  post  : Str := [' ']
  trail : Str := []
  deriving DecidableEq, Repr, Inhabited

/-- lines every section may contain (and the part of the file before the first section) -/
inductive Misc
  | comment (lead text : Str)                           -- `;text`
  | blank (ws : Str)
  | classes (pad : Pad) (cs : List Str)                 -- `classes = a,b,c`
  | uaOs (pad : Pad) (rules : List (Str × Option Str))  -- `ua_os = Linux,iOS=[iPad],…`
  deriving DecidableEq, Repr, Inhabited

/-- lines of a section with labels of type `lab` and signatures of type `σ` -/
inductive Item (lab σ : Type)
  | misc (m : Misc)
  | label (pad : Pad) (l : lab)
  | sys (pad : Pad) (text : Str)
  | sig (pad : Pad) (s : σ)
  deriving DecidableEq, Repr, Inhabited

inductive Section
  | tcp (lead trail : Str) (response : Bool) (items : List (Item LabelL TcpSig))
  | http (lead trail : Str) (response : Bool) (items : List (Item LabelL HttpSigL))
  | mtu (lead trail : Str) (items : List (Item Str Nat))
  /-- a module the loader does not know: its labels must still be labels, its `sig` lines are free text -/
  | other (lead trail : Str) (module : Str) (dir : Option Str) (items : List (Item LabelL Str))
  deriving Repr, Inhabited

structure Doc where
  pre      : List Misc
  sections : List Section
  deriving Repr, Inhabited

/-! ### rendering (p0f.fp syntax) -/

def renderLabel (l : LabelL) : Str :=
  (match l.ty with | .specified => 's' | .generic => 'g') :: ':' ::
  (match l.cls with | none => ['!'] | some c => c) ++ ':' :: l.name ++ ':' :: l.flavor.getD []

def joinWith (sep : Char) : List Str → Str
  | [] => []
  | [x] => x
  | x :: y :: r => x ++ sep :: joinWith sep (y :: r)

def renderRule : Str × Option Str → Str
  | (n, none) => n
  | (n, some v) => n ++ '=' :: '[' :: v ++ [']']

def named (pad : Pad) (name : String) (value : Str) : Str :=
  pad.lead ++ name.toList ++ pad.pre ++ '=' :: pad.post ++ value ++ pad.trail

def renderMisc : Misc → Str
  | .comment lead text => lead ++ ';' :: text
  | .blank ws => ws
  | .classes pad cs => named pad "classes" (joinWith ',' cs)
  | .uaOs pad rules => named pad "ua_os" (joinWith ',' (rules.map renderRule))

def renderItem {lab σ} (prLabel : lab → Str) (prSig : σ → Str) : Item lab σ → Str
  | .misc m => renderMisc m
  | .label pad l => named pad "label" (prLabel l)
  | .sys pad t => named pad "sys" t
  | .sig pad s => named pad "sig" (prSig s)

def header (lead trail : Str) (name : Str) : Str := lead ++ '[' :: name ++ ']' :: trail

/-- what is written between the brackets of a section header: `module` or `module:direction` -/
def modName (m : Str) (d : Option Str) : Str := m ++ (match d with | some d => ':' :: d | none => [])

def sectionLines : Section → List Str
  | .tcp lead trail resp items =>
    header lead trail (if resp then "tcp:response".toList else "tcp:request".toList) ::
      items.map (renderItem renderLabel printTcpSig)
  | .http lead trail resp items =>
    header lead trail (if resp then "http:response".toList else "http:request".toList) ::
      items.map (renderItem renderLabel printHttpSigL)
  | .mtu lead trail items => header lead trail "mtu".toList :: items.map (renderItem id natDigits)
  | .other lead trail m d items =>
    header lead trail (modName m d) ::
      items.map (renderItem renderLabel id)

def docLines (d : Doc) : List Str := d.pre.map renderMisc ++ d.sections.flatMap sectionLines

/-- every line terminated by `\n` -/
def renderLines (ls : List Str) : Str := ls.flatMap (· ++ ['\n'])
def renderDoc (d : Doc) : Str := renderLines (docLines d)

/-! ### what loading must yield -/

/-- the signatures directly under a label: up to the next label, in file order -/
def takeSigs {lab σ} : List (Item lab σ) → List σ
  | [] => []
  | .sig _ s :: r => s :: takeSigs r
  | .label _ _ :: _ => []
  | _ :: r => takeSigs r

/-- each label with the signatures written under it -/
def group {lab σ} : List (Item lab σ) → List (lab × List σ)
  | [] => []
  | .label _ l :: r => (l, takeSigs r) :: group r
  | _ :: r => group r

def miscsOf {lab σ} (items : List (Item lab σ)) : List Misc :=
  items.filterMap fun | .misc m => some m | _ => none

def sectionMiscs : Section → List Misc
  | .tcp _ _ _ items => miscsOf items
  | .http _ _ _ items => miscsOf items
  | .mtu _ _ items => miscsOf items
  | .other _ _ _ _ items => miscsOf items

def allMiscs (d : Doc) : List Misc := d.pre ++ d.sections.flatMap sectionMiscs

def mapTable {lab lab' σ σ'} (f : lab → lab') (g : σ → σ') (t : List (lab × List σ)) : List (lab' × List σ') :=
  t.map fun (l, ss) => (f l, ss.map g)

def miscClasses : Misc → List Str
  | .classes _ cs => cs
  | _ => []
def miscUaOs : Misc → List (Str × Option Str)
  | .uaOs _ rs => rs
  | _ => []

/-- the database a document denotes: everything written, in file order, under its section and label -/
def flatten (d : Doc) : Db where
  classes := (allMiscs d).flatMap miscClasses
  uaOs := (allMiscs d).flatMap miscUaOs
  mtu := d.sections.flatMap fun | .mtu _ _ items => group items | _ => []
  tcpReq := d.sections.flatMap fun
    | .tcp _ _ false items => mapTable LabelL.toSig id (group items) | _ => []
  tcpResp := d.sections.flatMap fun
    | .tcp _ _ true items => mapTable LabelL.toSig id (group items) | _ => []
  httpReq := d.sections.flatMap fun
    | .http _ _ false items => mapTable LabelL.toSig HttpSigL.toSig (group items) | _ => []
  httpResp := d.sections.flatMap fun
    | .http _ _ true items => mapTable LabelL.toSig HttpSigL.toSig (group items) | _ => []

/-! ### well-formed documents -/

def allWs (s : Str) : Prop := ∀ c ∈ s, isWs c = true ∧ c ≠ '\n'
instance (s : Str) : Decidable (allWs s) := by unfold allWs; exact inferInstance
def allSpaceTab (s : Str) : Prop := ∀ c ∈ s, isSpaceTab c = true
instance (s : Str) : Decidable (allSpaceTab s) := by unfold allSpaceTab; exact inferInstance

structure WFPad (p : Pad) : Prop where
  lead : allWs p.lead
  pre : allSpaceTab p.pre
  post : allSpaceTab p.post
  trail : allWs p.trail
instance (p : Pad) : Decidable (WFPad p) :=
  decidable_of_iff (allWs p.lead ∧ allSpaceTab p.pre ∧ allSpaceTab p.post ∧ allWs p.trail)
    ⟨fun ⟨a, b, c, d⟩ => ⟨a, b, c, d⟩, fun ⟨a, b, c, d⟩ => ⟨a, b, c, d⟩⟩

/-- a value that survives being written after `name = ` on one line: not empty, no line break, does
not start with a space/tab (they belong to the layout), does not end in whitespace (trimmed) -/
def LineSafe (v : Str) : Prop :=
  v ≠ [] ∧ '\n' ∉ v ∧ (∀ c ∈ v.head?, isSpaceTab c = false) ∧ (∀ c ∈ v.getLast?, isWs c = false)
instance (v : Str) : Decidable (LineSafe v) := by unfold LineSafe; exact inferInstance

def WFLabel (l : LabelL) : Prop :=
  (∀ c ∈ l.cls, ':' ∉ c ∧ '\n' ∉ c ∧ c.head? ≠ some '!') ∧
  (':' ∉ l.name ∧ '\n' ∉ l.name) ∧
  (∀ f ∈ l.flavor, f ≠ [] ∧ '\n' ∉ f ∧ ∀ c ∈ f.getLast?, isWs c = false)
instance (l : LabelL) : Decidable (WFLabel l) := by unfold WFLabel; exact inferInstance

def alnum1 (s : Str) : Prop := s ≠ [] ∧ ∀ c ∈ s, c.isAlphanum = true
instance (s : Str) : Decidable (alnum1 s) := by unfold alnum1; exact inferInstance
def alpha1P (s : Str) : Prop := s ≠ [] ∧ ∀ c ∈ s, c.isAlpha = true
instance (s : Str) : Decidable (alpha1P s) := by unfold alpha1P; exact inferInstance

/-- a `ua_os` rule of the p0f format: a name (anything without `,` `=`, e.g. `Mac OS X`), optionally `=[text]` -/
def WFRule (r : Str × Option Str) : Prop :=
  r.1 ≠ [] ∧ (∀ c ∈ r.1, c ≠ ',' ∧ c ≠ '=' ∧ c ≠ '\n') ∧
  (∀ c ∈ r.1.head?, isWs c = false) ∧ (∀ c ∈ r.1.getLast?, isWs c = false) ∧
  (∀ v ∈ r.2, ∀ c ∈ v, c ≠ ']' ∧ c ≠ ',' ∧ c ≠ '\n')
instance (r : Str × Option Str) : Decidable (WFRule r) := by unfold WFRule; exact inferInstance

def WFMisc : Misc → Prop
  | .comment lead text => allWs lead ∧ '\n' ∉ text
  | .blank ws => allWs ws
  | .classes pad cs => WFPad pad ∧ cs ≠ [] ∧ ∀ c ∈ cs, alnum1 c
  | .uaOs pad rs => WFPad pad ∧ rs ≠ [] ∧ ∀ r ∈ rs, WFRule r
instance : DecidablePred WFMisc := fun m => by cases m <;> (unfold WFMisc; exact inferInstance)

def WFItem {lab σ} (wfLabel : lab → Prop) (prLabel : lab → Str) (wfSig : σ → Prop) (prSig : σ → Str) :
    Item lab σ → Prop
  | .misc m => WFMisc m
  | .label pad l => WFPad pad ∧ wfLabel l ∧ LineSafe (prLabel l)
  | .sys pad t => WFPad pad ∧ LineSafe t
  | .sig pad s => WFPad pad ∧ wfSig s ∧ LineSafe (prSig s)

/-- no signature is written before the first label of the section -/
def NoOrphan {lab σ} (items : List (Item lab σ)) : Prop := takeSigs items = []

def knownModule (m : Str) (d : Option Str) : Bool :=
  m == "mtu".toList ||
  ((m == "tcp".toList || m == "http".toList) && (d == some "request".toList || d == some "response".toList))

def WFSection : Section → Prop
  | .tcp lead trail _ items => allWs lead ∧ allWs trail ∧ NoOrphan items ∧
      ∀ it ∈ items, WFItem WFLabel renderLabel WFTcp printTcpSig it
  | .http lead trail _ items => allWs lead ∧ allWs trail ∧ NoOrphan items ∧
      ∀ it ∈ items, WFItem WFLabel renderLabel WFHttpL printHttpSigL it
  | .mtu lead trail items => allWs lead ∧ allWs trail ∧ NoOrphan items ∧
      ∀ it ∈ items, WFItem (fun _ => True) id (fun n => n ≤ 65535) natDigits it
  | .other lead trail m d items => allWs lead ∧ allWs trail ∧ alpha1P m ∧ (∀ x ∈ d, alpha1P x) ∧
      knownModule m d = false ∧ ∀ it ∈ items, WFItem WFLabel renderLabel (fun _ => True) id it

structure WFDoc (d : Doc) : Prop where
  pre : ∀ m ∈ d.pre, WFMisc m
  sections : ∀ s ∈ d.sections, WFSection s

end Huginn.SigText.Spec


namespace Huginn.SigText.Spec
open Huginn.Sig Huginn.SigText

instance {lab σ} (wl : lab → Prop) [DecidablePred wl] (pl : lab → Str) (ws : σ → Prop) [DecidablePred ws]
    (ps : σ → Str) : DecidablePred (WFItem wl pl ws ps) := fun it => by
  cases it <;> (unfold WFItem; exact inferInstance)

instance {lab σ} (items : List (Item lab σ)) : Decidable (NoOrphan items) :=
  decidable_of_iff ((takeSigs items).isEmpty = true) (by unfold NoOrphan; exact List.isEmpty_iff)

instance : DecidablePred WFSection := fun s => by
  cases s <;> (unfold WFSection; exact inferInstance)

instance (d : Doc) : Decidable (WFDoc d) :=
  decidable_of_iff ((∀ m ∈ d.pre, WFMisc m) ∧ ∀ s ∈ d.sections, WFSection s)
    ⟨fun ⟨a, b⟩ => ⟨a, b⟩, fun ⟨a, b⟩ => ⟨a, b⟩⟩

/-- reference reader of a label `t:class:name:flavor` (split at `:`; the flavor may contain `:`) -/
def refLabel (t : Str) : Option LabelL :=
  match splitOn ':' t with
  | ty :: cls :: name :: f :: fs =>
    let flavor := joinWith ':' (f :: fs)
    let ty? : Option LabelType := if ty = ['s'] then some .specified else if ty = ['g'] then some .generic else none
    let cls? : Option (Option Str) := if cls = ['!'] then some none else if cls.head? = some '!' then none else some (some cls)
    match ty?, cls? with
    | some ty, some cls => some ⟨ty, cls, name, if flavor = [] then none else some flavor⟩
    | _, _ => none
  | _ => none

end Huginn.SigText.Spec

/-! ## canonical signature text -/
namespace Huginn.SigText.Spec
open Huginn.Sig Huginn.SigText

/-- `d` is a maximal run of digits in the text `a ++ d ++ b` -/
def MaxRun (a d b : Str) : Prop :=
  d ≠ [] ∧ (∀ c ∈ d, c.isDigit = true) ∧ (∀ c ∈ a.getLast?, c.isDigit = false) ∧
    (∀ c ∈ b.head?, c.isDigit = false)

/-- a numeral without leading zeros -/
def CanonNum (d : Str) : Prop := d = ['0'] ∨ d.head? ≠ some '0'
instance (d : Str) : Decidable (CanonNum d) := by unfold CanonNum; exact inferInstance

/-- every numeral of the line is written without leading zeros -/
def CanonNums (l : Str) : Prop := ∀ a d b, l = a ++ (d ++ b) → MaxRun a d b → CanonNum d

/-- **canonical TCP signature line** (lexical, does not mention the parser): numerals without leading zeros -/
def CanonTcp (l : Str) : Prop := CanonNums l

/-- decidable version of `CanonNums`, used by the driver (`canonNumsB_sound` in the lemmas) -/
def canonNumsB (prevDigit : Bool) : Str → Bool
  | [] => true
  | c :: cs =>
    (if c == '0' && !prevDigit then match cs with | d :: _ => !d.isDigit | [] => true else true) &&
    canonNumsB c.isDigit cs

end Huginn.SigText.Spec

/-! ## the signature grammars, declaratively (as concatenations) -/
namespace Huginn.SigText.Spec
open Huginn.Sig Huginn.SigText

/-- `t` is a decimal numeral (leading zeros allowed) of value `v ≤ max` -/
def NumT (max : Nat) (t : Str) (v : Nat) : Prop :=
  t ≠ [] ∧ (∀ c ∈ t, c.isDigit = true) ∧ decVal t = v ∧ v ≤ max

def OptNumT (max : Nat) (t : Str) : Option Nat → Prop
  | none => t = ['*']
  | some v => NumT max t v

def VerT (t : Str) : IpVersion → Prop
  | .v4 => t = ['4'] | .v6 => t = ['6'] | .any => t = ['*']

/-- `n`, `n+d`, `n+?`, `n-` -/
def TtlT (t : Str) : Ttl → Prop
  | .value v => NumT 255 t v
  | .distance a b => ∃ ta tb, t = ta ++ '+' :: tb ∧ NumT 255 ta a ∧ NumT 255 tb b
  | .guess v => ∃ tv, t = tv ++ ['+', '?'] ∧ NumT 255 tv v
  | .bad v => ∃ tv, t = tv ++ ['-'] ∧ NumT 255 tv v

/-- `*`, `mss*n`, `mtu*n`, `%n`, `n` -/
def WsT (t : Str) : WindowSize → Prop
  | .any => t = ['*']
  | .mss v => ∃ tv, t = 'm' :: 's' :: 's' :: '*' :: tv ∧ NumT 255 tv v
  | .mtu v => ∃ tv, t = 'm' :: 't' :: 'u' :: '*' :: tv ∧ NumT 255 tv v
  | .mod v => ∃ tv, t = '%' :: tv ∧ NumT 65535 tv v
  | .value v => NumT 65535 t v

/-- `eol+n`, `nop`, `mss`, `ws`, `sok`, `sack`, `ts`, `?n` -/
def OptT (t : Str) : TcpOption → Prop
  | .eol v => ∃ tv, t = 'e' :: 'o' :: 'l' :: '+' :: tv ∧ NumT 255 tv v
  | .unknown v => ∃ tv, t = '?' :: tv ∧ NumT 255 tv v
  | .nop => t = "nop".toList | .mss => t = "mss".toList | .ws => t = "ws".toList
  | .sok => t = "sok".toList | .sack => t = "sack".toList | .ts => t = "ts".toList

/-- the documented quirk names (p0f.fp / the doc comments of `tcp::Quirk`) -/
def quirkText : Quirk → Str
  | .df => "df".toList | .nonZeroID => "id+".toList | .zeroID => "id-".toList | .ecn => "ecn".toList
  | .mustBeZero => "0+".toList | .flowID => "flow".toList | .seqNumZero => "seq-".toList
  | .ackNumNonZero => "ack+".toList | .ackNumZero => "ack-".toList | .nonZeroURG => "uptr+".toList
  | .urg => "urgf+".toList | .push => "pushf+".toList | .ownTimestampZero => "ts1-".toList
  | .peerTimestampNonZero => "ts2+".toList | .trailingNonZero => "opt+".toList
  | .excessiveWindowScaling => "exws".toList | .optBad => "bad".toList

def PayT (t : Str) : PayloadSize → Prop
  | .zero => t = ['0'] | .nonZero => t = ['+'] | .any => t = ['*']

/-- texts of list elements, one by one -/
inductive Texts {α} (R : Str → α → Prop) : List Str → List α → Prop
  | nil : Texts R [] []
  | cons {t x ts xs} : R t x → Texts R ts xs → Texts R (t :: ts) (x :: xs)

/-- **the TCP signature language**: `ver:ittl:olen:mss:wsize,scale:olayout:quirks:pclass`, every field
in any of its spellings (numerals may carry leading zeros), both lists possibly empty -/
def TcpLine (l : Str) (s : TcpSig) : Prop :=
  ∃ tv tt to tm tw tsc tol tqs tp,
    l = tv ++ ':' :: (tt ++ ':' :: (to ++ ':' :: (tm ++ ':' :: (tw ++ ',' :: (tsc ++ ':' ::
      (joinWith ',' tol ++ ':' :: (joinWith ',' tqs ++ ':' :: tp))))))) ∧
    VerT tv s.version ∧ TtlT tt s.ittl ∧ NumT 255 to s.olen ∧ OptNumT 65535 tm s.mss ∧
    WsT tw s.wsize ∧ OptNumT 255 tsc s.wscale ∧ Texts OptT tol s.olayout ∧
    Texts (fun t q => t = quirkText q) tqs s.quirks ∧ PayT tp s.pclass

end Huginn.SigText.Spec
