import Huginn.Model.SigText
/-
Specification side of C06, written from the property statement and the p0f signature
language (README section 5 / the comments of p0f.fp), not from db_parse.rs:

* which values are "over the p0f vocabulary" (`WFTcp`, `WFHttp`: Rust field widths, header
  names over `[A-Za-z0-9-]`, bracketed values without `]`, HTTP version 0/1/*);
* a *reference reader* of TCP signature text that works by splitting the line at `:` and `,`
  and interpreting each field on its own (`refTcp`) — a different shape from the nom parser
  (which scans left to right with ordered alternatives);
* the grammar of canonical lines (`CanonTcp`, `CanonHttp`): declarative, as concatenations;
* the abstract document type `Doc`, its rendering and what loading it must yield (`flatten`);
* the known-finding classes `KF.C06.*`.
-/
namespace Huginn.SigText.Spec
open Huginn.Sig Huginn.SigText

/-! ### values over the vocabulary -/

def WFTtl : Ttl → Prop
  | .value t => t ≤ 255
  | .distance t d => t ≤ 255 ∧ d ≤ 255
  | .guess t => t ≤ 255
  | .bad t => t ≤ 255
instance : DecidablePred WFTtl := fun t => by cases t <;> (unfold WFTtl; exact inferInstance)

def WFWSize : WindowSize → Prop
  | .mss n => n ≤ 255
  | .mtu n => n ≤ 255
  | .value n => n ≤ 65535
  | .mod n => n ≤ 65535
  | .any => True
instance : DecidablePred WFWSize := fun t => by cases t <;> (unfold WFWSize; exact inferInstance)

def WFOpt : TcpOption → Prop
  | .eol n => n ≤ 255
  | .unknown n => n ≤ 255
  | _ => True
instance : DecidablePred WFOpt := fun t => by cases t <;> (unfold WFOpt; exact inferInstance)

def WFOptNat (max : Nat) : Option Nat → Prop
  | some n => n ≤ max
  | none => True
instance (m) : DecidablePred (WFOptNat m) := fun t => by cases t <;> (unfold WFOptNat; exact inferInstance)

/-- every numeric field within its Rust width; lists of any length (also empty) -/
structure WFTcp (s : TcpSig) : Prop where
  ittl : WFTtl s.ittl
  olen : s.olen ≤ 255
  mss : WFOptNat 65535 s.mss
  wsize : WFWSize s.wsize
  wscale : WFOptNat 255 s.wscale
  olayout : ∀ o ∈ s.olayout, WFOpt o
instance (s : TcpSig) : Decidable (WFTcp s) :=
  decidable_of_iff (WFTtl s.ittl ∧ s.olen ≤ 255 ∧ WFOptNat 65535 s.mss ∧ WFWSize s.wsize ∧
      WFOptNat 255 s.wscale ∧ ∀ o ∈ s.olayout, WFOpt o)
    ⟨fun ⟨a, b, c, d, e, f⟩ => ⟨a, b, c, d, e, f⟩, fun ⟨a, b, c, d, e, f⟩ => ⟨a, b, c, d, e, f⟩⟩

/-- header-name characters of the vocabulary -/
def nameChar (c : Char) : Bool := c.isAlphanum || c == '-'

/-- names over `[A-Za-z0-9-]` (possibly empty here; see `WFHttp`), bracketed values without `]` -/
def WFHdrL (h : HeaderL) : Prop :=
  (∀ c ∈ h.name, nameChar c = true) ∧ (∀ v ∈ h.value, ']' ∉ v)
instance (h : HeaderL) : Decidable (WFHdrL h) := by unfold WFHdrL; exact inferInstance

def versionInGrammar : HttpVersion → Bool
  | .v10 | .v11 | .any => true
  | _ => false

/-- HTTP signature values over the vocabulary: version 0/1/*, headers with non-empty names over
`[A-Za-z0-9-]`, optional marks, bracketed values without `]`, any `expsw`; both lists of any
length — also empty. -/
structure WFHttpL (s : HttpSigL) : Prop where
  version : versionInGrammar s.version = true
  horder : ∀ h ∈ s.horder, WFHdrL h ∧ h.name ≠ []
  habsent : ∀ h ∈ s.habsent, WFHdrL h ∧ h.name ≠ []
instance (s : HttpSigL) : Decidable (WFHttpL s) :=
  decidable_of_iff (versionInGrammar s.version = true ∧ (∀ h ∈ s.horder, WFHdrL h ∧ h.name ≠ []) ∧
      ∀ h ∈ s.habsent, WFHdrL h ∧ h.name ≠ [])
    ⟨fun ⟨a, b, c⟩ => ⟨a, b, c⟩, fun ⟨a, b, c⟩ => ⟨a, b, c⟩⟩

def WFHttp (s : HttpSig) : Prop := WFHttpL (.ofSig s)
instance (s : HttpSig) : Decidable (WFHttp s) := by unfold WFHttp; exact inferInstance

/-! ### known-finding classes -/
end Huginn.SigText.Spec

namespace Huginn.KF.C06
open Huginn.Sig Huginn.SigText

/-- an HTTP signature whose `horder` is empty prints `v:::sw` and re-parses with one header whose
name is empty (`separated_list1` + a header parser that accepts the empty string) -/
def httpEmptyHorder (s : HttpSigL) : Prop := s.horder = []
instance (s : HttpSigL) : Decidable (httpEmptyHorder s) := by unfold httpEmptyHorder; exact inferInstance

/-- the text contains `?` followed by a digit run whose value exceeds 255: not an option kind of the
vocabulary, yet `parse_tcp_option` reads it as `?0` (`unwrap_or(0)`) -/
def unknownKindOverflowB : Str → Bool
  | [] => false
  | c :: cs => (c == '?' && !(cs.takeWhile Char.isDigit).isEmpty && decide (decVal (cs.takeWhile Char.isDigit) > 255))
      || unknownKindOverflowB cs
def unknownKindOverflow (t : Str) : Prop := unknownKindOverflowB t = true
instance : DecidablePred unknownKindOverflow := fun t => by unfold unknownKindOverflow; exact inferInstance

end Huginn.KF.C06

namespace Huginn.SigText.Spec
open Huginn.Sig Huginn.SigText

/-! ### reference reader of TCP signature text (split at `:` and `,`, field by field) -/

/-- split at every `c` (always at least one piece) -/
def splitOn (c : Char) : Str → List Str
  | [] => [[]]
  | x :: xs =>
    if x = c then [] :: splitOn c xs
    else match splitOn c xs with
      | [] => [[x]]
      | p :: ps => (x :: p) :: ps

/-- a decimal number: non-empty, digits only, value within the field's width -/
def refNum (max : Nat) (t : Str) : Option Nat :=
  if t ≠ [] ∧ t.all Char.isDigit = true ∧ decVal t ≤ max then some (decVal t) else none

def refStar {α} (f : Str → Option α) (t : Str) : Option (Option α) :=
  if t = ['*'] then some none else (f t).map some

def refIpVersion (t : Str) : Option IpVersion :=
  if t = ['4'] then some .v4 else if t = ['6'] then some .v6 else if t = ['*'] then some .any else none

/-- `n`, `n+d`, `n+?`, `n-` -/
def refTtl (t : Str) : Option Ttl :=
  match splitOn '+' t with
  | [a] =>
    match a.reverse with
    | '-' :: r => (refNum 255 r.reverse).map .bad
    | _ => (refNum 255 a).map .value
  | [a, b] =>
    if b = ['?'] then (refNum 255 a).map .guess
    else match refNum 255 a, refNum 255 b with
      | some x, some y => some (.distance x y)
      | _, _ => none
  | _ => none

/-- `*`, `mss*n`, `mtu*n`, `%n`, `n` -/
def refWSize (t : Str) : Option WindowSize :=
  if t = ['*'] then some .any else
  match t with
  | 'm' :: 's' :: 's' :: '*' :: r => (refNum 255 r).map .mss
  | 'm' :: 't' :: 'u' :: '*' :: r => (refNum 255 r).map .mtu
  | '%' :: r => (refNum 65535 r).map .mod
  | _ => (refNum 65535 t).map .value

def refOpt (t : Str) : Option TcpOption :=
  match t with
  | 'e' :: 'o' :: 'l' :: '+' :: r => (refNum 255 r).map .eol
  | '?' :: r => (refNum 255 r).map .unknown
  | _ =>
    if t = "nop".toList then some .nop else if t = "mss".toList then some .mss
    else if t = "ws".toList then some .ws else if t = "sok".toList then some .sok
    else if t = "sack".toList then some .sack else if t = "ts".toList then some .ts else none

/-- quirk names as documented in p0f.fp / tcp.rs doc comments -/
def refQuirk (t : Str) : Option Quirk :=
  [("df", Quirk.df), ("id+", .nonZeroID), ("id-", .zeroID), ("ecn", .ecn), ("0+", .mustBeZero),
   ("flow", .flowID), ("seq-", .seqNumZero), ("ack+", .ackNumNonZero), ("ack-", .ackNumZero),
   ("uptr+", .nonZeroURG), ("urgf+", .urg), ("pushf+", .push), ("ts1-", .ownTimestampZero),
   ("ts2+", .peerTimestampNonZero), ("opt+", .trailingNonZero), ("exws", .excessiveWindowScaling),
   ("bad", .optBad)].findSome? fun (n, q) => if n.toList = t then some q else none

def refPayload (t : Str) : Option PayloadSize :=
  if t = ['0'] then some .zero else if t = ['+'] then some .nonZero else if t = ['*'] then some .any else none

/-- comma-delimited list, possibly empty -/
def refList {α} (f : Str → Option α) (t : Str) : Option (List α) :=
  if t = [] then some [] else (splitOn ',' t).mapM f

/-- `ver:ittl:olen:mss:wsize,scale:olayout:quirks:pclass` -/
def refTcp (t : Str) : Option TcpSig :=
  match splitOn ':' t with
  | [ver, ittl, olen, mss, win, olayout, quirks, pclass] =>
    match splitOn ',' win with
    | [wsize, scale] => do
      let version ← refIpVersion ver
      let ittl ← refTtl ittl
      let olen ← refNum 255 olen
      let mss ← refStar (refNum 65535) mss
      let wsize ← refWSize wsize
      let wscale ← refStar (refNum 255) scale
      let olayout ← refList refOpt olayout
      let quirks ← refList refQuirk quirks
      let pclass ← refPayload pclass
      pure { version, ittl, olen, mss, wsize, wscale, olayout, quirks, pclass }
    | _ => none
  | _ => none

end Huginn.SigText.Spec
