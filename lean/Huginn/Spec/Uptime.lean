import Huginn.Model.Uptime
/-!
Specification for C19 — "Uptime estimates are sound for steady clocks and withheld otherwise".

Written from the property statement (bounds 25 ms … 10 min, 1 … 1500 Hz; "rate rounded to the
documented grid"; uptime = later timestamp / frequency split into days, hours < 24, minutes < 60;
wrap period = 2^32 ticks at that frequency in whole days; outside the bounds nothing is reported and
the endpoint is not re-evaluated; directions tracked separately; label by the caller's role), using
only the *types* of `Model/Uptime.lean`. The rate is the exact rational `Δv·1000/Δt`; the grid is a
relation (`Grid`), not a function; histories are specified by an abstract per-endpoint map
(`specRun`), not by a cache.
-/
namespace Huginn.Uptime.Spec
open Huginn.Uptime

/-- ticks the timestamp advanced from the reference to the current segment (32-bit counter, so a
wrap is an advance) -/
def advance (v0 v1 : Nat) : Nat := (v1 + U32 - v0) % U32

/-- "observed between 25 ms and 10 minutes apart … steady rate between 1 Hz and 1500 Hz":
`25 ≤ Δt ≤ 600000` and `1 ≤ Δv·1000/Δt ≤ 1500`. -/
def InBounds (t0 v0 t1 v1 : Nat) : Prop :=
  t0 ≤ t1 ∧ 25 ≤ t1 - t0 ∧ t1 - t0 ≤ 600000 ∧
  (t1 - t0) ≤ advance v0 v1 * 1000 ∧ advance v0 v1 * 1000 ≤ 1500 * (t1 - t0)
instance (t0 v0 t1 v1) : Decidable (InBounds t0 v0 t1 v1) := by unfold InBounds; exact inferInstance

/-! ### the documented grid, for a rate `n/d` -/

/-- `M` is the multiple of `base` nearest to `n/d` (ties upward), positive, and `n/d` is within 10 %
of it. -/
def Snap (base n d M : Nat) : Prop :=
  0 < M ∧ M % base = 0 ∧
  2 * M * d ≤ 2 * n + base * d ∧ 2 * n < 2 * M * d + base * d ∧
  10 * (n - M * d) ≤ M * d ∧ 10 * (M * d - n) ≤ M * d
instance (b n d M) : Decidable (Snap b n d M) := by unfold Snap; exact inferInstance

def Snaps (base n d : Nat) : Prop := ∃ M, M ≤ n / d + base ∧ Snap base n d M
instance (b n d) : Decidable (Snaps b n d) := by unfold Snaps; exact inferInstance

/-- p0f's range-dependent rounding of the integer part `x`: 0 → 1; 1…10 unchanged; 11…50 to
multiples of 5 (`g−3 ≤ x ≤ g+1`); 51…100 to multiples of 10 (`g−7 ≤ x ≤ g+2`); 101…500 to
multiples of 50 (`g−33 ≤ x ≤ g+16`); above to multiples of 100 (`g−67 ≤ x ≤ g+32`). -/
def steps : List (Nat × Nat × Nat × Nat) := [(11, 50, 5, 3), (51, 100, 10, 7), (101, 500, 50, 33)]

def Rounded (x g : Nat) : Prop :=
  (x = 0 → g = 1) ∧
  (1 ≤ x ∧ x ≤ 10 → g = x) ∧
  (∀ s ∈ steps, s.1 ≤ x ∧ x ≤ s.2.1 → g % s.2.2.1 = 0 ∧ g ≤ x + s.2.2.2 ∧ x + s.2.2.2 < g + s.2.2.1) ∧
  (500 < x → g % 100 = 0 ∧ g ≤ x + 67 ∧ x + 67 < g + 100)
instance (x g) : Decidable (Rounded x g) := by unfold Rounded; exact inferInstance

/-- snap to 1000 Hz multiples, else to 100 Hz multiples, else the rounding table -/
def Grid (n d g : Nat) : Prop :=
  if Snaps 1000 n d then Snap 1000 n d g
  else if Snaps 100 n d then Snap 100 n d g
  else Rounded (n / d) g
instance (n d g) : Decidable (Grid n d g) := by unfold Grid; exact inferInstance
/- `Snaps` is decided by a bounded search; keep the elaborator from unfolding it on open terms -/
attribute [irreducible] Grid

/-! ### the reported uptime -/

/-- later timestamp / frequency, in minutes, split mixed-radix; wrap period in whole days -/
def UptimeOk (v1 g : Nat) (u : Uptime) : Prop :=
  u.freq = g ∧ u.hours < 24 ∧ u.min < 60 ∧
  (u.days * 24 + u.hours) * 60 + u.min = v1 / (g * 60) ∧
  u.modDays = U32 / (g * 86400)
instance (v g u) : Decidable (UptimeOk v g u) := by unfold UptimeOk; exact inferInstance

/-- What may be reported for the current segment `(t1, v1)` against the reference `(t0, v0)`. -/
def EstOk (t0 v0 t1 v1 : Nat) (r : Option Uptime) : Prop :=
  if InBounds t0 v0 t1 v1 then
    match r with
    | some u => Grid (advance v0 v1 * 1000) (t1 - t0) u.freq ∧ UptimeOk v1 u.freq u
    | none => False
  else r = none
instance (t0 v0 t1 v1 r) : Decidable (EstOk t0 v0 t1 v1 r) := by
  unfold EstOk; cases r <;> exact inferInstance

/-! ### histories: one abstract entry per (connection, direction) -/

inductive Entry
  | ref (t v : Nat)
  | bad
  deriving DecidableEq, Repr

abbrev State := List (Key × Entry)

def State.get (s : State) (k : Key) : Option Entry := (s.find? (fun e => e.1 == k)).map (·.2)
def State.set (s : State) (k : Key) (e : Entry) : State := (k, e) :: s.filter (fun x => !(x.1 == k))

/-- One step of the abstract tracker, judging an implementation output `out`:
first segment of an endpoint → reference stored, nothing reported; against a reference → `EstOk`,
in the slot of the caller's role, and out of bounds the endpoint turns bad; bad → nothing. -/
def specStep (s : State) (o : Obs) (out : Out) : State × Bool :=
  let k : Key := ⟨o.conn, o.fromClient⟩
  let mine := if o.fromClient then out.client else out.server
  let other := if o.fromClient then out.server else out.client
  match s.get k with
  | none => (s.set k (.ref o.wall o.ts), decide (mine = none ∧ other = none))
  | some .bad => (s, decide (mine = none ∧ other = none))
  | some (.ref t0 v0) =>
    (if InBounds t0 v0 o.wall o.ts then s else s.set k .bad,
     decide (EstOk t0 v0 o.wall o.ts mine ∧ other = none))

/-- every output of the history is acceptable -/
def specRun (s : State) : List Obs → List Out → Bool
  | [], [] => true
  | o :: os, out :: outs => let r := specStep s o out; r.2 && specRun r.1 os outs
  | _, _ => false

/-- number of distinct endpoints of a history -/
def distinctKeys (os : List Obs) : Nat := (os.map (fun o => (⟨o.conn, o.fromClient⟩ : Key))).eraseDups.length

end Huginn.Uptime.Spec

/-! ### known-finding classes (multipleOfBase and backwardAccepted were repaired in /repo,
fixes/C19-*.patch) -/
namespace Huginn.KF.C19
open Huginn.Uptime Huginn.Uptime.Spec

/-- inside the stated bounds but fewer than 5 ticks: nothing is reported (and the endpoint turns bad) -/
def minTicks (t0 v0 t1 v1 : Nat) : Prop := InBounds t0 v0 t1 v1 ∧ advance v0 v1 < 5
instance (a b c d) : Decidable (minTicks a b c d) := by unfold minTicks; exact inferInstance

def any (t0 v0 t1 v1 : Nat) : Prop := minTicks t0 v0 t1 v1
instance (a b c d) : Decidable (any a b c d) := by unfold any; exact inferInstance

def names (t0 v0 t1 v1 : Nat) : List String :=
  (if minTicks t0 v0 t1 v1 then ["KF.C19.minTicks"] else [])

end Huginn.KF.C19
