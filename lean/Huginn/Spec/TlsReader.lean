import Huginn.Model.TlsReader
/-
Specification of C08, from the property statement:

  "For every ClientHello record and every in-order division of its bytes into TCP segments whose
   first segment holds at least the five-byte record header, the analyzer emits exactly one TLS
   result for the connection, on the segment that completes the record, and it is identical to the
   result for the record delivered in a single segment. Segments before completion, bytes after the
   record, and records that are not a ClientHello produce no result."

It is a predicate on the *observed per-segment outputs*, relative to the observed result `single` of
delivering the same bytes in one segment — it does not mention the reader's state or the parser.
`none` = the statement leaves the case open (first segment shorter than the header; a record beyond
the 64 KiB bound; at packet level a record version outside SSL3.0..TLS1.3 or a later segment that
itself starts a new handshake record, see DESIGN §7 C08).
-/
namespace Huginn.Tls.Spec
open Huginn.Tls

/-- Length of the TLSPlaintext record a byte stream starts with: 5-byte header + big-endian length
at offset 3 (RFC 8446 §5.1). -/
def recordLen (s : Bytes) : Nat := (s.getD 3 0).toNat * 256 + (s.getD 4 0).toNat + 5

/-- Index of the first segment with which the cumulative length reaches `n` (`segs.length` if none). -/
def completionIdx (n : Nat) : List Bytes → Nat
  | [] => 0
  | s :: rest => if n ≤ s.length then 0 else completionIdx (n - s.length) rest + 1

def isSig {σ} : Out σ → Bool
  | .sig _ => true
  | _ => false

def allNone {σ} [DecidableEq σ] (l : List (Out σ)) : Bool := l.all (· == Out.none)

/-- Reader level. `single` = what one `add_bytes` call with all the bytes returned. -/
def readerSpec {σ} [DecidableEq σ] (segs : List Bytes) (single : Out σ) (outs : List (Out σ)) : Option Bool :=
  match segs with
  | [] => some (outs == [])
  | s0 :: _ =>
    if s0.length < 5 then none
    else
      let whole := segs.flatten
      let n := recordLen whole
      if outs.length ≠ segs.length then some false
      else if (whole.getD 0 0) ≠ 0x16 then some (allNone (outs.take 1)) -- not a handshake record: nothing for it;
                                                                        -- what follows is a stream of its own
      else if whole.length < n then some (allNone outs)                 -- never completed
      else if n > 65536 then none                                       -- beyond the stated bound
      else
        let k := completionIdx n segs
        match single with
        | .sig s =>                                                     -- a ClientHello record
          some (outs == List.replicate k Out.none ++ [Out.sig s] ++ List.replicate (segs.length - k - 1) Out.none)
        | _ =>                                                          -- not a ClientHello
          some (allNone (outs.take k) && !(isSig (outs.getD k Out.none)))

/-- a segment that looks like the start of a handshake record of SSL3.0..TLS1.3 -/
def startsRecord (p : Bytes) : Bool :=
  decide (5 ≤ p.length) && p.getD 0 0 == 0x16 && p.getD 1 0 == 0x03 && decide ((p.getD 2 0).toNat ≤ 4)

/-- Packet level, one flow in isolation (`segs` = the non-empty TCP payloads of the flow in order,
`outs` = the analyzer's result per packet with `sig` carrying the reported fingerprint). -/
def flowSpec {σ} [DecidableEq σ] (segs : List Bytes) (single : Out σ) (outs : List (Out σ)) : Option Bool :=
  match segs with
  | [] => some (outs == [])
  | s0 :: _ =>
    if s0.length < 5 then none
    else if outs.length ≠ segs.length then some false
    else if (segs.drop 1).any startsRecord ∧ !startsRecord s0 then none  -- a later segment starts a record of its own
    else if s0.getD 0 0 ≠ 0x16 then some (allNone outs)
    else if !startsRecord s0 then none                                  -- record version outside 0x0300..0x0304
    else
      let whole := segs.flatten
      let n := recordLen whole
      if whole.length < n then some (allNone outs)
      else if n > 65536 then none
      else
        let k := completionIdx n segs
        let later := segs.drop (k + 1)
        match single with
        | .sig s =>
          -- exactly one result for the connection: nothing before the completing segment, the result on
          -- it, nothing afterwards — whatever the bytes after the record look like (see `laterRecord`)
          some (outs == List.replicate k Out.none ++ [Out.sig s] ++ List.replicate (segs.length - k - 1) Out.none)
        | _ => some (allNone (outs.take k) && !(isSig (outs.getD k Out.none)))

/-- Known-finding class `KF.C08.laterRecordReported`: after the ClientHello record is complete, a later
segment of the same flow itself starts a handshake record. The packet-level analyzer drops the flow on
success, so such a segment opens a NEW flow and, if it carries (or begins) a ClientHello, the connection
gets a second result. -/
def laterRecord (segs : List Bytes) : Bool :=
  match segs with
  | [] => false
  | s0 :: _ =>
    startsRecord s0 &&
      (let whole := segs.flatten
       let n := recordLen whole
       decide (n ≤ whole.length) && decide (n ≤ 65536) &&
         (segs.drop (completionIdx n segs + 1)).any startsRecord)

end Huginn.Tls.Spec
