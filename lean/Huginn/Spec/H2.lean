import Huginn.Model.H2Frames
/-
Specification of the HTTP/2 frame layer, written from RFC 7540 (not from the code):

* §4.1 frame format: 24-bit length, 8-bit type, 8-bit flags, 1 reserved bit (ignored on receipt),
  31-bit stream identifier, payload — as a *serialiser* `wire`;
* §4.2 / §6.5.2: a receiver that has not advertised otherwise accepts payloads up to 2^14 octets;
* `Splits data frames`: `data` is the wire form of `frames` followed by a tail that does not begin
  with another complete acceptable frame (what a passive observer can take from a byte prefix);
* §6.2 HEADERS payload layout (Pad Length / E+Stream Dependency+Weight / fragment / padding),
  §6.10 CONTINUATION: a header block is the concatenation of the fragments of a HEADERS frame and
  the CONTINUATION frames that immediately follow it on the same stream, up to END_HEADERS.

The vocabulary (`Frame`, `Bytes`) is shared with the model; nothing here mentions the parser.
-/
namespace Huginn.Spec.H2
open Huginn.H2

/-- SETTINGS_MAX_FRAME_SIZE initial value (RFC 7540 §6.5.2) -/
def defaultMaxFrameSize : Nat := 16384

def u8 (n : Nat) : UInt8 := UInt8.ofNat (n % 256)

/-- RFC 7540 §4.1; `r` is the reserved bit. -/
def wire (r : Bool) (f : Frame) : Bytes :=
  let n := f.payload.length
  let s := f.sid + (if r then 2 ^ 31 else 0)
  [u8 (n / 65536), u8 (n / 256), u8 n, f.ty, f.flags, u8 (s / 16777216), u8 (s / 65536), u8 (s / 256), u8 s]
    ++ f.payload

/-- a frame a default-configured receiver accepts -/
def Acceptable (f : Frame) : Prop := f.payload.length ≤ defaultMaxFrameSize ∧ f.sid < 2 ^ 31

/-- `rest` does not begin with a complete acceptable frame -/
def Tail (rest : Bytes) : Prop := ¬ ∃ r f more, Acceptable f ∧ rest = wire r f ++ more

def wireAll : List Bool → List Frame → Bytes
  | r :: rs, f :: fs => wire r f ++ wireAll rs fs
  | _, _ => []

/-- `frames` is what `data` carries. -/
def Splits (data : Bytes) (frames : List Frame) : Prop :=
  ∃ (rs : List Bool) (rest : Bytes), rs.length = frames.length ∧
    data = wireAll rs frames ++ rest ∧ (∀ f ∈ frames, Acceptable f) ∧ Tail rest

/-- client connection preface, RFC 7540 §3.5: "PRI * HTTP/2.0\r\n\r\nSM\r\n\r\n" -/
def clientPreface : Bytes :=
  [0x50, 0x52, 0x49, 0x20, 0x2a, 0x20, 0x48, 0x54, 0x54, 0x50, 0x2f, 0x32, 0x2e, 0x30,
   0x0d, 0x0a, 0x0d, 0x0a, 0x53, 0x4d, 0x0d, 0x0a, 0x0d, 0x0a]

/-- the frame bytes of a connection start: the preface, if present, is not part of them -/
def afterPreface (data : Bytes) : Bytes :=
  if clientPreface.isPrefixOf data then data.drop clientPreface.length else data

/-! ### flags (RFC 7540 §6.2, §6.10) -/
def flagSet (fl : UInt8) (bit : Nat) : Bool := (fl.toNat / bit) % 2 == 1
def endHeaders (f : Frame) : Bool := flagSet f.flags 4
def padded (f : Frame) : Bool := flagSet f.flags 8
def hasPriority (f : Frame) : Bool := flagSet f.flags 32

def isHeaders (f : Frame) : Bool := f.ty.toNat == 1
def isContinuation (f : Frame) : Bool := f.ty.toNat == 9

/-- header block fragment of a HEADERS frame (§6.2): `none` = malformed (missing Pad Length /
priority fields, or padding longer than what remains: PROTOCOL_ERROR). -/
def headersFragment (f : Frame) : Option Bytes :=
  let p := f.payload
  let r1 : Option (Nat × Bytes) :=
    if padded f then (match p with | pl :: r => some (pl.toNat, r) | [] => none) else some (0, p)
  match r1 with
  | none => none
  | some (padLen, p1) =>
    let r2 : Option Bytes := if hasPriority f then (if p1.length ≥ 5 then some (p1.drop 5) else none) else some p1
    match r2 with
    | none => none
    | some p2 => if padLen ≤ p2.length then some (p2.take (p2.length - padLen)) else none

inductive Block
  | complete (b : Bytes)
  | incomplete            -- END_HEADERS not seen yet
  | malformed
  deriving DecidableEq, Repr

/-- fragments of the CONTINUATION frames that must follow (§6.10) -/
def continuations (sid : Nat) : List Frame → Block
  | [] => .incomplete
  | f :: r =>
    if isContinuation f && f.sid == sid then
      if endHeaders f then .complete f.payload
      else match continuations sid r with
        | .complete b => .complete (f.payload ++ b)
        | x => x
    else .malformed

/-- header block that starts with HEADERS frame `f`, `after` = the frames that follow it -/
def headerBlock (f : Frame) (after : List Frame) : Block :=
  match headersFragment f with
  | none => .malformed
  | some frag =>
    if endHeaders f then .complete frag
    else match continuations f.sid after with
      | .complete b => .complete (frag ++ b)
      | x => x

/-- the first frame satisfying `p`, with the frames after it -/
def firstWithRest (p : Frame → Bool) : List Frame → Option (Frame × List Frame)
  | [] => none
  | f :: r => if p f then some (f, r) else firstWithRest p r

end Huginn.Spec.H2
