import Huginn.Model.Wire
import Huginn.Spec.Filter
/-
Specifications for C15 (filtering commutes with analysis) and the pure half of C18 (dispatch
affinity), written from the property statements.

C15. "An analyzer with the filter installed reports exactly what the same analyzer without a
filter reports for the sub-trace of packets whose own source and destination (as the analyzer
itself reports them) the filter admits."  — `Commutes`.
The statement is about two decoders of the same bytes agreeing — `Agree` (theorem
`decoders_agree`: after the fixes 68f354c and 1765a5f they agree on every frame).

C18. "The worker chosen for a packet is a function of its connection identity alone (the 4-tuple
irrespective of direction for HTTP, the directed 4-tuple for TLS, the source address for TCP) …
and always a valid worker index."  — `identityTcp/Tls`, `SameConn`, and, independently of what any
decoder of the code does, `wireEndpoints`: the endpoints of a well-formed TCP/IP frame of a
*declared* link type, read off RFC 791 / 8200 / 793 / the BSD loopback header.
(The former exclusion classes KF.C18.looksLikeEthernet / nullFraming / versionNibble are gone: since
fix C18 the hashers locate the IP header exactly as `parse_packet` does.)
-/
namespace Huginn.Wire.Spec
open Huginn.Wire Huginn.Filter

/-! ## C15 -/

/-- The filter's decision on the packet's *own* endpoints, as the analyzer reports them.
A packet the analyzer discards has no endpoints; it is kept (it cannot produce a result or change
state either way, see `Inert`). -/
def ownAdmits (a : Analyzer) (c : Config) (p : Bytes) : Bool :=
  match analyzerEndpoints a p with
  | none => true
  | some e => e.admittedBy c

/-- A frame the analyzer discards before touching state leaves the analyzer as it was and
produces nothing. This is the only fact about the analyzer the commutation theorem uses. -/
def Inert {σ ρ} (a : Analyzer) (step : σ → Bytes → σ × Option ρ) : Prop :=
  ∀ s p, analyzerEndpoints a p = none → step s p = (s, none)

/-- **The property**, for one analyzer, filter, start state and trace. -/
def Commutes {σ ρ} (a : Analyzer) (step : σ → Bytes → σ × Option ρ) (c : Config) (s₀ : σ)
    (tr : List Bytes) : Prop :=
  results (run step (some c) s₀ tr).2 = results (run step none s₀ (tr.filter (ownAdmits a c))).2

instance {σ ρ} [DecidableEq ρ] (a : Analyzer) (step : σ → Bytes → σ × Option ρ) (c s₀ tr) :
    Decidable (Commutes a step c s₀ tr) := by unfold Commutes; exact inferInstance

/-- The quick decoder of the filter and the analyzer's decoder agree on the frame
(or the analyzer does not look at it at all). -/
def Agree (a : Analyzer) (p : Bytes) : Prop :=
  analyzerEndpoints a p = none ∨ rawFilterExtract p = analyzerEndpoints a p
instance (a p) : Decidable (Agree a p) := by unfold Agree; exact inferInstance

/-- Per filter: the filter's verdict on the raw frame equals its verdict on the frame's own endpoints. -/
def AgreeFor (a : Analyzer) (c : Config) (p : Bytes) : Prop :=
  analyzerEndpoints a p = none ∨ rawFilterApply c p = ownAdmits a c p
instance (a c p) : Decidable (AgreeFor a c p) := by unfold AgreeFor; exact inferInstance

/-! ## C18 (pure half) -/

/-- TCP analyzer: connection state is keyed by what it sees as the source address. -/
def identityTcp (p : Bytes) : Option (IpVer × Bytes) :=
  (analyzerEndpoints .tcp p).map (fun e => (e.ver, e.src))
/-- TLS analyzer: the directed 4-tuple. -/
def identityTls (p : Bytes) : Option Ep := analyzerEndpoints .tls p
/-- HTTP analyzer: the 4-tuple irrespective of direction. -/
def SameConn (e₁ e₂ : Ep) : Prop := e₁ = e₂ ∨ e₁ = e₂.swap
instance (a b) : Decidable (SameConn a b) := by unfold SameConn; exact inferInstance

theorem Ep.swap_swap (e : Ep) : e.swap.swap = e := by cases e; rfl

theorem SameConn.refl (e : Ep) : SameConn e e := Or.inl rfl
theorem SameConn.symm {a b : Ep} (h : SameConn a b) : SameConn b a := by
  rcases h with h | h
  · exact Or.inl h.symm
  · right; rw [h, Ep.swap_swap]
theorem SameConn.trans {a b c : Ep} (h₁ : SameConn a b) (h₂ : SameConn b c) : SameConn a c := by
  rcases h₁ with rfl | rfl <;> rcases h₂ with rfl | rfl
  · exact Or.inl rfl
  · exact Or.inr rfl
  · exact Or.inr rfl
  · left; rw [Ep.swap_swap]

/-- A connection irrespective of direction: the endpoint tuple up to swapping the two ends. -/
instance connSetoid : Setoid Ep := ⟨SameConn, ⟨SameConn.refl, SameConn.symm, SameConn.trans⟩⟩
def Conn := Quotient connSetoid
/-- HTTP analyzer: the unordered endpoint pair. -/
def identityHttp (p : Bytes) : Option Conn :=
  (analyzerEndpoints .http p).map (fun e => Quotient.mk connSetoid e)

/-! ### endpoints of a well-formed frame of a declared link type (no reference to the code) -/

/-- A TCP segment needs its fixed 20-byte header. IPv4 (RFC 791): version 4, IHL ≥ 5, the header
and the TCP header are present, protocol 6. -/
def wireV4 (ip : Bytes) : Option Ep :=
  if byte ip 0 / 16 = 4 ∧ 5 ≤ byte ip 0 % 16 ∧ byte ip 0 % 16 * 4 + 20 ≤ ip.length ∧ byte ip 9 = 6 then
    some ⟨.v4, slice ip 12 4, slice ip 16 4, be16 ip (byte ip 0 % 16 * 4), be16 ip (byte ip 0 % 16 * 4 + 2)⟩
  else none

/-- IPv6 (RFC 8200) with TCP directly after the fixed header. -/
def wireV6 (ip : Bytes) : Option Ep :=
  if byte ip 0 / 16 = 6 ∧ 60 ≤ ip.length ∧ byte ip 6 = 6 then
    some ⟨.v6, slice ip 8 16, slice ip 24 16, be16 ip 40, be16 ip 42⟩
  else none

/-- Link types: Ethernet II (ethertype 0800 / 86DD), raw IP (version nibble), BSD loopback
(4-byte address family in either byte order: 2 = AF_INET; 24, 28, 30 = AF_INET6). -/
def wireEndpoints (fr : Framing) (p : Bytes) : Option Ep :=
  match fr with
  | .eth =>
    if p.length < 14 then none
    else if be16 p 12 = 0x0800 then wireV4 (p.drop 14)
    else if be16 p 12 = 0x86DD then wireV6 (p.drop 14)
    else none
  | .raw => match wireV4 p with | some e => some e | none => wireV6 p
  | .null =>
    if p.length < 4 then none
    else
      let le := byte p 0 + 256 * byte p 1 + 65536 * byte p 2 + 16777216 * byte p 3
      let be := byte p 3 + 256 * byte p 2 + 65536 * byte p 1 + 16777216 * byte p 0
      if le = 2 ∨ be = 2 then wireV4 (p.drop 4)
      else if le ∈ [24, 28, 30] ∨ be ∈ [24, 28, 30] then wireV6 (p.drop 4)
      else none

/-- The analyzers' link-layer decoder (`parse_packet`, which is handed bytes only and never the
capture's link type) takes the frame for what the capture declares it to be. The wire-level statements
(B) carry this as their one explicit hypothesis: where it fails the analyzers themselves decode some
other frame (a raw IPv4 frame of ≥ 34 bytes from 8.0.x.x is *analysed* as Ethernet), so there is no
connection state the dispatcher could keep together; that is a limit of content sniffing in
packet_parser.rs, shared by every analyzer and every property, not of the dispatch hash.
Ethernet frames always satisfy it (`linkHonoured_eth`); for raw IP it says exactly that the parser's
Ethernet strategy does not fire (`linkHonoured_raw`). -/
def LinkHonoured (fr : Framing) (p : Bytes) : Prop := (parsePacket p).map (·.fr) = some fr
instance (fr p) : Decidable (LinkHonoured fr p) := by unfold LinkHonoured; exact inferInstance

end Huginn.Wire.Spec
