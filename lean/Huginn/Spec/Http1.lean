import Huginn.Model.Http1
/-
Specification of C05, written from the property statement and the public formats it cites
(RFC 7230 §3 message head, RFC 3629 §4 UTF-8, RFC 7231 §5.3.1/§5.3.5 qvalue / Accept-Language,
RFC 4647 §2 case-insensitive tags, RFC 6265 §4.2.1 cookie-string, p0f README "HTTP signatures"),
not from the parser.

A head is *structured data* — a start line and a list of `(name, ows, value, ows)` — and `render`
turns it into bytes (CRLF line ends, blank line last). `report` says what the analyzer must report
for it: method/target/version or status; every header in wire order with exact name and
OWS-trimmed value (the value *is* the trimmed part of the field line); for requests Cookie and
Referer split out; first User-Agent / Server; preferred language; and the p0f signature of the
reported headers: order, `?` marks for optional headers, values elided for identity-bearing
headers, absent common headers, software string. Header field names are case-insensitive
(RFC 7230 §3.2), so list membership is decided case-insensitively while names are reported exactly.
Only types (Bytes, Hdr, Cookie, SigHdr, ObsReq, ObsRes, Ver) and the regenerated lists are shared
with the model.
-/
namespace Huginn.Http1.Spec
open Huginn.Http1 Huginn.Gen

/-! ### constants of the statement

Frozen here from the property statement ("0..100 headers", "any of the supported methods") and the
p0f sources it cites (fp_http.c: optional / value-skipped / common header lists). The code's own
copies are regenerated into `Gen.HttpLists` on every run; `Lemmas/Http1Consts.lean` proves that they
agree — an edit of a list, a method or a limit in the code breaks that proof and shows up as a failing
case of the correspondence. -/

def maxFields : Nat := 100
/-- documented limit of one request line / header line (Http1Config::default) -/
def maxLine : Nat := 8192

def supportedMethods : List String :=
  ["GET", "POST", "PUT", "DELETE", "HEAD", "OPTIONS", "PATCH", "TRACE", "CONNECT", "PROPFIND", "PROPPATCH",
   "MKCOL", "COPY", "MOVE", "LOCK", "UNLOCK", "MKCALENDAR", "REPORT"]

def p0fOptional (isReq : Bool) : List String :=
  if isReq then
    ["Cookie", "Referer", "Origin", "Range", "If-Modified-Since", "If-None-Match", "Via", "X-Forwarded-For",
     "Authorization", "Proxy-Authorization", "Cache-Control"]
  else
    ["Set-Cookie", "Last-Modified", "ETag", "Content-Length", "Content-Disposition", "Cache-Control", "Expires",
     "Pragma", "Location", "Refresh", "Content-Range", "Vary"]

def p0fSkipValue (isReq : Bool) : List String :=
  if isReq then ["Host", "User-Agent"] else ["Date", "Content-Type", "Server"]

def p0fCommon (isReq : Bool) : List String :=
  if isReq then
    ["Host", "User-Agent", "Connection", "Accept", "Accept-Encoding", "Accept-Language", "Accept-Charset", "Keep-Alive"]
  else ["Content-Type", "Connection", "Keep-Alive", "Accept-Ranges", "Date"]

/-! ### RFC 7230 character classes -/

def isAlpha (b : UInt8) : Bool := (decide (65 ≤ b) && decide (b ≤ 90)) || (decide (97 ≤ b) && decide (b ≤ 122))
def isDigitB (b : UInt8) : Bool := decide (48 ≤ b) && decide (b ≤ 57)
/-- tchar = "!" / "#" / "$" / "%" / "&" / "'" / "*" / "+" / "-" / "." / "^" / "_" / "`" / "|" / "~" / DIGIT / ALPHA -/
def isTchar (b : UInt8) : Bool :=
  isAlpha b || isDigitB b || (ascii "!#$%&'*+-.^_`|~").contains b
def isVchar (b : UInt8) : Bool := decide (0x21 ≤ b) && decide (b ≤ 0x7E)
def isObsText (b : UInt8) : Bool := decide (0x80 ≤ b)
def isOws (b : UInt8) : Bool := b == SP || b == HT
/-- field-content bytes: VCHAR / obs-text / SP / HTAB -/
def isFieldByte (b : UInt8) : Bool := isVchar b || isObsText b || isOws b

def Token (n : Bytes) : Prop := n ≠ [] ∧ n.all isTchar = true
instance (n) : Decidable (Token n) := by unfold Token; exact inferInstance

def Ows (w : Bytes) : Prop := w.all isOws = true
instance (w) : Decidable (Ows w) := by unfold Ows; exact inferInstance

/-! ### RFC 3629 §4: UTF-8 as a grammar -/

def Tail (b : UInt8) : Prop := 0x80 ≤ b ∧ b ≤ 0xBF

inductive Utf8 : Bytes → Prop
  | nil : Utf8 []
  | u1 (b r) : b ≤ 0x7F → Utf8 r → Utf8 (b :: r)
  | u2 (b0 b1 r) : 0xC2 ≤ b0 → b0 ≤ 0xDF → Tail b1 → Utf8 r → Utf8 (b0 :: b1 :: r)
  | u3a (b1 b2 r) : 0xA0 ≤ b1 → b1 ≤ 0xBF → Tail b2 → Utf8 r → Utf8 (0xE0 :: b1 :: b2 :: r)
  | u3b (b0 b1 b2 r) : 0xE1 ≤ b0 → b0 ≤ 0xEC → Tail b1 → Tail b2 → Utf8 r → Utf8 (b0 :: b1 :: b2 :: r)
  | u3c (b1 b2 r) : 0x80 ≤ b1 → b1 ≤ 0x9F → Tail b2 → Utf8 r → Utf8 (0xED :: b1 :: b2 :: r)
  | u3d (b0 b1 b2 r) : 0xEE ≤ b0 → b0 ≤ 0xEF → Tail b1 → Tail b2 → Utf8 r → Utf8 (b0 :: b1 :: b2 :: r)
  | u4a (b1 b2 b3 r) : 0x90 ≤ b1 → b1 ≤ 0xBF → Tail b2 → Tail b3 → Utf8 r → Utf8 (0xF0 :: b1 :: b2 :: b3 :: r)
  | u4b (b0 b1 b2 b3 r) : 0xF1 ≤ b0 → b0 ≤ 0xF3 → Tail b1 → Tail b2 → Tail b3 → Utf8 r →
      Utf8 (b0 :: b1 :: b2 :: b3 :: r)
  | u4c (b1 b2 b3 r) : 0x80 ≤ b1 → b1 ≤ 0x8F → Tail b2 → Tail b3 → Utf8 r → Utf8 (0xF4 :: b1 :: b2 :: b3 :: r)


/-- The model's validator (`std::str::from_utf8`) accepts exactly the RFC 3629 grammar. -/
theorem utf8Valid_of_Utf8 {v : Bytes} (h : Utf8 v) : utf8Valid v = true := by
  induction h <;> (unfold utf8Valid; simp only [Tail, lead3, lead4, cont] at *) <;> grind

theorem Utf8_of_utf8Valid (v : Bytes) (h : utf8Valid v = true) : Utf8 v := by
  fun_induction utf8Valid v
  · exact .nil
  · rename_i b0 r hb ih; exact .u1 _ _ (by grind) (ih h)
  · simp at h
  · rename_i b0 b1 r1 hb hc ih
    simp [cont] at h
    exact .u2 _ _ _ hc.1 hc.2 h.1 (ih h.2)
  · simp at h
  · next b0 _ b1 _ b2 r hl ih =>
    simp [cont] at h
    simp [lead3, cont] at hl
    rcases hl with ((⟨⟨rfl, h1⟩, h2⟩ | ⟨⟨h0, h0'⟩, h1⟩) | ⟨⟨rfl, h1⟩, h2⟩) | ⟨⟨h0, h0'⟩, h1⟩
    · exact .u3a _ _ _ h1 h2 h.1 (ih h.2)
    · exact .u3b _ _ _ _ h0 h0' h1 h.1 (ih h.2)
    · exact .u3c _ _ _ h1 h2 h.1 (ih h.2)
    · exact .u3d _ _ _ _ h0 h0' h1 h.1 (ih h.2)
  · simp at h
  · next b0 _ b1 _ b2 _ b3 r ih =>
    simp [cont, lead4] at h
    obtain ⟨⟨⟨hl, t2⟩, t3⟩, hv⟩ := h
    rcases hl with (⟨⟨rfl, h1⟩, h2⟩ | ⟨⟨h0, h0'⟩, h1⟩) | ⟨⟨rfl, h1⟩, h2⟩
    · exact .u4a _ _ _ _ h1 h2 t2 t3 (ih hv)
    · exact .u4b _ _ _ _ _ h0 h0' h1 t2 t3 (ih hv)
    · exact .u4c _ _ _ _ h1 h2 t2 t3 (ih hv)

theorem utf8_iff (v : Bytes) : Utf8 v ↔ utf8Valid v = true :=
  ⟨utf8Valid_of_Utf8, Utf8_of_utf8Valid v⟩

instance (v : Bytes) : Decidable (Utf8 v) := decidable_of_iff _ (utf8_iff v).symm

/-! ### heads -/

structure Field where
  name : Bytes
  ows1 : Bytes
  value : Bytes
  ows2 : Bytes
  deriving DecidableEq, Repr, Inhabited

/-- weight = OWS ";" OWS "q=" qvalue (RFC 7231 §5.3.1) -/
structure Weight where
  ows : Bytes          -- OWS after ";"
  upperQ : Bool        -- "Q=" (ABNF literals are case-insensitive)
  whole : Nat          -- 0 or 1
  frac : Bytes         -- up to three digits (all "0" when whole = 1); `none`-like: [] and `dot = false`
  dot : Bool           -- whether "." is written
  trail : Bytes        -- OWS after the qvalue (list separator OWS)
  deriving DecidableEq, Repr, Inhabited

/-- one element of `Accept-Language = 1#( language-range [ weight ] )` -/
structure LangItem where
  pre : Bytes          -- OWS before the range
  tag : Bytes          -- language-range
  post : Bytes         -- OWS after the range
  weight : Option Weight
  deriving DecidableEq, Repr, Inhabited

structure ReqHead where
  method : Bytes
  target : Bytes
  ver : Ver
  fields : List Field
  /-- the element list of the first Accept-Language field (ignored if there is none) -/
  langs : List LangItem := []
  deriving Repr, Inhabited

structure ResHead where
  ver : Ver
  status : Bytes       -- 3DIGIT
  reason : Bytes
  fields : List Field
  deriving Repr, Inhabited

def verText : Ver → Bytes
  | .v10 => ascii "HTTP/1.0"
  | .v11 => ascii "HTTP/1.1"
  | .v20 => ascii "HTTP/2"
  | .v30 => ascii "HTTP/3"

def fieldLine (f : Field) : Bytes := f.name ++ [58] ++ f.ows1 ++ f.value ++ f.ows2

def requestLine (h : ReqHead) : Bytes := h.method ++ [SP] ++ h.target ++ [SP] ++ verText h.ver
def statusLine (h : ResHead) : Bytes := verText h.ver ++ [SP] ++ h.status ++ [SP] ++ h.reason

def renderLines : List Bytes → Bytes
  | [] => []
  | l :: ls => l ++ [CR, LF] ++ renderLines ls

/-- start line CRLF *( field-line CRLF ) CRLF -/
def renderReq (h : ReqHead) : Bytes :=
  renderLines (requestLine h :: h.fields.map fieldLine) ++ [CR, LF]
def renderRes (h : ResHead) : Bytes :=
  renderLines (statusLine h :: h.fields.map fieldLine) ++ [CR, LF]

/-! Accept-Language rendering -/

def qText (w : Weight) : Bytes :=
  [UInt8.ofNat (48 + w.whole)] ++ (if w.dot then [46] ++ w.frac else [])

def renderItem (i : LangItem) : Bytes :=
  i.pre ++ i.tag ++ i.post ++
  (match i.weight with
   | none => []
   | some w => [59] ++ w.ows ++ [if w.upperQ then 81 else 113, 61] ++ qText w ++ w.trail)

def renderLangs : List LangItem → Bytes
  | [] => []
  | [i] => renderItem i
  | i :: is => renderItem i ++ [44] ++ renderLangs is

/-! ### well-formedness -/

/-- case-insensitive equality of a field name with an ASCII constant -/
def ciEq (n : Bytes) (s : String) : Bool := lower n == lower (ascii s)
def ciMem (n : Bytes) (l : List String) : Bool := l.any (ciEq n)

/-- field-value without obs-fold: field bytes, no OWS at either end (that is `ows1`/`ows2`), UTF-8 -/
def FieldValue (v : Bytes) : Prop :=
  v.all isFieldByte = true ∧ (v.head?.map isOws).getD false = false ∧
  (v.getLast?.map isOws).getD false = false ∧ Utf8 v

instance (v) : Decidable (FieldValue v) := by unfold FieldValue; exact inferInstance

def FieldWF (f : Field) : Prop :=
  Token f.name ∧ Ows f.ows1 ∧ Ows f.ows2 ∧ FieldValue f.value ∧
  (fieldLine f).length ≤ maxLine

instance (f) : Decidable (FieldWF f) := by unfold FieldWF; exact inferInstance


def isAlnum (b : UInt8) : Bool := isAlpha b || isDigitB b

def LangRangeParts : List Bytes → Prop
  | [] => False
  | p :: subs => (p ≠ [] ∧ p.length ≤ 8 ∧ p.all isAlpha = true) ∧
      ∀ s ∈ subs, s ≠ [] ∧ s.length ≤ 8 ∧ s.all isAlnum = true
instance : (l : List Bytes) → Decidable (LangRangeParts l)
  | [] => isFalse (fun h => h)
  | p :: subs => inferInstanceAs (Decidable ((p ≠ [] ∧ p.length ≤ 8 ∧ p.all isAlpha = true) ∧
      ∀ s ∈ subs, s ≠ [] ∧ s.length ≤ 8 ∧ s.all isAlnum = true))

/-- language-range = (1*8ALPHA *("-" 1*8alphanum)) / "*" -/
def LangRange (t : Bytes) : Prop := t = [42] ∨ LangRangeParts (splitByte 45 t)
instance (t) : Decidable (LangRange t) := by unfold LangRange; exact inferInstance

def WeightWF (w : Weight) : Prop :=
  Ows w.ows ∧ Ows w.trail ∧ w.whole ≤ 1 ∧ w.frac.length ≤ 3 ∧ w.frac.all isDigitB = true ∧
  (w.dot = false → w.frac = []) ∧ (w.whole = 1 → w.frac.all (· == 48) = true)
instance (w) : Decidable (WeightWF w) := by unfold WeightWF; exact inferInstance

def OptWeightWF : Option Weight → Prop
  | none => True
  | some w => WeightWF w
instance : (o : Option Weight) → Decidable (OptWeightWF o)
  | none => isTrue trivial
  | some w => inferInstanceAs (Decidable (WeightWF w))

def LangItemWF (i : LangItem) : Prop :=
  Ows i.pre ∧ Ows i.post ∧ LangRange i.tag ∧ OptWeightWF i.weight
instance (i) : Decidable (LangItemWF i) := by unfold LangItemWF; exact inferInstance

def firstField (fs : List Field) (s : String) : Option Field := fs.find? (fun f => ciEq f.name s)
def countFields (fs : List Field) (s : String) : Nat := (fs.filter (fun f => ciEq f.name s)).length

def LangsWFOf (langs : List LangItem) : Option Field → Prop
  | none => True
  | some f => langs ≠ [] ∧ (∀ i ∈ langs, LangItemWF i) ∧ f.value = renderLangs langs
instance (langs) : (o : Option Field) → Decidable (LangsWFOf langs o)
  | none => isTrue trivial
  | some f => inferInstanceAs (Decidable (langs ≠ [] ∧ (∀ i ∈ langs, LangItemWF i) ∧ f.value = renderLangs langs))

/-- the Accept-Language field, if present, is the rendering of `langs` -/
def LangsWF (h : ReqHead) : Prop := LangsWFOf h.langs (firstField h.fields "accept-language")
instance (h) : Decidable (LangsWF h) := by unfold LangsWF; exact inferInstance

/-- A well-formed request head within the parser's documented limits. Header names may repeat, also
Cookie and Referer: the cookies of every Cookie line are reported, in wire order; Referer is
single-valued, and for a repeated Referer "split out" is read as: the value of the last line. -/
def WFReq (h : ReqHead) : Prop :=
  h.method ∈ supportedMethods.map ascii ∧
  h.target ≠ [] ∧ h.target.all isVchar = true ∧
  (h.ver = .v10 ∨ h.ver = .v11) ∧
  (requestLine h).length ≤ maxLine ∧
  h.fields.length ≤ maxFields ∧
  (∀ f ∈ h.fields, FieldWF f) ∧
  LangsWF h

instance (h) : Decidable (WFReq h) := by unfold WFReq; exact inferInstance

/-- The statement's "every well-formed request head", method included: RFC 7230 §3.1.1 `method = token`
(case-sensitive, any token — `PURGE`, `SEARCH`, `get`). `WFReq` is this with the method restricted to the
eighteen `is_valid_method` accepts. -/
def WFReqAnyMethod (h : ReqHead) : Prop :=
  Token h.method ∧
  h.target ≠ [] ∧ h.target.all isVchar = true ∧
  (h.ver = .v10 ∨ h.ver = .v11) ∧
  (requestLine h).length ≤ maxLine ∧
  h.fields.length ≤ maxFields ∧
  (∀ f ∈ h.fields, FieldWF f) ∧
  LangsWF h

instance (h) : Decidable (WFReqAnyMethod h) := by unfold WFReqAnyMethod; exact inferInstance

/-- RFC 7230 §3.2 field-value as written there: `field-vchar = VCHAR / obs-text` — bytes ≥ 0x80 need not be
UTF-8 (a Latin-1 `Server: caf\xe9` is well-formed). `FieldValue` is this plus `Utf8`. -/
def FieldValueRfc (v : Bytes) : Prop :=
  v.all isFieldByte = true ∧ (v.head?.map isOws).getD false = false ∧
  (v.getLast?.map isOws).getD false = false
instance (v) : Decidable (FieldValueRfc v) := by unfold FieldValueRfc; exact inferInstance

def FieldWFRfc (f : Field) : Prop :=
  Token f.name ∧ Ows f.ows1 ∧ Ows f.ows2 ∧ FieldValueRfc f.value ∧ (fieldLine f).length ≤ maxLine
instance (f) : Decidable (FieldWFRfc f) := by unfold FieldWFRfc; exact inferInstance

/-- The statement's "every well-formed request head" by the RFC grammar alone: any token as method, obs-text in
field values. -/
def WFReqRfc (h : ReqHead) : Prop :=
  Token h.method ∧
  h.target ≠ [] ∧ h.target.all isVchar = true ∧
  (h.ver = .v10 ∨ h.ver = .v11) ∧
  (requestLine h).length ≤ maxLine ∧
  h.fields.length ≤ maxFields ∧
  (∀ f ∈ h.fields, FieldWFRfc f) ∧
  LangsWF h
instance (h) : Decidable (WFReqRfc h) := by unfold WFReqRfc; exact inferInstance

/-- likewise for responses: obs-text in the reason phrase and in field values -/
def WFResRfc (h : ResHead) : Prop :=
  (h.ver = .v10 ∨ h.ver = .v11) ∧
  h.status.length = 3 ∧ h.status.all isDigitB = true ∧
  h.reason.all isFieldByte = true ∧
  h.fields.length ≤ maxFields ∧
  (∀ f ∈ h.fields, FieldWFRfc f)
instance (h) : Decidable (WFResRfc h) := by unfold WFResRfc; exact inferInstance

/-- status-line = HTTP-version SP 3DIGIT SP reason-phrase -/
def WFRes (h : ResHead) : Prop :=
  (h.ver = .v10 ∨ h.ver = .v11) ∧
  h.status.length = 3 ∧ h.status.all isDigitB = true ∧
  h.reason.all isFieldByte = true ∧ Utf8 h.reason ∧
  h.fields.length ≤ maxFields ∧
  (∀ f ∈ h.fields, FieldWF f)

instance (h) : Decidable (WFRes h) := by unfold WFRes; exact inferInstance

/-! ### what must be reported -/

def isCookieOrReferer (f : Field) : Bool := ciEq f.name "cookie" || ciEq f.name "referer"

/-- headers in wire order, each with its index among the field lines -/
def hdrsOf (fs : List (Field × Nat)) : List Hdr :=
  fs.map (fun p => { name := p.1.name, value := some p.1.value, pos := p.2 })

def reportedReq (fs : List Field) : List (Field × Nat) :=
  fs.zipIdx.filter (fun p => !isCookieOrReferer p.1)

/-- OWS-trim (SP / HTAB only) -/
def trimOws (d : Bytes) : Bytes :=
  ((d.dropWhile isOws).reverse.dropWhile isOws).reverse

/-- cookie-string pieces: split at ";", OWS-trim, drop empty pieces, split at the first "=" -/
def cookiePieces (v : Bytes) : List Bytes :=
  ((splitByte 59 v).map trimOws).filter (fun p => !p.isEmpty)

def cookieOf (p : Bytes × Nat) : Cookie :=
  match splitFirst 61 p.1 with
  | some (n, v) => { name := trimOws n, value := some (trimOws v), pos := p.2 }
  | none => { name := p.1, value := none, pos := p.2 }

def cookiesOf (v : Bytes) : List Cookie := (cookiePieces v).zipIdx.map cookieOf

/-- the cookie pairs of every Cookie line, in wire order, numbered through -/
def cookiesOfLines (vs : List Bytes) : List Cookie := (vs.flatMap cookiePieces).zipIdx.map cookieOf

def fieldsNamed (fs : List Field) (s : String) : List Field := fs.filter (fun f => ciEq f.name s)

/-- p0f: `?name` for optional headers, `name` alone for identity-bearing ones, `name=[value]` otherwise -/
def sigEntry (isReq : Bool) (h : Hdr) : SigHdr :=
  if ciMem h.name (p0fOptional isReq) then { optional := true, name := h.name, value := none }
  else if ciMem h.name (p0fSkipValue isReq) then { optional := false, name := h.name, value := none }
  else { optional := false, name := h.name, value := h.value }

/-- common headers of which no reported header carries the name -/
def absentOf (isReq : Bool) (hs : List Hdr) : List SigHdr :=
  ((p0fCommon isReq).filter (fun c => !hs.any (fun h => ciEq h.name c))).map
    (fun c => { optional := false, name := ascii c, value := none })

/-! preferred language -/

/-- qvalue in thousandths -/
def qMilli (w : Weight) : Nat :=
  w.whole * 1000 + (digitsVal (w.frac ++ List.replicate (3 - w.frac.length) 48) 0)

def itemQ (i : LangItem) : Nat := match i.weight with | none => 1000 | some w => qMilli w

/-- primary subtag, compared case-insensitively (RFC 4647 §2) -/
def primaryLower (i : LangItem) : Bytes := lower ((splitByte 45 i.tag).headD [])

def knownLang (i : LangItem) : Option Bytes :=
  (HttpLists.languages.find? (fun p => ascii p.1 == primaryLower i)).map (fun p => ascii p.2)

/-- `name` is the preferred language of `ls`: it is the language of an element with a known primary
tag whose quality no other known element exceeds and no earlier known element equals. -/
def Preferred (ls : List LangItem) (name : Bytes) : Prop :=
  ∃ (pre : List LangItem) (i : LangItem) (post : List LangItem),
    ls = pre ++ i :: post ∧ knownLang i = some name ∧
    (∀ j ∈ pre, (knownLang j).isSome → itemQ j < itemQ i) ∧
    (∀ j ∈ post, (knownLang j).isSome → itemQ j ≤ itemQ i)

def NoPreferred (ls : List LangItem) : Prop := ∀ i ∈ ls, knownLang i = none

/-- reference selection (executable counterpart of `Preferred`, proved equivalent in Props/C05) -/
def preferredLang (ls : List LangItem) : Option Bytes :=
  let known := ls.filterMap (fun i => (knownLang i).map (fun n => (itemQ i, n)))
  match known with
  | [] => none
  | c :: cs => some (cs.foldl (fun best x => if best.1 < x.1 then x else best) c).2

def langOf (h : ReqHead) : Option Bytes :=
  match firstField h.fields "accept-language" with
  | none => none
  | some _ => preferredLang h.langs

def unknownSoftware : Bytes := ascii "???"

def reportReq (h : ReqHead) : ObsReq :=
  let hs := hdrsOf (reportedReq h.fields)
  let ua := (firstField h.fields "user-agent").map (·.value)
  { ver := h.ver,
    horder := hs.map (sigEntry true),
    habsent := absentOf true hs,
    expsw := ua.getD unknownSoftware,
    lang := langOf h,
    userAgent := ua,
    headers := hs,
    cookies := cookiesOfLines ((fieldsNamed h.fields "cookie").map (·.value)),
    referer := (fieldsNamed h.fields "referer").getLast?.map (·.value),
    method := h.method,
    uri := h.target }

def statusValue (s : Bytes) : Nat := digitsVal s 0

def reportRes (h : ResHead) : ObsRes :=
  let hs := hdrsOf h.fields.zipIdx
  let srv := (firstField h.fields "server").map (·.value)
  { ver := h.ver,
    horder := hs.map (sigEntry false),
    habsent := absentOf false hs,
    expsw := srv.getD unknownSoftware,
    headers := hs,
    status := statusValue h.status }

/-! ### Unicode White_Space beyond ASCII, as UTF-8 -/

def unicodeSpaceCodepoints : List Nat :=
  [0x85, 0xA0, 0x1680, 0x2000, 0x2001, 0x2002, 0x2003, 0x2004, 0x2005, 0x2006, 0x2007, 0x2008,
   0x2009, 0x200A, 0x2028, 0x2029, 0x202F, 0x205F, 0x3000]

/-- UTF-8 encoding of a code point below U+10000 -/
def utf8Enc (cp : Nat) : Bytes :=
  if cp < 0x80 then [UInt8.ofNat cp]
  else if cp < 0x800 then [UInt8.ofNat (0xC0 + cp / 64), UInt8.ofNat (0x80 + cp % 64)]
  else [UInt8.ofNat (0xE0 + cp / 4096), UInt8.ofNat (0x80 + cp / 64 % 64), UInt8.ofNat (0x80 + cp % 64)]

def unicodeSpaces : List Bytes := unicodeSpaceCodepoints.map utf8Enc

def startsWithUSpace (v : Bytes) : Bool := unicodeSpaces.any (fun p => p.isPrefixOf v)
def endsWithUSpace (v : Bytes) : Bool := unicodeSpaces.any (fun p => p.reverse.isPrefixOf v.reverse)
def containsUSpace : Bytes → Bool
  | [] => false
  | b :: r => startsWithUSpace (b :: r) || containsUSpace r

end Huginn.Http1.Spec

/-! ### known-finding classes

None is open: the five classes found on the snapshot (method gate, header-name case, Accept-Language
weight OWS / "Q=", language-tag case, Unicode white-space trimming) were repaired in /repo
(fixes/C05-1 … C05-4) and their predicates deleted; `Props/C05.lean` proves the statement at full
strength and keeps the former witnesses as regression examples. -/
