import Huginn.Drv.Proto
import Huginn.Model.Unified
/-
Driver for C20. The standalone analyzers' per-packet results (digests) are the inputs; the model is
`Unified.union` over them, masked by the switches; the implementation output is the unified
analyzer's eight fields `sig/quality`.
-/
namespace Huginn.Drv.C20
open Huginn.Drv Huginn.Unified

abbrev Tok := String × String     -- (raw signature digest, label/quality digest)

def pRes (n : Nat) : P (Option (List Tok)) := do
  let ok ← bool
  if ok then some <$> rep (pair tok tok) n else pure none

def emptyToks (n : Nat) : List Tok := List.replicate n ("-", "-")

def render (ts : List Tok) : String := ",".intercalate (ts.map fun t => s!"{t.1}/{t.2}")

/-- `C20.pkt tcp http tls matcher db kind len parsed <tcp res 5> <http res 2> <tls res 1>` -/
def pkt (impl : String) : P Verdict := do
  let tcp ← bool; let http ← bool; let tls ← bool; let m ← bool; let db ← bool
  let kind ← tok; let _ ← nat; let parsed ← bool
  let rt ← pRes 5; let rh ← pRes 2; let rl ← pRes 1
  let cfg : Config := { http := http, tcp := tcp, tls := tls, matcher := m }
  -- a frame the front end cannot decode is rejected by everything
  let u := if parsed then union cfg (emptyToks 2) (emptyToks 5) (emptyToks 1) rh rt rl else none
  let fields : List Tok := match u with
    | some o => o.tcp ++ o.http ++ o.tls
    | none => emptyToks 8
  let model := render fields
  let tag := s!"pkt:{if tcp then "T" else "t"}{if http then "H" else "h"}{if tls then "L" else "l"}{if m then "M" else "m"}{if db then "D" else "d"}:{kind}:{if u.isSome then "union" else "none"}"
  -- the specification IS the union law; model and spec coincide here
  pure (verdictOf impl model (some model) [] tag)

/-- `C20.mask tcp http tls db <8 × (sig, q)>` with matcher on; impl = the eight `sig/letter` with matcher off. -/
def mask (impl : String) : P Verdict := do
  let _ ← bool; let _ ← bool; let _ ← bool; let db ← bool
  let on ← rep (pair tok tok) 8
  -- model of `assemble false …`: same raw signature; a field that carries a quality shows `D`isabled
  let exp := on.map fun t =>
    let letter := (t.2.take 1).toString
    (t.1, if letter == "M" || letter == "N" || letter == "D" then "D" else letter)
  let model := render exp
  pure (verdictOf impl model (some model) [] s!"mask:{if db then "db" else "nodb"}")

/-- `C20.new tcp http tls matcher db` — constructor refuses exactly matcher ∧ (tcp ∨ http) ∧ ¬db. -/
def new (impl : String) : P Verdict := do
  let tcp ← bool; let http ← bool; let _ ← bool; let m ← bool; let db ← bool
  let model := if m && (tcp || http) && !db then "refused" else "accepted"
  pure (verdictOf impl model (some model) [] "new")

def handlers : List (String × (String → P Verdict)) :=
  [("C20.pkt", pkt), ("C20.mask", mask), ("C20.new", new)]

end Huginn.Drv.C20
