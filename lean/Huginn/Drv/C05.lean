import Huginn.Drv.Proto
import Huginn.Spec.Http1
/-
Line-protocol handlers of C05. Canonical output formats (shared with harness/src/c05.rs):

  bytes         lowercase hex, `-` if empty          option   `0` | `1 <x>`
  header        `<name> <opt value> <pos>`           list     `<n> x1 … xn`
  parser req    `ok M <m> U <uri> V <0|1|2|3> H <hdrs> C <cookies> R <opt> CL <opt nat> TE <opt> CN <opt>
                 HO <opt> UA <opt> AL <opt> RAW <line> META <count> <dups> <malformed> <rll> <total>`
                | `none` | `err:<Kind>`
  parser res    `ok V <v> ST <code> RP <reason> H <hdrs> CL <opt nat> TE <opt> SRV <opt> CT <opt> RAW <line>
                 META <count> <dups> <malformed> <rll> <total>` | `none` | `err:<Kind>`
  observable    `some V <v> SIG <display> LANG <opt> UA <opt> H <hdrs> C <cookies> R <opt> M <m> U <uri>` | `none`
                `some V <v> SIG <display> H <hdrs> ST <code>` | `none`
-/
namespace Huginn.Drv.C05
open Huginn.Drv Huginn.Http1 Huginn.Http1.Spec

def hx (b : Bytes) : String := hexOf b
def optB : Option Bytes → String
  | none => "0"
  | some b => "1 " ++ hx b
def optN : Option Nat → String
  | none => "0"
  | some n => s!"1 {n}"
def lst {α} (f : α → String) (xs : List α) : String :=
  xs.foldl (fun acc x => acc ++ " " ++ f x) s!"{xs.length}"
def showHdr (h : Hdr) : String := s!"{hx h.name} {optB h.value} {h.pos}"
def showCookie (c : Cookie) : String := s!"{hx c.name} {optB c.value} {c.pos}"
def verNum : Ver → Nat | .v10 => 0 | .v11 => 1 | .v20 => 2 | .v30 => 3
def b01 (b : Bool) : Nat := if b then 1 else 0

def errName : PErr → String
  | .invalidRequestLine => "InvalidRequestLine" | .invalidStatusLine => "InvalidStatusLine"
  | .invalidVersion => "InvalidVersion" | .invalidMethod => "InvalidMethod"
  | .invalidStatusCode => "InvalidStatusCode" | .headerTooLong => "HeaderTooLong"
  | .tooManyHeaders => "TooManyHeaders" | .malformedHeader => "MalformedHeader"
  | .incompleteData => "IncompleteData" | .invalidUtf8 => "InvalidUtf8"

def showMeta (m : Meta) : String :=
  s!"META {m.headerCount} {lst hx m.dups} {b01 m.malformed} {m.requestLineLen} {m.totalLen}"

def showParsedReq : Outcome ParsedReq → String
  | .incomplete => "none"
  | .err e => "err:" ++ errName e
  | .ok r =>
    s!"ok M {hx r.method} U {hx r.uri} V {verNum r.ver} H {lst showHdr r.headers} C {lst showCookie r.cookies} R {optB r.referer} CL {optN r.contentLength} TE {optB r.transferEncoding} CN {optB r.connection} HO {optB r.host} UA {optB r.userAgent} AL {optB r.acceptLanguage} RAW {hx r.rawLine} {showMeta r.info}"

def showParsedRes : Outcome ParsedRes → String
  | .incomplete => "none"
  | .err e => "err:" ++ errName e
  | .ok r =>
    s!"ok V {verNum r.ver} ST {r.status} RP {hx r.reason} H {lst showHdr r.headers} CL {optN r.contentLength} TE {optB r.transferEncoding} SRV {optB r.server} CT {optB r.contentType} RAW {hx r.rawLine} {showMeta r.info}"

def showObsReq : Option ObsReq → String
  | none => "none"
  | some r =>
    s!"some V {verNum r.ver} SIG {hx (showSig r.ver r.horder r.habsent r.expsw)} LANG {optB r.lang} UA {optB r.userAgent} H {lst showHdr r.headers} C {lst showCookie r.cookies} R {optB r.referer} M {hx r.method} U {hx r.uri}"

def showObsRes : Option ObsRes → String
  | none => "none"
  | some r =>
    s!"some V {verNum r.ver} SIG {hx (showSig r.ver r.horder r.habsent r.expsw)} H {lst showHdr r.headers} ST {r.status}"

/-- The HTTP/2 processor is outside this property: cases never reach it (tag `h2gate` if they would). -/
def noH2 : H2 := ⟨fun _ => none, fun _ => none⟩

def outcomeTag {α} : Outcome α → String
  | .ok _ => "ok" | .incomplete => "incomplete" | .err e => "err:" ++ errName e

def splitMode (data : Bytes) : String :=
  let hd := headBytes data
  if !hasBlankLine hd then "nohead" else if containsSub crlf hd then "crlf" else "lf"

/-- `C05.preq <data>` — `Http1Parser::parse_request` -/
def parserReq (impl : String) : P Verdict := do
  let data ← bytes
  let r := parseRequest data
  let feat := match r with
    | .ok x => (if x.cookies.isEmpty then "" else "+ck") ++ (if x.referer.isSome then "+rf" else "") ++
               (if x.info.dups.isEmpty then "" else "+dup") ++ (if x.info.malformed then "+mal" else "") ++
               (if x.contentLength.isSome then "+cl" else "")
    | _ => ""
  pure (verdictOf impl (showParsedReq r) none [] s!"preq:{splitMode data}:{outcomeTag r}{feat}")

/-- `C05.pres <data>` — `Http1Parser::parse_response` -/
def parserRes (impl : String) : P Verdict := do
  let data ← bytes
  let r := parseResponse data
  let feat := match r with
    | .ok x => (if x.info.dups.isEmpty then "" else "+dup") ++ (if x.info.malformed then "+mal" else "") ++
               (if x.contentLength.isSome then "+cl" else "")
    | _ => ""
  pure (verdictOf impl (showParsedRes r) none [] s!"pres:{splitMode data}:{outcomeTag r}{feat}")

def gateTag (data : Bytes) : String :=
  (if h1CanRequest data then "q" else "") ++ (if h1CanResponse data then "s" else "") ++
  (if h2CanParse data then "+h2gate" else "")

def showModelReq : Option (Option ObsReq) → String
  | none => "OUTSIDE-MODEL"
  | some r => showObsReq r

/-- `C05.req <data>` — `HttpProcessors::parse_request` on raw bytes (no specification) -/
def procReq (impl : String) : P Verdict := do
  let data ← bytes
  let r := processorsParseRequest noH2 data
  let o := match r with | some (some _) => "some" | some none => "none" | none => "outside"
  pure (verdictOf impl (showModelReq r) none [] s!"req:gate[{gateTag data}]:{o}")

/-- `C05.res <data>` — `HttpProcessors::parse_response` on raw bytes (no specification) -/
def procRes (impl : String) : P Verdict := do
  let data ← bytes
  let r := processorsParseResponse noH2 data
  pure (verdictOf impl (showObsRes r) none [] s!"res:gate[{gateTag data}]:{if r.isSome then "some" else "none"}")

def pField : P Field := do
  let n ← bytes; let o1 ← bytes; let v ← bytes; let o2 ← bytes
  pure { name := n, ows1 := o1, value := v, ows2 := o2 }

def pWeight : P Weight := do
  let ows ← bytes; let up ← bool; let whole ← nat; let dot ← bool; let frac ← bytes; let trail ← bytes
  pure { ows := ows, upperQ := up, whole := whole, frac := frac, dot := dot, trail := trail }

def pLangItem : P LangItem := do
  let pre ← bytes; let tag ← bytes; let post ← bytes; let w ← opt pWeight
  pure { pre := pre, tag := tag, post := post, weight := w }

def pVer : P Ver := do
  let n ← nat
  pure (match n with | 0 => .v10 | 1 => .v11 | 2 => .v20 | _ => .v30)

/-! Input features behind the repaired findings (no longer exclusion classes — every well-formed
case is compared with the specification); they only label the case so that coverage of these
inputs stays a gate: g = method outside the old gate list, c = listed header name in another letter
case, w = weight with OWS / "Q=", t = upper-case primary tag, u = value edged by Unicode white space, k = several Cookie lines,
r = several Referer lines. -/

def exactIn (l : List String) (n : Bytes) : Bool := l.any (fun s => ascii s == n)

def nameCaseFeat (isReq : Bool) (n : Bytes) : Bool :=
  (ciMem n (p0fOptional isReq) && !exactIn (p0fOptional isReq) n) ||
  (ciMem n (p0fSkipValue isReq) && !exactIn (p0fSkipValue isReq) n)

def weightFeat (i : LangItem) : Bool :=
  match i.weight with
  | none => false
  | some w => !w.ows.isEmpty || !w.trail.isEmpty || w.upperQ

def tagFeat (i : LangItem) : Bool := (splitByte 45 i.tag).headD [] != primaryLower i

def uspaceFeat (f : Field) : Bool := startsWithUSpace f.value || endsWithUSpace f.value || containsUSpace f.value

def featFields (isReq : Bool) (fs : List Field) : String :=
  (if fs.any (fun f => nameCaseFeat isReq f.name) then "c" else "") ++
  (if fs.any uspaceFeat then "u" else "")

def featReq (h : ReqHead) : String :=
  (if h.method == ascii "REPORT" || h.method == ascii "MKCALENDAR" then "g" else "") ++
  featFields true h.fields ++
  (if (firstField h.fields "accept-language").isSome && h.langs.any weightFeat then "w" else "") ++
  (if (firstField h.fields "accept-language").isSome && h.langs.any tagFeat then "t" else "") ++
  (if (fieldsNamed h.fields "cookie").length ≥ 2 then "k" else "") ++
  (if (fieldsNamed h.fields "referer").length ≥ 2 then "r" else "")

def bodyTag (body : Bytes) : String :=
  if body.isEmpty then "b0" else if utf8Valid body then "btxt" else "bbin"

/-- `C05.hreq <method> <target> <ver> <fields> <langs> <body>` — a head from the grammar, rendered,
followed by a body, through `HttpProcessors::parse_request`. -/
def headReq (impl : String) : P Verdict := do
  let m ← bytes; let t ← bytes; let v ← pVer
  let fs ← list pField; let ls ← list pLangItem; let body ← bytes
  let h : ReqHead := { method := m, target := t, ver := v, fields := fs, langs := ls }
  let data := renderReq h ++ body
  let r := processorsParseRequest noH2 data
  let wf := decide (WFReq h)
  -- the statement's domain by the RFC grammar: any token as method (§3.1.1), obs-text in field values (§3.2); the
  -- parser's closed method list and its UTF-8 requirement are the open findings KF.C05.unlistedMethod /
  -- KF.C05.obsTextNotUtf8 (Props/C05Method.lean)
  let wfAny := decide (WFReqRfc h)
  let listed := decide (h.method ∈ supportedMethods.map ascii)
  let utf8 := h.fields.all (fun f => decide (Utf8 f.value))
  let spec := if wfAny then some (showObsReq (some (reportReq h))) else none
  let kf : List String := if wfAny && !wf then
      (if listed then [] else ["KF.C05.unlistedMethod"]) ++ (if utf8 then [] else ["KF.C05.obsTextNotUtf8"]) else []
  let feat := if wf then featReq h else if wfAny then (if listed then "" else "M") ++ (if utf8 then "" else "O") else ""
  let o := match r with | some (some _) => "some" | some none => "none" | none => "outside"
  let n := fs.length
  let sz := if n == 0 then "h0" else if n < 10 then "h1-9" else if n < 100 then "h10-99" else if n == 100 then "h100" else "h>100"
  pure (verdictOf impl (showModelReq r) spec kf
    s!"hreq:{if wf then "wf" else if wfAny then "wfm" else "nwf"}:{o}:{sz}:{bodyTag body}{if feat.isEmpty then "" else ":x" ++ feat}")

/-- `C05.hres <ver> <status> <reason> <fields> <body>` -/
def headRes (impl : String) : P Verdict := do
  let v ← pVer; let st ← bytes; let rp ← bytes
  let fs ← list pField; let body ← bytes
  let h : ResHead := { ver := v, status := st, reason := rp, fields := fs }
  let data := renderRes h ++ body
  let r := processorsParseResponse noH2 data
  let wf := decide (WFRes h)
  let wfRfc := decide (WFResRfc h)
  let spec := if wfRfc then some (showObsRes (some (reportRes h))) else none
  let kf : List String := if wfRfc && !wf then ["KF.C05.obsTextNotUtf8"] else []
  let feat := if wf then featFields false h.fields else if wfRfc then "O" else ""
  let n := fs.length
  let sz := if n == 0 then "h0" else if n < 10 then "h1-9" else if n < 100 then "h10-99" else if n == 100 then "h100" else "h>100"
  pure (verdictOf impl (showObsRes r) spec kf
    s!"hres:{if wf then "wf" else if wfRfc then "wfm" else "nwf"}:{if r.isSome then "some" else "none"}:{sz}:{bodyTag body}{if feat.isEmpty then "" else ":x" ++ feat}")

def showLang : Option (Option Bytes) → String
  | none => "OUTSIDE-MODEL"
  | some r => optB r

/-- `C05.lang <accept-language>` — `get_highest_quality_language` on raw text (no specification) -/
def langRaw (impl : String) : P Verdict := do
  let al ← bytes
  let r := highestQualityLanguage al
  pure (verdictOf impl (showLang r) none []
    s!"lang:{match r with | none => "outside" | some none => "none" | some (some _) => "some"}")

/-- `C05.hlang <items>` — a structured Accept-Language list, rendered -/
def langList (impl : String) : P Verdict := do
  let ls ← list pLangItem
  let al := renderLangs ls
  let r := highestQualityLanguage al
  let wf := !ls.isEmpty && ls.all (fun i => decide (LangItemWF i))
  let spec := if wf then some (optB (preferredLang ls)) else none
  let kf : List String := []
  let feat := if wf then (if ls.any weightFeat then "w" else "") ++ (if ls.any tagFeat then "t" else "") else ""
  let ties := (ls.filter (fun i => (knownLang i).isSome)).length
  pure (verdictOf impl (showLang r) spec kf
    s!"hlang:{if wf then "wf" else "nwf"}:{match r with | none => "outside" | some none => "none" | some (some _) => "some"}:known{if ties ≥ 3 then "3+" else toString ties}{if feat.isEmpty then "" else ":x" ++ feat}")

def handlers : List (String × (String → P Verdict)) :=
  [("C05.preq", parserReq), ("C05.pres", parserRes), ("C05.req", procReq), ("C05.res", procRes),
   ("C05.hreq", headReq), ("C05.hres", headRes), ("C05.lang", langRaw), ("C05.hlang", langList)]

end Huginn.Drv.C05
