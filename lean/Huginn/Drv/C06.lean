import Huginn.Drv.Proto
import Huginn.Spec.SigText
import Huginn.Gen.Bundled
import Huginn.Gen.BundledChars
namespace Huginn.Drv.C06
open Huginn.Drv Huginn.Sig Huginn.SigText Huginn.SigText.Spec

/-! ### wire encodings (mirrored in harness/src/c06.rs) -/

/-- text = hex of its UTF-8 bytes, decoded properly (signature text may carry any Unicode) -/
def utext : P Str := do
  let b ← bytes
  match String.fromUTF8? (ByteArray.mk b.toArray) with
  | some s => pure s.toList
  | none => failure

def hexText (s : Str) : String := hexOf (String.ofList s).toUTF8.toList

def sp (xs : List String) : String := " ".intercalate xs
def encOptNat : Option Nat → String
  | none => "0"
  | some n => s!"1 {n}"
def encList {α} (f : α → String) (xs : List α) : String :=
  if xs.isEmpty then "0" else s!"{xs.length} {sp (xs.map f)}"

def pIpVersion : P IpVersion := do
  let k ← nat; pure (match k with | 0 => .v4 | 1 => .v6 | _ => .any)
def encIpVersion : IpVersion → String | .v4 => "0" | .v6 => "1" | .any => "2"

def pTtl : P Ttl := do
  let k ← nat; let a ← nat; let b ← nat
  pure (match k with | 0 => .value a | 1 => .distance a b | 2 => .guess a | _ => .bad a)
def encTtl : Ttl → String
  | .value a => s!"0 {a} 0" | .distance a b => s!"1 {a} {b}" | .guess a => s!"2 {a} 0" | .bad a => s!"3 {a} 0"

def pWSize : P WindowSize := do
  let k ← nat; let n ← nat
  pure (match k with | 0 => .mss n | 1 => .mtu n | 2 => .value n | 3 => .mod n | _ => .any)
def encWSize : WindowSize → String
  | .mss n => s!"0 {n}" | .mtu n => s!"1 {n}" | .value n => s!"2 {n}" | .mod n => s!"3 {n}" | .any => "4 0"

def pOpt : P TcpOption := do
  let k ← nat; let n ← nat
  pure (match k with
    | 0 => .eol n | 1 => .nop | 2 => .mss | 3 => .ws | 4 => .sok | 5 => .sack | 6 => .ts | _ => .unknown n)
def encOpt : TcpOption → String
  | .eol n => s!"0 {n}" | .nop => "1 0" | .mss => "2 0" | .ws => "3 0" | .sok => "4 0" | .sack => "5 0"
  | .ts => "6 0" | .unknown n => s!"7 {n}"

def pQuirk : P Quirk := do
  let k ← nat
  match allQuirks[k]? with | some q => pure q | none => failure
def encQuirk (q : Quirk) : String := toString (allQuirks.findIdx (· == q))

def pPayload : P PayloadSize := do
  let k ← nat; pure (match k with | 0 => .zero | 1 => .nonZero | _ => .any)
def encPayload : PayloadSize → String | .zero => "0" | .nonZero => "1" | .any => "2"

def pTcpSig : P TcpSig := do
  let version ← pIpVersion; let ittl ← pTtl; let olen ← nat; let mss ← opt nat
  let wsize ← pWSize; let wscale ← opt nat; let olayout ← list pOpt; let quirks ← list pQuirk
  let pclass ← pPayload
  pure { version, ittl, olen, mss, wsize, wscale, olayout, quirks, pclass }

def encTcp (s : TcpSig) : String :=
  sp [encIpVersion s.version, encTtl s.ittl, toString s.olen, encOptNat s.mss, encWSize s.wsize,
      encOptNat s.wscale, encList encOpt s.olayout, encList encQuirk s.quirks, encPayload s.pclass]

def pHttpVersion : P HttpVersion := do
  let k ← nat; pure (match k with | 0 => .v10 | 1 => .v11 | 2 => .v20 | 3 => .v30 | _ => .any)
def encHttpVersion : HttpVersion → String
  | .v10 => "0" | .v11 => "1" | .v20 => "2" | .v30 => "3" | .any => "4"

def pHeader : P HeaderL := do
  let o ← bool; let n ← utext; let v ← opt utext
  pure { optional := o, name := n, value := v }
def encHeader (h : HeaderL) : String :=
  sp [if h.optional then "1" else "0", hexText h.name,
      match h.value with | none => "0" | some v => s!"1 {hexText v}"]

def pHttpSig : P HttpSigL := do
  let version ← pHttpVersion; let horder ← list pHeader; let habsent ← list pHeader; let expsw ← utext
  pure { version, horder, habsent, expsw }
def encHttp (s : HttpSigL) : String :=
  sp [encHttpVersion s.version, encList encHeader s.horder, encList encHeader s.habsent, hexText s.expsw]

/-! ### tags (model branches exercised) -/

def ttlTag : Ttl → String | .value _ => "v" | .distance _ _ => "d" | .guess _ => "g" | .bad _ => "b"
def wsTag : WindowSize → String | .mss _ => "mss" | .mtu _ => "mtu" | .value _ => "val" | .mod _ => "mod" | .any => "any"
def olTag (l : List TcpOption) : String :=
  if l.isEmpty then "none" else
  (if l.any (fun o => match o with | .eol _ => true | _ => false) then "E" else "") ++
  (if l.any (fun o => match o with | .unknown _ => true | _ => false) then "U" else "") ++
  (if l.any (fun o => match o with | .eol _ | .unknown _ => false | _ => true) then "P" else "")
def tcpTag (s : TcpSig) : String :=
  s!"t{ttlTag s.ittl}/w{wsTag s.wsize}/o{olTag s.olayout}/q{if s.quirks.isEmpty then 0 else 1}/m{if s.mss.isSome then 1 else 0}{if s.wscale.isSome then 1 else 0}"

def hdrTag (l : List HeaderL) : String :=
  if l.isEmpty then "none" else
  (if l.any (·.optional) then "O" else "") ++ (if l.any (·.value.isSome) then "V" else "") ++
  (if l.any (·.name.isEmpty) then "E" else "") ++ "n"
def httpTag (s : HttpSigL) : String :=
  s!"v{encHttpVersion s.version}/h{hdrTag s.horder}/a{hdrTag s.habsent}/s{if s.expsw.isEmpty then 0 else 1}"

/-! ### handlers -/

/-- `C06.tcp <sig>` — `to_string` then `from_str` on `tcp::Signature`.
impl: `<hex text> ok <sig>` | `<hex text> err`.  Spec: the re-parsed value is the original one, and the
independent reference reader `refTcp` reads the *implementation's* text back to the original value. -/
def tcpRoundTrip (impl : String) : P Verdict := do
  let s ← pTcpSig
  let text := printTcpSig s
  let re := match parseTcpSigFull text with | some v => "ok " ++ encTcp v | none => "err"
  let model := s!"{hexText text} {re}"
  let want := s!"ok {encTcp s}"
  let (implText, implRe) := match impl.splitOn " " with
    | t :: r => (t, sp r)
    | [] => ("", "")
  let refOk := match hexDecode implText.toList with
    | some b => (match String.fromUTF8? (ByteArray.mk b.toArray) with
        | some t => refTcp t.toList == some s
        | none => false)
    | none => false
  let specified := decide (WFTcp s)
  pure { modelEq := impl == model,
         specOk := if specified then some (implRe == want && refOk) else none,
         kf := [], tag := "tcp/" ++ tcpTag s, model := model, spec := s!"<text read back by refTcp> {want}" }

/-- canonical numerals: no digit run starts with `0` unless it is `0` itself -/
def noLeadingZeros (t : Str) : Bool := canonNumsB false t

/-- `C06.ptcp <text>` — `tcp::Signature::from_str` on arbitrary text, then `to_string`.
impl: `ok <sig> <hex reprint>` | `err`.  Spec: accepted iff `refTcp` reads it, with the same value; a
canonical text (no leading zeros) must print back identically. -/
def tcpParse (impl : String) : P Verdict := do
  let t ← utext
  let model := match parseTcpSigFull t with
    | some v => s!"ok {encTcp v} {hexText (printTcpSig v)}"
    | none => "err"
  let kf : List String := []
  let (specOk, spec) := match refTcp t with
    | none => (impl == "err", "err")
    | some v =>
      let pre := s!"ok {encTcp v} "
      if noLeadingZeros t then (impl == pre ++ hexText t, pre ++ hexText t)
      else (impl.startsWith pre, pre ++ "<any>")
  let tag := match parseTcpSigFull t with
    | some v => "ptcp/ok/" ++ (if noLeadingZeros t then "canon/" else "noncanon/") ++ tcpTag v
    | none => "ptcp/err"
  pure { modelEq := impl == model, specOk := some specOk, kf := kf, tag := tag, model := model, spec := spec }

/-- `C06.http <sig>` — `to_string` then `from_str` on `http::Signature`. -/
def httpRoundTrip (impl : String) : P Verdict := do
  let s ← pHttpSig
  let text := printHttpSigL s
  let re := match parseHttpSigFullL text with | some v => "ok " ++ encHttp v | none => "err"
  let model := s!"{hexText text} {re}"
  let want := s!"ok {encHttp s}"
  let implRe := match impl.splitOn " " with | _ :: r => sp r | [] => ""
  let specified := decide (WFHttpL s)
  let kf : List String := []
  pure { modelEq := impl == model,
         specOk := if specified then some (implRe == want) else none,
         kf := kf, tag := "http/" ++ httpTag s, model := model, spec := s!"<text> {want}" }

/-- `C06.phttp <text>` — `http::Signature::from_str` on arbitrary text (model correspondence only). -/
def httpParse (impl : String) : P Verdict := do
  let t ← utext
  let model := match parseHttpSigFullL t with
    | some v => s!"ok {encHttp v} {hexText (printHttpSigL v)}"
    | none => "err"
  let tag := match parseHttpSigFullL t with
    | some v => "phttp/ok/" ++ httpTag v
    | none => "phttp/err"
  pure { modelEq := impl == model, specOk := none, kf := [], tag := tag, model := model, spec := "-" }

/-- `C06.line <lineNo> <section> <text>` — one `sig =` line of the bundled p0f.fp: `from_str` then
`to_string`.  The line must be the one the extractor put into `Gen.Bundled.sigLines` and
`Gen.BundledChars`. -/
def bundledLine (impl : String) : P Verdict := do
  let no ← nat; let sec ← tok; let t ← utext
  if !(Gen.Bundled.sigLines.contains (no, sec, String.ofList t)) then failure
  let isTcp := sec.startsWith "tcp"
  -- the character-list copy the theorems `bundled_roundtrip_*` quantify over has this line too
  if !((if isTcp then Gen.BundledChars.tcpSigs else Gen.BundledChars.httpSigs).contains t) then failure
  let model :=
    if isTcp then match parseTcpSigFull t with | some v => hexText (printTcpSig v) | none => "err"
    else match parseHttpSigFullL t with | some v => hexText (printHttpSigL v) | none => "err"
  pure (verdictOf impl model (some (hexText t)) [] (if isTcp then "line/tcp" else "line/http"))

def genTables : List (String × List Gen.Tokens.Arm × List (String × String)) :=
  [("ipver", Gen.Tokens.ipVersionParse, Gen.Tokens.ipVersionPrint),
   ("quirk", Gen.Tokens.quirkParse, Gen.Tokens.quirkPrint),
   ("payload", Gen.Tokens.payloadParse, Gen.Tokens.payloadPrint),
   ("httpver", Gen.Tokens.httpVersionParse, Gen.Tokens.httpVersionPrint),
   ("opt", Gen.Tokens.tcpOptionParse, Gen.Tokens.tcpOptionPrint),
   ("ltype", Gen.Tokens.labelTypeParse, [])]

def modelParseTok (table : String) (t : Str) : Option String :=
  match table with
  | "ipver" => (full parseIpVersion t).map ipVersionName
  | "quirk" => (full parseQuirk t).map quirkName
  | "payload" => (full parsePayload t).map payloadName
  | "httpver" => (full parseHttpVersion t).map httpVersionName
  | "opt" => (full parseOpt t).bind fun o => match o with
      | .eol _ | .unknown _ => none | o => some (tcpOptionName o)
  | "ltype" => (full parseLabelType t).map labelTypeName
  | _ => none

/-- `C06.tokp <table> <candidate text>` — does the implementation's parser accept exactly this token,
and as which variant?  impl: `<Variant>` | `err`.  Spec: the regenerated `alt` table has the token. -/
def tokParse (impl : String) : P Verdict := do
  let table ← tok; let t ← utext
  let model := (modelParseTok table t).getD "err"
  let arms := ((genTables.lookup table).map (·.1)).getD []
  let spec := match arms.find? (fun (k, tk, _, _) => k == "tag" && tk.toList == t) with
    | some (_, _, _, v) => v
    | none => "err"
  pure (verdictOf impl model (some spec) [] s!"tokp/{table}/{if model == "err" then "err" else "ok"}")

/-- `C06.tokd <table> <Variant>` — what `Display` prints for a variant.  impl: hex text.
Spec: the regenerated `Display` table. -/
def tokDisplay (impl : String) : P Verdict := do
  let table ← tok; let v ← tok
  let prt := ((genTables.lookup table).map (·.2)).getD []
  let model := match table with
    | "ipver" => (ipVersionOfName v).map printIpVersion
    | "quirk" => (quirkOfName v).map printQuirk
    | "payload" => (payloadOfName v).map printPayload
    | "httpver" => (httpVersionOfName v).map printHttpVersion
    | "opt" => (plainOptOfName v).map printOpt
    | _ => none
  let spec := (prt.lookup v).map (fun t => hexText t.toList)
  pure (verdictOf impl ((model.map hexText).getD "?") (some (spec.getD "?")) [] s!"tokd/{table}")

/-! ### labels -/

def pLabel : P LabelL := do
  let t ← nat; let c ← opt utext; let n ← utext; let f ← opt utext
  pure { ty := if t == 0 then .specified else .generic, cls := c, name := n, flavor := f }
def encOptText : Option Str → String
  | none => "0"
  | some t => s!"1 {hexText t}"
def encLabel (l : LabelL) : String :=
  sp [match l.ty with | .specified => "0" | .generic => "1", encOptText l.cls, hexText l.name, encOptText l.flavor]

/-- `C06.plabel <text>` — `Label::from_str`, then `to_string`.  impl: `ok <label> <hex display>` | `err`.
Spec: accepted iff the reference reader `refLabel` reads it, with the same fields (the `Display` text of a
label is not the file syntax and is outside the statement: compared against the model only). -/
def labelParse (impl : String) : P Verdict := do
  let t ← utext
  let model := match full parseLabelL t with
    | some l => s!"ok {encLabel l} {hexText (printLabelL l)}"
    | none => "err"
  let (specOk, spec) := match refLabel t with
    | none => (impl == "err", "err")
    | some l => (impl.startsWith s!"ok {encLabel l} ", s!"ok {encLabel l} <display>")
  pure { modelEq := impl == model, specOk := some specOk, kf := [],
         tag := if model == "err" then "plabel/err" else "plabel/ok", model := model, spec := spec }

/-! ### documents -/

def pPad : P Pad := do
  let a ← utext; let b ← utext; let c ← utext; let d ← utext
  pure { lead := a, pre := b, post := c, trail := d }

def pMisc : P Misc := do
  let k ← nat
  match k with
  | 0 => do let l ← utext; let t ← utext; pure (.comment l t)
  | 1 => do let w ← utext; pure (.blank w)
  | 2 => do let p ← pPad; let cs ← list utext; pure (.classes p cs)
  | _ => do let p ← pPad; let rs ← list (pair utext (opt utext)); pure (.uaOs p rs)

def pItem {lab σ} (pl : P lab) (ps : P σ) : P (Item lab σ) := do
  let k ← nat
  match k with
  | 0 => do let m ← pMisc; pure (.misc m)
  | 1 => do let p ← pPad; let l ← pl; pure (.label p l)
  | 2 => do let p ← pPad; let t ← utext; pure (.sys p t)
  | _ => do let p ← pPad; let s ← ps; pure (.sig p s)

def pSection : P Section := do
  let k ← nat; let lead ← utext; let trail ← utext
  match k with
  | 0 => do let r ← bool; let it ← list (pItem pLabel pTcpSig); pure (.tcp lead trail r it)
  | 1 => do let r ← bool; let it ← list (pItem pLabel pHttpSig); pure (.http lead trail r it)
  | 2 => do let it ← list (pItem utext nat); pure (.mtu lead trail it)
  | _ => do
    let m ← utext; let d ← opt utext; let it ← list (pItem pLabel utext)
    pure (.other lead trail m d it)

def pDoc : P Doc := do
  let pre ← list pMisc; let secs ← list pSection
  pure { pre := pre, sections := secs }

def encTable {σ} (f : σ → String) (t : Table σ) : String :=
  encList (fun (e : Label × List σ) => sp [encLabel (.ofSig e.1), encList f e.2]) t

/-- canonical value form of a loaded database (mirrored by `db_values` in the harness) -/
def dbValues (db : Db) : String :=
  sp ["ok", "C", encList hexText db.classes,
      "M", encList (fun (e : Str × List Nat) => sp [hexText e.1, encList toString e.2]) db.mtu,
      "U", encList (fun (e : Str × Option Str) => sp [hexText e.1, encOptText e.2]) db.uaOs,
      "T0", encTable encTcp db.tcpReq, "T1", encTable encTcp db.tcpResp,
      "H0", encTable (fun s => encHttp (.ofSig s)) db.httpReq,
      "H1", encTable (fun s => encHttp (.ofSig s)) db.httpResp]

def loadOut (text : Str) : String :=
  match loadDb text with
  | .ok db => dbValues db
  | .error e => "err:" ++ e.name

def insertAt {α} (l : List α) (i : Nat) (x : α) : List α := l.take i ++ x :: l.drop i

def sectionItemsLabels : Section → List Bool     -- per item: is it a label
  | .tcp _ _ _ it => it.map fun | .label _ _ => true | _ => false
  | .http _ _ _ it => it.map fun | .label _ _ => true | _ => false
  | .mtu _ _ it => it.map fun | .label _ _ => true | _ => false
  | .other _ _ _ _ it => it.map fun | .label _ _ => true | _ => false

def tableKey : Section → String
  | .tcp _ _ r _ => if r then "T1" else "T0"
  | .http _ _ r _ => if r then "H1" else "H0"
  | .mtu _ _ _ => "M"
  | .other _ _ _ _ _ => "-"

structure Fault where
  kind : Nat
  sec : Nat       -- 0: before the first section; k+1: in section k
  idx : Nat
  text : Str      -- kind 0: the whole line; otherwise the value after `sig = ` / `label = `
  deriving Repr

def pFault : P (Option Fault) := do
  let b ← bool
  if !b then pure none else do
    let k ← nat; let s ← nat; let i ← nat; let t ← utext
    pure (some { kind := k, sec := s, idx := i, text := t })

def faultLine (f : Fault) : Str :=
  if f.kind == 0 then f.text
  else if f.kind == 3 then "label = ".toList ++ f.text
  else "sig = ".toList ++ f.text

def linesWithFault (d : Doc) (f : Option Fault) : List Str :=
  match f with
  | none => docLines d
  | some f =>
    if f.sec == 0 then insertAt (d.pre.map renderMisc) f.idx (faultLine f) ++ d.sections.flatMap sectionLines
    else
      d.pre.map renderMisc ++
      (d.sections.zipIdx.flatMap fun (s, k) =>
        if k + 1 == f.sec then
          match sectionLines s with
          | h :: items => h :: insertAt items f.idx (faultLine f)
          | [] => []
        else sectionLines s)

/-- is a label of the same table written before position (sec, idx)? -/
def labelBefore (d : Doc) (f : Fault) : Bool :=
  match d.sections[f.sec - 1]? with
  | none => false
  | some s =>
    ((d.sections.take (f.sec - 1)).any fun s' => tableKey s' == tableKey s && (sectionItemsLabels s').any id) ||
    ((sectionItemsLabels s).take f.idx).any id

/-- the inserted line really is one of the faults the statement names -/
def faultGenuine (d : Doc) (f : Fault) : Bool :=
  let sec := d.sections[f.sec - 1]?
  let key := (sec.map tableKey).getD "-"
  match f.kind with
  | 0 => f.sec == 0 &&
      (let t := trim f.text
       !t.isEmpty && t.head? != some ';' && t.head? != some '[' &&
       (stripPrefix classesKw t).isNone && (stripPrefix uaOsKw t).isNone)
  | 1 => f.sec != 0 && key != "-" && !labelBefore d f &&
      (if key == "M" then f.text == "1500".toList
       else if key.startsWith "T" then (refTcp f.text).isSome
       else (parseHttpSigFullL f.text).isSome)
  | 2 => f.sec != 0 && labelBefore d f &&
      (if key.startsWith "T" then (refTcp f.text).isNone
       else if key.startsWith "H" then (parseHttpSigFullL f.text).isNone else false)
  | 3 => f.sec != 0 && key != "M" && (refLabel f.text).isNone
  | 4 => f.sec != 0 && key == "M" && labelBefore d f && (refNum 65535 f.text).isNone &&
      f.text.head? != some '+'
  | _ => false

/-- which loader branches a document exercises: section kinds (M mtu, T/t tcp request/response, H/h http,
O unknown module), `c` classes, `u` ua_os, `y` sys, `r` a table continued in a later section -/
def docShape (d : Doc) : String :=
  let keys := d.sections.map tableKey
  let has (k : String) := keys.contains k
  let ms := allMiscs d
  let sysIn : Section → Bool
    | .tcp _ _ _ it => it.any fun | .sys _ _ => true | _ => false
    | .http _ _ _ it => it.any fun | .sys _ _ => true | _ => false
    | .mtu _ _ it => it.any fun | .sys _ _ => true | _ => false
    | .other _ _ _ _ it => it.any fun | .sys _ _ => true | _ => false
  (if has "M" then "M" else "") ++ (if has "T0" then "T" else "") ++ (if has "T1" then "t" else "") ++
  (if has "H0" then "H" else "") ++ (if has "H1" then "h" else "") ++ (if has "-" then "O" else "") ++
  (if ms.any (fun | .classes _ _ => true | _ => false) then "c" else "") ++
  (if ms.any (fun | .uaOs _ _ => true | _ => false) then "u" else "") ++
  (if d.sections.any sysIn then "y" else "") ++
  (if (keys.filter (· != "-")).eraseDups.length < (keys.filter (· != "-")).length then "r" else "")

/-- `C06.doc <doc> <fault> <text>` — `Database::from_str` on the rendering of a structured document,
optionally with one faulty line inserted.  impl: the loaded database in value form | `err:<kind>`.
Spec: a well-formed document loads to exactly `flatten d`; a document with a genuine fault is rejected. -/
def docLoad (impl : String) : P Verdict := do
  let d ← pDoc; let f ← pFault; let text ← utext
  let mine := renderLines (linesWithFault d f)
  if mine != text then failure    -- harness and specification must render the same text
  let model := loadOut text
  let nsec := d.sections.length
  match f with
  | some f =>
    if !faultGenuine d f then failure
    let kf : List String := []
    pure { modelEq := impl == model, specOk := some (impl.startsWith "err:"), kf := kf,
           tag := s!"doc/fault{f.kind}/" ++ (if model.startsWith "err:" then model else "accepted"),
           model := model, spec := "err:<any>" }
  | none =>
    let wf := decide (WFDoc d)
    let spec := dbValues (flatten d)
    pure { modelEq := impl == model, specOk := if wf then some (impl == spec) else none,
           kf := [],
           tag := (if wf then "doc/wf/" else "doc/nonwf/") ++ s!"s{min nsec 3}{docShape d}/" ++
             (if model.startsWith "err:" then model else "ok"),
           model := model, spec := if wf then spec else "-" }

/-- `C06.raw <text>` — `Database::from_str` on arbitrary text (model correspondence only). -/
def rawLoad (impl : String) : P Verdict := do
  let text ← utext
  let model := loadOut text
  pure { modelEq := impl == model, specOk := none, kf := [],
         tag := if model.startsWith "err:" then "raw/" ++ model else "raw/ok", model := model, spec := "-" }

def fileLabel (l : Label) : String := hexText (renderLabel (.ofSig l))
def printedTable {σ} (pr : σ → Str) (t : Table σ) : String :=
  encList (fun (e : Label × List σ) => sp [fileLabel e.1, encList (fun s => hexText (pr s)) e.2]) t
def specTable (sec : String) : String :=
  match Gen.Bundled.groups.filter (·.1 == sec) with
  | [] => "0"
  | gs => encList (fun (e : String × List String) =>
      sp [hexText e.1.toList, encList (fun s => hexText s.toList) e.2]) (gs.flatMap (·.2))

/-- `C06.bundled <part>` — the bundled database as `Database::load_default` loads it, one part at a
time, in printed form.  Model: the loader model on the regenerated non-comment lines.  Spec: the
extractor's independent (regex) reading of what the file says. -/
def bundled (impl : String) : P Verdict := do
  let part ← tok
  let text := renderLines (Gen.Bundled.lines.map (·.2.2.toList))
  let db := match loadDb text with | .ok db => db | .error _ => {}
  let (model, spec, kf) := match part with
    | "classes" => (encList hexText db.classes, encList (fun s => hexText s.toList) Gen.Bundled.classes, [])
    | "uaos" =>
      (encList (fun (e : Str × Option Str) => sp [hexText e.1, encOptText e.2]) db.uaOs,
       encList (fun (e : String × Option String) => sp [hexText e.1.toList, encOptText (e.2.map String.toList)]) Gen.Bundled.uaOs,
       [])
    | "mtu" =>
      (encList (fun (e : Str × List Nat) => sp [hexText e.1, encList (fun n => hexText (natDigits n)) e.2]) db.mtu,
       specTable "mtu", [])
    | "tcp:request" => (printedTable printTcpSig db.tcpReq, specTable part, [])
    | "tcp:response" => (printedTable printTcpSig db.tcpResp, specTable part, [])
    | "http:request" => (printedTable printHttpSig db.httpReq, specTable part, [])
    | "http:response" => (printedTable printHttpSig db.httpResp, specTable part, [])
    | _ => ("?", "?", [])
  pure (verdictOf impl model (some spec) kf s!"bundled/{part}")

/-- `C06.pcomp <kind> <text>` — the `FromStr` of one component type (`Ttl`, `WindowSize`, `TcpOption`,
`http::Header`) on arbitrary text.  impl: `ok <value>` | `err`.  Spec: the reference readers `refTtl`,
`refWSize`, `refOpt` (headers: model only). -/
def compParse (impl : String) : P Verdict := do
  let kind ← tok; let t ← utext
  let (model, spec) : String × Option String := match kind with
    | "ttl" => ((full parseTtl t).map (fun v => "ok " ++ encTtl v) |>.getD "err",
                some ((refTtl t).map (fun v => "ok " ++ encTtl v) |>.getD "err"))
    | "wsize" => ((full parseWSize t).map (fun v => "ok " ++ encWSize v) |>.getD "err",
                  some ((refWSize t).map (fun v => "ok " ++ encWSize v) |>.getD "err"))
    | "opt" => ((full parseOpt t).map (fun v => "ok " ++ encOpt v) |>.getD "err",
                some ((refOpt t).map (fun v => "ok " ++ encOpt v) |>.getD "err"))
    | "hdr" => ((full parseHeaderL t).map (fun v => "ok " ++ encHeader v) |>.getD "err", none)
    | _ => ("?", none)
  let kf : List String := []
  pure (verdictOf impl model spec kf s!"pcomp/{kind}/{if model == "err" then "err" else "ok"}")

def handlers : List (String × (String → P Verdict)) :=
  [("C06.tcp", tcpRoundTrip), ("C06.ptcp", tcpParse), ("C06.http", httpRoundTrip),
   ("C06.phttp", httpParse), ("C06.line", bundledLine), ("C06.tokp", tokParse), ("C06.tokd", tokDisplay),
   ("C06.plabel", labelParse), ("C06.doc", docLoad), ("C06.raw", rawLoad), ("C06.bundled", bundled),
   ("C06.pcomp", compParse)]

end Huginn.Drv.C06
