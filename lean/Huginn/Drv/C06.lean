import Huginn.Drv.Proto
import Huginn.Spec.SigText
import Huginn.Gen.Bundled
import Huginn.Gen.BundledChars
namespace Huginn.Drv.C06
open Huginn.Drv Huginn.Sig Huginn.SigText Huginn.SigText.Spec

/-! ### wire encodings (mirrored in harness/src/c06.rs) -/

/-- text = hex of its UTF-8 bytes, decoded properly (signature text may carry any Unicode) -/
def utext : P Str := do
  let b ← bytes
  match String.fromUTF8? (ByteArray.mk b.toArray) with
  | some s => pure s.toList
  | none => failure

def hexText (s : Str) : String := hexOf (String.ofList s).toUTF8.toList

def sp (xs : List String) : String := " ".intercalate xs
def encOptNat : Option Nat → String
  | none => "0"
  | some n => s!"1 {n}"
def encList {α} (f : α → String) (xs : List α) : String :=
  if xs.isEmpty then "0" else s!"{xs.length} {sp (xs.map f)}"

def pIpVersion : P IpVersion := do
  let k ← nat; pure (match k with | 0 => .v4 | 1 => .v6 | _ => .any)
def encIpVersion : IpVersion → String | .v4 => "0" | .v6 => "1" | .any => "2"

def pTtl : P Ttl := do
  let k ← nat; let a ← nat; let b ← nat
  pure (match k with | 0 => .value a | 1 => .distance a b | 2 => .guess a | _ => .bad a)
def encTtl : Ttl → String
  | .value a => s!"0 {a} 0" | .distance a b => s!"1 {a} {b}" | .guess a => s!"2 {a} 0" | .bad a => s!"3 {a} 0"

def pWSize : P WindowSize := do
  let k ← nat; let n ← nat
  pure (match k with | 0 => .mss n | 1 => .mtu n | 2 => .value n | 3 => .mod n | _ => .any)
def encWSize : WindowSize → String
  | .mss n => s!"0 {n}" | .mtu n => s!"1 {n}" | .value n => s!"2 {n}" | .mod n => s!"3 {n}" | .any => "4 0"

def pOpt : P TcpOption := do
  let k ← nat; let n ← nat
  pure (match k with
    | 0 => .eol n | 1 => .nop | 2 => .mss | 3 => .ws | 4 => .sok | 5 => .sack | 6 => .ts | _ => .unknown n)
def encOpt : TcpOption → String
  | .eol n => s!"0 {n}" | .nop => "1 0" | .mss => "2 0" | .ws => "3 0" | .sok => "4 0" | .sack => "5 0"
  | .ts => "6 0" | .unknown n => s!"7 {n}"

def pQuirk : P Quirk := do
  let k ← nat
  match allQuirks[k]? with | some q => pure q | none => failure
def encQuirk (q : Quirk) : String := toString (allQuirks.findIdx (· == q))

def pPayload : P PayloadSize := do
  let k ← nat; pure (match k with | 0 => .zero | 1 => .nonZero | _ => .any)
def encPayload : PayloadSize → String | .zero => "0" | .nonZero => "1" | .any => "2"

def pTcpSig : P TcpSig := do
  let version ← pIpVersion; let ittl ← pTtl; let olen ← nat; let mss ← opt nat
  let wsize ← pWSize; let wscale ← opt nat; let olayout ← list pOpt; let quirks ← list pQuirk
  let pclass ← pPayload
  pure { version, ittl, olen, mss, wsize, wscale, olayout, quirks, pclass }

def encTcp (s : TcpSig) : String :=
  sp [encIpVersion s.version, encTtl s.ittl, toString s.olen, encOptNat s.mss, encWSize s.wsize,
      encOptNat s.wscale, encList encOpt s.olayout, encList encQuirk s.quirks, encPayload s.pclass]

def pHttpVersion : P HttpVersion := do
  let k ← nat; pure (match k with | 0 => .v10 | 1 => .v11 | 2 => .v20 | 3 => .v30 | _ => .any)
def encHttpVersion : HttpVersion → String
  | .v10 => "0" | .v11 => "1" | .v20 => "2" | .v30 => "3" | .any => "4"

def pHeader : P HeaderL := do
  let o ← bool; let n ← utext; let v ← opt utext
  pure { optional := o, name := n, value := v }
def encHeader (h : HeaderL) : String :=
  sp [if h.optional then "1" else "0", hexText h.name,
      match h.value with | none => "0" | some v => s!"1 {hexText v}"]

def pHttpSig : P HttpSigL := do
  let version ← pHttpVersion; let horder ← list pHeader; let habsent ← list pHeader; let expsw ← utext
  pure { version, horder, habsent, expsw }
def encHttp (s : HttpSigL) : String :=
  sp [encHttpVersion s.version, encList encHeader s.horder, encList encHeader s.habsent, hexText s.expsw]

/-! ### tags (model branches exercised) -/

def ttlTag : Ttl → String | .value _ => "v" | .distance _ _ => "d" | .guess _ => "g" | .bad _ => "b"
def wsTag : WindowSize → String | .mss _ => "mss" | .mtu _ => "mtu" | .value _ => "val" | .mod _ => "mod" | .any => "any"
def olTag (l : List TcpOption) : String :=
  if l.isEmpty then "none" else
  (if l.any (fun o => match o with | .eol _ => true | _ => false) then "E" else "") ++
  (if l.any (fun o => match o with | .unknown _ => true | _ => false) then "U" else "") ++
  (if l.any (fun o => match o with | .eol _ | .unknown _ => false | _ => true) then "P" else "")
def tcpTag (s : TcpSig) : String :=
  s!"t{ttlTag s.ittl}/w{wsTag s.wsize}/o{olTag s.olayout}/q{if s.quirks.isEmpty then 0 else 1}/m{if s.mss.isSome then 1 else 0}{if s.wscale.isSome then 1 else 0}"

def hdrTag (l : List HeaderL) : String :=
  if l.isEmpty then "none" else
  (if l.any (·.optional) then "O" else "") ++ (if l.any (·.value.isSome) then "V" else "") ++
  (if l.any (·.name.isEmpty) then "E" else "") ++ "n"
def httpTag (s : HttpSigL) : String :=
  s!"v{encHttpVersion s.version}/h{hdrTag s.horder}/a{hdrTag s.habsent}/s{if s.expsw.isEmpty then 0 else 1}"

/-! ### handlers -/

/-- `C06.tcp <sig>` — `to_string` then `from_str` on `tcp::Signature`.
impl: `<hex text> ok <sig>` | `<hex text> err`.  Spec: the re-parsed value is the original one, and the
independent reference reader `refTcp` reads the *implementation's* text back to the original value. -/
def tcpRoundTrip (impl : String) : P Verdict := do
  let s ← pTcpSig
  let text := printTcpSig s
  let re := match parseTcpSigFull text with | some v => "ok " ++ encTcp v | none => "err"
  let model := s!"{hexText text} {re}"
  let want := s!"ok {encTcp s}"
  let (implText, implRe) := match impl.splitOn " " with
    | t :: r => (t, sp r)
    | [] => ("", "")
  let refOk := match hexDecode implText.toList with
    | some b => (match String.fromUTF8? (ByteArray.mk b.toArray) with
        | some t => refTcp t.toList == some s
        | none => false)
    | none => false
  let specified := decide (WFTcp s)
  pure { modelEq := impl == model,
         specOk := if specified then some (implRe == want && refOk) else none,
         kf := [], tag := "tcp/" ++ tcpTag s, model := model, spec := s!"<text read back by refTcp> {want}" }

/-- canonical numerals: no digit run starts with `0` unless it is `0` itself -/
def nlz (prevDigit : Bool) : Str → Bool
  | [] => true
  | c :: cs =>
    (if c == '0' && !prevDigit then match cs with | d :: _ => !d.isDigit | [] => true else true) &&
    nlz c.isDigit cs
def noLeadingZeros (t : Str) : Bool := nlz false t

/-- `C06.ptcp <text>` — `tcp::Signature::from_str` on arbitrary text, then `to_string`.
impl: `ok <sig> <hex reprint>` | `err`.  Spec: accepted iff `refTcp` reads it, with the same value; a
canonical text (no leading zeros) must print back identically. -/
def tcpParse (impl : String) : P Verdict := do
  let t ← utext
  let model := match parseTcpSigFull t with
    | some v => s!"ok {encTcp v} {hexText (printTcpSig v)}"
    | none => "err"
  let kf := if decide (Huginn.KF.C06.unknownKindOverflow t) then ["KF.C06.unknownKindOverflow"] else []
  let (specOk, spec) := match refTcp t with
    | none => (impl == "err", "err")
    | some v =>
      let pre := s!"ok {encTcp v} "
      if noLeadingZeros t then (impl == pre ++ hexText t, pre ++ hexText t)
      else (impl.startsWith pre, pre ++ "<any>")
  let tag := match parseTcpSigFull t with
    | some v => "ptcp/ok/" ++ (if noLeadingZeros t then "canon/" else "noncanon/") ++ tcpTag v
    | none => "ptcp/err"
  pure { modelEq := impl == model, specOk := some specOk, kf := kf, tag := tag, model := model, spec := spec }

/-- `C06.http <sig>` — `to_string` then `from_str` on `http::Signature`. -/
def httpRoundTrip (impl : String) : P Verdict := do
  let s ← pHttpSig
  let text := printHttpSigL s
  let re := match parseHttpSigFullL text with | some v => "ok " ++ encHttp v | none => "err"
  let model := s!"{hexText text} {re}"
  let want := s!"ok {encHttp s}"
  let implRe := match impl.splitOn " " with | _ :: r => sp r | [] => ""
  let specified := decide (WFHttpL s)
  let kf := if decide (Huginn.KF.C06.httpEmptyHorder s) then ["KF.C06.httpEmptyHorder"] else []
  pure { modelEq := impl == model,
         specOk := if specified then some (implRe == want) else none,
         kf := kf, tag := "http/" ++ httpTag s, model := model, spec := s!"<text> {want}" }

/-- `C06.phttp <text>` — `http::Signature::from_str` on arbitrary text (model correspondence only). -/
def httpParse (impl : String) : P Verdict := do
  let t ← utext
  let model := match parseHttpSigFullL t with
    | some v => s!"ok {encHttp v} {hexText (printHttpSigL v)}"
    | none => "err"
  let tag := match parseHttpSigFullL t with
    | some v => "phttp/ok/" ++ httpTag v
    | none => "phttp/err"
  pure { modelEq := impl == model, specOk := none, kf := [], tag := tag, model := model, spec := "-" }

/-- `C06.line <lineNo> <section> <text>` — one `sig =` line of the bundled p0f.fp: `from_str` then
`to_string`.  The line must be the one the extractor put into `Gen.Bundled.sigLines` and
`Gen.BundledChars`. -/
def bundledLine (impl : String) : P Verdict := do
  let no ← nat; let sec ← tok; let t ← utext
  if !(Gen.Bundled.sigLines.contains (no, sec, String.ofList t)) then failure
  let isTcp := sec.startsWith "tcp"
  -- the character-list copy the theorems `bundled_roundtrip_*` quantify over has this line too
  if !((if isTcp then Gen.BundledChars.tcpSigs else Gen.BundledChars.httpSigs).contains t) then failure
  let model :=
    if isTcp then match parseTcpSigFull t with | some v => hexText (printTcpSig v) | none => "err"
    else match parseHttpSigFullL t with | some v => hexText (printHttpSigL v) | none => "err"
  pure (verdictOf impl model (some (hexText t)) [] (if isTcp then "line/tcp" else "line/http"))

def genTables : List (String × List Gen.Tokens.Arm × List (String × String)) :=
  [("ipver", Gen.Tokens.ipVersionParse, Gen.Tokens.ipVersionPrint),
   ("quirk", Gen.Tokens.quirkParse, Gen.Tokens.quirkPrint),
   ("payload", Gen.Tokens.payloadParse, Gen.Tokens.payloadPrint),
   ("httpver", Gen.Tokens.httpVersionParse, Gen.Tokens.httpVersionPrint),
   ("opt", Gen.Tokens.tcpOptionParse, Gen.Tokens.tcpOptionPrint),
   ("ltype", Gen.Tokens.labelTypeParse, [])]

def modelParseTok (table : String) (t : Str) : Option String :=
  match table with
  | "ipver" => (full parseIpVersion t).map ipVersionName
  | "quirk" => (full parseQuirk t).map quirkName
  | "payload" => (full parsePayload t).map payloadName
  | "httpver" => (full parseHttpVersion t).map httpVersionName
  | "opt" => (full parseOpt t).bind fun o => match o with
      | .eol _ | .unknown _ => none | o => some (tcpOptionName o)
  | "ltype" => (full parseLabelType t).map labelTypeName
  | _ => none

/-- `C06.tokp <table> <candidate text>` — does the implementation's parser accept exactly this token,
and as which variant?  impl: `<Variant>` | `err`.  Spec: the regenerated `alt` table has the token. -/
def tokParse (impl : String) : P Verdict := do
  let table ← tok; let t ← utext
  let model := (modelParseTok table t).getD "err"
  let arms := ((genTables.lookup table).map (·.1)).getD []
  let spec := match arms.find? (fun (k, tk, _, _) => k == "tag" && tk.toList == t) with
    | some (_, _, _, v) => v
    | none => "err"
  pure (verdictOf impl model (some spec) [] s!"tokp/{table}/{if model == "err" then "err" else "ok"}")

/-- `C06.tokd <table> <Variant>` — what `Display` prints for a variant.  impl: hex text.
Spec: the regenerated `Display` table. -/
def tokDisplay (impl : String) : P Verdict := do
  let table ← tok; let v ← tok
  let prt := ((genTables.lookup table).map (·.2)).getD []
  let model := match table with
    | "ipver" => (ipVersionOfName v).map printIpVersion
    | "quirk" => (quirkOfName v).map printQuirk
    | "payload" => (payloadOfName v).map printPayload
    | "httpver" => (httpVersionOfName v).map printHttpVersion
    | "opt" => (plainOptOfName v).map printOpt
    | _ => none
  let spec := (prt.lookup v).map (fun t => hexText t.toList)
  pure (verdictOf impl ((model.map hexText).getD "?") (some (spec.getD "?")) [] s!"tokd/{table}")

def handlers : List (String × (String → P Verdict)) :=
  [("C06.tcp", tcpRoundTrip), ("C06.ptcp", tcpParse), ("C06.http", httpRoundTrip),
   ("C06.phttp", httpParse), ("C06.line", bundledLine), ("C06.tokp", tokParse), ("C06.tokd", tokDisplay)]

end Huginn.Drv.C06
