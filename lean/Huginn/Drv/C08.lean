import Huginn.Drv.Proto
import Huginn.Model.Ja4
import Huginn.Spec.TlsReader
import Huginn.Spec.Sha256
namespace Huginn.Drv.C08
open Huginn.Drv Huginn.Tls

/-- The concrete parser the driver plugs into the reader model (the theorems hold for any). -/
def parse (b : Bytes) : PR Signature := parseClientHello knownBodyOk b

/-- The harness prints fingerprints with everything but letters, digits and `_` escaped as `\\u{hex}`.
Only letters, digits and `_` go through unescaped: a JA4 string carries the first and last character of the
first ALPN value verbatim, and `;`, `,`, `/` and the space are separators of this line protocol. -/
def esc (l : List Char) : String :=
  String.join (l.map (fun c =>
    if c.isAlphanum ∨ c = '_' then c.toString
    else "\\u{" ++ String.ofList (Nat.toDigits 16 c.toNat) ++ "}"))

def ja4Of (s : Signature) : String := esc (generateJa4 Huginn.Sha256.sha256 s false).full

def showOut : Out Signature → String
  | .none => "-"
  | .sig s => "sig:" ++ ja4Of s
  | .errTooLarge => "err:too-large"
  | .errParse => "err:parse"

def showPOut : POut Signature → String
  | .none => "-"
  | .sig s => "sig:" ++ ja4Of s
  | .errInsert => "err:insert"

/-- implementation token → abstract output (fingerprint string as the signature). -/
def readOut (t : String) : Option (Out String) :=
  if t == "-" then some .none
  else if t.startsWith "sig:" then some (.sig (t.drop 4).toString)
  else if t == "err:too-large" then some .errTooLarge
  else if t == "err:parse" then some .errParse
  else if t == "err:insert" then some .errParse
  else none

def addTag (tags : List String) (t : String) : List String := if tags.contains t then tags else tags ++ [t]

/-- run the reader model over the segments: per-segment (output, buffer length) and the tags met. -/
def runReader : Reader Signature → List Bytes → List String → List String × List String
  | _, [], tags => ([], tags)
  | r, s :: rest, tags =>
    let x := r.addBytesT parse s
    let (os, tags') := runReader x.1 rest (addTag tags x.2.2)
    ((showOut x.2.1 ++ "/" ++ toString x.1.buffer.length) :: os, tags')

/-- `C08.rd <n> seg… => <single>;<out>/<buffer_len> …` — `TlsClientHelloReader::add_bytes` per segment;
`single` = a fresh reader given all the bytes at once. -/
def reader (impl : String) : P Verdict := do
  let segs ← list bytes
  let whole := segs.flatten
  let single := (Reader.init.addBytes parse whole).2
  let (outs, tags) := runReader Reader.init segs []
  let model := showOut single ++ ";" ++ " ".intercalate outs
  -- specification on the implementation's own outputs
  let specOk : Option Bool :=
    match impl.splitOn ";" with
    | [s1, rest] =>
      let toks := if rest.isEmpty then [] else rest.splitOn " "
      let os := toks.map (fun t => readOut ((t.splitOn "/").headD ""))
      match readOut s1 with
      | some s1 => if os.all Option.isSome then Spec.readerSpec segs s1 (os.filterMap id) else some false
      | none => some false
    | _ => some false
  let shape := (if segs.length == 1 then "1seg" else if segs.length == 2 then "2seg" else if segs.length == 3 then "3seg" else "kseg")
  pure { modelEq := impl == model, specOk := specOk, kf := [], tag := "+".intercalate tags ++ ":" ++ shape,
         model := model, spec := match specOk with | none => "-" | some true => "ok" | some false => "violated" }

def runPk : Flows Nat Signature → List (Nat × Bytes) → List String → List String × List String
  | _, [], tags => ([], tags)
  | f, (k, p) :: rest, tags =>
    let x := processTcpT parse f k p
    let (os, tags') := runPk x.1 rest (addTag tags x.2.2)
    (showPOut x.2.1 :: os, tags')

/-- `C08.pk <cap> <n> (<flow> <payload>)… => <single_0>,…,<single_{F-1}>;<out> …` —
`process_ipv4_packet` / `process_ipv6_packet` on one `TtlCache` of capacity `cap`. -/
def packets (impl : String) : P Verdict := do
  let cap ← nat
  let pks ← list (pair nat bytes)
  let nflows := pks.foldl (fun m p => max m (p.1 + 1)) 0
  let flowSegs (f : Nat) : List Bytes := (pks.filter (fun p => p.1 == f && !p.2.isEmpty)).map (·.2)
  let singles := (List.range nflows).map (fun f => showOut (Reader.init.addBytes parse (flowSegs f).flatten).2)
  let (outs, tags) := runPk { cap := cap } pks []
  let model := ",".intercalate singles ++ ";" ++ " ".intercalate outs
  let specOk : Option Bool :=
    match impl.splitOn ";" with
    | [s1, rest] =>
      let toks := if rest.isEmpty then [] else rest.splitOn " "
      let ss := if s1.isEmpty then [] else s1.splitOn ","
      if toks.length ≠ pks.length ∨ ss.length ≠ nflows then some false
      else if cap < nflows then none     -- eviction possible: isolation is C07's subject
      else
        let os := toks.map readOut
        let s1s := ss.map readOut
        if !(os.all Option.isSome) ∨ !(s1s.all Option.isSome) then some false else
        let os := os.filterMap id
        let s1s := s1s.filterMap id
        let z := pks.zip os
        -- empty payloads never produce anything
        let emptyOk := z.all (fun (p, o) => !p.2.isEmpty || o == Out.none)
        let per := (List.range nflows).map (fun f =>
          Spec.flowSpec (flowSegs f) (s1s.getD f Out.none)
            ((z.filter (fun (p, _) => p.1 == f && !p.2.isEmpty)).map (·.2)))
        if !emptyOk ∨ per.contains (some false) then some false
        else if per.contains none then none else some true
    | _ => some false
  let kf : List String :=
    if (List.range nflows).any (fun f => Spec.laterRecord (flowSegs f)) then ["KF.C08.laterRecordReported"] else []
  pure { modelEq := impl == model, specOk := specOk, kf := kf,
         tag := "+".intercalate tags ++ (if nflows > 1 then ":multi" else ":one"),
         model := model, spec := match specOk with | none => "-" | some true => "ok" | some false => "violated" }

/-- `C08.pool <workers> <segments> <sequential results>` — the per-worker path with idle gaps between the
segments: the pool must deliver exactly what the sequential analyzer reports for the same segments. -/
def pool (impl : String) : P Verdict := do
  let n ← nat; let k ← nat; let seq ← text
  pure (verdictOf impl seq (some seq) [] s!"pool:n{n}:segs{if k > 1 then "N" else "1"}")

def handlers : List (String × (String → P Verdict)) :=
  [("C08.rd", reader), ("C08.pk", packets), ("C08.pool", pool)]

end Huginn.Drv.C08
