import Huginn.Drv.Proto
import Huginn.Drv.C14
import Huginn.Spec.Wire
namespace Huginn.Drv.C15
open Huginn.Drv Huginn.Wire Huginn.Wire.Spec Huginn.Filter Huginn.Filter.Spec

def epStr (e : Ep) : String :=
  s!"{match e.ver with | .v4 => 4 | .v6 => 6}:{hexOf e.src}:{hexOf e.dst}:{e.sp}:{e.dp}"

def optEp : Option Ep → String
  | some e => epStr e
  | none => "-"

/-- parse `4:<hex>:<hex>:<sp>:<dp>` (what the harness prints for endpoints the real analyzer reported) -/
def parseEp (s : String) : Option (Addr × Addr × Nat × Nat) :=
  match s.splitOn ":" with
  | [v, a, b, sp, dp] => do
    let a ← hexDecode a.toList
    let b ← hexDecode b.toList
    let sp ← sp.toNat?
    let dp ← dp.toNat?
    if v == "4" then pure (.v4 (beNat a), .v4 (beNat b), sp, dp)
    else if v == "6" then pure (.v6 (beNat a), .v6 (beNat b), sp, dp)
    else none
  | _ => none

/-- `k=v` fields of the implementation output -/
def field (impl : String) (k : String) : String :=
  match (impl.splitOn " ").filterMap (fun t =>
      match t.splitOn "=" with | [k', v] => if k' == k then some v else none | _ => none) with
  | v :: _ => v
  | [] => ""

def isTlsTraffic (pl : Bytes) : Bool :=
  decide (5 ≤ pl.length) && decide (byte pl 0 = 0x16) &&
    decide (0x0300 ≤ be16 pl 1) && decide (be16 pl 1 ≤ 0x0304)

def frTag (l : Located) : String :=
  (match l.fr with | .eth => "eth" | .raw => "raw" | .null => "null") ++
  (match l.ver with | .v4 => "4" | .v6 => "6")

def rfTag (p : Bytes) : String :=
  match rfEthernet p with
  | some _ => "eth"
  | none => match rfRawIp p with
    | some _ => "raw"
    | none => match rfNull p with
      | some _ => "null"
      | none => "none"

def viewTag (p : Bytes) : String :=
  match baseView p with
  | none => (match parsePacket p with | none => "noparse" | some l => "inert-" ++ frTag l)
  | some v =>
    frTag v.loc ++
      (match v.loc.ver with
       | .v4 => (if v4Ihl v.loc.ip < 5 then "/ihl<5" else if v4Ihl v.loc.ip = 5 then "/ihl=5" else "/ihl>5")
       | .v6 => "") ++
      -- which per-analyzer gates the frame passes: T/t = TCP analyzer (no fragment, valid flags), L/l = TLS (payload)
      ":" ++ (if gate .tcp v then "T" else "t") ++ (if gate .tls v then "L" else "l")

/-- no open known-finding class is left for C15 (IHL < 5 and the loopback header are fixed) -/
def kfOf (_p : Bytes) : List String := []

/-- `C15.frame <cfg> <frame> => ap=<0|1> tcp=<ep|-> http=<ep|-> tls=<ep|-|?>` -/
def frame (impl : String) : P Verdict := do
  let c ← Huginn.Drv.C14.pConfig
  let p ← bytes
  let cfg := c.build
  let ap := rawFilterApply cfg p
  -- what the per-packet APIs let the harness observe on a fresh analyzer
  let tcpO := optEp (analyzerEndpoints .tcp p)
  let httpO := match analyzerView .http p with
    | some v => if tcpFlags v.tcp / 2 % 2 = 1 then epStr v.ep else "-"   -- a flow is created on SYN only
    | none => "-"
  let (tlsO, tlsOpen) := match analyzerView .tls p with
    | some v =>
      let pl := tcpPayload v.tcp
      if isTlsTraffic pl then
        (if be16 pl 3 + 5 ≤ pl.length then ("?", true) else (epStr v.ep, false))  -- complete record: parsed at once
      else ("-", false)
    | none => ("-", false)
  let model := s!"ap={if ap then 1 else 0} tcp={tcpO} http={httpO} tls={tlsO}"
  let implTls := field impl "tls"
  let implN := if tlsOpen then
      s!"ap={field impl "ap"} tcp={field impl "tcp"} http={field impl "http"} tls=?" else impl
  -- specification: the filter's verdict equals the documented rule on every endpoint tuple an
  -- analyzer itself reported for this frame
  let apImpl := field impl "ap" == "1"
  let reported := [field impl "tcp", field impl "http", implTls].filterMap parseEp
  let specOk := reported.all (fun (s, d, sp, dp) => decide (Admits c s d sp dp) == apImpl)
  let unspec := match c.port with | some u => decide (Unspecified u) | none => false
  let tag := viewTag p ++ ":rf-" ++ rfTag p ++ (if reported.isEmpty then ":unobs" else "") ++
    (if ap then ":T" else ":F")
  pure { modelEq := implN == model,
         specOk := if unspec then none else some specOk,
         kf := kfOf p, tag := tag, model := model,
         spec := match reported with
           | [] => "any"
           | (s, d, sp, dp) :: _ => s!"ap={if decide (Admits c s d sp dp) then 1 else 0}" }

def pAnalyzer : P String := tok

/-- `C15.run <analyzer> <cfg> <n> <frames…> => m=<mask> a=<mask> r=<results> u=<results> s=<results>` -/
def runOp (impl : String) : P Verdict := do
  let an ← pAnalyzer
  let c ← Huginn.Drv.C14.pConfig
  let tr ← list bytes
  let cfg := c.build
  let bits (f : Bytes → Bool) : String := String.ofList (tr.map (fun p => if f p then '1' else '0'))
  let m := bits (rawFilterApply cfg)
  let a := bits (ownAdmits .http cfg)
  let r := field impl "r"
  -- model: a rejected frame touches nothing, so the filtered run equals the unfiltered run on the
  -- frames the filter lets through (`u`); the two masks are the model's
  let model := s!"m={m} a={a} r={field impl "u"}"
  let implN := s!"m={field impl "m"} a={field impl "a"} r={r}"
  let specOk := r == field impl "s"
  let kf := (tr.flatMap kfOf).eraseDups
  let unspec := match c.port with | some u => decide (Unspecified u) | none => false
  let tag := s!"run-{an}:" ++ (if m == a then "same" else "diff") ++ (if r == "-" then ":empty" else ":res") ++
     (if m.toList.all (· == '1') then ":all" else if m.toList.all (· == '0') then ":nothing" else ":some")
  pure { modelEq := implN == model, specOk := if unspec then none else some specOk,
         kf := kf, tag := tag, model := model, spec := s!"r={field impl "s"}" }

/-- `C15.par kind workers port deny nframes nseq <sequential filtered results>` — the analyzers' parallel path
with the same filter must deliver exactly the sequential filtered results (which `C15.run` ties to the
specification). -/
def par (impl : String) : P Verdict := do
  let kind ← tok; let _ ← nat; let _ ← nat; let deny ← bool; let _ ← nat; let nseq ← nat; let seq ← text
  let model := s!"{nseq} {seq}"
  pure (verdictOf impl model (some model) [] s!"par:{kind}:{if deny then "deny" else "allow"}:{if nseq == 0 then "empty" else "results"}")

def handlers : List (String × (String → P Verdict)) :=
  [("C15.frame", frame), ("C15.run", runOp), ("C15.par", par)]

end Huginn.Drv.C15
