import Huginn.Drv.Proto
import Huginn.Spec.Ja4
import Huginn.Spec.Sha256
namespace Huginn.Drv.C04
open Huginn.Drv Huginn.Tls Huginn.Tls.Spec

def sha := Huginn.Sha256.sha256

def pExt : P Ext := do
  let k ← nat
  match k with
  | 0 => do let l ← list (pair nat bytes); pure (.serverName l)
  | 1 => do let l ← list bytes; pure (.alpn l)
  | 2 => do let l ← list nat; pure (.supportedVersions l)
  | 3 => do let l ← list nat; pure (.signatureAlgorithms l)
  | 4 => do let l ← list nat; pure (.supportedGroups l)
  | 5 => do let b ← bytes; pure (.ecPointFormats b)
  | 6 => do let t ← nat; let b ← bytes; pure (.other t b)
  | _ => failure

def pHello : P ClientHello := do
  let rv ← nat; let lv ← nat; let rnd ← bytes; let sid ← bytes
  let cs ← list nat; let comp ← bytes
  let ex ← opt (list pExt)
  pure { recordVersion := rv, legacyVersion := lv, random := rnd, sessionId := sid, ciphers := cs,
         compression := comp, extensions := ex }

def natList (l : List Nat) : String := if l.isEmpty then "-" else ",".intercalate (l.map toString)
def optBytes : Option Bytes → String
  | none => "none"
  | some b => hexOf b

/-- canonical rendering of everything the implementation reports (same layout in harness/src/c04.rs) -/
def render (ja4 ja4r ja4o ja4ro ver : String) (sni alpn : Option Bytes) (c e s g : List Nat) : String :=
  s!"J={ja4} R={ja4r} O={ja4o} RO={ja4ro} v={ver} sni={optBytes sni} alpn={optBytes alpn} c={natList c} e={natList e} s={natList s} g={natList g}"

/-- the harness prints fingerprints with everything outside `!`..`~` (and `\\`) escaped as `\\u{hex}` -/
def esc (l : List Char) : String :=
  String.join (l.map (fun c =>
    if '!' ≤ c ∧ c ≤ '~' ∧ c ≠ '\\' then c.toString
    else "\\u{" ++ String.ofList (Nat.toDigits 16 c.toNat) ++ "}"))

def renderReport (r : Report) : String :=
  render (esc r.ja4) (esc r.ja4r) (esc r.ja4o) (esc r.ja4ro) r.version
    r.sni r.alpn r.ciphers r.extensions r.sigAlgs r.groups

def modelOut (b : Bytes) : String × Option Signature :=
  match parseClientHello knownBodyOk b with
  | .err => ("err", none)
  | .notHello => ("none", none)
  | .sig sg => (renderReport (reportOf sha sg), some sg)

def specOut (ch : ClientHello) : Option String := (specReport sha ch).map renderReport

def kfOf (ch : ClientHello) : List String :=
  (if decide (KF.C04.alpnNotUtf8 ch) then ["KF.C04.alpnNotUtf8"] else [])

/-- model branch tag of a parsed hello -/
def tagOf (legacy : Nat) (sg : Signature) : String :=
  let vsrc := (if sg.extensions.contains 43 then "sv:" else "leg:") ++ sg.version.name
  let al := match sg.alpn with
    | none => "a-"
    | some [] => "a0"
    | some a =>
      let n := (a.filter (fun b => !isCont b)).length
      if n ≤ 1 then "a1" else if a.all (fun b => b.toNat < 128) then "a2" else "a9"
  let cc := if sg.ciphers.length > 99 then "+c>99" else if sg.ciphers.isEmpty then "+c0" else ""
  let ec := if sg.extensions.length > 99 then "+e>99" else if sg.extensions.isEmpty then "+e0" else ""
  let sn := if sg.sni.isSome then "+sni" else ""
  let sa := if (filterGrease sg.sigAlgs).isEmpty then "+nosig" else ""
  vsrc ++ "+" ++ al ++ cc ++ ec ++ sn ++ sa

/-- `C04.ja4 <hello> <bytes> => …` — `parse_tls_client_hello(bytes)` and both `generate_ja4*`;
`C04.pk` — the same record through `process_ipv4_packet` (fields of `TlsClientOutput.sig`). -/
def ja4Case (impl : String) : P Verdict := do
  let ch ← pHello
  let b ← bytes
  if encode ch != b then
    pure { modelEq := false, specOk := none, tag := "encode-mismatch", model := hexOf (encode ch), spec := "-" }
  else
    let (m, sg) := modelOut b
    let wf := decide (ch.WF knownBodyOk)
    let spec := if wf then specOut ch else none
    let kf := if wf then kfOf ch else []
    let tag := match sg with
      | some sg => tagOf ch.legacyVersion sg ++ (if wf then "" else "+nonwf") ++ (if spec.isNone then "+unspec" else "")
      | none => "no-sig:" ++ m
    pure (verdictOf impl m spec kf tag)

/-- type of the extension at which `parse_tls_extensions` stopped (`-` if it consumed everything) -/
def stopType (n : Nat) (d : Bytes) : String :=
  let rec skip : Nat → Bytes → Bytes
    | 0, d => d
    | k + 1, d =>
      match u16? d with
      | none => d
      | some (_, r) => match lengthData16? r with | none => d | some (_, rest) => skip k rest
  let r := skip n d
  if r.isEmpty then "-" else match u16? r with | some (t, _) => toString t | none => "trunc"

/-- `C04.raw <bytes> => …` — arbitrary bytes (malformed extension bodies, truncations, bit flips):
the statement says nothing, the implementation is compared with the model only. -/
def rawCase (impl : String) : P Verdict := do
  let b ← bytes
  let (m, sg) := modelOut b
  let tag := match sg with
    | none => "raw:" ++ m
    | some _ =>
      -- where did the extension walk stop?
      let hello : Option Hello :=
        match parsePlaintext (b.take (be16 (b.getD 3 0) (b.getD 4 0) + 5)) with
        | some ms => firstHello ms
        | none => none
      match hello with
      | some h =>
        (match h.ext with
         | some d => "raw:sig/stop=" ++ stopType (parsedExts knownBodyOk h.ext).length d
         | none => "raw:sig/noext")
      | none => "raw:sig"
  pure (verdictOf impl m none [] tag)

def handlers : List (String × (String → P Verdict)) :=
  [("C04.ja4", ja4Case), ("C04.pk", ja4Case), ("C04.raw", rawCase)]

end Huginn.Drv.C04
