import Huginn.Drv.Proto
import Huginn.Model.Match
import Huginn.Spec.Match
namespace Huginn.Drv.C12
open Huginn.Drv Huginn.Sig Huginn.Match Huginn.Match.Spec

/-! ### token parsers for the p0f vocabulary (shared with Drv/C02) -/

def pIpVersion : P IpVersion := do
  let n ← nat
  match n with | 4 => pure .v4 | 6 => pure .v6 | 0 => pure .any | _ => failure

def pTtl : P Ttl := do
  let f ← nat
  match f with
  | 0 => do let a ← nat; pure (.value a)
  | 1 => do let a ← nat; let b ← nat; pure (.distance a b)
  | 2 => do let a ← nat; pure (.guess a)
  | 3 => do let a ← nat; pure (.bad a)
  | _ => failure

def pWindow : P WindowSize := do
  let f ← nat
  match f with
  | 0 => do let a ← nat; pure (.mss a)
  | 1 => do let a ← nat; pure (.mtu a)
  | 2 => do let a ← nat; pure (.value a)
  | 3 => do let a ← nat; pure (.mod a)
  | 4 => pure .any
  | _ => failure

def pTcpOption : P TcpOption := do
  let f ← nat
  match f with
  | 0 => do let a ← nat; pure (.eol a)
  | 1 => pure .nop | 2 => pure .mss | 3 => pure .ws | 4 => pure .sok | 5 => pure .sack | 6 => pure .ts
  | 7 => do let a ← nat; pure (.unknown a)
  | _ => failure

def quirkTable : List Quirk :=
  [.df, .nonZeroID, .zeroID, .ecn, .mustBeZero, .flowID, .seqNumZero, .ackNumNonZero, .ackNumZero,
   .nonZeroURG, .urg, .push, .ownTimestampZero, .peerTimestampNonZero, .trailingNonZero,
   .excessiveWindowScaling, .optBad]

def pQuirk : P Quirk := do
  let n ← nat
  match quirkTable[n]? with | some q => pure q | none => failure

def pPayload : P PayloadSize := do
  let n ← nat
  match n with | 0 => pure .zero | 1 => pure .nonZero | 2 => pure .any | _ => failure

def pTcpSig : P TcpSig := do
  let version ← pIpVersion; let ittl ← pTtl; let olen ← nat; let mss ← opt nat
  let wsize ← pWindow; let wscale ← opt nat; let olayout ← list pTcpOption
  let quirks ← list pQuirk; let pclass ← pPayload
  pure { version, ittl, olen, mss, wsize, wscale, olayout, quirks, pclass }

def pHttpVersion : P HttpVersion := do
  let n ← nat
  match n with | 10 => pure .v10 | 11 => pure .v11 | 20 => pure .v20 | 30 => pure .v30 | 0 => pure .any | _ => failure

def pHeader : P Header := do
  let optional ← bool; let name ← text; let value ← opt text
  pure { optional, name, value }

def pHttpSig : P HttpSig := do
  let version ← pHttpVersion; let horder ← list pHeader; let habsent ← list pHeader; let expsw ← text
  pure { version, horder, habsent, expsw }

/-! ### rendering and verdicts -/

def showDist : Option Nat → String
  | none => "none"
  | some d => toString d

/-- Verdict for an op whose output is a distance (`none` / `d`). -/
def distVerdict (impl : String) (model : Option Nat) (spec : Option (Option Nat)) (kf : List String)
    (tag : String) : Verdict :=
  verdictOf impl (showDist model) (spec.map showDist) kf tag

def kfNames (l : List (String × Bool)) : List String := (l.filter (·.2)).map (·.1)

def ttlForm : Ttl → String
  | .value _ => "v" | .distance _ _ => "d" | .guess _ => "g" | .bad _ => "b"
def winForm : WindowSize → String
  | .mss _ => "mss" | .mtu _ => "mtu" | .value _ => "val" | .mod _ => "mod" | .any => "any"
def relName : Rel → String
  | .inst => "inst" | .differ => "differ" | .incomparable => "incomparable"

/-- Component specification: instance → 0, comparable difference → the penalty, else open. -/
def relSpec (wf : Bool) (r : Rel) (pen : Nat) : Option (Option Nat) :=
  if !wf then none else
  match r with
  | .inst => some (some 0)
  | .differ => some (some pen)
  | .incomparable => none

/-- `C12.ttl <obs> <sig>` — `Ttl::distance_ttl` -/
def opTtl (impl : String) : P Verdict := do
  let o ← pTtl; let s ← pTtl
  let m := distTtl o s
  let wf := decide (TtlWF o ∧ TtlWF s)
  pure (distVerdict impl m (relSpec wf (ttlRel o s) penTtl) []
    s!"ttl:{ttlForm o}-{ttlForm s}:{showDist m}")

/-- No open window class is left (the former three were repaired). -/
def winKf (_o _s : WindowSize) (_mss : Option Nat) : List String := []

/-- `C12.win <obs> <sig> <observed mss>` — `WindowSize::distance_window_size` -/
def opWin (impl : String) : P Verdict := do
  let o ← pWindow; let s ← pWindow; let mss ← opt nat
  let m := distWindow o s mss
  let wf := decide (WinWF o ∧ WinWF s ∧ o ≠ .any)
  let mssTag := match mss with | none => "-" | some 0 => "0" | some _ => "+"
  pure (distVerdict impl m (relSpec wf (winRel o s mss) penWindow) (winKf o s mss)
    s!"win:{winForm o}-{winForm s}:{mssTag}:{showDist m}")

/-- `C12.ipv <obs> <sig>` — `IpVersion::distance_ip_version` -/
def opIpv (impl : String) : P Verdict := do
  let o ← pIpVersion; let s ← pIpVersion
  let m := distIpVersion o s
  let spec : Option (Option Nat) :=
    if o = .any then none else if VersionOk o s then some (some 0) else some none
  pure (distVerdict impl m spec [] s!"ipv:{showDist m}")

/-- `C12.pay <obs> <sig>` — `PayloadSize::distance_payload_size` -/
def opPay (impl : String) : P Verdict := do
  let o ← pPayload; let s ← pPayload
  let m := distPayload o s
  let spec : Option (Option Nat) :=
    if o = .any then none else if PclassOk o s then some (some 0) else some none
  pure (distVerdict impl m spec [] s!"pay:{showDist m}")

def showDQ (score : Nat → Nat) : Option Nat → String
  | none => "none"
  | some d => s!"{d} {renderCenti (score d)}"

def tcpTag (s : TcpSig) (o : TcpObs) (m : Option Nat) : String :=
  if decide (TcpInst o s) then s!"tcp:inst:{showDist m}"
  else if ¬ decide (TcpDecisiveOk o s) then
    "tcp:decisive" ++ (if ¬ decide (VersionOk o.version s.version) then "+ver" else "") ++
      (if o.olayout ≠ s.olayout then "+olayout" else "") ++ (if o.quirks ≠ s.quirks then "+quirks" else "") ++
      (if ¬ decide (PclassOk o.pclass s.pclass) then "+pclass" else "") ++ s!":{showDist m}"
  else
    "tcp:differ" ++ (if ttlRel o.ittl s.ittl ≠ .inst then "+ttl" else "") ++
      (if o.olen ≠ s.olen then "+olen" else "") ++ (if ¬ decide (OptInst o.mss s.mss) then "+mss" else "") ++
      (if winRel o.wsize s.wsize o.mss ≠ .inst then "+win" else "") ++
      (if ¬ decide (OptInst o.wscale s.wscale) then "+wscale" else "") ++ s!":{showDist m}"

/-- `C12.tcp <sig> <obs>` — `calculate_distance` and `get_quality_score` of that distance.
The specification fixes the distance; of the quality it demands `1` exactly at distance 0. -/
def opTcp (impl : String) : P Verdict := do
  let s ← pTcpSig; let o ← pTcpSig
  let m := tcpDistance s o
  let model := showDQ tcpScore m
  let spec := specTcp s o
  let specOk := spec.map (fun r =>
    match r with
    | none => impl == "none"
    | some d =>
      match impl.splitOn " " with
      | [ds, q] => ds == toString d && ((q == "1") == (d == 0))
      | _ => false)
  pure { modelEq := impl == model, specOk := specOk, kf := winKf o.wsize s.wsize o.mss,
         tag := tcpTag s o m, model := model,
         spec := match spec with | none => "-" | some r => showDist r }

def hdrKf (_obs sig : List Header) : List String :=
  kfNames [("KF.C12.headerRepeatedName", decide (KF.C12.headerRepeatedName sig))]

def errTag (e : Nat) : String := if e ≤ 12 then toString e else "12+"

/-- `C12.hdr <observed list> <signature list>` — `HttpDistance::distance_header` -/
def opHdr (impl : String) : P Verdict := do
  let o ← list pHeader; let s ← list pHeader
  let m := distHeader o s
  let inst := decide (HdrInst o s)
  pure (distVerdict impl m (specHeader o s) (hdrKf o s)
    s!"hdr:{if inst then "inst" else "other"}:e{errTag (hdrErrors o s)}:{showDist m}")

/-- `C12.expsw <observed> <signature>` — `distance_expsw` -/
def opExpsw (impl : String) : P Verdict := do
  let o ← text; let s ← text
  let m := distExpsw o s
  pure (distVerdict impl m (specExpsw o s)
    (kfNames [("KF.C12.expswReversed", decide (KF.C12.expswReversed o s))])
    s!"expsw:{if decide (SwInst o s) then "contains" else "lacks"}:{showDist m}")

def httpKf (s : HttpSig) (o : HttpObs) : List String :=
  kfNames [("KF.C12.headerRepeatedName",
              decide (KF.C12.headerRepeatedName s.horder ∨ KF.C12.headerRepeatedName s.habsent)),
           ("KF.C12.expswReversed", decide (KF.C12.expswReversed o.expsw s.expsw))]

/-- `C12.http <sig> <obs>` — `calculate_distance` (request and response impls, which must agree)
and the quality of that distance. -/
def opHttp (impl : String) : P Verdict := do
  let s ← pHttpSig; let o ← pHttpSig
  let m := httpDistance s o
  let model := showDQ httpScore m
  let spec := specHttp s o
  let specOk := spec.map (fun r =>
    match r with
    | none => impl == "none"
    | some d =>
      match impl.splitOn " " with
      | [ds, q] => ds == toString d && ((q == "1") == (d == 0))
      | _ => false)
  let tag :=
    if decide (HttpInst o s) then s!"http:inst:{showDist m}"
    else if ¬ decide (HttpVersionOk o.version s.version) then s!"http:version:{showDist m}"
    else s!"http:other:{showDist m}"
  pure { modelEq := impl == model, specOk := specOk, kf := httpKf s o, tag := tag, model := model,
         spec := match spec with | none => "-" | some r => showDist r }

/-- Decimal `i` or `i.f` (at most six fractional digits) in millionths. -/
def parseMicro (s : String) : Option Nat :=
  match s.splitOn "." with
  | [i] => i.toNat?.map (· * 1000000)
  | [i, f] =>
    if f.length = 0 ∨ f.length > 6 then none else
    match i.toNat?, f.toNat? with
    | some a, some b => some (a * 1000000 + b * 10 ^ (6 - f.length))
    | _, _ => none
  | _ => none

/-- `C12.score <0 tcp | 1 http> <d>` — `distance_to_score(d)` and `distance_to_score(d+1)`
(the second is `-` for `d = u32::MAX`), printed with `{}`. -/
def opScore (impl : String) : P Verdict := do
  let which ← nat; let d ← nat
  let q := if which == 0 then tcpScore else httpScore
  let nxt := if d < u32Max then renderCenti (q (d + 1)) else "-"
  let model := s!"{renderCenti (q d)} {nxt}"
  -- the specification is checked on the implementation's own two values (in millionths)
  let specOk : Bool :=
    match impl.splitOn " " with
    | [a, b] =>
      match parseMicro a, (if b == "-" then some 0 else parseMicro b) with
      | some qa, some qb =>
        decide (50000 ≤ qa ∧ qa ≤ 1000000 ∧ (qa = 1000000 ↔ d = 0) ∧ qb ≤ qa ∧ (b == "-" ∨ 50000 ≤ qb))
      | _, _ => false
    | _ => false
  let band := if d = 0 then "0" else if d ≤ (if which == 0 then Gen.Score.tcpMaxDistance else Gen.Score.httpMaxDistance) then "mid" else "over"
  pure { modelEq := impl == model, specOk := some specOk, kf := [],
         tag := s!"score:{if which == 0 then "tcp" else "http"}:{band}:{renderCenti (q d)}",
         model := model, spec := "in [0.05,1], =1 iff d=0, next <= this" }

def handlers : List (String × (String → P Verdict)) :=
  [("C12.ttl", opTtl), ("C12.win", opWin), ("C12.ipv", opIpv), ("C12.pay", opPay),
   ("C12.tcp", opTcp), ("C12.hdr", opHdr), ("C12.expsw", opExpsw), ("C12.http", opHttp),
   ("C12.score", opScore)]

end Huginn.Drv.C12
