import Huginn.Drv.Proto
import Huginn.Spec.Http1
import Huginn.Spec.HttpFlow
/-
Line-protocol handlers of C09. The parsers parameter of the flow model is instantiated with the
C05 model of `HttpProcessors` (HTTP/2 side: never parses; no generated case opens its gate).

Per packet the output is `-`, `Q <src ip> <src port> <dst ip> <dst port> <sig> <method> <uri>`,
`S <src ip> <src port> <dst ip> <dst port> <sig> <status>` (joined by `+` if both); packets are
joined by `;`.
-/
namespace Huginn.Drv.C09
open Huginn.Drv Huginn.HttpFlow Huginn.HttpFlow.Spec

abbrev Rep := String   -- rendered report without endpoints

def noH2 : Huginn.Http1.H2 := ⟨fun _ => none, fun _ => none⟩

def showReq (r : Huginn.Http1.ObsReq) : Rep :=
  s!"{hexOf (Huginn.Http1.showSig r.ver r.horder r.habsent r.expsw)} {hexOf r.method} {hexOf r.uri}"
def showRes (r : Huginn.Http1.ObsRes) : Rep :=
  s!"{hexOf (Huginn.Http1.showSig r.ver r.horder r.habsent r.expsw)} {r.status}"

def parsers : Parsers Rep Rep :=
  { request := fun d => match Huginn.Http1.processorsParseRequest noH2 d with
      | some (some r) => some (showReq r)
      | _ => none,
    response := fun d => (Huginn.Http1.processorsParseResponse noH2 d).map showRes }

def showPkt (p : Pkt) (o : Option Rep × Option Rep) : String :=
  let ep := s!"{p.srcIp} {p.srcPort} {p.dstIp} {p.dstPort}"
  match o with
  | (none, none) => "-"
  | (some q, none) => s!"Q {ep} {q}"
  | (none, some s) => s!"S {ep} {s}"
  | (some q, some s) => s!"Q {ep} {q}+S {ep} {s}"

def showRun (ps : List Pkt) (os : List (Option Rep × Option Rep)) : String :=
  ";".intercalate ((ps.zip os).map (fun x => showPkt x.1 x.2))

def pPkt : P Pkt := do
  let a ← nat; let b ← nat; let pa ← nat; let pb ← nat; let s ← nat; let f ← nat; let d ← bytes
  pure ⟨a, b, pa, pb, s, f, d⟩

def pData : P DataPkt := do
  let dir ← nat; let s ← nat; let f ← nat; let d ← bytes
  pure ⟨dir == 0, s, f, d⟩

def countReports (os : List (Option Rep × Option Rep)) : Nat :=
  os.foldl (fun n o => n + (if o.1.isSome then 1 else 0) + (if o.2.isSome then 1 else 0)) 0

/-- `C09.pkts <n> (<src ip> <dst ip> <sport> <dport> <seq> <flags> <payload>)*` — any packet sequence
through `process_ipv4_packet` on one fresh flow table (no specification) -/
def pkts (impl : String) : P Verdict := do
  let ps ← list pPkt
  let os := runS parsers [] ps
  let left := (finalMapS parsers [] ps).length
  pure (verdictOf impl (showRun ps os) none [] s!"pkts:r{countReports os}:left{if left > 2 then "3+" else toString left}")

/-- `C09.conn <client ip> <server ip> <cport> <sport> <isnC> <isnS> <n> (<dir> <seq> <flags> <payload>)*`
— one connection: SYN, SYN-ACK, then the data segments in arrival order -/
def conn (impl : String) : P Verdict := do
  let a ← nat; let b ← nat; let pa ← nat; let pb ← nat; let ic ← nat; let is' ← nat
  let ds ← list pData
  let c : Conn := ⟨⟨a, b, pa, pb⟩, ic, is'⟩
  let ps := c.packets ds
  let os := runS parsers [] ps
  -- FIN on a data segment is part of the statement's domain (the sender's last segment carries it; the
  -- statement quantifies over every arrival order); RST / SYN among the data are not
  let specified := ds.all (fun d => !hasFlag d.flags RST && !hasFlag d.flags SYN) &&
    totalLen (segsOf true ds) ≤ maxBufferedHeadBytes && totalLen (segsOf false ds) ≤ maxBufferedHeadBytes &&
    !(a == b && pa == pb)
  let spec := if specified then some (showRun ps (specConn parsers c ds)) else none
  -- input features behind the repaired findings (labels only; every specified case is compared)
  let feat := if specified then
      (if decide (¬ NoWrap c.isnC (segsOf true ds) ∨ ¬ NoWrap c.isnS (segsOf false ds)) then "w" else "") ++
      (if hasOverlap c.isnC (segsOf true ds) || hasOverlap c.isnS (segsOf false ds) then "d" else "") ++
      (if !AlwaysContiguous c.isnC (segsOf true ds) || !AlwaysContiguous c.isnS (segsOf false ds) then "g" else "")
    else ""
  let kf : List String := if ds.any (fun d => hasFlag d.flags FIN) then ["KF.C09.finBeforeHeadComplete"] else []
  let nC := (segsOf true ds).length
  let nS := (segsOf false ds).length
  let big := totalLen (segsOf true ds) > maxBufferedHeadBytes || totalLen (segsOf false ds) > maxBufferedHeadBytes
  pure (verdictOf impl (showRun ps os) spec kf
    s!"conn:{if specified then "spec" else "unspec"}:c{if nC > 4 then "5+" else toString nC}s{if nS > 4 then "5+" else toString nS}:r{countReports os}{if big then ":cap" else ""}{if feat.isEmpty then "" else ":x" ++ feat}")

def handlers : List (String × (String → P Verdict)) :=
  [("C09.pkts", pkts), ("C09.conn", conn)]

end Huginn.Drv.C09
