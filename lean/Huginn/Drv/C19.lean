import Huginn.Drv.Proto
import Huginn.Spec.Uptime
import Huginn.Model.TcpUptime
namespace Huginn.Drv.C19
open Huginn.Drv Huginn.Uptime Huginn.Uptime.Spec

def pAddr : P Addr := do let v ← bool; let a ← nat; pure (v, a)
def pConn : P Conn := do
  let s ← pAddr; let sp ← nat; let d ← pAddr; let dp ← nat
  pure { src := s, sport := sp, dst := d, dport := dp }
def pObs : P Obs := do
  let w ← nat; let c ← pConn; let fc ← bool; let ts ← nat
  pure { wall := w, conn := c, fromClient := fc, ts := ts }

def parseUptime (s : String) : Option Uptime :=
  match (s.splitOn ":").map String.toNat? with
  | [some d, some h, some m, some md, some f] => some { days := d, hours := h, min := m, modDays := md, freq := f }
  | _ => none

/-- `-` | `c:<u>` | `s:<u>` | `c:<u>+s:<u>` -/
def parseOut (s : String) : Option Out :=
  if s == "-" then some {}
  else
    let parts := s.splitOn "+"
    parts.foldl (fun acc p => do
      let o ← acc
      if p.startsWith "c:" then (parseUptime (p.drop 2).toString).map fun u => { o with client := some u }
      else if p.startsWith "s:" then (parseUptime (p.drop 2).toString).map fun u => { o with server := some u }
      else none) (some {})

/-- run the abstract tracker over the history judging the implementation's outputs; returns
(all acceptable, KF classes of the failing steps) -/
def judge (s : State) : List Obs → List Out → Bool × List String
  | [], [] => (true, [])
  | o :: os, out :: outs =>
    let r := specStep s o out
    let rest := judge r.1 os outs
    let kf := if r.2 then [] else
      match s.get ⟨o.conn, o.fromClient⟩ with
      | some (.ref t0 v0) => Huginn.KF.C19.names t0 v0 o.wall o.ts
      | _ => []
    (r.2 && rest.1, kf ++ rest.2)
  | _, _ => (false, [])

def runTags (c : Cache) : List Obs → List String
  | [] => []
  | o :: rest =>
    let r := checkTsT c o.mono o.wall o.conn o.fromClient o.ts
    r.2.2 :: runTags r.1 rest

/-- `C19.seq <cap> <n> (<wall> <conn> <fromClient> <ts>)*` — `check_ts_tcp` on one tracker, clock
hook set to `<wall>` before each call. Implementation output: the outputs, comma-separated. -/
def seq (impl : String) : P Verdict := do
  let cap ← nat
  let os ← list pObs
  let outs := run { cap := cap } os
  let model := ",".intercalate (outs.map showOut)
  let tags := runTags { cap := cap } os
  let tag := (tags.getLast?.getD "-")
  let implOuts := (impl.splitOn ",").map parseOut
  let specified := distinctKeys os ≤ cap
  if !specified then
    pure { modelEq := impl == model, specOk := none, tag := tag ++ ":evict", model := model, spec := "-" }
  else if implOuts.any Option.isNone then
    pure { modelEq := impl == model, specOk := some false, tag := tag, model := model, spec := "unparsable" }
  else
    let (ok, kf) := judge [] os (implOuts.filterMap id)
    pure { modelEq := impl == model, specOk := some ok, kf := if ok then [] else kf.eraseDups, tag := tag,
           model := model, spec := if ok then "holds" else "EstOk-fails" }

/-- `C19.pkts <cap> <n> (<wall> <4|6> <ip packet>)*` — `process_ipv4/6_packet` on one tracker.
Output per packet: `E` (error / refused) or the uptime outputs. -/
def pkts (impl : String) : P Verdict := do
  let cap ← nat
  let ps ← list (do let w ← nat; let v ← nat; let b ← bytes; pure (w, v == 6, b.map (·.toNat)))
  let rec go (c : Cache) : List (Nat × Bool × List Nat) → List (String × String × List Obs)
    | [] => []
    | (w, v6, b) :: rest =>
      let r := Huginn.TcpUptime.processPacket c 0 w v6 b
      let tl := go r.1 rest
      match r.2 with
      | some (.ok rep, o, tg) =>
        let (s, d) := Huginn.TcpUptime.addrs v6 b
        let ob : List Obs := match Huginn.TcpExtract.decodeFields v6 b with
          | some (.ok ff) => rep.tsCalls.map fun (fc, ts) =>
              { wall := w, conn := { src := s, sport := ff.tcp.sport, dst := d, dport := ff.tcp.dport }, fromClient := fc, ts := ts }
          | _ => []
        (showOut o, tg.getLast?.getD "no-ts", ob) :: tl
      | _ => ("E", "err", []) :: tl
  let rows := go { cap := cap } ps
  let model := ",".intercalate (rows.map (·.1))
  let tag := "pkt-" ++ ((rows.map (·.2.1)).getLast?.getD "-")
  -- specification: only when every packet made at most one tracker call and nothing is evicted
  let implParts := impl.splitOn ","
  let obs := rows.flatMap (·.2.2)
  let specified := distinctKeys obs ≤ cap && rows.all (fun r => r.2.2.length ≤ 1) && rows.length == implParts.length
  if !specified then
    pure { modelEq := impl == model, specOk := none, tag := tag ++ ":unspec", model := model, spec := "-" }
  else
    -- a packet without a tracker call must report no uptime; the others are judged by the abstract tracker
    let silentOk := (List.zip rows implParts).all fun (r, i) => r.2.2.length == 1 || i == "-" || i == "E"
    let implOuts := (List.zip rows implParts).filterMap fun (r, i) => if r.2.2.length == 1 then some (parseOut i) else none
    if implOuts.any Option.isNone then
      pure { modelEq := impl == model, specOk := some false, tag := tag, model := model, spec := "unparsable" }
    else
      let (ok, kf) := judge [] obs (implOuts.filterMap id)
      let ok := ok && silentOk
      pure { modelEq := impl == model, specOk := some ok, kf := if ok then [] else kf.eraseDups, tag := tag,
             model := model, spec := if ok then "holds" else "EstOk-fails" }

/-- `C19.exp <cap> <n> (<mono ms> <wall> <conn> <fromClient> <ts>)*` — as `C19.seq`, but the harness
really waits until `<mono>` ms have passed since the tracker was created, so entries expire on the
cache's own clock. Compared against the model only (the abstract map has no expiry). -/
def exp (impl : String) : P Verdict := do
  let cap ← nat
  let os ← list (do let m ← nat; let o ← pObs; pure { o with mono := m })
  let outs := run { cap := cap } os
  let model := ",".intercalate (outs.map showOut)
  let tags := runTags { cap := cap } os
  let tag := "exp-" ++ (if tags.contains "store:expired" then "expired" else "live")
  -- the statement speaks of segments up to 10 minutes apart and knows no entry lifetime: whenever nothing
  -- is evicted the outputs are judged by the abstract per-endpoint tracker, expiry or not
  let implOuts := (impl.splitOn ",").map parseOut
  if distinctKeys os > cap || implOuts.any Option.isNone then
    pure { modelEq := impl == model, specOk := none, tag := tag ++ ":evict", model := model, spec := "-" }
  else
    let (ok, kf) := judge [] os (implOuts.filterMap id)
    pure { modelEq := impl == model, specOk := some ok, kf := if ok then [] else kf.eraseDups, tag := tag,
           model := model, spec := if ok then "holds" else "EstOk-fails" }

def handlers : List (String × (String → P Verdict)) :=
  [("C19.seq", seq), ("C19.pkts", pkts), ("C19.exp", exp)]

end Huginn.Drv.C19
