import Huginn.Drv.C03
import Huginn.Drv.C14
namespace Huginn.Drv

def allHandlers : List (String × (String → P Verdict)) :=
  Huginn.Drv.C03.handlers ++ Huginn.Drv.C14.handlers

end Huginn.Drv
