import Huginn.Drv.C14
import Huginn.Drv.C16
import Huginn.Drv.C17
namespace Huginn.Drv

def allHandlers : List (String × (String → P Verdict)) :=
  Huginn.Drv.C14.handlers ++ Huginn.Drv.C16.handlers ++ Huginn.Drv.C17.handlers

end Huginn.Drv
