import Huginn.Drv.C14
import Huginn.Drv.C15
import Huginn.Drv.C18
namespace Huginn.Drv

def allHandlers : List (String × (String → P Verdict)) :=
  Huginn.Drv.C14.handlers ++ Huginn.Drv.C15.handlers ++ Huginn.Drv.C18.handlers

end Huginn.Drv
