import Huginn.Drv.C05
import Huginn.Drv.C09
import Huginn.Drv.C14
namespace Huginn.Drv

def allHandlers : List (String × (String → P Verdict)) :=
  Huginn.Drv.C05.handlers ++ Huginn.Drv.C09.handlers ++ Huginn.Drv.C14.handlers

end Huginn.Drv
