import Huginn.Drv.C01
import Huginn.Drv.C07
import Huginn.Drv.C10
import Huginn.Drv.C14
import Huginn.Drv.C20
namespace Huginn.Drv

def allHandlers : List (String × (String → P Verdict)) :=
  Huginn.Drv.C01.handlers ++ Huginn.Drv.C07.handlers ++ Huginn.Drv.C10.handlers ++ Huginn.Drv.C14.handlers ++ Huginn.Drv.C20.handlers

end Huginn.Drv
