import Huginn.Drv.C04
import Huginn.Drv.C08
import Huginn.Drv.C14
namespace Huginn.Drv

def allHandlers : List (String × (String → P Verdict)) :=
  Huginn.Drv.C04.handlers ++ Huginn.Drv.C08.handlers ++ Huginn.Drv.C14.handlers

end Huginn.Drv
