import Huginn.Drv.C02
import Huginn.Drv.C12
import Huginn.Drv.C14
namespace Huginn.Drv

def allHandlers : List (String × (String → P Verdict)) :=
  Huginn.Drv.C02.handlers ++ Huginn.Drv.C12.handlers ++ Huginn.Drv.C14.handlers

end Huginn.Drv
