import Huginn.Drv.C03
import Huginn.Drv.C14
import Huginn.Drv.C19
namespace Huginn.Drv

def allHandlers : List (String × (String → P Verdict)) :=
  Huginn.Drv.C03.handlers ++ Huginn.Drv.C14.handlers ++ Huginn.Drv.C19.handlers

end Huginn.Drv
