import Huginn.Drv.Proto
/-
Driver for C11. One case = one long connection; the implementation output is, per packet,
`allocated-bytes,live-bytes-above-baseline,reported`.

The model run here is a LENGTH-ONLY abstraction of the flow programs of Model/FlowProgs.lean
(payloads are represented by their lengths and, for the TLS reader, the first five bytes of the
buffer; parser outcomes are oracle tables keyed by buffer length): running the byte-level model on
10^5-segment connections is not feasible in the driver. It mirrors `httpWithFlow` / `readerAdd`
branch by branch; that agreement is by inspection (listed in the trusted base), while the bounds
themselves (`http_memory_bounded`, `http_work_bounded`, `tls_*`) are proved about the byte-level
model in Props/C11.lean.

  M : every packet's measured retained bytes and allocation lie in the model's band
        retained_model ≤ live + 4096,  live ≤ 2·retained_model + 160·peak_stored_segments + 300000 (a cleared Vec keeps its capacity),
        alloc ≤ 24·work_model + 96·len + 400000
  S : every packet obeys the fixed limits (independent of how much the connection has carried)
        live ≤ LIMIT_MEM,  alloc ≤ LIMIT_WORK0 + 160·len
-/
namespace Huginn.Drv.C11
open Huginn.Drv

structure SegD where
  fromOpener : Bool
  seq : Nat
  flags : Nat
  len : Nat
  head : List UInt8     -- first ≤ 5 payload bytes
  isTls : Bool

def cap : Nat := 64 * 1024
def limitMem : Nat := 2 * (cap + 1460) + 160 * (cap + 1) + 300000
def limitWork0 : Nat := 24 * (4 * cap + 1460) + 400000

/-- length-only HTTP flow -/
structure HFlow where
  cBytes : Nat := 0
  sBytes : Nat := 0
  cSegs : Nat := 0
  sSegs : Nat := 0
  cParsed : Bool := false
  sParsed : Bool := false
  isn : Nat := 0          -- sequence number of the SYN that opened the flow
  flip : Bool := false    -- the flow's client is the scenario's second endpoint

/-- one HTTP step: returns (new flow option, work, reported code) -/
def httpStep (okReq okResp : List Nat) (f : Option HFlow) (s : SegD) : Option HFlow × Nat × Nat :=
  let syn := s.flags / 2 % 2 == 1
  let ack := s.flags / 16 % 2 == 1
  let finrst := s.flags % 2 == 1 || s.flags / 4 % 2 == 1
  -- the SYN reset: a SYN without ACK that is not the retransmission of the stored flow's own SYN drops the flow
  let f : Option HFlow := if syn && !ack then
      match f with
      | some fl => if (s.fromOpener != fl.flip) && fl.isn == s.seq then f else none
      | none => none
    else f
  match f with
  | none => if syn then (some { cBytes := s.len, cSegs := 1, isn := s.seq, flip := !s.fromOpener }, s.len, 0) else (none, 0, 0)
  | some f =>
    if s.len == 0 then (some f, 0, 0) else
    let fin (f : HFlow) (w rep : Nat) : Option HFlow × Nat × Nat :=
      if f.cParsed && f.sParsed then (none, w, rep) else if finrst then (none, w, rep) else (some f, w, rep)
    if s.fromOpener != f.flip then
      if !f.cParsed then
        let c := f.cBytes + s.len
        if c > cap then fin { f with cBytes := 0, cSegs := 0, cParsed := true } (s.len + c) 0
        else
          let complete := c ≥ 4 && (okReq.contains c || okResp.contains c)
          let w := s.len + c + (if c < 4 then 0 else 3 * c)
          if complete && okReq.contains c then fin { f with cBytes := c, cSegs := f.cSegs + 1, cParsed := true } w 1
          else fin { f with cBytes := c, cSegs := f.cSegs + 1 } w 0
      else fin f 0 0
    else
      if !f.sParsed then
        let c := f.sBytes + s.len
        if c > cap then fin { f with sBytes := 0, sSegs := 0, sParsed := true } (s.len + c) 0
        else
          let complete := c ≥ 4 && (okReq.contains c || okResp.contains c)
          let w := s.len + c + (if c < 4 then 0 else 3 * c)
          if complete && okResp.contains c then fin { f with sBytes := c, sSegs := f.sSegs + 1, sParsed := true } w 2
          else fin { f with sBytes := c, sSegs := f.sSegs + 1 } w 0
      else fin f 0 0

/-- length-only TLS reader: buffered length and the first five buffered bytes -/
structure TRd where
  len : Nat := 0
  head : List UInt8 := []

def tlsStep (sigLens noneLens : List Nat) (r : Option TRd) (s : SegD) : Option TRd × Nat × Nat :=
  -- the SYN reset: a SYN drops the reader of its 4-tuple
  let r := if s.flags / 2 % 2 == 1 then none else r
  if s.len == 0 then (r, 0, 0) else
  if !(r.isSome || s.isTls) then (r, 0, 0) else
  let rd := r.getD {}
  let len := rd.len + s.len
  let head := (rd.head ++ s.head).take 5
  if len < 5 then (some { len := len, head := head }, s.len, 0) else
  let needed := (head.getD 3 0).toNat * 256 + (head.getD 4 0).toNat + 5
  if head.getD 0 0 != 0x16 then (some {}, s.len, 0) else
  if len < needed then (some { len := len, head := head }, s.len, 0) else
  if needed > 64 * 1024 then (none, s.len, 0) else
  if sigLens.contains needed then (none, s.len + needed, 1)
  else if noneLens.contains needed then (some {}, s.len + needed, 0)
  else (none, s.len + needed, 0)

structure Acc where
  idx : Nat := 0
  mBad : Option String := none
  sBad : Option String := none
  maxLive : Nat := 0
  maxAlloc : Nat := 0
  maxRet : Nat := 0
  peakSegs : Nat := 0      -- a cleared Vec keeps its capacity: slack is per segment EVER stored at once

def checkPacket (a : Acc) (retained nsegs work len alloc live rep repModel : Nat) : Acc :=
  let peak := max a.peakSegs nsegs
  let mOk := retained ≤ live + 4096 && live ≤ 2 * retained + 160 * peak + 300000 &&
             alloc ≤ 24 * work + 96 * len + 400000 && rep == repModel
  let sOk := live ≤ limitMem && alloc ≤ limitWork0 + 160 * len
  { idx := a.idx + 1,
    mBad := if a.mBad.isNone && !mOk then
        some s!"#{a.idx}:retained={retained},segs={nsegs},work={work},len={len},alloc={alloc},live={live},rep={rep}/{repModel}" else a.mBad,
    sBad := if a.sBad.isNone && !sOk then some s!"#{a.idx}:len={len},alloc={alloc},live={live}" else a.sBad,
    peakSegs := peak, maxLive := max a.maxLive live, maxAlloc := max a.maxAlloc alloc, maxRet := max a.maxRet retained }

def parseTriple (t : String) : Nat × Nat × Nat :=
  match t.splitOn "," with
  | [a, b, c] => (a.toNat?.getD 0, b.toNat?.getD 0, c.toNat?.getD 0)
  | _ => (0, 0, 99)

def conn (impl : String) : P Verdict := do
  let name ← tok; let kind ← tok
  let segs ← list (do
    let o ← bool; let sq ← nat; let fl ← nat; let ln ← nat; let hd ← bytes; let t ← bool
    pure (SegD.mk o sq fl ln hd t))
  let okReq ← list nat; let okResp ← list nat; let sigL ← list nat; let noneL ← list nat
  let meas := (impl.splitOn ";").map parseTriple
  if meas.length != segs.length then
    pure { modelEq := false, specOk := none, tag := "bad-impl-output" }
  else
  let run : Acc :=
    if kind == "http" then
      ((segs.zip meas).foldl (fun (st : Option HFlow × Acc) (x : SegD × (Nat × Nat × Nat)) =>
        let (f', w, rep) := httpStep okReq okResp st.1 x.1
        let retained := match f' with | some f => f.cBytes + f.sBytes | none => 0
        let nsegs := match f' with | some f => f.cSegs + f.sSegs | none => 0
        (f', checkPacket st.2 retained nsegs w x.1.len x.2.1 x.2.2.1 x.2.2.2 rep)) (none, {})).2
    else if kind == "tls" then
      ((segs.zip meas).foldl (fun (st : Option TRd × Acc) (x : SegD × (Nat × Nat × Nat)) =>
        let (r', w, rep) := tlsStep sigL noneL st.1 x.1
        let retained := match r' with | some r => r.len | none => 0
        (r', checkPacket st.2 retained 1 w x.1.len x.2.1 x.2.2.1 x.2.2.2 rep)) (none, {})).2
    else
      -- TCP tracker: constant-size records, constant work; the uptime report itself is C19's business
      ((segs.zip meas).foldl (fun (a : Acc) (x : SegD × (Nat × Nat × Nat)) =>
        checkPacket a 0 4 0 x.1.len x.2.1 x.2.2.1 x.2.2.2 x.2.2.2) {})
  let n := segs.length
  let tag := s!"conn:{name}:{if n ≥ 50000 then "1e5" else if n ≥ 2000 then "1e3+" else "short"}"
  pure { modelEq := run.mBad.isNone, specOk := some run.sBad.isNone, kf := [], tag := tag,
         model := (run.mBad.getD "in-band") ++ s!"[maxRetained={run.maxRet}]",
         spec := (run.sBad.getD "within-limits") ++ s!"[maxLive={run.maxLive},maxAlloc={run.maxAlloc},limitMem={limitMem},limitWork0={limitWork0}]" }

/-- `C11.cap kind cap flows bytesPerFlow => liveSeq,livePool,status` — many concurrently open flows against a small
capacity: by `run_length_le` at most `cap` entries are stored, each holding at most its buffered bytes, so the
retained bytes are at most `cap × bytesPerFlow` (model), sequentially and in a worker configured with that capacity. -/
def capOp (impl : String) : P Verdict := do
  let kind ← tok; let cap ← nat; let flows ← nat; let per ← nat
  let model := (min cap flows) * (min per (cap0 kind))
  match impl.splitOn "," with
  | [a, b, st] =>
    let ls := a.toNat?.getD 0; let lp := b.toNat?.getD 0
    let okOne (l : Nat) : Bool := l ≤ 2 * model + 64 * 1024 * cap / 8 + 400000
    let m := okOne ls && okOne lp && st == "ok"
    pure { modelEq := m, specOk := some m, tag := s!"cap:{kind}:{cap}",
           model := s!"retained<=2*{model}+slack", spec := s!"seq={ls},pool={lp}" }
  | [a, b, st, n] =>
    -- TCP tracker: additionally the number of entries the sequential table holds (≤ capacity, tcp_entries_bounded)
    let ls := a.toNat?.getD 0; let lp := b.toNat?.getD 0; let ne := n.toNat?.getD (cap + 1)
    let okOne (l : Nat) : Bool := l ≤ 2 * model + 400000
    let m := okOne ls && okOne lp && st == "ok" && ne ≤ cap
    pure { modelEq := m, specOk := some m, tag := s!"cap:{kind}:{cap}",
           model := s!"retained<=2*{model}+slack, entries<={cap}", spec := s!"seq={ls},pool={lp},entries={ne}" }
  | _ => pure { modelEq := false, specOk := none, tag := "bad-impl-output" }
where
  cap0 (kind : String) : Nat := if kind == "http" then 64 * 1024 else if kind == "tcp" then 256 else 64 * 1024 + 4

def handlers : List (String × (String → P Verdict)) := [("C11.conn", conn), ("C11.cap", capOp)]

end Huginn.Drv.C11
