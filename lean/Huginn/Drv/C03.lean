import Huginn.Drv.Proto
import Huginn.Spec.TcpSig
namespace Huginn.Drv.C03
open Huginn.Drv Huginn.Sig Huginn.TcpExtract Huginn.TcpSig.Spec Huginn.Gen

/-! token rendering of the structured part of an outcome (must match harness/src/c03.rs) -/

def tokTtl : Ttl → String
  | .value t => s!"tv {t} 0" | .distance t d => s!"td {t} {d}" | .guess t => s!"tg {t} 0" | .bad t => s!"tb {t} 0"
def tokWin : WindowSize → String
  | .mss n => s!"wm {n}" | .mtu n => s!"wt {n}" | .value n => s!"wv {n}" | .mod n => s!"wo {n}" | .any => "wa 0"
def tokOptNat : Option Nat → String | none => "0" | some n => s!"1 {n}"
def tokOpt : TcpOption → String
  | .eol n => s!"e{n}" | .nop => "n" | .mss => "m" | .ws => "w" | .sok => "k" | .sack => "a" | .ts => "t"
  | .unknown k => s!"u{k}"
def tokList (xs : List String) : String := " ".intercalate (s!"{xs.length}" :: xs)

def tokSig (s : TcpSig) : String :=
  " ".intercalate [showVer s.version, tokTtl s.ittl, s!"{s.olen}", tokOptNat s.mss, tokWin s.wsize,
    tokOptNat s.wscale, tokList (s.olayout.map tokOpt), tokList (s.quirks.map showQuirk), showPay s.pclass]

def hexText (s : String) : String := hexOf (s.toUTF8.toList)

def tokOptSig : Option TcpSig → String
  | none => "0"
  | some s => s!"1 {tokSig s} {hexText (showSig s)}"

def tokErr : Err → String
  | .parse => "err:parse" | .unsupported => "err:proto" | .unexpected => "err:frag" | .flags => "err:flags"

def tokOutcome : Outcome → String
  | .error e => tokErr e
  | .ok r => s!"ok syn {tokOptSig r.syn} synack {tokOptSig r.synAck} mtu {tokOptNat r.mtu}"

/-! parsing the same tokens back (to evaluate the specification on the implementation's output) -/

def pTtl : P Ttl := do
  let k ← tok; let t ← nat; let d ← nat
  match k with
  | "tv" => pure (.value t) | "td" => pure (.distance t d) | "tg" => pure (.guess t) | "tb" => pure (.bad t)
  | _ => failure
def pWin : P WindowSize := do
  let k ← tok; let n ← nat
  match k with
  | "wm" => pure (.mss n) | "wt" => pure (.mtu n) | "wv" => pure (.value n) | "wo" => pure (.mod n)
  | "wa" => pure .any | _ => failure
def pOptTok : P TcpOption := do
  let t ← tok
  match t.toList with
  | ['n'] => pure .nop | ['m'] => pure .mss | ['w'] => pure .ws | ['k'] => pure .sok | ['a'] => pure .sack
  | ['t'] => pure .ts
  | 'e' :: r => match (String.ofList r).toNat? with | some n => pure (.eol n) | none => failure
  | 'u' :: r => match (String.ofList r).toNat? with | some n => pure (.unknown n) | none => failure
  | _ => failure
def pQuirk : P Quirk := do
  let t ← tok
  match allQuirks.find? (fun q => showQuirk q == t) with
  | some q => pure q
  | none => failure
def pSig : P TcpSig := do
  let v ← tok
  let ver ← (match v with | "4" => pure IpVersion.v4 | "6" => pure .v6 | "*" => pure .any | _ => failure)
  let ittl ← pTtl; let olen ← nat; let mss ← opt nat; let w ← pWin; let ws ← opt nat
  let lay ← list pOptTok; let qs ← list pQuirk
  let pc ← tok
  let pclass ← (match pc with | "0" => pure PayloadSize.zero | "+" => pure .nonZero | "*" => pure .any | _ => failure)
  pure { version := ver, ittl := ittl, olen := olen, mss := mss, wsize := w, wscale := ws,
         olayout := lay, quirks := qs, pclass := pclass }
def pOptSig : P (Option TcpSig) := do
  let b ← bool
  if b then
    let s ← pSig
    let _disp ← tok
    pure (some s)
  else pure none
def lit (s : String) : P Unit := do let t ← tok; if t == s then pure () else failure

def pOutcome : P Outcome := do
  let t ← tok
  match t with
  | "err:parse" => pure (.error .parse)
  | "err:proto" => pure (.error .unsupported)
  | "err:frag" => pure (.error .unexpected)
  | "err:flags" => pure (.error .flags)
  | "ok" =>
    lit "syn"; let s ← pOptSig
    lit "synack"; let sa ← pOptSig
    lit "mtu"; let m ← opt nat
    pure (.ok { syn := s, synAck := sa, mtu := m })
  | _ => failure

def parseImpl {α} (p : P α) (impl : String) : Option α :=
  match p.run (impl.splitOn " ") with
  | some (a, []) => some a
  | _ => none

/-- `C03.pkt <6|4> <ip packet bytes>` — `process_ipv4_packet` / `process_ipv6_packet` on a fresh
tracker with the matcher disabled. Implementation output: `tokOutcome` plus ` up <c><s>` (uptime
presence; always `00` on a fresh tracker). -/
def pkt (impl : String) : P Verdict := do
  let v ← nat; let bs ← bytes
  let b : Bytes := bs.map (·.toNat)
  match decodeFields (v == 6) b with
  | none => pure (verdictOf impl "noip" none [] "noip")
  | some (.error e) => pure (verdictOf impl (tokErr e) none [] "err-parse")
  | some (.ok f) =>
    let mo := process f
    let model := match mo with
      | .ok _ => tokOutcome mo ++ " up 00"
      | .error _ => tokOutcome mo
    let tag := processTag f
    if ¬ decide (Specified f) then
      pure { modelEq := impl == model, specOk := none, tag := tag ++ ":unspec", model := model, spec := "-" }
    else
      -- evaluate the specification on the implementation's own output
      let implNoUp := match impl.splitOn " up " with | [a, _] => a | _ => impl
      match parseImpl pOutcome implNoUp with
      | none => pure { modelEq := impl == model, specOk := some false, tag := tag, model := model, spec := "unparsable-impl-output" }
      | some io =>
        let ok := decide (Holds f io)
        let kf := if ok then [] else Huginn.KF.C03.names f
        pure { modelEq := impl == model, specOk := some ok, kf := kf, tag := tag, model := model,
               spec := if ok then "holds" else "Holds-fails" }

/-- `C03.ttl <t>` — `ttl::calculate_ttl`. -/
def ttl (impl : String) : P Verdict := do
  let t ← nat
  let m := calculateTtl t
  let model := tokTtl m
  let spec := (parseImpl pTtl impl).map fun r => decide (TtlOk t r)
  let tag := match m with | .bad _ => "ttl-bad" | .distance _ _ => "ttl-dist" | .value _ => "ttl-raw" | .guess _ => "ttl-guess"
  pure { modelEq := impl == model, specOk := some (spec.getD false), tag := tag, model := model,
         spec := if spec.getD false then "holds" else "TtlOk-fails" }

/-- `C03.win <w> <mss> <hdr> <ts> <ver>` — `window_size::detect_win_multiplicator`.
Specified when the caller passes the minimal header size the signature language means (or 0). -/
def win (impl : String) : P Verdict := do
  let w ← nat; let mss ← nat; let hdr ← nat; let ts ← bool; let v ← nat
  let ver : IpVersion := if v == 4 then .v4 else if v == 6 then .v6 else .any
  let (m, arm) := detectWinT w mss hdr ts ver
  let model := tokWin m
  let minH := if v == 6 then 60 else 40
  let specified := v != 0 && (hdr == 0 || hdr == minH)
  let spec := if specified then (parseImpl pWin impl).map fun r => decide (WinOk w (some mss) minH ts r) else none
  pure { modelEq := impl == model, specOk := if specified then some (spec.getD false) else none,
         tag := s!"win-{arm}{if ts then "+ts" else ""}", model := model,
         spec := match spec with | some true => "holds" | some false => "WinOk-fails" | none => "-" }

def showB (b : Bool) : String := if b then "1" else "0"

/-- `C03.flags <flags> <sport> <dport>` — `from_client from_server is_valid is_packet_from_client`. -/
def flags (impl : String) : P Verdict := do
  let fl ← nat; let sp ← nat; let dp ← nat
  let model := " ".intercalate [showB (fromClient fl), showB (fromServer fl), showB (isValid fl (tcpType fl)),
    showB (isPacketFromClient fl sp dp)]
  let f : Fields := { ip := { v6 := false, ttl := 64 }, tcp := { flags := fl, sport := sp, dport := dp } }
  let cli := decide (Syn f ∧ ¬ Ack f)
  let srv := decide (Syn f ∧ Ack f)
  let spec := " ".intercalate [showB cli, showB srv, showB (decide (ValidFlags f)),
    showB (cli || (!srv && decide (sp > 1024) && decide (dp ≤ 1024)))]
  let tag := s!"flags-{showB (fromClient fl)}{showB (fromServer fl)}{showB (isValid fl (tcpType fl))}"
  pure (verdictOf impl model (some spec) [] tag)

/-- `C03.link <mtu>` — `SignatureMatcher::matching_by_mtu` on the bundled database. -/
def link (impl : String) : P Verdict := do
  let m ← nat
  let r := matchingByMtu TcpConst.mtuTable m
  let model := match r with | some l => hexText l | none => "-"
  let ri : Option (Option String) :=
    if impl == "-" then some none
    else (hexDecode impl.toList).map fun b => some (String.ofList (b.map (fun x => Char.ofNat x.toNat)))
  let ok := match ri with | some x => decide (LinkOk TcpConst.mtuTable m x) | none => false
  pure { modelEq := impl == model, specOk := some ok, tag := if r.isSome then "link-hit" else "link-miss",
         model := model, spec := if ok then "holds" else "LinkOk-fails" }

def handlers : List (String × (String → P Verdict)) :=
  [("C03.pkt", pkt), ("C03.ttl", ttl), ("C03.win", win), ("C03.flags", flags), ("C03.link", link)]

end Huginn.Drv.C03
