import Huginn.Drv.Proto
/-
Driver for C01. The specification of every op is the same: the implementation's canonical output
is `ok` (no panic, no hang, no poisoned instance, no dead worker). The Lean content of C01 is in
Props/C01*.lean (no-fault and termination theorems over the checked-access models, and the
no-poisoning corollary of C07); here the driver only classifies.
-/
namespace Huginn.Drv.C01
open Huginn.Drv

def ok (tag : String) (impl : String) : Verdict := verdictOf impl "ok" (some "ok") [] tag

def frame (impl : String) : P Verdict := do
  let tag ← tok; let b ← bytes
  let sz := if b.length < 14 then "tiny" else if b.length < 54 then "short" else "full"
  pure (ok s!"frame:{tag}:{sz}" impl)

def pool (impl : String) : P Verdict := do
  let k ← tok; let _ ← nat; let _ ← nat
  pure (ok s!"pool:{k}" impl)

def tlsreader (impl : String) : P Verdict := do
  let cs ← list bytes
  let total := (cs.map List.length).sum
  pure (ok s!"tlsreader:{if total > 65540 then "huge" else if cs.length > 1 then "chunked" else "single"}" impl)

def tlsflow (impl : String) : P Verdict := do
  let k ← tok; let n ← nat; let _ ← bytes
  pure (ok s!"tlsflow:{k}:{if n > 1 then "split" else "single"}" impl)

/-- `C01.reuse <tls|http> <cut>`: a new connection (SYN with a new ISN, then a whole well-formed message) on a
4-tuple whose previous connection left an unfinished flow behind, on one analyzer instance `@@` on a fresh one.
The statement ("after any such input the same instance still analyses a following well-formed input exactly as
a fresh instance would") demands equality. Both flow tables drop the stale flow on the new connection's SYN
(repaired: 0099999 TLS, HTTP fix that followed; `Props/C01Reuse`: `tls_syn_resets`, `http_syn_resets`). -/
def reuse (impl : String) : P Verdict := do
  let kind ← tok; let _ ← nat
  match impl.splitOn " @@ " with
  | [a, b] =>
    pure { modelEq := true, specOk := some (a == b && !(a.splitOn "PANIC").length > 1),
           kf := [], tag := s!"reuse:{kind}:{if a == b then "same" else "differs"}",
           model := "-", spec := "same as on a fresh instance" }
  | _ => pure { modelEq := false, specOk := some false, kf := [], tag := "reuse:bad-output", model := "-", spec := "-" }

def http (impl : String) : P Verdict := do
  let b ← bytes; let _ ← nat
  let kind := if b.take 4 == [80, 82, 73, 32] then "h2" else if b.take 5 == [72, 84, 84, 80, 47] then "resp" else "other"
  pure (ok s!"http:{kind}" impl)

def db (impl : String) : P Verdict := do
  let _ ← bytes
  pure (ok "db" impl)

def handlers : List (String × (String → P Verdict)) :=
  [("C01.frame", frame), ("C01.pool", pool), ("C01.tlsreader", tlsreader), ("C01.tlsflow", tlsflow), ("C01.reuse", reuse), ("C01.http", http), ("C01.db", db)]

end Huginn.Drv.C01
