import Huginn.Drv.Proto
import Huginn.Drv.C15
import Huginn.Spec.Wire
import Huginn.Model.SipHash
namespace Huginn.Drv.C18
open Huginn.Drv Huginn.Wire Huginn.Wire.Spec Huginn.SipHash
open Huginn.Drv.C15 (epStr optEp field frTag)

def optN : Option Nat → String
  | some n => toString n
  | none => "-"

def wT (n : Nat) (p : Bytes) : String := if n = 0 then "-" else toString (workerTcp defaultHash n p)
def wH (n : Nat) (p : Bytes) : String := toString (workerHttp defaultHash n p)
def wL (n : Nat) (p : Bytes) : String := optN (workerTls defaultHash n p)

def hinTag : HashIn → String
  | .bytes b => if b.length = 4 then "src4" else if b.length = 16 then "src6" else "whole"
  | .flow a _ _ _ => if a.length = 4 then "flow4" else "flow6"

def hashTag (p : Bytes) : String :=
  (if looksEth p then "E" else "R") ++ ":" ++ hinTag (hashInputTcp p) ++ ":" ++ hinTag (hashInputHttp p) ++ ":" ++
    (match hashInputTls p with | some i => hinTag i | none => "none")

def seenTag (p : Bytes) : String :=
  match baseView p with
  | none => "unseen"
  | some v => frTag v.loc ++
    (match v.loc.ver with | .v4 => (if v4Ihl v.loc.ip < 5 then "/ihl<5" else "") | .v6 => "")

/-- every returned index is a valid worker index -/
def validIdx (n : Nat) (s : String) : Bool :=
  s == "-" || (match s.toNat? with | some k => (n = 0 && k = 0) || k < n | none => false)

/-- `C18.w <n> <frame> => t=<idx|-> h=<idx> l=<idx|->` -/
def wOp (impl : String) : P Verdict := do
  let n ← nat
  let p ← bytes
  let model := s!"t={wT n p} h={wH n p} l={wL n p}"
  let ok := validIdx n (field impl "t") && validIdx n (field impl "h") && validIdx n (field impl "l")
  pure { modelEq := impl == model, specOk := some ok, kf := [], tag := "w:" ++ hashTag p ++ (if n = 0 then ":n0" else ""),
         model := model, spec := "idx<n" }

def pFraming : P Framing := do
  let t ← tok
  if t == "eth" then pure .eth else if t == "raw" then pure .raw else if t == "null" then pure .null else failure

def kfNames (fr : Framing) (p : Bytes) : List String :=
  let seenL : List String := match analyzerView .http p with
    | none => []
    | some v =>
      (if decide (KF.C18.looksLikeEthernet v.loc.fr p) then ["KF.C18.looksLikeEthernet"] else []) ++
      (if decide (KF.C18.nullFraming v.loc.fr) then ["KF.C18.nullFraming"] else []) ++
      (if decide (KF.C18.versionNibble v.loc) then ["KF.C18.versionNibble"] else [])
  let wireL : List String :=
    if (wireEndpoints fr p).isSome then
      (if decide (KF.C18.looksLikeEthernet fr p) then ["KF.C18.looksLikeEthernet"] else []) ++
      (if decide (KF.C18.nullFraming fr) then ["KF.C18.nullFraming"] else [])
    else []
  seenL ++ wireL

def pairOf (s : String) : String × String :=
  match s.splitOn "," with | [a, b] => (a, b) | _ => ("?", "!")

def parseEpStr (s : String) : Option Ep :=
  match s.splitOn ":" with
  | [v, a, b, sp, dp] => do
    let a ← hexDecode a.toList
    let b ← hexDecode b.toList
    let sp ← sp.toNat?
    let dp ← dp.toNat?
    if v == "4" then pure ⟨.v4, a, b, sp, dp⟩ else if v == "6" then pure ⟨.v6, a, b, sp, dp⟩ else none
  | _ => none

inductive Hasher | tcp | http | tls
  deriving DecidableEq

/-- `C18.pt|ph|pl <framing> <n> <f1> <f2> => w=<a>,<b> e1=<ep|-> e2=<ep|->` -/
def pairOp (hs : Hasher) (impl : String) : P Verdict := do
  let fr ← pFraming
  let n ← nat
  let p₁ ← bytes
  let p₂ ← bytes
  let w (p : Bytes) : String := match hs with | .tcp => wT n p | .http => wH n p | .tls => wL n p
  let model := s!"w={w p₁},{w p₂} " ++
    s!"e1={optEp (analyzerEndpoints .http p₁)} e2={optEp (analyzerEndpoints .http p₂)}"
  let (w₁, w₂) := pairOf (field impl "w")
  let valid := validIdx n w₁ && validIdx n w₂
  -- identities: (A) what the analyzers see — taken from the implementation's own report e1/e2;
  --             (B) the endpoints of the well-formed frame of the declared link type
  let idA := (parseEpStr (field impl "e1"), parseEpStr (field impl "e2"))
  let idB := (wireEndpoints fr p₁, wireEndpoints fr p₂)
  let related (a b : Ep) : Bool := match hs with
    | .tcp => a.ver == b.ver && a.src == b.src
    | .http => decide (SameConn a b)
    | .tls => a == b
  let claim (ids : Option Ep × Option Ep) : Bool :=
    match ids with
    | (some a, some b) => !(related a b) || w₁ == w₂
    | _ => true
  let okA := claim idA
  let okB := claim idB
  let ok := valid && okA && okB
  let rel (ids : Option Ep × Option Ep) : String :=
    match ids with
    | (some a, some b) => if a == b then "same" else if a == b.swap then "rev" else
        if a.ver == b.ver && a.src == b.src then "src" else "other"
    | _ => "na"
  -- no class excuses an index out of range
  let kf := if ok || !valid then [] else ((kfNames fr p₁) ++ (kfNames fr p₂)).eraseDups
  let hn := match hs with | .tcp => "t" | .http => "h" | .tls => "l"
  let tag := s!"pair-{hn}:{seenTag p₁}:A-{rel idA}:B-{rel idB}:" ++ hashTag p₁
  pure { modelEq := impl == model, specOk := some ok, kf := kf, tag := tag, model := model,
         spec := s!"valid={valid} seen={okA} wire={okB}" }

def handlers : List (String × (String → P Verdict)) :=
  [("C18.w", wOp), ("C18.pt", pairOp .tcp), ("C18.ph", pairOp .http), ("C18.pl", pairOp .tls)]

end Huginn.Drv.C18
