import Huginn.Drv.Proto
import Huginn.Drv.C15
import Huginn.Spec.Wire
import Huginn.Model.SipHash
namespace Huginn.Drv.C18
open Huginn.Drv Huginn.Wire Huginn.Wire.Spec Huginn.SipHash
open Huginn.Drv.C15 (epStr optEp field frTag)

def optN : Option Nat → String
  | some n => toString n
  | none => "-"

def wT (n : Nat) (p : Bytes) : String := if n = 0 then "-" else toString (workerTcp defaultHash n p)
def wH (n : Nat) (p : Bytes) : String := toString (workerHttp defaultHash n p)
def wL (n : Nat) (p : Bytes) : String := optN (workerTls defaultHash n p)

def hinTag : HashIn → String
  | .bytes b => if b.length = 4 then "src4" else if b.length = 16 then "src6" else "whole"
  | .flow a _ _ _ => if a.length = 4 then "flow4" else "flow6"

/-- where `locate_ip` of the hashers finds the IP header: E/R/N (offset 14 / 0 / 4) + version, X = nowhere -/
def locTag (p : Bytes) : String :=
  match locateIp p with
  | none => "X"
  | some (off, ver) =>
    (if off = 14 then "E" else if off = 0 then "R" else "N") ++ (match ver with | .v4 => "4" | .v6 => "6")

def hashTag (p : Bytes) : String :=
  locTag p ++ ":" ++ hinTag (hashInputTcp p) ++ ":" ++ hinTag (hashInputHttp p) ++ ":" ++
    (match hashInputTls p with | some i => hinTag i | none => "none")

def seenTag (p : Bytes) : String :=
  match baseView p with
  | none => "unseen"
  | some v => frTag v.loc ++
    (match v.loc.ver with | .v4 => (if v4Ihl v.loc.ip < 5 then "/ihl<5" else "") | .v6 => "")

/-- every returned index is a valid worker index -/
def validIdx (n : Nat) (s : String) : Bool :=
  s == "-" || (match s.toNat? with | some k => (n = 0 && k = 0) || k < n | none => false)

/-- `C18.w <n> <frame> => t=<idx|-> h=<idx> l=<idx|->` -/
def wOp (impl : String) : P Verdict := do
  let n ← nat
  let p ← bytes
  let model := s!"t={wT n p} h={wH n p} l={wL n p}"
  let ok := validIdx n (field impl "t") && validIdx n (field impl "h") && validIdx n (field impl "l")
  pure { modelEq := impl == model, specOk := some ok, kf := [], tag := "w:" ++ hashTag p ++ (if n = 0 then ":n0" else ""),
         model := model, spec := "idx<n" }

def pFraming : P Framing := do
  let t ← tok
  if t == "eth" then pure .eth else if t == "raw" then pure .raw else if t == "null" then pure .null else failure

def pairOf (s : String) : String × String :=
  match s.splitOn "," with | [a, b] => (a, b) | _ => ("?", "!")

def parseEpStr (s : String) : Option Ep :=
  match s.splitOn ":" with
  | [v, a, b, sp, dp] => do
    let a ← hexDecode a.toList
    let b ← hexDecode b.toList
    let sp ← sp.toNat?
    let dp ← dp.toNat?
    if v == "4" then pure ⟨.v4, a, b, sp, dp⟩ else if v == "6" then pure ⟨.v6, a, b, sp, dp⟩ else none
  | _ => none

inductive Hasher | tcp | http | tls
  deriving DecidableEq

/-- `C18.pt|ph|pl <framing> <n> <f1> <f2> => w=<a>,<b> e1=<ep|-> e2=<ep|->`

Specification (no exclusion class any more):
 (A) identities = what the analyzers see, taken from the implementation's own report `e1` / `e2`
     (parse_packet + protocol + TcpPacket::new, before any per-analyzer gate — so the claim covers every
     frame any of the three analyzers accepts): related identities ⇒ same worker; and the TLS dispatcher
     does not discard a frame with an identity;
 (B) identities = endpoints of the well-formed frame of the declared link type, claimed where
     `LinkHonoured` holds for both frames (the parser takes them for that link type; always for Ethernet). -/
def pairOp (hs : Hasher) (impl : String) : P Verdict := do
  let fr ← pFraming
  let n ← nat
  let p₁ ← bytes
  let p₂ ← bytes
  let w (p : Bytes) : String := match hs with | .tcp => wT n p | .http => wH n p | .tls => wL n p
  let model := s!"w={w p₁},{w p₂} " ++
    s!"e1={optEp (analyzerEndpoints .http p₁)} e2={optEp (analyzerEndpoints .http p₂)}"
  let (w₁, w₂) := pairOf (field impl "w")
  let valid := validIdx n w₁ && validIdx n w₂
  let idA := (parseEpStr (field impl "e1"), parseEpStr (field impl "e2"))
  let honoured := decide (LinkHonoured fr p₁) && decide (LinkHonoured fr p₂)
  let idB := (wireEndpoints fr p₁, wireEndpoints fr p₂)
  let related (a b : Ep) : Bool := match hs with
    | .tcp => a.ver == b.ver && a.src == b.src
    | .http => decide (SameConn a b)
    | .tls => a == b
  let claim (ids : Option Ep × Option Ep) : Bool :=
    match ids with
    | (some a, some b) => !(related a b) || w₁ == w₂
    | _ => true
  -- a frame with an identity is never discarded by the TLS dispatcher
  let kept (id : Option Ep) (wi : String) : Bool := hs != .tls || id.isNone || wi != "-"
  let okA := claim idA && kept idA.1 w₁ && kept idA.2 w₂
  let okB := !honoured || (claim idB && kept idB.1 w₁ && kept idB.2 w₂)
  let ok := valid && okA && okB
  let rel (ids : Option Ep × Option Ep) : String :=
    match ids with
    | (some a, some b) => if a == b then "same" else if a == b.swap then "rev" else
        if a.ver == b.ver && a.src == b.src then "src" else "other"
    | _ => "na"
  let relB : String :=
    if honoured then rel idB
    else match idB with
      | (some _, some _) => "unhonoured"     -- well-formed for the declared link type, parsed as another
      | _ => "na"
  let hn := match hs with | .tcp => "t" | .http => "h" | .tls => "l"
  -- `eth4~null4`: the analyzers decode the two frames under different framings
  let frOf (p : Bytes) : String := match baseView p with | some v => frTag v.loc | none => "unseen"
  let seen := seenTag p₁ ++ (if frOf p₂ == "unseen" || frOf p₂ == frOf p₁ then "" else "~" ++ frOf p₂)
  let tag := s!"pair-{hn}:{seen}:A-{rel idA}:B-{relB}:" ++ hashTag p₁
  pure { modelEq := impl == model, specOk := some ok, kf := [], tag := tag, model := model,
         spec := s!"valid={valid} seen={okA} wire={if honoured then toString okB else "-"}" }

def handlers : List (String × (String → P Verdict)) :=
  [("C18.w", wOp), ("C18.pt", pairOp .tcp), ("C18.ph", pairOp .http), ("C18.pl", pairOp .tls)]

end Huginn.Drv.C18
