import Huginn.Drv.Proto
import Huginn.Model.Akamai
import Huginn.Model.Sha256
import Huginn.Spec.Akamai
namespace Huginn.Drv.C17
open Huginn.Drv Huginn.H2 Huginn.Spec.H2 Huginn.Spec.Akamai

def H : Hpack := Hpack.crate

def hashOf (fp : Bytes) : String :=
  String.ofList (((H2Sha256.hex fp).take Gen.H2.hashTake).map fun b => Char.ofNat b.toNat)

def showFp (sep : String) : Option Bytes → String
  | none => "0"
  | some s => s!"1{sep}{hexOf s}{sep}{hashOf s}"

def showFrame (f : Frame) : String :=
  s!"{f.ty.toNat}.{f.flags.toNat}.{f.sid}.{f.payload.length}.{hexOf f.payload}"

/-- frames the specification assigns to a byte string (`Props.C17.parseFrames_splits`: the model's
splitter satisfies `Spec.H2.Splits`, and `splits_unique`: that determines the frames) -/
def specFrames (data : Bytes) : List Frame := parseFrames (afterPreface data)

def oneShotKF (fr : List Frame) : List String :=
  (if KF.C17.emptyFirstSettings fr then ["KF.C17.emptyFirstSettings"] else []) ++
  (if KF.C17.zeroWindowIncrement fr then ["KF.C17.zeroWindowIncrement"] else []) ++
  (if KF.C17.headersContinued fr then ["KF.C17.headersContinued"] else [])

def hdrTag (fr : List Frame) : String :=
  match firstWithRest isRequestHeaders fr with
  | none => "nohdr"
  | some (f, r) =>
    (if padded f then "pad" else "") ++ (if hasPriority f then "pri" else "") ++
    (if !endHeaders f then "cont" else "") ++
    (match headerBlock f r with
     | .complete b => (match (H.dec H.init b).1 with | some _ => "ok" | none => "undec")
     | .incomplete => "inc"
     | .malformed => "mal") ++
    (match headerBlockOf (f :: r) with
     | some b => (match (H.dec H.init b).1 with | some _ => "/codeok" | none => "/codeerr")
     | none => "/codenone")

def framesTag (data : Bytes) (fr : List Frame) : String :=
  (if hasPreface data then "P" else "-") ++
  (match (fr.filter isSettings).head? with
   | none => ":s-none" | some s => if s.payload.length < 6 then ":s-empty" else ":s-some") ++
  (match (fr.filter isConnWindowUpdate).head? with
   | none => ":wu-none" | some f => if f.payload.length < 4 then ":wu-short" else if incrementOf f.payload == 0 then ":wu-zero" else ":wu-some") ++
  (if (fr.filter isPriority).isEmpty then ":p0" else ":p+") ++ ":" ++ hdrTag fr ++
  (if consumed fr + prefaceLen data < data.length then ":tail" else "")

/-- `C17.frames <bytes>` — `parse_frames_skip_preface` -/
def frames (impl : String) : P Verdict := do
  let data ← bytes
  let (fr, used) := parseFramesSkipPreface data
  let out := s!"{used} {fr.length}" ++ String.join (fr.map fun f => " " ++ showFrame f)
  let tag := "fr:" ++ (if hasPreface data then "P" else "-") ++ (if fr.isEmpty then "0" else if fr.length == 1 then "1" else "n") ++
    (if used < data.length then
       (if (data.drop used).length < 9 then ":short" else if (parseOne (2^24) (data.drop used)).isSome then ":oversize" else ":incomplete")
     else ":exact")
  pure (verdictOf impl out (some out) [] tag)

/-- `C17.oneshot <bytes>` — `extract_akamai_fingerprint_from_bytes` -/
def oneshot (impl : String) : P Verdict := do
  let data ← bytes
  let model := (oneShot H data).map Fingerprint.render
  let fr := specFrames data
  let spec := if decide (Legal H fr) then some (showFp " " (fingerprint H fr)) else none
  pure (verdictOf impl (showFp " " model) spec (oneShotKF fr) ("os:" ++ framesTag data fr))

def prefixes : Bytes → List Bytes → List Bytes
  | _, [] => []
  | seen, c :: cs => (seen ++ c) :: prefixes (seen ++ c) cs

/-- `C17.inc <n> <chunk>…` — `Http2FingerprintExtractor::add_bytes` on every chunk in turn -/
def inc (impl : String) : P Verdict := do
  let chunks ← list bytes
  let outs := (incremental H chunks).map fun o => showFp ":" (o.map Fingerprint.render)
  let ps := prefixes [] chunks
  let legal := ps.all fun p => decide (Legal H (specFrames p))
  let specOuts := (reportOnce (fun d => fingerprint H (specFrames d)) [] false chunks).map (showFp ":")
  let kf := (ps.flatMap fun p => oneShotKF (specFrames p)).eraseDups
  let whole := chunks.flatten
  let nrep := (outs.filter (· != "0")).length
  let tag := s!"inc:{if chunks.length ≤ 3 then toString chunks.length else "n"}:rep{nrep}:" ++
    (match outs.findIdx? (· != "0") with
     | some i => if i == 0 then "first" else if i + 1 == chunks.length then "last" else "mid"
     | none => "never") ++ ":" ++ framesTag whole (specFrames whole)
  pure (verdictOf impl (";".intercalate outs) (if legal then some (";".intercalate specOuts) else none) kf tag)

def showFields (r : Option (List Field)) : String :=
  match r with
  | none => "err"
  | some hs => s!"{hs.length}" ++ String.join (hs.map fun h => "," ++ hexOf h.1 ++ "=" ++ hexOf h.2)

def runBlocks : HpackCrate.Dyn → List Bytes → List (Option (List Field) × HpackCrate.Dyn)
  | _, [] => []
  | d, b :: bs => let r := HpackCrate.decode d b; r :: runBlocks r.2 bs

def blockTag (b : Bytes) : String :=
  let reps := b.map fun x => if x &&& 128 = 128 then 'i' else if x &&& 64 = 64 then 'L' else if x &&& 32 = 32 then 'u' else if x &&& 16 = 16 then 'n' else 'w'
  -- only the first octet is certainly a representation start; good enough as a coarse tag
  String.ofList (reps.take 1)

/-- `C17.hpack <n> <block>…` — one `hpack_patched::Decoder`, `decode` on every block in turn -/
def hpack (impl : String) : P Verdict := do
  let blocks ← list bytes
  let rs := runBlocks {} blocks
  let out := ";".intercalate (rs.map fun r => showFields r.1)
  let last := rs.getLast?
  let tag := "hp:" ++ (if blocks.length ≤ 1 then "1" else "n") ++ ":" ++ (blocks.getLast?.map blockTag).getD "-" ++ ":" ++
    (match last with
     | some (some hs, d) => (if hs.isEmpty then "empty" else "ok") ++ (if d.table.isEmpty then "" else "+dyn") ++ (if d.maxSize != Gen.Hpack.defaultDynSize then "+resized" else "")
     | some (none, _) => "err"
     | none => "none")
  pure (verdictOf impl out none [] tag)

/-- `C17.utf8 <bytes>` — `std::str::from_utf8(..).is_ok()` and `String::from_utf8_lossy` -/
def utf8 (impl : String) : P Verdict := do
  let b ← bytes
  let out := s!"{if utf8Valid b then 1 else 0} {hexOf (lossy b)}"
  pure (verdictOf impl out none [] (if utf8Valid b then "utf8:valid" else "utf8:invalid"))

def handlers : List (String × (String → P Verdict)) :=
  [("C17.frames", frames), ("C17.oneshot", oneshot), ("C17.inc", inc), ("C17.hpack", hpack), ("C17.utf8", utf8)]

end Huginn.Drv.C17
