import Huginn.Drv.Proto
import Huginn.Drv.C12
import Huginn.Model.Match
import Huginn.Spec.Match
namespace Huginn.Drv.C02
open Huginn.Drv Huginn.Drv.C12 Huginn.Sig Huginn.Match Huginn.Match.Spec

def dummyLabel : Label := { ty := .specified, cls := none, name := "", flavor := none }

/-- A database on the wire: `<n labels>` then per label `<n sigs> sig…` (labels are identified by
their index; their text does not enter matching). -/
def pDb {σ} (pSig : P σ) : P (List (Label × List σ)) :=
  list (do let sigs ← list pSig; pure (dummyLabel, sigs))

def showRes (score : Nat → Nat) : Option (Option (Nat × Nat × Nat)) → String
  | none => "PANIC"
  | some none => "none"
  | some (some (i, j, d)) => s!"{i} {j} {renderCenti (score d)}"

/-- How the scan sees one query (names the situation the lookup was in). -/
def classify {σ ω κ} [DecidableEq κ] (dist : σ → ω → Option Nat) (keyOf : ω → κ) (keysOf : σ → List κ)
    (db : List (Label × List σ)) (o : ω) : String :=
  let acc := (entries db).filterMap (fun e => (dist e.2.2 o).map (fun d => (e.1, e.2.1, d)))
  let keyed := (entries db).any (fun e => (keysOf e.2.2).contains (keyOf o))
  match acc with
  | [] => if keyed then "rejected" else "nokey"
  | [_] => "unique"
  | a :: _ =>
    match scanBest dist db o with
    | some w =>
      if (w.1, w.2.1) ≠ (a.1, a.2.1) then "laterbetter"
      else if (acc.filter (fun x => x.2.2 == w.2.2)).length > 1 then "tiefirst" else "firstbest"
    | none => "?"

def dedup (l : List String) : List String := l.foldl (fun acc x => if acc.contains x then acc else acc ++ [x]) []

def verdictMany (impl : String) (models specs : List String) (wf : Bool) (pref : String)
    (classes : List String) : Verdict :=
  let model := "|".intercalate models
  let spec := "|".intercalate specs
  let cls := dedup classes
  let sorted := ["nokey", "rejected", "unique", "firstbest", "tiefirst", "laterbetter"].filter cls.contains
  { modelEq := impl == model, specOk := if wf then some (impl == spec) else none, kf := [],
    tag := pref ++ "+".intercalate (if wf then sorted else ["wildcard-obs"]), model := model, spec := spec }

/-- `C02.tcp <0 request | 1 response> <db> <observations>` — `find_best_match` on the TCP
collection built by `FingerprintCollection::new` (via `Database::from_str` or directly). -/
def opTcp (impl : String) : P Verdict := do
  let which ← nat; let db ← pDb pTcpSig; let obs ← list pTcpSig
  let models := obs.map (fun o => showRes tcpScore (tcpFind db o))
  let specs := obs.map (fun o =>
    showRes tcpScore (some (scanBest tcpDistance db o)))
  let wf := obs.all (fun o => o.version != .any && o.pclass != .any)
  pure (verdictMany impl models specs wf (if which == 0 then "tcpreq:" else "tcpresp:")
    (obs.map (classify tcpDistance tcpObsKey tcpSigKeys db)))

/-- `C02.http <0 request | 1 response> <db> <observations>` -/
def opHttp (impl : String) : P Verdict := do
  let which ← nat; let db ← pDb pHttpSig; let obs ← list pHttpSig
  let models := obs.map (fun o => showRes httpScore (httpFind db o))
  let specs := obs.map (fun o => showRes httpScore (some (scanBest httpDistance db o)))
  let wf := obs.all (fun o => o.version != .any)
  pure (verdictMany impl models specs wf (if which == 0 then "httpreq:" else "httpresp:")
    (obs.map (classify httpDistance httpObsKey httpSigKeys db)))

/-- `C02.key <option layout>` — the `olayout_key` string of `generate_index_key`; the
specification is the p0f text of the layout (tokens joined by commas), independently written. -/
def opKey (impl : String) : P Verdict := do
  let l ← list pTcpOption
  let tokOf : TcpOption → String
    | .eol n => s!"eol+{n}" | .nop => "nop" | .mss => "mss" | .ws => "ws" | .sok => "sok"
    | .sack => "sack" | .ts => "ts" | .unknown n => s!"?{n}"
  pure (verdictOf impl (olayoutKey l) (some (",".intercalate (l.map tokOf))) []
    s!"key:{if l.isEmpty then "empty" else if l.any (fun o => match o with | .eol _ => true | .unknown _ => true | _ => false) then "numeric" else "plain"}")

def showIpv : IpVersion → String | .v4 => "4" | .v6 => "6" | .any => "*"
def showPay : PayloadSize → String | .zero => "0" | .nonZero => "+" | .any => "*"
def showHv : HttpVersion → String | .v10 => "10" | .v11 => "11" | .v20 => "20" | .v30 => "30" | .any => "*"

/-- `C02.tkeys <tcp sig>` — `generate_index_keys_for_db_entry`, in order. Internal to the index:
compared against the model only. -/
def opTKeys (impl : String) : P Verdict := do
  let s ← pTcpSig
  let ks := tcpSigKeys s
  let model := ";".intercalate (ks.map (fun k => s!"{showIpv k.version}/{k.olayout}/{showPay k.pclass}"))
  pure (verdictOf impl model none [] s!"tkeys:{ks.length}")

/-- `C02.hkeys <http sig>` — `generate_http_index_keys`, in order. -/
def opHKeys (impl : String) : P Verdict := do
  let s ← pHttpSig
  let ks := httpSigKeys s
  let model := ";".intercalate (ks.map (fun k => showHv k.version))
  pure (verdictOf impl model none [] s!"hkeys:{ks.length}")

def handlers : List (String × (String → P Verdict)) :=
  [("C02.tcp", opTcp), ("C02.http", opHttp), ("C02.key", opKey), ("C02.tkeys", opTKeys),
   ("C02.hkeys", opHKeys)]

end Huginn.Drv.C02
