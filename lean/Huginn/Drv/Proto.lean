/-
Line protocol shared by the Rust harness `hvh` and the Lean driver `hdrv`.

A case is one line:  `<op> <tok> <tok> … => <impl output>`
Tokens are separated by single spaces. Numbers are decimal, byte strings are lowercase
hex (`-` for the empty string), lists are `<n> x1 … xn`.
The driver answers one line per case:
  `M=<0|1> S=<0|1|-> KF=<names|-> TAG=<branch tag> MODEL=<…> SPEC=<…>`
M: implementation output equals the model's. S: implementation output satisfies the
specification (`-`: specification leaves the case open). KF: known-finding classes the
input belongs to.
-/
namespace Huginn.Drv

abbrev P := StateT (List String) Option

def tok : P String := fun s => match s with | [] => none | t :: r => some (t, r)
def nat : P Nat := do let t ← tok; match t.toNat? with | some n => pure n | none => failure
def bool : P Bool := do let n ← nat; pure (n != 0)
def int : P Int := do let t ← tok; match t.toInt? with | some n => pure n | none => failure

def rep {α} (p : P α) : Nat → P (List α)
  | 0 => pure []
  | n + 1 => do let x ← p; let xs ← rep p n; pure (x :: xs)
def list {α} (p : P α) : P (List α) := do let n ← nat; rep p n
def opt {α} (p : P α) : P (Option α) := do let b ← bool; if b then some <$> p else pure none
def pair {α β} (p : P α) (q : P β) : P (α × β) := do let a ← p; let b ← q; pure (a, b)

def hexVal (c : Char) : Option Nat :=
  if '0' ≤ c ∧ c ≤ '9' then some (c.toNat - 48)
  else if 'a' ≤ c ∧ c ≤ 'f' then some (c.toNat - 87)
  else none

def hexDecode : List Char → Option (List UInt8)
  | [] => some []
  | a :: b :: r => do
    let x ← hexVal a; let y ← hexVal b; let t ← hexDecode r
    pure (UInt8.ofNat (x * 16 + y) :: t)
  | _ => none

def bytes : P (List UInt8) := do
  let t ← tok
  if t == "-" then pure [] else
  match hexDecode t.toList with | some b => pure b | none => failure

/-- ASCII/UTF-8 text sent as hex of its bytes; decoded bytewise (Latin-1) — only used where the
harness guarantees ASCII. -/
def text : P String := do
  let b ← bytes
  pure (String.ofList (b.map (fun x => Char.ofNat x.toNat)))

def hexDigit (n : Nat) : Char := if n < 10 then Char.ofNat (48 + n) else Char.ofNat (87 + n)
def hexOf (b : List UInt8) : String :=
  if b.isEmpty then "-" else
  String.ofList (b.flatMap (fun x => [hexDigit (x.toNat / 16), hexDigit (x.toNat % 16)]))

structure Verdict where
  modelEq : Bool
  specOk : Option Bool      -- none: unspecified
  kf : List String := []
  tag : String := "-"
  model : String := ""
  spec : String := ""

def Verdict.render (v : Verdict) : String :=
  let s := match v.specOk with | none => "-" | some true => "1" | some false => "0"
  let kf := if v.kf.isEmpty then "-" else ",".intercalate v.kf
  s!"M={if v.modelEq then 1 else 0} S={s} KF={kf} TAG={v.tag} MODEL={v.model} SPEC={v.spec}"

/-- Common case: functional model and functional spec over a printable output. -/
def verdictOf (impl model : String) (spec : Option String) (kf : List String) (tag : String) : Verdict :=
  { modelEq := impl == model,
    specOk := spec.map (fun s => impl == s),
    kf := kf, tag := tag, model := model, spec := spec.getD "-" }

def badCase : String := "M=0 S=- KF=- TAG=bad-case MODEL=? SPEC=?"

end Huginn.Drv
