import Huginn.Drv.Proto
import Huginn.Model.H2Message
import Huginn.Spec.H2Message
import Huginn.Spec.Hpack
namespace Huginn.Drv.C16
open Huginn.Drv Huginn.H2 Huginn.Spec.H2 Huginn.Spec.H2Message

def H : Hpack := Hpack.crate

def hx (b : Bytes) : String := hexOf b
def optHex : Option Bytes → String
  | none => "~"
  | some b => hx b

def showHdr (h : Hdr) : String := s!"{hx h.name}={optHex h.value}@{h.position}"
def showCookie (c : Cookie) : String := s!"{hx c.name}={optHex c.value}@{c.position}"
def showList {α} (f : α → String) (l : List α) : String := s!"{l.length}[" ++ ",".intercalate (l.map f) ++ "]"
def showSigHdr (h : SigHdr) : String := (if h.optional then "?" else "") ++ hx h.name ++ (match h.value with | some v => "=" ++ hx v | none => "")

def showReqCore (r : ReqCore) : String :=
  s!"m={hx r.method} p={hx r.path} a={optHex r.authority} s={optHex r.scheme} h={showList showHdr r.headers} " ++
  s!"c={showList showCookie r.cookies} r={optHex r.referer}"


def showOptNat : Option Nat → String | none => "~" | some n => toString n
def showOptBool : Option Bool → String | none => "~" | some b => if b then "1" else "0"
def showSettings (s : H2Settings) : String :=
  s!"{showOptNat s.headerTableSize},{showOptBool s.enablePush},{showOptNat s.maxConcurrentStreams},{showOptNat s.initialWindowSize},{showOptNat s.maxFrameSize},{showOptNat s.maxHeaderListSize}"
def showTypes (l : List UInt8) : String := ".".intercalate (l.map fun t => toString t.toNat)

def showReq (r : Request) : String :=
  "ok " ++ showReqCore (reqCore r) ++
  s!" ## sid={r.streamId} hc={r.headerCount} tl={r.totalHeadersLength} fs={showTypes r.frameSequence} set={showSettings r.settings}"

def showErr : ParseErr → String
  | .invalidPreface => "err:InvalidPreface"
  | .hpackDecodingFailed => "err:HpackDecodingFailed"
  | .missingRequiredHeaders => "err:MissingRequiredHeaders"

def showRespCore (r : RespCore) : String := s!"st={r.status} h={showList showHdr r.headers}"
def showResp (r : Response) : String :=
  "ok " ++ showRespCore (respCore r) ++
  s!" ## sid={r.streamId} hc={r.headerCount} tl={r.totalHeadersLength} fs={showTypes r.frameSequence} srv={optHex r.server} ct={optHex r.contentType}"

def showObsReqCore (o : ObsReqCore) : String :=
  s!"ok m={hx o.method} u={hx o.uri} h={showList showHdr o.headers} c={showList showCookie o.cookies} r={optHex o.referer} " ++
  s!"ua={optHex o.userAgent} lang={optHex o.lang} ho={showList showSigHdr o.horder} ha={showList showSigHdr o.habsent} " ++
  s!"sw={hx o.expsw} sig={hx (renderSig o.horder o.habsent o.expsw)}"


def showObsRespCore (o : ObsRespCore) : String :=
  s!"ok st={o.status} h={showList showHdr o.headers} ho={showList showSigHdr o.horder} ha={showList showSigHdr o.habsent} " ++
  s!"sw={hx o.expsw} sig={hx (renderSig o.horder o.habsent o.expsw)}"

/-- the part of an output line the specification speaks about -/
def corePart (s : String) : String := (s.splitOn " ## ").headD s

def verdict2 (impl model : String) (spec : Option String) (kf : List String) (tag : String) : Verdict :=
  { modelEq := impl == model, specOk := spec.map (fun s => corePart impl == s),
    kf := kf, tag := tag, model := model, spec := spec.getD "-" }

/-! ### specification side -/

inductive SpecOut (α : Type)
  | unspecified
  | nothing (kf : List String)         -- no message (yet)
  | message (m : α) (kf : List String) (feats : String)

def fieldTag (hs : List Field) : String :=
  let t := regular (textFields hs)
  (if t.any isCookie then "c" else "") ++ (if t.any isReferer then "r" else "") ++
  (if t.any (fun h => eqIgnoreCase h.name nUserAgent) then "u" else "") ++
  (if t.any (fun h => eqIgnoreCase h.name nAcceptLanguage) then "l" else "") ++
  (if t.any (fun h => h.value == some []) then "e" else "") ++
  (if hs.any (fun f => !utf8Valid f.1 || !utf8Valid f.2) then "x" else "")

def featTag (fs : List Char) : String :=
  String.ofList (['i', 'd', 'L', 'w', 'n', 'u', 'r', 'l', 'h', 'p'].filter (fun c => fs.contains c))

/-- decode the message's header block per RFC 7540/7541 and classify -/
def specFields (isReq : Bool) (frames : List Frame) : SpecOut (List Field) :=
  match primaryBlock frames with
  | none => .nothing []
  | some (_, _, .incomplete) =>
    .nothing (if KF.C16.headersContinued frames then ["KF.C16.headersContinued"] else [])
  | some (_, _, .malformed) => .unspecified
  | some (f, after, .complete b) =>
    match Spec.Hpack.decodeBlock {} b with
    | none => .unspecified
    | some o =>
      let legal := (if isReq then legalRequestFields o.fields else legalResponseFields o.fields) && noLaterBlocks f after
      if !legal then .unspecified
      else
        let kf := if o.staticRefs.contains 15 then ["KF.C16.hpackStaticEntry15"] else []
        .message o.fields kf (featTag o.feats ++ "/" ++ fieldTag o.fields)

def blockTag (frames : List Frame) : String :=
  match primaryBlock frames with
  | none => "nohdr"
  | some (f, after, b) =>
    (if padded f then "pad" else "") ++ (if hasPriority f then "pri" else "") ++
    (if !endHeaders f then s!"cont{contCount f after}" else "") ++
    (match b with | .complete _ => "ok" | .incomplete => "inc" | .malformed => "mal")

def ctrlTag (frames : List Frame) : String :=
  (if frames.any (fun f => f.ty == tySettings) then "S" else "") ++ (if frames.any (fun f => f.ty == tyWindowUpdate) then "W" else "") ++
  (if frames.any (fun f => f.ty == tyPing) then "P" else "") ++ (if frames.any (fun f => f.ty == tyPriority) then "Y" else "") ++
  (if frames.any (fun f => f.ty == tyData) then "D" else "")

/-- KF names that only matter for the p0f signature are dropped at the parser level -/
def dropSigKF (kf : List String) : List String := kf.filter (· != "KF.C16.listCase")

def lang : Bytes → Option Bytes := highestLanguage

/-- `C16.preq <bytes>` — `Http2Parser::new().parse_request` -/
def preq (impl : String) : P Verdict := do
  let data ← bytes
  let model := match parseRequest H data with
    | .error e => showErr e
    | .ok none => "none"
    | .ok (some r) => showReq r
  let frames := parseFrames (afterPreface data)
  let (spec, kf, ft) : Option String × List String × String :=
    if !hasPreface data then (none, [], "nopreface")
    else match specFields true frames with
      | .unspecified => (none, [], "unspec")
      | .nothing kf => (some "none", kf, "nothing")
      | .message hs kf ft => (some ("ok " ++ showReqCore (requestOf hs)), dropSigKF kf, ft)
  let out := if model.startsWith "ok" then "ok" else model
  pure (verdict2 impl model spec kf s!"preq:{blockTag frames}:{ctrlTag frames}:{ft}:{out}")

/-- `C16.presp <bytes>` — `Http2Parser::new().parse_response` -/
def presp (impl : String) : P Verdict := do
  let data ← bytes
  let model := match parseResponse H data with
    | .error e => showErr e
    | .ok none => "none"
    | .ok (some r) => showResp r
  let frames := parseFrames data
  let (spec, kf, ft) : Option String × List String × String :=
    match specFields false frames with
    | .unspecified => (none, [], "unspec")
    | .nothing kf => (some "none", kf, "nothing")
    | .message hs kf ft => (some ("ok " ++ showRespCore (responseOf hs)), dropSigKF kf, ft)
  let out := if model.startsWith "ok" then "ok" else model
  pure (verdict2 impl model spec kf s!"presp:{blockTag frames}:{ctrlTag frames}:{ft}:{out}")

def modelOReq (data : Bytes) : String :=
  match processorsParseRequest H lang data with
  | none => "none"
  | some o => showObsReqCore (obsReqCore o)

def modelOResp (data : Bytes) : String :=
  match processorsParseResponse H data with
  | none => "none"
  | some o => showObsRespCore (obsRespCore o)

/-- `C16.oreq <bytes>` — `HttpProcessors::new().parse_request` (inputs with `H1Rejects`) -/
def oreq (impl : String) : P Verdict := do
  let data ← bytes
  if !H1Rejects data then failure
  let model := modelOReq data
  let frames := parseFrames (afterPreface data)
  let (spec, kf, ft) : Option String × List String × String :=
    if !hasPreface data then (none, [], "nopreface")
    else match specFields true frames with
      | .unspecified => (none, [], "unspec")
      | .nothing kf => (some "none", kf, "nothing")
      | .message hs kf ft => (some (showObsReqCore (obsRequestOf lang hs)), kf, ft)
  let out := if model.startsWith "ok" then "ok" else if h2CanParse data then model else "none-cannotparse"
  pure (verdict2 impl model spec kf s!"oreq:{blockTag frames}:{ctrlTag frames}:{ft}:{out}")

/-- `C16.oresp <bytes>` — `HttpProcessors::new().parse_response` (inputs with `H1Rejects`) -/
def oresp (impl : String) : P Verdict := do
  let data ← bytes
  if !H1Rejects data then failure
  let model := modelOResp data
  let frames := parseFrames data
  let (spec, kf, ft) : Option String × List String × String :=
    if hasPreface data then (none, [], "preface")
    -- a server's first frame is SETTINGS (RFC 7540 §3.5); a stream that opens with a frame type RFC 7540
    -- does not define is not a connection start the statement speaks about
    else if (frames.head?.map (fun f => decide (f.ty.toNat > 9))).getD false then (none, [], "unspec")
    else match specFields false frames with
      | .unspecified => (none, [], "unspec")
      | .nothing kf => (some "none", kf, "nothing")
      | .message hs kf ft => (some (showObsRespCore (obsResponseOf hs)), kf, ft)
  let out := if model.startsWith "ok" then "ok" else if h2CanParse data then model else "none-cannotparse"
  pure (verdict2 impl model spec kf s!"oresp:{blockTag frames}:{ctrlTag frames}:{ft}:{out}")

/-- verdict for the sequence ops: the implementation output is `<after A> @@ <fresh instance>`; both must
equal the model of a fresh parse (correspondence), and — independently of any model — they must equal
each other (the specification: a message is decoded as by a fresh instance, whatever came before) -/
def seqVerdict (impl model tag : String) : Verdict :=
  match impl.splitOn " @@ " with
  | [after, fresh] =>
    { modelEq := after == model && fresh == model, specOk := some (after == fresh),
      kf := [], tag := tag, model := model ++ " @@ " ++ model, spec := "after == fresh" }
  | _ => { modelEq := false, specOk := none, kf := [], tag := tag, model := model, spec := "-" }

/-- `C16.seq <A> <B>` — one `HttpProcessors`: `parse_request(A)` then `parse_request(B)`; the output
is B's. Messages are independent (fresh HPACK context per parse). -/
def seq (impl : String) : P Verdict := do
  let _a ← bytes
  let b ← bytes
  if !H1Rejects b then failure
  let model := modelOReq b
  pure (seqVerdict impl model (if model == "none" then "seq:none" else "seq:ok"))

/-- `C16.seqr <A> <B>` — one `HttpProcessors`: `parse_request(A)`, `parse_response(A)`, then
`parse_response(B)`; the output is B's: the response path starts from an empty HPACK table too. -/
def seqr (impl : String) : P Verdict := do
  let _a ← bytes
  let b ← bytes
  if !H1Rejects b then failure
  let model := modelOResp b
  pure (seqVerdict impl model (if model == "none" then "seqr:none" else "seqr:ok"))

/-- `C16.lang <value>` — `get_highest_quality_language` -/
def langOp (impl : String) : P Verdict := do
  let v ← bytes
  let out := match highestLanguage? v with
    | some r => optHex r
    | none => "OUTSIDE-MODEL"
  pure (verdictOf impl out none [] (if out == "~" then "lang:none" else "lang:some"))

def showFields (r : Option (List Field)) : String :=
  match r with
  | none => "err"
  | some hs => s!"{hs.length}" ++ String.join (hs.map fun h => "," ++ hexOf h.1 ++ "=" ++ hexOf h.2)

def runCrate : HpackCrate.Dyn → List Bytes → List (Option (List Field))
  | _, [] => []
  | d, b :: bs => let r := HpackCrate.decode d b; r.1 :: runCrate r.2 bs

/-- RFC decoding of a block sequence; `none` as soon as one block is not valid HPACK -/
def runRfc : Spec.Hpack.Table → List Bytes → Option (List (List Field) × List Nat × List Char)
  | _, [] => some ([], [], [])
  | t, b :: bs =>
    match Spec.Hpack.decodeBlock t b with
    | none => none
    | some o => (runRfc o.table bs).map (fun (r, refs, fs) => (o.fields :: r, o.staticRefs ++ refs, o.feats ++ fs))

/-- `C16.hpack <n> <block>…` — `hpack_patched::Decoder` against RFC 7541 on valid block sequences -/
def hpack (impl : String) : P Verdict := do
  let blocks ← list bytes
  let model := ";".intercalate ((runCrate {} blocks).map showFields)
  match runRfc {} blocks with
  | none => pure (verdictOf impl model none [] "hp:invalid")
  | some (rs, refs, fs) =>
    let spec := ";".intercalate (rs.map (fun r => showFields (some r)))
    pure (verdictOf impl model (some spec) (if refs.contains 15 then ["KF.C16.hpackStaticEntry15"] else [])
      ("hp:" ++ featTag fs))

def handlers : List (String × (String → P Verdict)) :=
  [("C16.preq", preq), ("C16.presp", presp), ("C16.oreq", oreq), ("C16.oresp", oresp), ("C16.seq", seq),
   ("C16.seqr", seqr), ("C16.lang", langOp), ("C16.hpack", hpack)]

end Huginn.Drv.C16
