import Huginn.Drv.Proto
import Huginn.Model.Pool
/-
Driver for C10 (`C10.pool`) and the accounting half of C18 (`C18.acct`).

`C10.pool`: the sequential analyzer's results (grouped per connection / per sender, in order) are
the input; the pool's grouped results are the implementation output; by `pool_eq_seq_*` they must
be equal (model = spec = the sequential results).

`C18.acct`: the outcomes returned by the dispatch calls are the input; the statistics and the
number of results are the implementation output; by `Props.C18Pool.accounting` they are functions
of the outcomes, computed here with the very definitions the theorem uses (`nQueued`, `nFull`, …).
-/
namespace Huginn.Drv.C10
open Huginn.Drv Huginn.Pool

def pool (impl : String) : P Verdict := do
  let kind ← tok; let n ← nat; let batch ← nat; let _ ← nat; let nframes ← nat; let nconn ← nat
  let nseq ← nat; let seq ← text
  let model := s!"{nseq} {seq}"
  let tag := s!"pool:{kind}:n{if n == 1 then "1" else if n ≤ 4 then "2-4" else "8+"}:b{batch}:{if nseq == 0 then "empty" else "results"}"
  let _ := nframes; let _ := nconn
  pure (verdictOf impl model (some model) [] tag)

structure Oc where
  w : Nat
  queued : Bool
  cls : Nat      -- 0 first frame of a flow, 1 second frame (HTTP request), 2 non-TCP frame
  flow : Nat

/-- A flow yields one result iff one of its first-frame attempts was queued and (two-frame flows)
one of its second-frame attempts was queued (same worker, FIFO: the first is processed first). -/
def flowYields (two : Bool) (os : List Oc) (f : Nat) : Bool :=
  let mine := os.filter (fun o => o.flow == f)
  mine.any (fun o => o.cls == 0 && o.queued) && (!two || mine.any (fun o => o.cls == 1 && o.queued))

def acct (impl : String) : P Verdict := do
  let kind ← tok; let n ← nat; let q ← nat; let threads ← nat
  let ocs ← list (do let w ← nat; let qd ← bool; let c ← nat; let f ← nat; pure (Oc.mk w qd c f))
  -- the outcome list as the pool model records it
  let outcomes : List (Nat × Outcome) := ocs.map fun o =>
    (o.cls, if o.w ≥ n then .droppedUnroutable else if o.queued then .queued o.w else .droppedFull o.w)
  let st : State Unit Nat Unit :=
    { queue := fun _ => [], wst := fun _ => (), processed := fun _ => [], results := [], dispatched := 0,
      dropped := 0, wdropped := fun _ => 0, pendD := 0, pendX := 0, pendW := fun _ => 0,
      outcomes := outcomes, werrs := fun _ => 0 }
  let attemptCounted := kind != "tcp"
  -- no pool counts a worker's processing error as a drop (HTTP did until
  -- fixes/C18-http-worker-error-not-a-drop.patch; `Pool.httpPool.errCountsWorkerDropped = false`)
  let errCounts := (Huginn.Pool.httpPool (Pkt := Nat) n q (fun _ => 0)).errCountsWorkerDropped
  let d := nQueued st + (if attemptCounted then nFull st else 0)
  let x := nFull st + nUnroutable st
  -- processing errors per worker: queued non-TCP frames (only generated for the HTTP pool)
  let errsAt (w : Nat) : Nat := (ocs.filter fun o => o.cls == 2 && o.queued && o.w == w).length
  let wModel := (List.range n).map fun w => nFullAt st w + (if errCounts then errsAt w else 0)
  let wSpec := (List.range n).map fun w => nFullAt st w
  let two := kind == "http"
  let flows := ((ocs.filter (fun o => o.cls != 2)).map (·.flow)).eraseDups
  let r := (flows.filter (flowYields two ocs)).length
  let render (ws : List Nat) := s!"d={d} x={x} w={",".intercalate (ws.map toString)} r={r}"
  -- `:werr`: some worker analysed a queued frame that fails analysis (regression of the former finding
  -- KF.C18.httpWorkerErrCountedDropped: such a frame must not show in that worker's `dropped`)
  let anyErr := (List.range n).any fun w => errsAt w != 0
  let tag := s!"acct:{kind}:q{q}:t{if threads == 1 then "1" else "n"}:{if nFull st == 0 then "nodrop" else "drops"}" ++
    (if anyErr then ":werr" else "")
  pure (verdictOf impl (render wModel) (some (render wSpec)) [] tag)

/-- `C18.shut <kind> <workers> <frames before shutdown> <frames after shutdown>`: a dispatch call made after
`shutdown()` is, in the pool model, a dispatch of a packet the pool does not route (`route = none`: nothing
queued, `dropped` incremented, outcome Dropped) — `Props.C18Shutdown.accounting_with_shutdown`. With a
queue larger than the number of frames every earlier call is queued. -/
def shut (impl : String) : P Verdict := do
  let kind ← tok; let _n ← nat; let pre ← nat; let post ← nat
  let model := s!"qpre={pre} qpost=0 d={pre} x={post}"
  pure (verdictOf impl model (some model) [] s!"shut:{kind}:{if pre == 0 then "none-before" else "some-before"}")

def handlers : List (String × (String → P Verdict)) :=
  [("C10.pool", pool), ("C18.acct", acct), ("C18.shut", shut)]

end Huginn.Drv.C10
