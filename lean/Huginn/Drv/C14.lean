import Huginn.Drv.Proto
import Huginn.Spec.Filter
namespace Huginn.Drv.C14
open Huginn.Drv Huginn.Filter Huginn.Filter.Spec

def pAddr : P Addr := do
  let v ← nat; let a ← nat
  if v == 4 then pure (.v4 a) else pure (.v6 a)

def pPort : P UserPort := do
  let sp ← list nat; let dp ← list nat
  let sr ← list (pair nat nat); let dr ← list (pair nat nat)
  let any ← bool
  pure { srcPorts := sp, dstPorts := dp, srcRanges := sr, dstRanges := dr, anyPort := any }

def pIp : P IpFilter := do
  let v4 ← list nat; let v6 ← list nat; let cs ← bool; let cd ← bool
  pure { v4 := v4, v6 := v6, checkSrc := cs, checkDst := cd }

def pNet : P Net := do let a ← nat; let p ← nat; pure ⟨a, p⟩

def pSubnet : P SubnetFilter := do
  let v4 ← list pNet; let v6 ← list pNet; let cs ← bool; let cd ← bool
  pure { v4 := v4, v6 := v6, checkSrc := cs, checkDst := cd }

def pConfig : P UserConfig := do
  let m ← nat
  let port ← opt pPort; let ip ← opt pIp; let sub ← opt pSubnet
  pure { port := port, ip := ip, subnet := sub, mode := if m == 0 then .allow else .deny }

def showB (b : Bool) : String := if b then "true" else "false"

/-- `C14.sp <config> <src> <dst> <sport> <dport>` -/
def shouldProcess (impl : String) : P Verdict := do
  let c ← pConfig; let s ← pAddr; let d ← pAddr; let sp ← nat; let dp ← nat
  let model := c.build.shouldProcess s d sp dp
  let spec := decide (Admits c s d sp dp)
  let unspec := match c.port with | some u => decide (Unspecified u) | none => false
  let tag := (match c.mode with | .allow => "allow" | .deny => "deny") ++
    (if c.port.isSome then "+port" else "") ++ (if c.ip.isSome then "+ip" else "") ++
    (if c.subnet.isSome then "+subnet" else "") ++
    (match c.port with | some u => if u.anyPort then "+any" else "" | none => "") ++
    (if model then ":T" else ":F")
  pure (verdictOf impl (showB model) (if unspec then none else some (showB spec)) [] tag)

/-- `C14.pm <port filter> <sport> <dport>` — `PortFilter::matches` alone. -/
def portMatches (impl : String) : P Verdict := do
  let u ← pPort; let sp ← nat; let dp ← nat
  let model := u.build.matches sp dp
  let spec := decide (u.Matches sp dp)
  let tag := (if u.anyPort then "pm-any" else "pm-sides") ++ (if model then ":T" else ":F")
  pure (verdictOf impl (showB model) (if decide (Unspecified u) then none else some (showB spec)) [] tag)

/-- `C14.cidr <w> <addr> <pfx> <ip>` — `IpNetwork::contains` as used by the subnet filter. -/
def cidr (impl : String) : P Verdict := do
  let w ← nat; let a ← nat; let p ← nat; let ip ← nat
  let n : Net := ⟨a, p⟩
  let model := n.contains w ip
  let spec := decide (InBlock w n ip)
  pure (verdictOf impl (showB model) (some (showB spec)) [] s!"cidr{w}/{if p == 0 then "0" else if p == w then "full" else "mid"}{if model then ":T" else ":F"}")

def handlers : List (String × (String → P Verdict)) :=
  [("C14.sp", shouldProcess), ("C14.pm", portMatches), ("C14.cidr", cidr)]

end Huginn.Drv.C14
