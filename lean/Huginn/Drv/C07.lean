import Huginn.Drv.Proto
import Huginn.Model.FlowProgs
/-
Driver for C07: runs the flow-logic model (Model/FlowProgs.lean) on the interleaved trace, with the
non-flow logic (ClientHello parser, HTTP parsers, frequency estimate) supplied as oracle tables that
the harness computed on fresh isolated instances of the real code.

impl output = `<model view of interleaved outs>|<full interleaved outs>|<isolated c0>|<isolated c1>|…`
  M : model's interleaved outputs = implementation's (model view)
  S : for every connection, its outputs inside the interleaved run = its outputs when run alone
      (unspecified when the model saw an eviction: outside "within the configured capacity").
-/
namespace Huginn.Drv.C07
open Huginn.Drv Huginn.Flow Huginn.FlowProgs

def pEp : P Ep := do let a ← nat; let p ← nat; pure ⟨a, p⟩

def splitOuts (s : String) : List String := if s.isEmpty then [] else s.splitOn ";"

/-- Spec check on implementation outputs: per-connection projection of the interleaved run = isolated run. -/
def isolatedOk (order : List Nat) (full : List String) (iso : List (List String)) : Bool :=
  (List.range iso.length).all fun c =>
    ((order.zip full).filter (fun x => x.1 == c)).map (·.2) == iso.getD c []

def finish (impl : String) (order : List Nat) (modelOuts : List String) (noEvict : Bool) (tag : String) : Verdict :=
  match impl.splitOn "|" with
  | mv :: full :: iso =>
    let model := ";".intercalate modelOuts
    let ok := isolatedOk order (splitOuts full) (iso.map splitOuts)
    { modelEq := mv == model,
      specOk := if noEvict then some ok else none,
      kf := [], tag := tag ++ (if noEvict then "" else "+evict"),
      model := model, spec := if ok then "isolated" else "NOT-isolated" }
  | _ => { modelEq := false, specOk := none, tag := "bad-impl-output" }

/-! ### TLS -/

/-- Mirror of `TlsClientHelloReader::add_bytes` with the ClientHello parser as an oracle. -/
def readerAdd (oracle : List (Bytes × String)) (r : Bytes × Bool) (data : Bytes) : (Bytes × Bool) × AddRes String :=
  if r.2 then (r, .pending) else
  let buf := r.1 ++ data
  if buf.length < 5 then ((buf, false), .pending) else
  let ct := buf.getD 0 0
  let recLen := (buf.getD 3 0).toNat * 256 + (buf.getD 4 0).toNat
  let needed := recLen + 5
  if ct != 0x16 then (([], false), .pending) else
  if buf.length < needed then ((buf, false), .pending) else
  if needed > 64 * 1024 then (([], false), .err) else
  match oracle.lookup (buf.take needed) with
  | some "none" => (([], false), .pending)
  | some "err" => ((buf, false), .err)
  | some sig => ((buf.drop needed, true), .sig sig)
  | none => ((buf, false), .err)      -- oracle miss: reported through the tag

instance : BEq Bytes := inferInstanceAs (BEq (List UInt8))

def tls (impl : String) : P Verdict := do
  let cap ← nat
  let conns ← list (do
    let _ ← pEp; let _ ← pEp; let kind ← tok
    let o ← list (pair bytes tok)
    pure (kind, o))
  let trace ← list (do
    let c ← nat; let s ← pEp; let d ← pEp; let pl ← bytes; let t ← bool; let syn ← bool
    pure (c, s, d, pl, t, syn))
  let oracle := conns.flatMap (·.2)
  let isTlsTab := trace.map (fun x => (x.2.2.2.1, x.2.2.2.2.1))
  let P : TlsParams (Bytes × Bool) String :=
    { newReader := ([], false), addBytes := readerAdd oracle,
      isTls := fun b => (isTlsTab.lookup b).getD false }
  let segs : List Seg := trace.map fun x =>
    { src := x.2.1, dst := x.2.2.1, seq := 0, syn := x.2.2.2.2.2, ack := false, fin := false, rst := false,
      payload := x.2.2.2.1, time := 0, wall := 0, tsval := none }
  let r := (tlsAnalyzer P).runOutsNE ({ cap := cap }, ()) segs
  let outs := r.1.map fun o => match o with | some s => s | none => "-"
  let kinds := ",".intercalate ((conns.map (·.1)).eraseDups)
  pure (finish impl (trace.map (·.1)) outs r.2 s!"tls:{kinds}")

/-! ### HTTP -/

def http (impl : String) : P Verdict := do
  let cap ← nat
  let conns ← list (do
    let _ ← pEp; let _ ← pEp; let kind ← tok
    let o ← list (do let b ← bytes; let q ← tok; let a ← tok; pure (b, q, a))
    pure (kind, o))
  let trace ← list (do
    let c ← nat; let s ← pEp; let d ← pEp; let seq ← nat; let fl ← nat; let pl ← bytes
    pure (c, s, d, seq, fl, pl))
  let oracle := conns.flatMap (·.2)
  let look (b : Bytes) : Option (String × String) := oracle.lookup b
  let H : HttpParams Unit String String :=
    { parseReq := fun g b => (g, match look b with | some (q, _) => if q == "-" then none else some q | none => none),
      parseResp := fun g b => (g, match look b with | some (_, a) => if a == "-" then none else some a | none => none) }
  let segs : List Seg := trace.map fun x =>
    let fl := x.2.2.2.2.1
    { src := x.2.1, dst := x.2.2.1, seq := x.2.2.2.1,
      syn := fl / 2 % 2 == 1, ack := fl / 16 % 2 == 1, fin := fl % 2 == 1, rst := fl / 4 % 2 == 1,
      payload := x.2.2.2.2.2, time := 0, wall := 0, tsval := none }
  let r := (httpAnalyzer H).runOutsNE ({ cap := cap }, ()) segs
  let outs := r.1.map fun o => s!"{o.req.getD "-"},{o.resp.getD "-"}"
  let kinds := ",".intercalate ((conns.map (·.1)).eraseDups)
  pure (finish impl (trace.map (·.1)) outs r.2 s!"http:{kinds}")

/-! ### TCP uptime tracker -/

def tcp (impl : String) : P Verdict := do
  let cap ← nat
  let conns ← list (do
    let _ ← pEp; let _ ← pEp; let kind ← tok
    let o ← list (do let a ← nat; let b ← nat; let c ← nat; let d ← nat; let r ← tok; pure ((a, b, c, d), r))
    pure (kind, o))
  let trace ← list (do
    let c ← nat; let s ← pEp; let d ← pEp; let fc ← bool
    let ts ← opt nat; let wall ← nat
    pure (c, s, d, fc, ts, wall))
  let oracle := conns.flatMap (·.2)
  let U : UptimeParams String :=
    { estimate := fun a b c d => match oracle.lookup (a, b, c, d) with
        | some r => if r == "-" then none else some r
        | none => none }
  -- `fromClient` is a function of the segment in the model; the harness supplies it per packet, keyed by the packet itself
  let segs : List (Seg × Bool) := trace.map fun x =>
    ({ src := x.2.1, dst := x.2.2.1, seq := 0, syn := false, ack := false, fin := false, rst := false,
       payload := [], time := 0, wall := x.2.2.2.2.2, tsval := x.2.2.2.2.1 }, x.2.2.2.1)
  -- encode fromClient in the `syn` bit so that it is a function of the segment
  let segs' : List Seg := segs.map fun x => { x.1 with syn := x.2 }
  let r := (tcpAnalyzer U (fun s => s.syn)).runOutsNE ({ cap := cap }, ()) segs'
  let outs := r.1.map fun o => match o with
    | .none => "-,-" | .client u => s!"{u},-" | .server u => s!"-,{u}"
  pure (finish impl (trace.map (·.1)) outs r.2 "tcp")

/-! ### Unified analyzer: no flow-logic model of its own here (C20 ties it to the three above);
only the isolation specification is evaluated on the implementation's outputs. -/

def uni (impl : String) : P Verdict := do
  let cap ← nat
  let conns ← list (do
    let _ ← pEp; let _ ← pEp; let kind ← tok; let n ← nat
    pure (kind, n))
  let order ← list nat
  -- eviction possible iff more table entries than capacity could be live; conservative: #connections*2 ≤ cap
  let noEvict := decide (conns.length * 2 ≤ cap)
  match impl.splitOn "|" with
  | mv :: full :: iso =>
    let ok := isolatedOk order (splitOuts full) (iso.map splitOuts)
    let kinds := ",".intercalate ((conns.map (·.1)).eraseDups)
    pure { modelEq := mv == full, specOk := if noEvict then some ok else none,
           tag := s!"uni:{kinds}" ++ (if noEvict then "" else "+evict"), model := "n/a",
           spec := if ok then "isolated" else "NOT-isolated" }
  | _ => pure { modelEq := false, specOk := none, tag := "bad-impl-output" }

/-- `C07.pool kind n nconn <isolated results grouped per connection>`: the real pool, capacity exactly
the number of (concurrently live, same-worker) connections, must report per connection what each
connection yields alone. -/
def pool (impl : String) : P Verdict := do
  let kind ← tok; let _ ← nat; let _ ← nat; let iso ← text
  pure (verdictOf impl iso (some iso) [] s!"pool:{kind}")

/-- `C07.ttl <cap> <n> (<time ms> <op> <key> <value> <ttl ms>)*` — a real `ttl_cache::TtlCache<u8,u32>` on its
own clock against the `TtlMap` model of Model/Flow.lean driven with the instants at which the operations
actually ran. op: 0 insert, 1 get, 2 get_mut + write, 3 remove, 4 contains_key. An operation that ran within
3 ms of an entry's expiry instant makes the case unspecified (compared with nothing). -/
def ttl (impl : String) : P Verdict := do
  let cap ← nat
  let ops ← list (do let t ← nat; let o ← nat; let k ← nat; let v ← nat; let tt ← nat; pure (t, o, k, v, tt))
  let rec go (m : Huginn.Flow.TtlMap Nat Nat) : List (Nat × Nat × Nat × Nat × Nat) → List String × Bool
    | [] => ([], false)
    | (t, o, k, v, tt) :: rest =>
      let near := m.es.any (fun e => (if t > e.exp then t - e.exp else e.exp - t) < 3)
      let (m', out) : Huginn.Flow.TtlMap Nat Nat × String :=
        if o == 0 then (m.insert t k v tt, "i")
        else if o == 1 then (m, match m.get t k with | some x => toString x | none => "-")
        else if o == 2 then (match m.get t k with | some _ => (m.set t k v, "1") | none => (m, "0"))
        else if o == 3 then (m.remove k, "r")
        else (m, if (m.get t k).isSome then "1" else "0")
      let (outs, nr) := go m' rest
      (out :: outs, near || nr)
  let (outs, near) := go { cap := cap } ops
  let model := ",".intercalate outs
  -- features exercised: a read that finds an expired entry; an insert that evicts
  let rec feats (m : Huginn.Flow.TtlMap Nat Nat) : List (Nat × Nat × Nat × Nat × Nat) → Bool × Bool
    | [] => (false, false)
    | (t, o, k, v, tt) :: rest =>
      let expiredRead := o != 0 && o != 3 && (m.find? k).isSome && (m.get t k).isNone
      let evicts := o == 0 && decide ((m.es.filter (fun e => e.key ≠ k)).length ≥ m.cap)
      let m' := if o == 0 then m.insert t k v tt else if o == 2 then (match m.get t k with | some _ => m.set t k v | none => m)
                else if o == 3 then m.remove k else m
      let r := feats m' rest
      (expiredRead || r.1, evicts || r.2)
  let f := feats { cap := cap } ops
  let ft := (if f.1 then "x" else "") ++ (if f.2 then "e" else "")
  if near then
    pure { modelEq := true, specOk := none, tag := "ttl:near-boundary", model := model, spec := "-" }
  else
    pure (verdictOf impl model none [] s!"ttl:{ft}")

def handlers : List (String × (String → P Verdict)) :=
  [("C07.ttl", ttl), ("C07.pool", pool), ("C07.tls", tls), ("C07.http", http), ("C07.tcp", tcp), ("C07.uni", uni)]

end Huginn.Drv.C07
