import Huginn.Drv.Proto
import Huginn.Drv.C12
import Huginn.Drv.C02
import Huginn.Spec.Reach
import Huginn.Model.Http1
namespace Huginn.Drv.C13
open Huginn.Drv Huginn.Drv.C12 Huginn.Sig Huginn.Match Huginn.Match.Spec Huginn.TcpExtract
open Huginn.TcpSig.Spec Huginn.Reach Huginn.Reach.Spec

def sigsOf {σ : Type} (c : List (Nat × String × List (Nat × σ))) : List (List σ) := c.map (fun e => e.2.2.map (·.2))

def firstDiff {σ : Type} [DecidableEq σ] (a b : List (List σ)) : String :=
  if a = b then "ok"
  else if a.length ≠ b.length then s!"labels {a.length} vs {b.length}"
  else match (a.zip b).zipIdx.find? (fun p => p.1.1 ≠ p.1.2) with
    | some p => s!"label {p.2} differs"
    | none => "?"

/-- `C13.db <0 tcp:request | 1 tcp:response | 2 http:request | 3 http:response> <entries>` — the
entries `Database::load_default()` holds against the regenerated `Gen/BundledSig.lean`. -/
def opDb (impl : String) : P Verdict := do
  let which ← nat
  let model ←
    if which < 2 then do
      let db ← C02.pDb pTcpSig
      pure (firstDiff (db.map (·.2)) (sigsOf (if which == 0 then Gen.BundledSig.tcpRequest else Gen.BundledSig.tcpResponse)))
    else do
      let db ← C02.pDb pHttpSig
      pure (firstDiff (db.map (·.2)) (sigsOf (if which == 2 then Gen.BundledSig.httpRequest else Gen.BundledSig.httpResponse)))
  pure (verdictOf impl model (some "ok") [] s!"db:{which}:{model == "ok"}")

def showFind (score : Nat → Nat) : Option (Option (Nat × Nat × Nat)) → String
  | none => "PANIC"
  | some none => "none"
  | some (some (i, j, d)) => s!"{i} {j} {renderCenti (score d)}"

def reasonName : DeadTcp → String
  | .badTtl => "badTtl" | .oddTtl => "oddTtl" | .eolPadding => "eolPadding" | .quirkOrder => "quirkOrder"
  | .scaleWithoutOption => "scaleWithoutOption" | .windowReclassified => "windowReclassified"
  | .versionQuirks => "versionQuirks"

def sigAt {σ : Type} (db : List (Label × List σ)) (i j : Nat) : Option σ :=
  match db[i]? with
  | none => none
  | some e => e.2[j]?

/-- Does the implementation's answer `i j q` satisfy `Good` for the own entry `(li, si)`? -/
def goodAnswer {σ ω : Type} (inst : ω → σ → Bool) (db : List (Label × List σ)) (li si : Nat) (o : ω)
    (ans : String) : Bool :=
  match ans.splitOn " " with
  | [is, js, q] =>
    match is.toNat?, js.toNat? with
    | some i, some j =>
      q == "1" && (decide (i < li) || (i == li && decide (j ≤ si))) &&
      (match sigAt db i j with | some s' => inst o s' | none => false)
    | _, _ => false
  | _ => false

def hitClass (li si : Nat) (ans : String) : String :=
  match ans.splitOn " " with
  | [is, js, q] =>
    match is.toNat?, js.toNat? with
    | some i, some j =>
      (if i == li && j == si then "own" else if i < li || (i == li && j < si) then "earlier" else "later") ++
      (if q == "1" then "" else ":q" ++ q)
    | _, _ => "?"
  | _ => if ans == "none" then "none" else "other"

/-- `C13.tcp <0 SYN | 1 SYN+ACK> <label idx> <sig idx> <0 v4 | 1 v6> <IP packet>` — traffic
synthesised for bundled entry `(label idx, sig idx)` of the request / response section, run through
`process_ipv{4,6}_packet` with the bundled matcher. Output `<syn|synack> <none | i j quality>`. -/
def opTcp (impl : String) : P Verdict := do
  let respN ← nat; let li ← nat; let si ← nat; let v6 ← bool; let b ← bytes
  let resp := respN != 0
  let bn := b.map (·.toNat)
  let db := if resp then bundledTcpResponse else bundledTcpRequest
  let ownSig := sigAt db li si
  let (model, obs?, fields?) : String × Option TcpObs × Option Fields :=
    match decodeFields v6 bn with
    | none => ("undecodable", none, none)
    | some (.error _) => ("err", none, none)
    | some (.ok f) =>
      match tcpAnalyze bundledTcpRequest bundledTcpResponse f with
      | none => ("nosig", none, some f)
      | some (isSyn, o, r) => (s!"{if isSyn then "syn" else "synack"} {showFind tcpScore r}", some o, some f)
  let conforms : Bool :=
    match fields?, ownSig with
    | some f, some s =>
      match parseArea f.tcp.opts with
      | some a => decide (f.WF) && decide (ConformsTcp resp f a s)
      | none => false
    | _, _ => false
  let reasons := match ownSig with | some s => deadReasons v6 s | none => []
  let role := if resp then "synack" else "syn"
  let specOk : Option Bool :=
    if !conforms then none
    else some (
      match obs? with
      | some o =>
        (impl.startsWith (role ++ " ")) &&
          goodAnswer (fun o s => decide (TcpInst o s)) db li si o ((impl.drop (role.length + 1)).toString)
      | none => false)
  let ans := ((impl.drop (role.length + 1)).toString)
  let tag := s!"tcp:{role}{if v6 then "6" else "4"}:{if reasons.isEmpty then "reach" else "+".intercalate (reasons.map reasonName)}:" ++
    (if conforms then hitClass li si ans else "nonconforming")
  pure { modelEq := impl == model, specOk := specOk, kf := reasons.map (fun r => "KF.C13." ++ reasonName r),
         tag := tag, model := model,
         spec := if conforms then "own or earlier instantiated entry at quality 1" else "-" }

def bytesStr (b : List UInt8) : String := String.ofList (b.map (fun x => Char.ofNat x.toNat))

def ofSigHdr (h : Huginn.Http1.SigHdr) : Header :=
  { optional := h.optional, name := bytesStr h.name, value := h.value.map bytesStr }

def ofVer : Huginn.Http1.Ver → HttpVersion
  | .v10 => .v10 | .v11 => .v11 | .v20 => .v20 | .v30 => .v30

/-- The observation C05's model (`Model/Http1.lean`: parser + `convert_headers_to_http_format` +
absent list) builds from the message bytes. -/
def c05Obs (isReq : Bool) (msg : List UInt8) : Option HttpObs :=
  if isReq then
    match Huginn.Http1.parseRequest msg with
    | .ok r => some { version := ofVer r.ver,
                      horder := (Huginn.Http1.convertHeaders true r.headers).map ofSigHdr,
                      habsent := (Huginn.Http1.absentHeaders true r.headers).map ofSigHdr,
                      expsw := bytesStr (r.userAgent.getD Huginn.Http1.unknownSw) }
    | _ => none
  else
    match Huginn.Http1.parseResponse msg with
    | .ok r => some { version := ofVer r.ver,
                      horder := (Huginn.Http1.convertHeaders false r.headers).map ofSigHdr,
                      habsent := (Huginn.Http1.absentHeaders false r.headers).map ofSigHdr,
                      expsw := bytesStr (r.server.getD Huginn.Http1.unknownSw) }
    | _ => none

def showHeaders (hs : List Header) : String :=
  ",".intercalate (hs.map (fun h => (if h.optional then "?" else "") ++ h.name ++
    (match h.value with | some v => "=[" ++ v ++ "]" | none => "")))

/-- `C13.http <1 request | 0 response> <label idx> <sig idx> <version> <headers (name, value)>
<software header value> <message bytes> <observation built by the real parser>` — a message synthesised for the
bundled entry, parsed by `parse_http1_{request,response}` and looked up with the bundled matcher.
The model rebuilds the observation from the header list (it must equal the real one) and looks it
up. Output `none | i j quality`. -/
def opHttp (impl : String) : P Verdict := do
  let isReq ← bool; let li ← nat; let si ← nat; let v ← pHttpVersion
  let hs ← list (do let n ← text; let val ← opt text; pure (n, val))
  let sw ← opt text
  let msg ← bytes
  let real ← opt (do
    let rv ← pHttpVersion; let ho ← list pHeader; let ha ← list pHeader; let e ← text
    pure ({ version := rv, horder := ho, habsent := ha, expsw := e } : HttpObs))
  let o := httpObsOf isReq v hs sw
  let db := if isReq then bundledHttpRequest else bundledHttpResponse
  let model :=
    match real with
    | none => "unparsed"
    | some ro =>
      if ro ≠ o then s!"observation differs: model {showHeaders o.horder}|{showHeaders o.habsent}|{o.expsw}"
      else if c05Obs isReq msg ≠ some o then "the C05 model (Model/Http1) builds a different observation from the message bytes"
      else showFind httpScore (httpAnalyze bundledHttpRequest bundledHttpResponse isReq o)
  let own := sigAt db li si
  -- conformance once the lines the request parser takes out (Cookie / Referer, any number) are
  -- disregarded: `Props.C13.reach_http_request_cookies`; for responses `parsedHeaders` is the identity
  let conforms := match own with | some s => decide (ConformsHttp isReq v (parsedHeaders isReq hs) sw s) | none => false
  let kf : List String :=
    match own with
    | none => []
    | some s =>
      kfNames [("KF.C13.httpHeaderShape", !decide (ReachHttp isReq s)),
               ("KF.C13.httpAbsentList", decide (KF.C13.httpAbsentList o.habsent s.habsent)),
               ("KF.C13.httpSoftwareString", decide (KF.C12.expswReversed o.expsw s.expsw))]
  let specOk : Option Bool :=
    if !conforms then none
    else some (goodAnswer (fun o s => httpDistance s o == some 0) db li si o impl)
  let tag := s!"http:{if isReq then "req" else "resp"}:{if kf.isEmpty then "reach" else "+".intercalate (kf.map (fun k => (k.drop 7).toString))}:" ++
    (if conforms then hitClass li si impl else "nonconforming")
  pure { modelEq := impl == model, specOk := specOk, kf := kf, tag := tag, model := model,
         spec := if conforms then "own or earlier accepting entry at quality 1" else "-" }

def handlers : List (String × (String → P Verdict)) :=
  [("C13.db", opDb), ("C13.tcp", opTcp), ("C13.http", opHttp)]

end Huginn.Drv.C13
