//! C13 — every bundled signature against traffic synthesised to conform to it, through the real
//! analyzers with the bundled database: `huginn_net_tcp::process_ipv{4,6}_packet(…, Some(matcher))`
//! for SYN / SYN+ACK segments, `huginn_net_http::http1_process::parse_http1_{request,response}` +
//! `SignatureMatcher::matching_by_http_{request,response}` for HTTP/1.x messages.
//! `C13.db` first sends the loaded database for comparison with the regenerated Lean tables.
use super::c03::{tcp_bytes, v4_bytes, v6_bytes, Tcp, V4, V6};
use super::c12::{w_http_sig, w_tcp_sig};
use crate::rng::Rng;
use crate::wr::{guarded, Line};
use crate::Ctx;
use huginn_net_db::http::{self, Header, Version};
use huginn_net_db::tcp::{self, IpVersion, PayloadSize, Quirk, TcpOption, Ttl, WindowSize};
use huginn_net_db::{Database, Label};
use pnet::packet::ipv4::Ipv4Packet;
use pnet::packet::ipv6::Ipv6Packet;
use ttl_cache::TtlCache;

fn locate<S>(entries: &[(Label, Vec<S>)], l: &Label, s: &S) -> Option<(usize, usize)> {
    for (i, (lab, sigs)) in entries.iter().enumerate() {
        if std::ptr::eq(lab, l) {
            for (j, x) in sigs.iter().enumerate() {
                if std::ptr::eq(x, s) {
                    return Some((i, j));
                }
            }
        }
    }
    None
}
fn show<S>(entries: &[(Label, Vec<S>)], r: Option<(&Label, &S, f32)>) -> String {
    match r {
        None => "none".to_string(),
        Some((l, s, q)) => match locate(entries, l, s) {
            Some((i, j)) => format!("{i} {j} {q}"),
            None => "FOREIGN-REF".to_string(),
        },
    }
}

fn emit_db(ctx: &mut Ctx, db: &Database) {
    for which in 0..2u8 {
        let e = if which == 0 { &db.tcp_request.entries } else { &db.tcp_response.entries };
        let mut l = Line::op("C13.db");
        l.nat(which);
        l.list(e, |l, (_, sigs)| {
            l.list(sigs, |l, s| w_tcp_sig(l, s));
        });
        ctx.emit(l.finish("ok"));
    }
    for which in 2..4u8 {
        let e = if which == 2 { &db.http_request.entries } else { &db.http_response.entries };
        let mut l = Line::op("C13.db");
        l.nat(which);
        l.list(e, |l, (_, sigs)| {
            l.list(sigs, |l, s| w_http_sig(l, s));
        });
        ctx.emit(l.finish("ok"));
    }
}

// ------------------------------------------------------------------ TCP synthesis

pub struct TcpParams {
    pub v6: bool,
    pub hops: u8,
    pub mss: u16,
    pub shift: u8,
    /// multiplier / free window for `*`
    pub free_window: u16,
    pub sport: u16,
    pub dport: u16,
    pub seq: u32,
    pub tsval: u32,
    pub payload: usize,
}

fn has(q: &[Quirk], x: Quirk) -> bool {
    q.contains(&x)
}

/// A SYN (`resp = false`) or SYN+ACK conforming to `s` under the p0f field definitions.
pub fn synth_tcp(s: &tcp::Signature, resp: bool, p: &TcpParams) -> (bool, Vec<u8>) {
    let q = &s.quirks;
    let v6 = match s.version {
        IpVersion::V4 => false,
        IpVersion::V6 => true,
        IpVersion::Any => p.v6,
    };
    let mss = s.mss.unwrap_or(p.mss.max(1));
    let shift = s.wscale.unwrap_or(if has(q, Quirk::ExcessiveWindowScaling) { 15 } else { p.shift.min(14) });
    let mut opts: Vec<u8> = vec![];
    for o in &s.olayout {
        match o {
            TcpOption::Nop => opts.push(1),
            TcpOption::Mss => opts.extend([2, 4, (mss >> 8) as u8, mss as u8]),
            TcpOption::Ws => opts.extend([3, 3, shift]),
            TcpOption::Sok => opts.extend([4, 2]),
            TcpOption::Sack => opts.extend([5, 10, 0, 0, 0, 1, 0, 0, 0, 2]),
            TcpOption::TS => {
                let tsval: u32 = if has(q, Quirk::OwnTimestampZero) { 0 } else { p.tsval.max(1) };
                let tsecr: u32 = if has(q, Quirk::PeerTimestampNonZero) || resp { 77 } else { 0 };
                opts.extend([8, 10]);
                opts.extend(tsval.to_be_bytes());
                opts.extend(tsecr.to_be_bytes());
            }
            TcpOption::Eol(n) => {
                opts.push(0);
                for k in 0..*n {
                    opts.push(if has(q, Quirk::TrailinigNonZero) && k == 0 { 9 } else { 0 });
                }
            }
            TcpOption::Unknown(k) => opts.extend([*k, 2]),
        }
    }
    let minhdr: u32 = if v6 { 60 } else { 40 };
    let window: u16 = match &s.wsize {
        WindowSize::Any => p.free_window,
        WindowSize::Value(w) => *w,
        WindowSize::Mod(n) => ((p.free_window as u32 / (*n).max(1) as u32) * *n as u32) as u16,
        WindowSize::Mss(n) => (*n as u32 * mss as u32).min(65535) as u16,
        WindowSize::Mtu(n) => (*n as u32 * (mss as u32 + minhdr)).min(65535) as u16,
    };
    let init: u8 = match &s.ittl {
        Ttl::Value(t) | Ttl::Bad(t) | Ttl::Guess(t) => *t,
        Ttl::Distance(t, d) => t.saturating_add(*d),
    };
    let ttl = init.saturating_sub(p.hops).max(1);
    let mut flags: u8 = if resp { 0x12 } else { 0x02 };
    if has(q, Quirk::Urg) {
        flags |= 0x20;
    }
    if has(q, Quirk::Push) {
        flags |= 0x08;
    }
    let ecn_ip = has(q, Quirk::Ecn);
    let ack: u32 = if resp {
        if has(q, Quirk::AckNumZero) {
            0
        } else {
            p.seq.wrapping_add(7).max(1)
        }
    } else if has(q, Quirk::AckNumNonZero) {
        12345
    } else {
        0
    };
    let t = Tcp {
        sport: p.sport,
        dport: p.dport,
        seq: if has(q, Quirk::SeqNumZero) { 0 } else { p.seq.max(1) },
        ack,
        doff: None,
        flags,
        window,
        urg: if has(q, Quirk::NonZeroURG) { 5 } else { 0 },
        opts,
        payload: match s.pclass {
            PayloadSize::NonZero => vec![0x41; p.payload.max(1)],
            _ => vec![],
        },
    };
    let l4 = tcp_bytes(&t);
    let bytes = if v6 {
        let ip = V6 {
            tc: if ecn_ip { 2 } else { 0 },
            flow: if has(q, Quirk::FlowID) { 0x12345 } else { 0 },
            hop: ttl,
            ..Default::default()
        };
        v6_bytes(&ip, &l4)
    } else {
        let df = has(q, Quirk::Df);
        let id: u16 = if df {
            if has(q, Quirk::NonZeroID) {
                0x1234
            } else {
                0
            }
        } else if has(q, Quirk::ZeroID) {
            0
        } else {
            0x4321
        };
        let ip = V4 {
            ihl: 5 + s.olen / 4,
            ecn: if ecn_ip { 2 } else { 0 },
            id,
            flags: (if df { 2 } else { 0 }) | (if has(q, Quirk::MustBeZero) { 4 } else { 0 }),
            ttl,
            ..Default::default()
        };
        v4_bytes(&ip, &l4)
    };
    (v6, bytes)
}

fn run_tcp(db: &Database, resp: bool, v6: bool, bytes: &[u8]) -> String {
    let b = bytes.to_vec();
    guarded(std::panic::AssertUnwindSafe(move || {
        let matcher = huginn_net_tcp::signature_matcher::SignatureMatcher::new(db);
        let mut tracker = TtlCache::new(16);
        let res = if v6 {
            match Ipv6Packet::new(&b) {
                None => return "undecodable".to_string(),
                Some(p) => huginn_net_tcp::process_ipv6_packet(&p, &mut tracker, Some(&matcher)),
            }
        } else {
            match Ipv4Packet::new(&b) {
                None => return "undecodable".to_string(),
                Some(p) => huginn_net_tcp::process_ipv4_packet(&p, &mut tracker, Some(&matcher)),
            }
        };
        let r = match res {
            Err(_) => return "err".to_string(),
            Ok(r) => r,
        };
        let _ = resp;
        let quality = |m: &huginn_net_db::MatchQualityType| match m {
            huginn_net_db::MatchQualityType::Matched(q) => format!("{q}"),
            huginn_net_db::MatchQualityType::NotMatched => "none".to_string(),
            huginn_net_db::MatchQualityType::Disabled => "disabled".to_string(),
        };
        if let Some(syn) = &r.syn {
            let direct = show(&db.tcp_request.entries, matcher.matching_by_tcp_request(&syn.sig));
            let q = quality(&syn.os_matched.quality);
            let dq = direct.rsplit(' ').next().unwrap_or("").to_string();
            if dq != q {
                return format!("syn DIFF output-quality={q} matcher={direct}");
            }
            return format!("syn {direct}");
        }
        if let Some(sa) = &r.syn_ack {
            let direct = show(&db.tcp_response.entries, matcher.matching_by_tcp_response(&sa.sig));
            let q = quality(&sa.os_matched.quality);
            let dq = direct.rsplit(' ').next().unwrap_or("").to_string();
            if dq != q {
                return format!("synack DIFF output-quality={q} matcher={direct}");
            }
            return format!("synack {direct}");
        }
        "nosig".to_string()
    }))
}

fn emit_tcp(ctx: &mut Ctx, db: &Database, resp: bool, li: usize, si: usize, v6: bool, bytes: &[u8]) {
    let mut l = Line::op("C13.tcp");
    l.bool(resp).usize(li).usize(si).bool(v6).bytes(bytes);
    ctx.emit(l.finish(&run_tcp(db, resp, v6, bytes)));
}

fn gen_params(r: &mut Rng, k: usize) -> TcpParams {
    let msss = [1460u16, 1440, 1380, 536, 1400, 8960, 100, 99, 1, 65495, 1452, 1360];
    TcpParams {
        v6: k % 5 == 4,
        hops: match k % 7 {
            0 => 0,
            1 => 30,
            2 => 1,
            _ => r.below(31) as u8,
        },
        mss: if k < msss.len() { msss[k] } else { *r.pick(&msss[..8]) },
        shift: r.below(15) as u8,
        free_window: match r.below(4) {
            0 => 65535,
            1 => 8192,
            2 => 5840,
            _ => r.next() as u16,
        },
        sport: r.range(1025, 65535) as u16,
        dport: *r.pick(&[80u16, 443, 22, 8080]),
        seq: r.next() as u32,
        tsval: r.next() as u32,
        payload: r.range(1, 20) as usize,
    }
}

fn tcp_all(ctx: &mut Ctx, db: &Database, r: &mut Rng) {
    let per_sig = ctx.n(10, 120);
    for resp in [false, true] {
        let entries = if resp { &db.tcp_response.entries } else { &db.tcp_request.entries };
        for (li, (_, sigs)) in entries.iter().enumerate() {
            for (si, s) in sigs.iter().enumerate() {
                for k in 0..per_sig {
                    let p = gen_params(r, k);
                    let (v6, bytes) = synth_tcp(s, resp, &p);
                    emit_tcp(ctx, db, resp, li, si, v6, &bytes);
                }
            }
        }
    }
}

// ------------------------------------------------------------------ HTTP synthesis

fn w_msg(l: &mut Line, hs: &[(String, String)], sw: &Option<String>) {
    l.list(hs, |l, (n, v)| {
        l.text(n).nat(1u8).text(v);
    });
    match sw {
        None => l.nat(0u8),
        Some(s) => l.nat(1u8).text(s),
    };
}

/// Header list of a message conforming to `s`: optional headers in or out (bit mask), demanded
/// values as such, free values filled.
fn synth_headers(s: &http::Signature, is_req: bool, mask: u64, sw: &str, r: &mut Rng) -> Vec<(String, String)> {
    let sw_name = if is_req { "User-Agent" } else { "Server" };
    let mut out = vec![];
    let mut k = 0;
    for h in &s.horder {
        if h.optional {
            let keep = (mask >> k) & 1 == 1;
            k += 1;
            if !keep {
                continue;
            }
        }
        let value = if h.name.eq_ignore_ascii_case(sw_name) {
            sw.to_string()
        } else {
            match &h.value {
                Some(v) => v.clone(),
                None => r.pick(&["x", "keep-alive", "en-US", "text/html", "1"]).to_string(),
            }
        };
        out.push((h.name.clone(), value));
    }
    out
}

fn render_msg(is_req: bool, version: Version, hs: &[(String, String)]) -> Vec<u8> {
    let v = if version == Version::V10 { "HTTP/1.0" } else { "HTTP/1.1" };
    let mut s = if is_req { format!("GET /index.html {v}\r\n") } else { format!("{v} 200 OK\r\n") };
    for (n, val) in hs {
        s.push_str(&format!("{n}: {val}\r\n"));
    }
    s.push_str("\r\n");
    s.into_bytes()
}

fn header_tokens(l: &mut Line, hs: &[Header]) {
    l.list(hs, |l, h| super::c12::w_header(l, h));
}

fn run_http(db: &Database, is_req: bool, msg: &[u8]) -> (String, Option<(Version, Vec<Header>, Vec<Header>, String)>) {
    let m = msg.to_vec();
    let mut obs_out = None;
    let out = {
        let obs_ref = &mut obs_out;
        guarded(std::panic::AssertUnwindSafe(move || {
            let matcher = huginn_net_http::signature_matcher::SignatureMatcher::new(db);
            let parser = huginn_net_http::http1_parser::Http1Parser::new();
            if is_req {
                match huginn_net_http::http1_process::parse_http1_request(&m, &parser) {
                    Ok(Some(o)) => {
                        let r = show(&db.http_request.entries, matcher.matching_by_http_request(&o));
                        *obs_ref = Some((o.matching.version, o.matching.horder.clone(), o.matching.habsent.clone(), o.matching.expsw.clone()));
                        r
                    }
                    Ok(None) => "incomplete".to_string(),
                    Err(_) => "err".to_string(),
                }
            } else {
                match huginn_net_http::http1_process::parse_http1_response(&m, &parser) {
                    Ok(Some(o)) => {
                        let r = show(&db.http_response.entries, matcher.matching_by_http_response(&o));
                        *obs_ref = Some((o.matching.version, o.matching.horder.clone(), o.matching.habsent.clone(), o.matching.expsw.clone()));
                        r
                    }
                    Ok(None) => "incomplete".to_string(),
                    Err(_) => "err".to_string(),
                }
            }
        }))
    };
    (out, obs_out)
}

fn http_all(ctx: &mut Ctx, db: &Database, r: &mut Rng) {
    let per_sig = ctx.n(6, 60);
    for is_req in [true, false] {
        let entries = if is_req { &db.http_request.entries } else { &db.http_response.entries };
        for (li, (_, sigs)) in entries.iter().enumerate() {
            for (si, s) in sigs.iter().enumerate() {
                let nopt = s.horder.iter().filter(|h| h.optional).count().min(20);
                for k in 0..per_sig {
                    let mask: u64 = match k {
                        0 => u64::MAX,
                        1 => 0,
                        _ => r.next() & ((1u64 << nopt).wrapping_sub(1)),
                    };
                    let version = match s.version {
                        Version::V10 => Version::V10,
                        Version::V11 => Version::V11,
                        _ => {
                            if k % 2 == 0 {
                                Version::V11
                            } else {
                                Version::V10
                            }
                        }
                    };
                    // software string: the token itself, or a realistic value containing it
                    let sw = match k % 3 {
                        0 => s.expsw.clone(),
                        1 => format!("Mozilla/5.0 (X11) {}12.0", s.expsw),
                        _ => format!("{}2.4.1 (Unix)", s.expsw),
                    };
                    let sw = sw.trim().to_string(); // header values are trimmed by the parser
                    let mut hs = synth_headers(s, is_req, mask, &sw, r);
                    // requests: the parser takes EVERY Cookie / Referer line out of the header list it hands
                    // on, so extra such lines (anywhere, any case) must not change the observation
                    if is_req && k % 5 == 4 {
                        for _ in 0..r.range(1, 3) {
                            let line = match r.below(4) {
                                0 => ("Cookie", "sid=abc123; theme=dark"),
                                1 => ("cookie", "k=v=w"),
                                2 => ("Referer", "http://example.com/prev"),
                                _ => ("COOKIE", "a=1"),
                            };
                            let at = r.below(hs.len() as u64 + 1) as usize;
                            hs.insert(at, (line.0.to_string(), line.1.to_string()));
                        }
                    }
                    let sw_name = if is_req { "user-agent" } else { "server" };
                    let sw_seen: Option<String> = hs.iter().find(|(n, _)| n.eq_ignore_ascii_case(sw_name)).map(|(_, v)| v.clone());
                    let msg = render_msg(is_req, version, &hs);
                    let (out, obs) = run_http(db, is_req, &msg);
                    let mut l = Line::op("C13.http");
                    l.bool(is_req).usize(li).usize(si);
                    super::c12::w_httpv(&mut l, &version);
                    w_msg(&mut l, &hs, &sw_seen);
                    l.bytes(&msg);
                    // the observation the real parser built, for the model of the conversion
                    match &obs {
                        None => {
                            l.nat(0u8);
                        }
                        Some((v, ho, ha, sw)) => {
                            l.nat(1u8);
                            super::c12::w_httpv(&mut l, v);
                            header_tokens(&mut l, ho);
                            header_tokens(&mut l, ha);
                            l.text(sw);
                        }
                    }
                    ctx.emit(l.finish(&out));
                }
            }
        }
    }
}

pub fn run(ctx: &mut Ctx) {
    let mut r = ctx.rng.fork();
    let db = match Database::load_default() {
        Ok(db) => db,
        Err(_) => {
            ctx.emit(Line::op("C13.db").finish("LOAD-FAILED"));
            return;
        }
    };
    emit_db(ctx, &db);
    tcp_all(ctx, &db, &mut r);
    http_all(ctx, &db, &mut r);
}
