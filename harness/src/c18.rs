//! C18 (pure half) — dispatch affinity: the worker index is a function of the connection identity alone
//! and a valid index.
//!
//! Ops (real crates, public API only):
//!   C18.w <n> <frame>                     worker index of the three hashers for one frame
//!                                          (TCP: `hash_source_ip(p) % n` as parallel.rs computes it)
//!   C18.pt|ph|pl <framing> <n> <f1> <f2>  TCP / HTTP / TLS worker index of two frames, plus the endpoints
//!                                          `process.rs` would compute for each (parse_packet + pnet views)
//! Frame generator shared with c15.rs.
use super::c15::{ep_str, gen_frame, FrameSpec, Framing, Misc, A4, A6, HTTP_REQ, NULL_HDRS, TLS_PARTIAL};
use crate::rng::Rng;
use crate::wr::Line;
use crate::Ctx;
use pnet::packet::Packet;
use std::net::IpAddr;

fn workers(n: usize, f: &[u8]) -> (String, String, String) {
    let t = if n == 0 { "-".to_string() } else { (huginn_net_tcp::packet_hash::hash_source_ip(f) % n).to_string() };
    let h = huginn_net_http::packet_hash::hash_flow(f, n).to_string();
    let l = match huginn_net_tls::packet_hash::hash_flow(f, n) {
        Some(x) => x.to_string(),
        None => "-".to_string(),
    };
    (t, h, l)
}

/// endpoints as every analyzer's process.rs computes them (before any per-analyzer gate)
fn own_ep(frame: &[u8]) -> String {
    use huginn_net_tcp::packet_parser::{parse_packet, IpPacket};
    use pnet::packet::ip::IpNextHeaderProtocols;
    use pnet::packet::tcp::TcpPacket;
    match parse_packet(frame) {
        IpPacket::Ipv4(ip) => {
            if ip.get_next_level_protocol() != IpNextHeaderProtocols::Tcp {
                return "-".into();
            }
            match TcpPacket::new(ip.payload()) {
                Some(t) => ep_str(&IpAddr::V4(ip.get_source()), t.get_source(), &IpAddr::V4(ip.get_destination()), t.get_destination()),
                None => "-".into(),
            }
        }
        IpPacket::Ipv6(ip) => {
            if ip.get_next_header() != IpNextHeaderProtocols::Tcp {
                return "-".into();
            }
            match TcpPacket::new(ip.payload()) {
                Some(t) => ep_str(&IpAddr::V6(ip.get_source()), t.get_source(), &IpAddr::V6(ip.get_destination()), t.get_destination()),
                None => "-".into(),
            }
        }
        IpPacket::None => "-".into(),
    }
}

fn emit_w(ctx: &mut Ctx, n: usize, f: &[u8]) {
    let fr = f.to_vec();
    let out = crate::wr::guarded(move || {
        let (t, h, l) = workers(n, &fr);
        format!("t={t} h={h} l={l}")
    });
    let mut l = Line::op("C18.w");
    l.usize(n).bytes(f);
    ctx.emit(l.finish(&out));
}

fn fr_tok(f: Framing) -> &'static str {
    match f {
        Framing::Eth => "eth",
        Framing::Raw => "raw",
        Framing::Null => "null",
    }
}

/// one case per hasher, so that a finding about one hasher never hides a failure of another
fn emit_pair(ctx: &mut Ctx, framing: Framing, n: usize, f1: &[u8], f2: &[u8]) {
    let (a, b) = (f1.to_vec(), f2.to_vec());
    let outs = std::panic::catch_unwind(move || {
        let (t1, h1, l1) = workers(n, &a);
        let (t2, h2, l2) = workers(n, &b);
        let e = format!("e1={} e2={}", own_ep(&a), own_ep(&b));
        [format!("w={t1},{t2} {e}"), format!("w={h1},{h2} {e}"), format!("w={l1},{l2} {e}")]
    })
    .unwrap_or_else(|_| ["PANIC".to_string(), "PANIC".to_string(), "PANIC".to_string()]);
    for (op, out) in ["C18.pt", "C18.ph", "C18.pl"].iter().zip(outs.iter()) {
        let mut l = Line::op(op);
        l.tok(fr_tok(framing)).usize(n).bytes(f1).bytes(f2);
        ctx.emit(l.finish(out));
    }
}

/// change only bytes that are not part of any identity: payload, flags, seq/ack, window, TCP options,
/// IP id / total length / TTL-like fields
fn vary_non_identity(r: &mut Rng, s: &FrameSpec) -> FrameSpec {
    let mut v = s.clone();
    let k = 1 + r.below(3);
    for _ in 0..k {
        match r.below(11) {
            9 | 10 => v.misc = Misc::random(r),
            0 => {
                v.payload = match r.below(4) {
                    0 => vec![],
                    1 => TLS_PARTIAL.to_vec(),
                    2 => HTTP_REQ.to_vec(),
                    _ => {
                        let n = 1 + r.below(40) as usize;
                        r.bytes(n)
                    }
                }
            }
            1 => v.flags = *r.pick(&[0x02u8, 0x12, 0x10, 0x18, 0x11, 0x04, 0x19]),
            2 => v.seq = r.next() as u32,
            3 => v.ack = r.next() as u32,
            4 => v.win = r.next() as u16,
            5 => {
                // different TCP option area of the same or another size
                v.doff = *r.pick(&[5u8, 6, 8, 10, 15]);
                let ol = (v.doff as usize * 4).saturating_sub(20);
                v.tcp_opts = r.bytes(ol);
            }
            6 => {
                v.total_len = if r.chance(1, 2) { None } else { Some(40 + r.below(1400) as u16) };
            }
            7 => v.frag = *r.pick(&[0x4000u16, 0, 0x2000]),
            _ => {
                let n = r.below(20) as usize;
                v.payload = r.bytes(n);
            }
        }
    }
    v
}

fn gen_base(r: &mut Rng) -> FrameSpec {
    // mostly well-formed, identity fields from the small pools (so "looks like Ethernet" sources occur)
    let framing = match r.below(8) {
        0..=3 => Framing::Eth,
        4..=6 => Framing::Raw,
        _ => Framing::Null,
    };
    let mut f = FrameSpec::basic(framing, r.chance(1, 3));
    f.null_hdr = *r.pick(&NULL_HDRS[..3]);
    f.ihl = *r.pick(&[5u8, 5, 5, 5, 5, 6, 8, 15, 4, 3, 0]);
    f.src4 = *r.pick(&A4);
    f.dst4 = *r.pick(&A4);
    f.src6 = *r.pick(&A6);
    f.dst6 = *r.pick(&A6);
    f.sp = *r.pick(&[50000u16, 1234, 80, 443, 0x0800]);
    f.dp = *r.pick(&[80u16, 443, 8080, 50000, 6]);
    f.flags = *r.pick(&[0x02u8, 0x12, 0x10, 0x18]);
    if r.chance(1, 2) {
        f.payload = TLS_PARTIAL.to_vec();
    }
    if r.chance(1, 12) {
        f.ver_nibble = Some(*r.pick(&[4u8, 6, 5, 0]));
    }
    if r.chance(1, 12) {
        f.ethertype = Some(*r.pick(&[0x0800u16, 0x86DD]));
    }
    f
}

pub fn corpus() -> Vec<(Framing, Vec<u8>, Vec<u8>)> {
    let mut out = vec![];
    let later = |a: &FrameSpec| {
        let mut b = a.clone();
        b.seq = 2000;
        b.flags = 0x18;
        b.payload = b"hello".to_vec();
        b
    };
    // raw IPv4 from 8.0.1.1, two segments of one connection (SYN, then PSH|ACK "hello")
    let mut a = FrameSpec::basic(Framing::Raw, false);
    a.src4 = 0x0800_0101;
    out.push((Framing::Raw, a.build(), later(&a).build()));
    // raw IPv4 from 134.221.1.1: bare SYN and its retransmission with another window (40-byte frames:
    // too short for the parser to take them for Ethernet, long enough for the hashers)
    let mut a = FrameSpec::basic(Framing::Raw, false);
    a.src4 = 0x86dd_0101;
    let mut b = a.clone();
    b.win = 1000;
    out.push((Framing::Raw, a.build(), b.build()));
    // control: 9.0.1.1
    let mut a = FrameSpec::basic(Framing::Raw, false);
    a.src4 = 0x0900_0101;
    out.push((Framing::Raw, a.build(), later(&a).build()));
    // loopback framing `1e 00 00 00` + IPv4
    let a = FrameSpec::basic(Framing::Null, false);
    out.push((Framing::Null, a.build(), later(&a).build()));
    // Ethernet IPv4 with IHL = 0: the hashers read the "ports" from bytes 0..4 (version, TOS, total length)
    let mut a = FrameSpec::basic(Framing::Eth, false);
    a.ihl = 0;
    out.push((Framing::Eth, a.build(), later(&a).build()));
    // ethertype 0800 but version nibble 5
    let mut a = FrameSpec::basic(Framing::Eth, false);
    a.ver_nibble = Some(5);
    out.push((Framing::Eth, a.build(), later(&a).build()));
    // well-formed: two segments, and both directions of one connection (HTTP: fixed by 55cc16a)
    let a = FrameSpec::basic(Framing::Eth, false);
    out.push((Framing::Eth, a.build(), later(&a).build()));
    out.push((Framing::Eth, a.build(), a.reversed().build()));
    out
}

pub fn run(ctx: &mut Ctx) {
    let mut r = ctx.rng.fork();
    let ns: Vec<usize> = (1..=64).collect();

    // 1. corpus: witnesses of the known findings (DESIGN §8 #18 and the classes found since), first;
    //    the same frames are the `decide`d witnesses in lean/Huginn/Props/C18.lean
    for (framing, a, b) in corpus() {
        for n in [16usize, 7, 61] {
            emit_pair(ctx, framing, n, &a, &b);
        }
    }

    // 2. exhaustive: framing x version x IHL x every truncation, one worker count per case cycling 1..64;
    //    n = 0 for the two hashers that take the count
    let mut k = 0usize;
    for framing in [Framing::Eth, Framing::Raw, Framing::Null] {
        for v6 in [false, true] {
            for ihl in 0..16u8 {
                if v6 && ihl != 5 {
                    continue;
                }
                let mut f = FrameSpec::basic(framing, v6);
                f.ihl = ihl;
                f.payload = TLS_PARTIAL.to_vec();
                let full = f.build();
                let cuts: Vec<usize> = if ctx.tier == crate::Tier::Thorough || ihl % 5 == 0 || ihl == 3 {
                    (0..=full.len()).collect()
                } else {
                    vec![full.len()]
                };
                for cut in cuts {
                    k += 1;
                    emit_w(ctx, ns[k % 64], &full[..cut]);
                }
                emit_w(ctx, 0, &full);
                // pairs: different payload / other direction, every worker count
                let mut g = f.clone();
                g.payload = HTTP_REQ.to_vec();
                g.seq = 99;
                g.flags = 0x18;
                let rev = f.reversed();
                for &n in &ns {
                    if ctx.tier == crate::Tier::Quick && n % 4 != 1 && n != 64 {
                        continue;
                    }
                    emit_pair(ctx, framing, n, &full, &g.build());
                    emit_pair(ctx, framing, n, &full, &rev.build());
                }
            }
        }
    }

    // 3. generated pairs
    let n = ctx.n(40_000, 400_000);
    for _ in 0..n {
        let a = gen_base(&mut r);
        let b = match r.below(10) {
            0..=4 => vary_non_identity(&mut r, &a),
            5 | 6 => vary_non_identity(&mut r, &a.reversed()),
            7 => {
                // same source address, other destination / ports (TCP identity only)
                let mut b = vary_non_identity(&mut r, &a);
                b.dst4 = *r.pick(&A4);
                b.dst6 = *r.pick(&A6);
                b.dp = *r.pick(&[80u16, 443, 22]);
                b.sp = *r.pick(&[50000u16, 1234]);
                b
            }
            8 => {
                // another connection altogether (no claim; controls)
                gen_base(&mut r)
            }
            _ => {
                // the same frame truncated
                let mut b = a.clone();
                let full = a.build().len();
                b.cut = Some(r.below(full as u64 + 1) as usize);
                b
            }
        };
        let nw = 1 + r.below(64) as usize;
        emit_pair(ctx, a.framing, nw, &a.build(), &b.build());
    }
    // 4. generated single frames (the malformed stream of C15) with every worker count
    let n = ctx.n(20_000, 150_000);
    for i in 0..n {
        let f = gen_frame(&mut r).build();
        emit_w(ctx, if i % 97 == 0 { 0 } else { 1 + (i % 64) }, &f);
    }
}
