//! C01 — analysis is total: no input can crash, hang or poison an analyzer.
//!
//! Every op runs the real entry points under `catch_unwind` on a malformed input and then runs a
//! *probe* (a valid input) on the SAME long-lived instance and on a fresh one; the canonical output
//! is `ok` iff nothing panicked and the two probe results agree. A watchdog turns a hang into a
//! `HANG` output for the case that was running. (The process is built with overflow checks and
//! debug assertions on, so arithmetic overflow panics.)
use crate::canon;
use crate::net::{self, Seg, ACK, PSH, SYN};
use crate::registry::c07::{endpoints, http_conn, interleave, tcp_conn, Conn};
use crate::registry::c10::{run_pool, Kind};
use crate::rng::Rng;
use crate::wr::Line;
use crate::Ctx;
use std::panic::{catch_unwind, AssertUnwindSafe};
use std::str::FromStr;
use std::sync::atomic::{AtomicU64, Ordering};
use std::sync::Mutex;
use ttl_cache::TtlCache;

static PROGRESS: AtomicU64 = AtomicU64::new(0);
static CURRENT: Mutex<String> = Mutex::new(String::new());

fn begin(case: &str) {
    *CURRENT.lock().unwrap() = case.to_string();
    PROGRESS.fetch_add(1, Ordering::SeqCst);
}

fn start_watchdog() {
    std::thread::spawn(|| {
        let mut last = PROGRESS.load(Ordering::SeqCst);
        let mut idle = 0;
        loop {
            std::thread::sleep(std::time::Duration::from_secs(2));
            let now = PROGRESS.load(Ordering::SeqCst);
            if now == last {
                idle += 1;
            } else {
                idle = 0;
                last = now;
            }
            if idle >= 15 {
                // 30 s without finishing one case: report it and stop
                let c = CURRENT.lock().map(|g| g.clone()).unwrap_or_default();
                println!("{c} => HANG");
                std::process::exit(0);
            }
        }
    });
}

struct Persistent {
    uni: huginn_net::HuginnNet<'static>,
    tcp: TtlCache<huginn_net_tcp::ConnectionKey, huginn_net_tcp::TcpTimestamp>,
    http: TtlCache<huginn_net_http::http_process::FlowKey, huginn_net_http::http_process::TcpFlow>,
    procs: huginn_net_http::http_process::HttpProcessors,
    tls: TtlCache<huginn_net_tls::FlowKey, huginn_net_tls::TlsClientHelloReader>,
}

fn fresh() -> Persistent {
    let cfg = huginn_net::AnalysisConfig { http_enabled: true, tcp_enabled: true, tls_enabled: true, matcher_enabled: false };
    Persistent {
        uni: huginn_net::HuginnNet::new(None, 1000, Some(cfg)).unwrap(),
        tcp: TtlCache::new(1000),
        http: TtlCache::new(1000),
        procs: huginn_net_http::http_process::HttpProcessors::new(),
        tls: TtlCache::new(1000),
    }
}

/// Feed one frame to every per-packet entry point; returns the list of entry points that panicked.
fn feed(p: &mut Persistent, f: &[u8], filt: &[(huginn_net_tcp::FilterConfig, huginn_net_http::FilterConfig, huginn_net_tls::FilterConfig)]) -> (Vec<&'static str>, String) {
    let mut bad = vec![];
    let mut digest = String::new();
    macro_rules! guard {
        ($name:expr, $body:expr) => {
            match catch_unwind(AssertUnwindSafe(|| $body)) {
                Ok(s) => digest.push_str(&s),
                Err(_) => bad.push($name),
            }
        };
    }
    guard!("unified", {
        let o = p.uni.analyze_tcp(f);
        format!(
            "u{}{}{}{}{}{}{}{};",
            o.tcp_syn.is_some() as u8, o.tcp_syn_ack.is_some() as u8, o.tcp_mtu.is_some() as u8, o.tcp_client_uptime.is_some() as u8,
            o.tcp_server_uptime.is_some() as u8, o.http_request.is_some() as u8, o.http_response.is_some() as u8, o.tls_client.is_some() as u8
        )
    });
    guard!("tcp", {
        use huginn_net_tcp::packet_parser::{parse_packet, IpPacket};
        match parse_packet(f) {
            IpPacket::Ipv4(ip) => format!("t{:?};", huginn_net_tcp::process_ipv4_packet(&ip, &mut p.tcp, None).map(|o| canon::dig("t", &format!("{o:?}"))).map_err(|_| ())),
            IpPacket::Ipv6(ip) => format!("t{:?};", huginn_net_tcp::process_ipv6_packet(&ip, &mut p.tcp, None).map(|o| canon::dig("t", &format!("{o:?}"))).map_err(|_| ())),
            IpPacket::None => "t-;".to_string(),
        }
    });
    guard!("http", {
        use huginn_net_http::packet_parser::{parse_packet, IpPacket};
        match parse_packet(f) {
            IpPacket::Ipv4(ip) => format!("h{:?};", huginn_net_http::process_ipv4_packet(&ip, &mut p.http, &p.procs, None).map(|o| canon::http_result(&o)).map_err(|_| ())),
            IpPacket::Ipv6(ip) => format!("h{:?};", huginn_net_http::process_ipv6_packet(&ip, &mut p.http, &p.procs, None).map(|o| canon::http_result(&o)).map_err(|_| ())),
            IpPacket::None => "h-;".to_string(),
        }
    });
    guard!("tls", {
        use huginn_net_tls::packet_parser::{parse_packet, IpPacket};
        match parse_packet(f) {
            IpPacket::Ipv4(ip) => format!("l{:?};", huginn_net_tls::process_ipv4_packet(&ip, &mut p.tls).map(|o| canon::tls(&o)).map_err(|_| ())),
            IpPacket::Ipv6(ip) => format!("l{:?};", huginn_net_tls::process_ipv6_packet(&ip, &mut p.tls).map(|o| canon::tls(&o)).map_err(|_| ())),
            IpPacket::None => "l-;".to_string(),
        }
    });
    guard!("tls-stateless", {
        use huginn_net_tls::packet_parser::{parse_packet, IpPacket};
        match parse_packet(f) {
            IpPacket::Ipv4(ip) => format!("s{};", huginn_net_tls::tls_process::process_tls_ipv4(&ip).map(|o| o.tls_client.is_some()).unwrap_or(false)),
            IpPacket::Ipv6(ip) => format!("s{};", huginn_net_tls::tls_process::process_tls_ipv6(&ip).map(|o| o.tls_client.is_some()).unwrap_or(false)),
            IpPacket::None => "s-;".to_string(),
        }
    });
    guard!("hash", {
        let mut s = String::new();
        for n in [1usize, 7, 64] {
            let a = huginn_net_tcp::packet_hash::hash_source_ip(f) % n;
            let b = huginn_net_http::packet_hash::hash_flow(f, n);
            let c = huginn_net_tls::packet_hash::hash_flow(f, n);
            assert!(a < n && b < n && c.map(|x| x < n).unwrap_or(true), "worker index out of range");
            s.push_str(&format!("{a},{b},{c:?};"));
        }
        s
    });
    guard!("raw_filter", {
        let mut s = String::new();
        for (a, b, c) in filt {
            s.push_str(&format!(
                "{}{}{}",
                huginn_net_tcp::raw_filter::apply(f, a) as u8,
                huginn_net_http::raw_filter::apply(f, b) as u8,
                huginn_net_tls::raw_filter::apply(f, c) as u8
            ));
        }
        s
    });
    (bad, digest)
}

fn probe_frames(r: &mut Rng, idx: u32) -> Vec<Vec<u8>> {
    // a TCP handshake with timestamps, an HTTP exchange and a ClientHello from endpoints no malformed frame uses
    let c = (net::v4(0xac10_0000 + idx), 50000);
    let s = (net::v4(0xac1f_0001), 443);
    let mut out = vec![];
    let mut syn = Seg::new(c, s, SYN);
    syn.options = Seg::syn_options(1460, 7, Some(1000));
    out.push(net::eth_bytes(&syn));
    let mut q = Seg::new(c, s, ACK | PSH);
    q.seq = 1001;
    q.payload = b"GET /probe HTTP/1.1\r\nHost: probe\r\nUser-Agent: p/1\r\n\r\n".to_vec();
    out.push(net::eth_bytes(&q));
    let mut a = Seg::new(s, c, ACK | PSH);
    a.seq = 5001;
    a.payload = b"HTTP/1.1 200 OK\r\nServer: probe\r\n\r\n".to_vec();
    out.push(net::eth_bytes(&a));
    let c2 = (net::v4(0xac10_0000 + idx), 50001);
    let mut h = Seg::new(c2, s, ACK | PSH);
    let mut rr = Rng::new(idx as u64);
    let _ = r;
    h.payload = net::client_hello(&mut rr);
    out.push(net::eth_bytes(&h));
    out
}

fn read_pcap(path: &str) -> Vec<Vec<u8>> {
    let Ok(b) = std::fs::read(path) else { return vec![] };
    let mut out = vec![];
    let mut i = 24;
    while i + 16 <= b.len() {
        let n = u32::from_le_bytes([b[i + 8], b[i + 9], b[i + 10], b[i + 11]]) as usize;
        i += 16;
        if i + n > b.len() {
            break;
        }
        out.push(b[i..i + n].to_vec());
        i += n;
    }
    out
}

fn filters() -> Vec<(huginn_net_tcp::FilterConfig, huginn_net_http::FilterConfig, huginn_net_tls::FilterConfig)> {
    macro_rules! mk {
        ($k:ident) => {
            $k::FilterConfig::new()
                .with_port_filter($k::PortFilter::new().destination(443))
                .with_subnet_filter($k::SubnetFilter::new().allow("10.0.0.0/8").unwrap().allow("2001:db8::/32").unwrap())
        };
    }
    vec![(mk!(huginn_net_tcp), mk!(huginn_net_http), mk!(huginn_net_tls))]
}

fn repo_dir() -> String {
    // the harness is built against this tree; captures are read from it at run time
    std::env::var("VERIF_REPO").unwrap_or_else(|_| "/repo".to_string())
}

pub fn run(ctx: &mut Ctx) {
    start_watchdog();
    let mut r = ctx.rng.fork();
    let filt = filters();
    let mut pers = fresh();
    let mut probe_idx = 0u32;
    let mut since_probe = 0usize;

    let do_frame = |ctx: &mut Ctx, pers: &mut Persistent, f: &[u8], tag: &str, probe_idx: &mut u32, since_probe: &mut usize, r: &mut Rng| {
        let mut l = Line::op("C01.frame");
        l.tok(tag).bytes(f);
        begin(&format!("C01.frame {tag} {}", crate::wr::hex(f)));
        let (bad, _) = feed(pers, f, &filt);
        let mut out = if bad.is_empty() { "ok".to_string() } else { format!("PANIC:{}", bad.join(",")) };
        *since_probe += 1;
        if *since_probe >= 25 || !bad.is_empty() {
            *since_probe = 0;
            *probe_idx += 1;
            let frames = probe_frames(r, *probe_idx);
            let mut fr = fresh();
            let mut d1 = String::new();
            let mut d2 = String::new();
            let mut pb = vec![];
            for pf in &frames {
                let (b1, x1) = feed(pers, pf, &filt);
                let (b2, x2) = feed(&mut fr, pf, &filt);
                d1.push_str(&x1);
                d2.push_str(&x2);
                pb.extend(b1);
                pb.extend(b2);
            }
            if !pb.is_empty() {
                out = format!("PANIC-IN-PROBE:{}", pb.join(","));
            } else if d1 != d2 {
                out = format!("POISONED:{:016x}!={:016x}", canon::fnv(&d1), canon::fnv(&d2));
            }
            if out != "ok" {
                *pers = fresh(); // keep later cases meaningful
            }
        }
        ctx.emit(l.finish(&out));
    };

    // ---- 1. corpus: the fixed WSCALE finding and friends, always first
    for opts in [vec![3u8, 2, 1, 1], vec![3, 0, 0, 0], vec![3, 1, 0, 0], vec![1, 1, 1, 3], vec![2, 4, 5, 180, 3]] {
        let mut s = Seg::new((net::v4(0x0a00_0001), 40000), (net::v4(0x0a00_0002), 80), SYN);
        s.options = opts;
        let f = net::eth_bytes(&s);
        do_frame(ctx, &mut pers, &f, "corpus", &mut probe_idx, &mut since_probe, &mut r);
    }

    // ---- 2. exhaustive TCP option areas: up to 3 options, kind ∈ {0,1,2,3,4,5,8,other}, every length byte that
    //          can matter, every truncation of the area to a multiple of 4
    let kinds = [0u8, 1, 2, 3, 4, 5, 8, 254];
    let lens: Vec<u8> = if ctx.tier == crate::Tier::Quick { vec![0, 1, 2, 3, 4, 10, 41] } else { (0..=41).collect() };
    let mut areas: Vec<Vec<u8>> = vec![];
    let opt_bytes = |k: u8, l: u8| -> Vec<u8> {
        if k == 0 || k == 1 {
            vec![k]
        } else {
            let mut v = vec![k, l];
            let pay = (l as usize).saturating_sub(2).min(10);
            v.extend(std::iter::repeat(0x5a).take(pay));
            v
        }
    };
    for &k1 in &kinds {
        for &l1 in &lens {
            let a = opt_bytes(k1, l1);
            areas.push(a.clone());
            if ctx.tier == crate::Tier::Thorough || (l1 <= 4) {
                for &k2 in &kinds {
                    for &l2 in &[0u8, 1, 2, 3, 10] {
                        let mut b = a.clone();
                        b.extend(opt_bytes(k2, l2));
                        areas.push(b.clone());
                        if ctx.tier == crate::Tier::Thorough && l1 <= 3 && l2 <= 3 {
                            for &k3 in &kinds {
                                let mut c = b.clone();
                                c.extend(opt_bytes(k3, 2));
                                areas.push(c);
                            }
                        }
                    }
                }
            }
            if k1 < 2 {
                break;
            }
        }
    }
    for a in &areas {
        if a.len() > 40 {
            continue;
        }
        for flags in [SYN, SYN | ACK, ACK] {
            let mut s = Seg::new((net::v4(0x0a00_0001), 40000), (net::v4(0x0a00_0002), 80), flags);
            s.options = a.clone();
            let f = net::eth_bytes(&s);
            do_frame(ctx, &mut pers, &f, "optgrid", &mut probe_idx, &mut since_probe, &mut r);
            // truncated inside the option area (frame ends early, data offset lies)
            if a.len() > 1 && flags == SYN {
                let cut = f.len() - 1 - (r.below(a.len() as u64) as usize).min(f.len() - 15);
                do_frame(ctx, &mut pers, &f[..cut], "optgrid-trunc", &mut probe_idx, &mut since_probe, &mut r);
            }
        }
    }

    // ---- 2b. integer boundaries of the header fields that enter arithmetic: MSS, window, window scale, TTL,
    //           timestamp values (MSS + header sizes, window / MSS, window << scale, TTL distance): a grid of the
    //           extreme and near-extreme values, IPv4 and IPv6, SYN and SYN+ACK (seeded change C01d-3: an unchecked
    //           `mss + 40` only overflows from MSS 65496 with a window no earlier pattern explains)
    {
        let msss: &[u16] = if ctx.tier == crate::Tier::Quick { &[0, 1, 536, 1460, 65475, 65476, 65495, 65496, 65535] } else { &[0, 1, 2, 535, 536, 1459, 1460, 9000, 32767, 32768, 65474, 65475, 65476, 65494, 65495, 65496, 65497, 65534, 65535] };
        let wins: &[u16] = &[0, 1, 1460, 5840, 32768, 65533, 65534, 65535];
        let wss: &[u8] = &[0, 7, 14, 15, 255];
        for &v6 in &[false, true] {
            for &mss in msss {
                for &win in wins {
                    for &ws in wss {
                        for flags in [SYN, SYN | ACK] {
                            let (a, b) = if v6 { (net::v6(0x2001_0db8_0000_0000_0000_0000_0000_0001), net::v6(0x2001_0db8_0000_0000_0000_0000_0000_0002)) } else { (net::v4(0x0a00_0001), net::v4(0x0a00_0002)) };
                            let mut s = Seg::new((a, 40000), (b, 80), flags);
                            s.window = win;
                            s.ttl = [0u8, 1, 64, 255][(mss as usize + win as usize + ws as usize) % 4];
                            s.options = Seg::syn_options(mss, ws, if (mss ^ win) & 1 == 0 { Some(u32::MAX - (win as u32)) } else { None });
                            let f = net::eth_bytes(&s);
                            do_frame(ctx, &mut pers, &f, "intgrid", &mut probe_idx, &mut since_probe, &mut r);
                        }
                    }
                }
            }
        }
    }

    // ---- 3. every truncation and many single-bit corruptions of capture frames and synthesised frames
    let mut base: Vec<Vec<u8>> = vec![];
    for p in ["http-simple-get.pcap", "macos_tcp_flags.pcap", "tls-alpn-h2.pcap", "tls12.pcap"] {
        let fr = read_pcap(&format!("{}/pcap/{}", repo_dir(), p));
        let take = if ctx.tier == crate::Tier::Quick { 6 } else { fr.len() };
        base.extend(fr.into_iter().take(take));
    }
    let ncon = ctx.n(3, 12);
    for k in 0..ncon {
        let eps = endpoints(&mut r, 2, k % 3 == 0);
        let conns: Vec<Conn> = eps.into_iter().enumerate().map(|(i, e)| if i == 0 { http_conn(&mut r, e) } else { tcp_conn(&mut r, e) }).collect();
        for (c, i) in interleave(&mut r, &conns) {
            base.push(net::eth_bytes(&conns[c].segs[i]));
        }
    }
    for f in &base {
        do_frame(ctx, &mut pers, f, "valid", &mut probe_idx, &mut since_probe, &mut r);
        let step = if ctx.tier == crate::Tier::Quick { 7 } else { 1 };
        let mut cut = 0;
        while cut < f.len() {
            do_frame(ctx, &mut pers, &f[..cut], "trunc", &mut probe_idx, &mut since_probe, &mut r);
            cut += if cut < 80 { 1 } else { step };
        }
        let nflip = ctx.n(150, 600).min(f.len() * 8);
        for _ in 0..nflip {
            let mut g = f.clone();
            let bit = if r.chance(2, 3) { r.below((g.len().min(80) * 8) as u64) } else { r.below((g.len() * 8) as u64) } as usize;
            g[bit / 8] ^= 1 << (bit % 8);
            do_frame(ctx, &mut pers, &g, "bitflip", &mut probe_idx, &mut since_probe, &mut r);
        }
        // raw-IP and loopback framings of the same packet
        if f.len() > 14 {
            do_frame(ctx, &mut pers, &f[14..], "rawip", &mut probe_idx, &mut since_probe, &mut r);
            let mut lo = vec![0x1e, 0, 0, 0];
            lo.extend_from_slice(&f[14..]);
            do_frame(ctx, &mut pers, &lo, "loopback", &mut probe_idx, &mut since_probe, &mut r);
            let mut lo2 = vec![2, 0, 0, 0];
            lo2.extend_from_slice(&f[14..]);
            do_frame(ctx, &mut pers, &lo2, "null-af", &mut probe_idx, &mut since_probe, &mut r);
            // IHL lies
            for ihl in [0u8, 1, 4, 6, 15] {
                let mut g = f.clone();
                if g[14] >> 4 == 4 {
                    g[14] = 0x40 | ihl;
                    do_frame(ctx, &mut pers, &g, "ihl", &mut probe_idx, &mut since_probe, &mut r);
                }
            }
            // length-field lies
            let mut g = f.clone();
            if g[14] >> 4 == 4 {
                g[16] = 0xff;
                g[17] = 0xff;
                do_frame(ctx, &mut pers, &g, "totlen", &mut probe_idx, &mut since_probe, &mut r);
                g[16] = 0;
                g[17] = 0;
                do_frame(ctx, &mut pers, &g, "totlen", &mut probe_idx, &mut since_probe, &mut r);
            }
        }
    }
    // random frames
    let nr = ctx.n(6000, 100000);
    for _ in 0..nr {
        let n = match r.below(4) {
            0 => r.range(0, 60),
            1 => r.range(14, 200),
            2 => r.range(14, 1514),
            _ => r.range(40, 100),
        } as usize;
        let mut f = r.bytes(n);
        if f.len() > 14 && r.chance(3, 4) {
            // steer into the IP/TCP paths
            f[12] = 0x08;
            f[13] = 0x00;
            f[14] = 0x40 | (r.below(16) as u8);
            if f.len() > 23 {
                f[23] = 6;
            }
        }
        do_frame(ctx, &mut pers, &f, "random", &mut probe_idx, &mut since_probe, &mut r);
    }

    // ---- 4. byte-stream entry points
    stream_ops(ctx, &mut r);

    // ---- 5. worker liveness: malformed frames through each pool, then one sentinel per worker must be answered
    let rounds = ctx.n(2, 12);
    for _ in 0..rounds {
        for kind in [Kind::Tcp, Kind::Http, Kind::Tls] {
            let mut lane = vec![];
            for f in base.iter().take(30) {
                let mut g = f.clone();
                let bit = r.below((g.len().min(70) * 8) as u64) as usize;
                g[bit / 8] ^= 1 << (bit % 8);
                lane.push(g);
                lane.push(f[..r.below(f.len() as u64) as usize].to_vec());
            }
            lane.push(vec![]);
            let n = *r.pick(&[1usize, 3, 8]);
            let nl = lane.len();
            begin(&format!("C01.pool {kind:?} {n} {nl}"));
            let res = catch_unwind(AssertUnwindSafe(|| run_pool(kind, n, 4096, 8, 2, 1000, vec![lane], &mut r)));
            let out = match res {
                Ok(run) => {
                    if run.timed_out {
                        "WORKER-DEAD".to_string()
                    } else {
                        "ok".to_string()
                    }
                }
                Err(_) => "PANIC:pool".to_string(),
            };
            let mut l = Line::op("C01.pool");
            l.tok(&format!("{kind:?}")).usize(n).usize(nl);
            ctx.emit(l.finish(&out));
        }
    }
}

fn stream_ops(ctx: &mut Ctx, r: &mut Rng) {
    // TLS reader: arbitrary chunkings of arbitrary byte streams, then a probe hello
    let n = ctx.n(2000, 20000);
    for i in 0..n {
        let mut chunks: Vec<Vec<u8>> = vec![];
        match r.below(5) {
            0 => {
                for _ in 0..r.range(1, 6) {
                    chunks.push(r.bytes_in(0, 300));
                }
            }
            1 => {
                // huge declared length
                let mut h = vec![0x16, 3, 1, 0xff, 0xff];
                h.extend(r.bytes_in(0, 100));
                chunks.push(h);
                for _ in 0..r.range(0, 3) {
                    chunks.push(r.bytes_in(0, 70000));
                }
            }
            2 => {
                let h = net::client_hello(r);
                let mut g = h.clone();
                let bit = r.below((g.len() * 8) as u64) as usize;
                g[bit / 8] ^= 1 << (bit % 8);
                let k = r.range(1, 5) as usize;
                chunks.extend(net::split_random(r, &g, k));
            }
            3 => {
                let h = net::client_hello(r);
                let cut = r.below(h.len() as u64) as usize;
                let k = r.range(1, 3) as usize;
                chunks.extend(net::split_random(r, &h[..cut], k));
                chunks.push(vec![]);
            }
            _ => {
                // length fields lie inside the handshake
                let mut h = net::client_hello(r);
                let p = r.range(5, (h.len() - 1).min(120) as u64) as usize;
                h[p] = r.next() as u8;
                chunks.push(h);
            }
        }
        let mut l = Line::op("C01.tlsreader");
        l.list(&chunks, |l, c| {
            l.bytes(c);
        });
        begin(&format!("C01.tlsreader #{i}"));
        let out = match catch_unwind(AssertUnwindSafe(|| {
            let mut rd = huginn_net_tls::TlsClientHelloReader::new();
            for c in &chunks {
                let _ = rd.add_bytes(c);
            }
            // the one-shot parser too
            let all: Vec<u8> = chunks.iter().flatten().copied().collect();
            let _ = huginn_net_tls::tls_process::parse_tls_client_hello(&all);
            // probe: after a reset the same instance must parse a valid hello like a fresh one
            rd.reset();
            let mut rr = Rng::new(i as u64);
            let hello = net::client_hello(&mut rr);
            let a = rd.add_bytes(&hello).ok().flatten().map(|s| s.generate_ja4().full.to_string());
            let b = huginn_net_tls::TlsClientHelloReader::new().add_bytes(&hello).ok().flatten().map(|s| s.generate_ja4().full.to_string());
            if a == b && a.is_some() {
                "ok".to_string()
            } else {
                format!("POISONED:{a:?}!={b:?}")
            }
        })) {
            Ok(s) => s,
            Err(_) => "PANIC:tlsreader".to_string(),
        };
        ctx.emit(l.finish(&out));
    }
    // TLS at packet level: a COMPLETE record that the parser rejects (or that is not a ClientHello), then a valid
    // ClientHello on the SAME 4-tuple: the flow must have been dropped / reset, so the hello is reported as by a
    // fresh analyzer
    let n = ctx.n(600, 6000);
    for i in 0..n {
        let mut bad = net::client_hello(r);
        match r.below(4) {
            0 => {
                // corrupt the body, keep the record header and length intact
                for _ in 0..r.range(1, 4) {
                    let p = r.range(5, bad.len() as u64 - 1) as usize;
                    bad[p] ^= 1 << r.below(8);
                }
            }
            1 => bad = vec![0x16, 3, 3, 0, 4, 0, 0, 0, 0], // HelloRequest: a handshake record, not a ClientHello
            2 => {
                // inner handshake length lies
                bad[6] = 0xff;
            }
            _ => {
                let p = r.range(9, (bad.len() - 1).min(60) as u64) as usize;
                bad[p] = r.next() as u8;
            }
        }
        let verdict = huginn_net_tls::tls_process::parse_tls_client_hello(&bad);
        let complete = bad.len() >= 5 && u16::from_be_bytes([bad[3], bad[4]]) as usize + 5 == bad.len();
        if !complete || matches!(verdict, Ok(Some(_))) {
            continue; // still a valid hello, or not a complete record: nothing is demanded of the follow-up
        }
        let c = (net::v4(0x0a01_0000 + i as u32), 40000);
        let sv = (net::v4(0x0a02_0001), 443);
        let k = r.range(1, 3) as usize;
        let parts = net::split_random(r, &bad, k);
        let mut rr = Rng::new(i as u64 ^ 0x55);
        let hello = net::client_hello(&mut rr);
        let mut l = Line::op("C01.tlsflow");
        l.tok(if verdict.is_err() { "rejected" } else { "nonhello" }).usize(parts.len()).bytes(&bad);
        begin(&format!("C01.tlsflow #{i}"));
        let out = match catch_unwind(AssertUnwindSafe(|| {
            let mut cache: TtlCache<huginn_net_tls::FlowKey, huginn_net_tls::TlsClientHelloReader> = TtlCache::new(100);
            let mut seq = 1u32;
            let mut send = |cache: &mut TtlCache<huginn_net_tls::FlowKey, huginn_net_tls::TlsClientHelloReader>, p: &[u8]| -> String {
                let mut g = Seg::new(c, sv, ACK | PSH);
                g.seq = seq;
                seq = seq.wrapping_add(p.len() as u32);
                g.payload = p.to_vec();
                let b = net::ip_bytes(&g);
                let ip = pnet::packet::ipv4::Ipv4Packet::new(&b).unwrap();
                match huginn_net_tls::process_ipv4_packet(&ip, cache) {
                    Ok(o) => canon::tls(&o),
                    Err(_) => "err".into(),
                }
            };
            for p in &parts {
                let _ = send(&mut cache, p);
            }
            let a = send(&mut cache, &hello);
            let mut fresh: TtlCache<huginn_net_tls::FlowKey, huginn_net_tls::TlsClientHelloReader> = TtlCache::new(100);
            let b = send(&mut fresh, &hello);
            if a == b && a != "-" {
                "ok".to_string()
            } else {
                format!("POISONED:{a}!={b}")
            }
        })) {
            Ok(s) => s,
            Err(_) => "PANIC:tlsflow".to_string(),
        };
        ctx.emit(l.finish(&out));
    }
    // a NEW connection (SYN, then a well-formed message) on a 4-tuple whose previous connection left an
    // unfinished flow behind: analysed as by a fresh analyzer? (open finding KF.C01.reusedTupleUnfinishedFlow)
    for i in 0..ctx.n(6, 40) {
        let c = (net::v4(0x0a05_0000 + i as u32), 41000);
        let sv = (net::v4(0x0a06_0001), if i % 2 == 0 { 443 } else { 80 });
        let tls = i % 2 == 0;
        let mut rr = Rng::new(i as u64 ^ 0x77);
        let hello = net::client_hello(&mut rr);
        let request = net::http1_request(&mut rr);
        let cut = if tls { r.range(6, hello.len() as u64 - 1) as usize } else { r.range(5, request.len() as u64 - 1) as usize };
        let mut l = Line::op("C01.reuse");
        l.tok(if tls { "tls" } else { "http" }).usize(cut);
        begin(&format!("C01.reuse #{i}"));
        let out = match catch_unwind(AssertUnwindSafe(|| {
            let run = |with_history: bool| -> String {
                let mut tcache: TtlCache<huginn_net_tls::FlowKey, huginn_net_tls::TlsClientHelloReader> = TtlCache::new(100);
                let mut hcache: TtlCache<huginn_net_http::http_process::FlowKey, huginn_net_http::http_process::TcpFlow> = TtlCache::new(100);
                let procs = huginn_net_http::http_process::HttpProcessors::new();
                let mut feed = |g: &Seg| -> String {
                    let b = net::ip_bytes(g);
                    let ip = pnet::packet::ipv4::Ipv4Packet::new(&b).unwrap();
                    if tls {
                        match huginn_net_tls::process_ipv4_packet(&ip, &mut tcache) {
                            Ok(o) => canon::tls(&o),
                            Err(_) => "err".into(),
                        }
                    } else {
                        match huginn_net_http::process_ipv4_packet(&ip, &mut hcache, &procs, None) {
                            Ok(o) => format!("{}", canon::http_req(&o.http_request.as_ref().map(|q| q.sig.clone()))),
                            Err(_) => "err".into(),
                        }
                    }
                };
                if with_history {
                    // old connection: SYN, then only the first part of its message; it never completes
                    let mut syn = Seg::new(c, sv, SYN);
                    syn.seq = 5000;
                    let _ = feed(&syn);
                    let mut d = Seg::new(c, sv, ACK | PSH);
                    d.seq = 5001;
                    d.payload = if tls { hello[..cut].to_vec() } else { request[..cut].to_vec() };
                    let _ = feed(&d);
                }
                // new connection on the same 4-tuple: SYN with a new ISN, then the whole message
                let mut syn = Seg::new(c, sv, SYN);
                syn.seq = 900_000;
                let a = feed(&syn);
                let mut d = Seg::new(c, sv, ACK | PSH);
                d.seq = 900_001;
                d.payload = if tls { hello.clone() } else { request.clone() };
                let b = feed(&d);
                format!("{a},{b}")
            };
            format!("{} @@ {}", run(true), run(false))
        })) {
            Ok(s) => s,
            Err(_) => "PANIC:reuse".to_string(),
        };
        ctx.emit(l.finish(&out));
    }
    // HTTP/1, HTTP/2 byte streams and the incremental HTTP/2 fingerprint extractor
    let n = ctx.n(3000, 30000);
    for i in 0..n {
        let mut data: Vec<u8> = match r.below(7) {
            0 => net::http1_request(r),
            1 => net::http1_response(r),
            2 => {
                let adv = r.chance(1, 2);
                net::h2_request(r, adv)
            }
            3 => net::h2_response(r, true),
            4 => r.bytes_in(0, 200),
            5 => {
                // frame with lying length / huge length
                let mut b = net::H2_PREFACE.to_vec();
                b.extend_from_slice(&[0xff, 0xff, 0xff, r.next() as u8, r.next() as u8, 0, 0, 0, r.next() as u8]);
                b.extend(r.bytes_in(0, 50));
                b
            }
            _ => {
                let mut s = String::from("GET / HTTP/1.1\r\n");
                for k in 0..r.range(0, 140) {
                    s += &format!("H{k}: v\r\n");
                }
                s += "\r\n";
                s.into_bytes()
            }
        };
        if r.chance(1, 2) && !data.is_empty() {
            for _ in 0..r.range(1, 3) {
                let bit = r.below((data.len() * 8) as u64) as usize;
                data[bit / 8] ^= 1 << (bit % 8);
            }
        }
        if r.chance(1, 4) && !data.is_empty() {
            let cut = r.below(data.len() as u64) as usize;
            data.truncate(cut);
        }
        let k = r.range(1, 5) as usize;
        let chunks = net::split_random(r, &data, k);
        let mut l = Line::op("C01.http");
        l.bytes(&data).usize(chunks.len());
        begin(&format!("C01.http {}", crate::wr::hex(&data)));
        let out = match catch_unwind(AssertUnwindSafe(|| {
            let procs = huginn_net_http::http_process::HttpProcessors::new();
            let _ = procs.parse_request(&data);
            let _ = procs.parse_response(&data);
            let p1 = huginn_net_http::http1_parser::Http1Parser::new();
            let _ = p1.parse_request(&data);
            let _ = p1.parse_response(&data);
            let p2 = huginn_net_http::Http2Parser::new();
            let _ = p2.parse_request(&data);
            let _ = p2.parse_response(&data);
            let _ = huginn_net_http::extract_akamai_fingerprint_from_bytes(&data);
            let mut ex = huginn_net_http::Http2FingerprintExtractor::new();
            for c in &chunks {
                let _ = ex.add_bytes(c);
            }
            // probes on the same instances
            let q = b"GET /probe HTTP/1.1\r\nHost: p\r\n\r\n";
            let a = canon::http_req(&procs.parse_request(q));
            let b = canon::http_req(&huginn_net_http::http_process::HttpProcessors::new().parse_request(q));
            let mut rr = Rng::new(i as u64);
            let h2 = net::h2_request(&mut rr, true);
            let a2 = canon::http_req(&procs.parse_request(&h2));
            let b2 = canon::http_req(&huginn_net_http::http_process::HttpProcessors::new().parse_request(&h2));
            ex.reset();
            let e1 = ex.add_bytes(&h2).ok().flatten().map(|f| f.fingerprint.clone());
            let e2 = huginn_net_http::Http2FingerprintExtractor::new().add_bytes(&h2).ok().flatten().map(|f| f.fingerprint.clone());
            if a == b && a2 == b2 && e1 == e2 && a != "-" {
                "ok".to_string()
            } else {
                format!("POISONED:{a}|{b}|{a2}|{b2}|{e1:?}|{e2:?}")
            }
        })) {
            Ok(s) => s,
            Err(_) => "PANIC:http".to_string(),
        };
        ctx.emit(l.finish(&out));
    }
    // database text
    let bundled = std::fs::read_to_string(format!("{}/huginn-net-db/config/p0f.fp", repo_dir())).unwrap_or_default();
    let lines: Vec<&str> = bundled.lines().collect();
    let n = ctx.n(600, 6000);
    for i in 0..n {
        let mut text = String::new();
        match r.below(4) {
            0 => {
                // a window of the bundled file with one line mutated
                let start = r.below(lines.len().max(1) as u64) as usize;
                let len = r.range(1, 40) as usize;
                let victim = r.below(len as u64) as usize;
                for (k, ln) in lines.iter().skip(start).take(len).enumerate() {
                    if k == victim && !ln.is_empty() {
                        let mut b = ln.as_bytes().to_vec();
                        let p = r.below(b.len() as u64) as usize;
                        b[p] = *r.pick(&[b':', b',', b'*', b'%', b'+', b'-', b'?', b'[', b']', b'9', b' ', b'=', 0xc3]);
                        text.push_str(&String::from_utf8_lossy(&b));
                    } else {
                        text.push_str(ln);
                    }
                    text.push('\n');
                }
            }
            1 => {
                text.push_str("[tcp:request]\nlabel = s:unix:Linux:x\nsig = ");
                let toks = ["*", "4", "6", ":", ",", "64", "255+1", "64-", "mss*", "mtu*", "%", "8192", "99999999999", "eol+", "?", "nop", "ts", "df", "id+", "0", "+"];
                for _ in 0..r.range(1, 40) {
                    text.push_str(*r.pick(&toks));
                }
                text.push('\n');
            }
            2 => {
                text.push_str("[http:request]\nlabel = s:!:X:\nsys = Linux\nsig = ");
                let toks = ["*", "0", "1", ":", ",", "Host", "?", "=[", "]", "Accept", "[", "=", " "];
                for _ in 0..r.range(1, 30) {
                    text.push_str(*r.pick(&toks));
                }
                text.push('\n');
            }
            _ => {
                let b = r.bytes_in(0, 300);
                text = String::from_utf8_lossy(&b).to_string();
            }
        }
        let mut l = Line::op("C01.db");
        l.text(&text);
        begin(&format!("C01.db #{i}"));
        let out = match catch_unwind(AssertUnwindSafe(|| {
            let _ = huginn_net_db::Database::from_str(&text);
            "ok".to_string()
        })) {
            Ok(s) => s,
            Err(_) => "PANIC:db".to_string(),
        };
        ctx.emit(l.finish(&out));
    }
}
