//! C19 — uptime estimates. `uptime::check_ts_tcp` on a real `TtlCache`, arrival times injected through
//! the `verif-hooks` clock (`uptime::VERIF_CLOCK_MS`), and whole packets through
//! `process_ipv4_packet` / `process_ipv6_packet` with a shared tracker.
use crate::registry::c03::{tcp_bytes, v4_bytes, v6_bytes, Tcp, V4, V6};
use crate::rng::Rng;
use crate::wr::{guarded, Line};
use crate::{Ctx, Tier};
use huginn_net_tcp::uptime::{check_ts_tcp, Connection, VERIF_CLOCK_MS};
use huginn_net_tcp::{ConnectionKey, ObservableUptime, TcpTimestamp};
use pnet::packet::ipv4::Ipv4Packet;
use pnet::packet::ipv6::Ipv6Packet;
use std::net::{IpAddr, Ipv4Addr, Ipv6Addr};
use std::sync::atomic::Ordering;
use ttl_cache::TtlCache;

const T0: u64 = 1_700_000_000_000;

#[derive(Clone)]
struct Ev {
    wall: u64,
    src: (bool, u128),
    sport: u16,
    dst: (bool, u128),
    dport: u16,
    from_client: bool,
    ts: u32,
}

fn ip(a: (bool, u128)) -> IpAddr {
    if a.0 {
        IpAddr::V6(Ipv6Addr::from(a.1))
    } else {
        IpAddr::V4(Ipv4Addr::from(a.1 as u32))
    }
}

fn show_f(f: f64) -> String {
    // integer-valued in every reachable state; `{}` prints "100" for 100.0 and exposes anything else
    format!("{f}")
}
fn show_u(u: &ObservableUptime) -> String {
    format!("{}:{}:{}:{}:{}", u.days, u.hours, u.min, u.up_mod_days, show_f(u.freq))
}
fn show_out(c: &Option<ObservableUptime>, s: &Option<ObservableUptime>) -> String {
    match (c, s) {
        (None, None) => "-".into(),
        (Some(u), None) => format!("c:{}", show_u(u)),
        (None, Some(u)) => format!("s:{}", show_u(u)),
        (Some(u), Some(w)) => format!("c:{}+s:{}", show_u(u), show_u(w)),
    }
}

fn emit_seq(ctx: &mut Ctx, cap: usize, evs: &[Ev]) {
    let evs2 = evs.to_vec();
    let out = guarded(move || {
        let mut tr: TtlCache<ConnectionKey, TcpTimestamp> = TtlCache::new(cap);
        let mut outs = vec![];
        for e in &evs2 {
            VERIF_CLOCK_MS.store(e.wall, Ordering::SeqCst);
            let conn = Connection { src_ip: ip(e.src), src_port: e.sport, dst_ip: ip(e.dst), dst_port: e.dport };
            let (c, s) = check_ts_tcp(&mut tr, &conn, e.from_client, e.ts);
            outs.push(show_out(&c, &s));
        }
        outs.join(",")
    });
    let mut l = Line::op("C19.seq");
    l.usize(cap);
    l.list(evs, |l, e| {
        l.nat(e.wall).bool(e.src.0).nat(e.src.1).nat(e.sport).bool(e.dst.0).nat(e.dst.1).nat(e.dport).bool(e.from_client).nat(e.ts);
    });
    ctx.emit(l.finish(&out));
}

/// History with real waiting: event i is issued once `mono[i]` ms have elapsed since the tracker was
/// created (the TtlCache expires on `Instant::now()`, which cannot be injected).
fn emit_exp(ctx: &mut Ctx, cap: usize, evs: &[(u64, Ev)]) {
    let evs2 = evs.to_vec();
    let out = guarded(move || {
        let mut tr: TtlCache<ConnectionKey, TcpTimestamp> = TtlCache::new(cap);
        let start = std::time::Instant::now();
        let mut outs = vec![];
        for (mono, e) in &evs2 {
            let target = std::time::Duration::from_millis(*mono);
            let el = start.elapsed();
            if el < target {
                std::thread::sleep(target - el);
            }
            VERIF_CLOCK_MS.store(e.wall, Ordering::SeqCst);
            let conn = Connection { src_ip: ip(e.src), src_port: e.sport, dst_ip: ip(e.dst), dst_port: e.dport };
            let (c, s) = check_ts_tcp(&mut tr, &conn, e.from_client, e.ts);
            outs.push(show_out(&c, &s));
        }
        outs.join(",")
    });
    let mut l = Line::op("C19.exp");
    l.usize(cap);
    l.list(evs, |l, (m, e)| {
        l.nat(*m).nat(e.wall).bool(e.src.0).nat(e.src.1).nat(e.sport).bool(e.dst.0).nat(e.dst.1).nat(e.dport).bool(e.from_client).nat(e.ts);
    });
    ctx.emit(l.finish(&out));
}

fn ev(conn: u32, from_client: bool, wall: u64, ts: u32) -> Ev {
    // connection `conn`: client 10.0.0.<conn>:40000+conn -> server 10.0.0.254:80; the server's segments
    // carry the reversed tuple
    let c = (false, 0x0a00_0000u128 + conn as u128);
    let s = (false, 0x0a00_00feu128);
    if from_client {
        Ev { wall, src: c, sport: 40000 + conn as u16, dst: s, dport: 80, from_client, ts }
    } else {
        Ev { wall, src: s, sport: 80, dst: c, dport: 40000 + conn as u16, from_client, ts }
    }
}

fn pair(ctx: &mut Ctx, dt: u64, v0: u32, v1: u32, from_client: bool) {
    emit_seq(ctx, 8, &[ev(1, from_client, T0, v0), ev(1, from_client, T0 + dt, v1)]);
}

/// Δv values adjacent to every threshold of the rate for an interval of `dt` ms.
fn threshold_dvs(dt: u64) -> Vec<u64> {
    let mut v = vec![0u64, 1, 2, 3, 4, 5, 6, 7];
    let mut rates: Vec<u64> = vec![1, 10, 11, 50, 51, 100, 101, 500, 501, 900, 1000, 1100, 1500, 1501];
    for k in 1..=15u64 {
        rates.extend([90 * k, 110 * k, 100 * k, 100 * k - 50, 100 * k + 50]);
    }
    // rounding-band edges inside the ranges: x+add crossing a multiple of div
    for g in (10..=50).step_by(5) {
        rates.extend([g - 3, g - 4, g + 1, g + 2]);
    }
    for g in (50..=100).step_by(10) {
        rates.extend([g - 7, g - 8, g + 2, g + 3]);
    }
    for g in (100..=500).step_by(50) {
        rates.extend([g - 33, g - 34, g + 16, g + 17]);
    }
    for g in (500..=1500).step_by(100) {
        rates.extend([g - 67, g - 68, g + 32, g + 33]);
    }
    for r in rates {
        let x = r * dt; // Δv·1000 = r·dt
        for d in [x / 1000, x / 1000 + 1, (x / 1000).saturating_sub(1), (x + 999) / 1000] {
            v.push(d);
        }
    }
    v.sort();
    v.dedup();
    v
}

fn run_pkts(ctx: &mut Ctx, cap: usize, pk: &[(u64, bool, Vec<u8>)]) {
    let pk2 = pk.to_vec();
    let out = guarded(move || {
        let mut tr: TtlCache<ConnectionKey, TcpTimestamp> = TtlCache::new(cap);
        let mut outs = vec![];
        for (wall, v6, b) in &pk2 {
            VERIF_CLOCK_MS.store(*wall, Ordering::SeqCst);
            let r = if *v6 {
                Ipv6Packet::new(b).map(|p| huginn_net_tcp::process_ipv6_packet(&p, &mut tr, None))
            } else {
                Ipv4Packet::new(b).map(|p| huginn_net_tcp::process_ipv4_packet(&p, &mut tr, None))
            };
            outs.push(match r {
                Some(Ok(res)) => {
                    let c = res.client_uptime.as_ref().map(|u| {
                        assert!(u.role == huginn_net_tcp::UptimeRole::Client);
                        ObservableUptime { days: u.days, hours: u.hours, min: u.min, up_mod_days: u.up_mod_days, freq: u.freq }
                    });
                    let s = res.server_uptime.as_ref().map(|u| {
                        assert!(u.role == huginn_net_tcp::UptimeRole::Server);
                        ObservableUptime { days: u.days, hours: u.hours, min: u.min, up_mod_days: u.up_mod_days, freq: u.freq }
                    });
                    show_out(&c, &s)
                }
                _ => "E".to_string(),
            });
        }
        outs.join(",")
    });
    let mut l = Line::op("C19.pkts");
    l.usize(cap);
    l.list(pk, |l, (w, v6, b)| {
        l.nat(*w).nat(if *v6 { 6u8 } else { 4u8 }).bytes(b);
    });
    ctx.emit(l.finish(&out));
}

fn ts_opt(tsval: u32, tsecr: u32) -> Vec<u8> {
    let mut o = vec![1, 1, 8, 10];
    o.extend(tsval.to_be_bytes());
    o.extend(tsecr.to_be_bytes());
    o
}
fn seg4(client: bool, flags: u8, tsval: u32, extra: &[u8]) -> Vec<u8> {
    let (src, dst, sp, dp) = if client { ([10, 0, 0, 1], [10, 0, 0, 2], 40000, 80) } else { ([10, 0, 0, 2], [10, 0, 0, 1], 80, 40000) };
    let mut o = ts_opt(tsval, 7);
    o.extend(extra);
    v4_bytes(
        &V4 { src, dst, ..Default::default() },
        &tcp_bytes(&Tcp { sport: sp, dport: dp, flags, ack: if flags & 0x10 != 0 { 9 } else { 0 }, opts: o, ..Default::default() }),
    )
}
fn seg6(client: bool, flags: u8, tsval: u32) -> Vec<u8> {
    let d = V6::default();
    let (src, dst, sp, dp) = if client { (d.src, d.dst, 40000, 443) } else { (d.dst, d.src, 443, 40000) };
    v6_bytes(
        &V6 { src, dst, ..Default::default() },
        &tcp_bytes(&Tcp { sport: sp, dport: dp, flags, ack: if flags & 0x10 != 0 { 9 } else { 0 }, opts: ts_opt(tsval, 7), ..Default::default() }),
    )
}

pub fn run(ctx: &mut Ctx) {
    let mut r = ctx.rng.fork();

    // ---- 1. corpus: DESIGN §8 #28 (300 Hz reported as 100), the tick guard, a backward step
    pair(ctx, 200, 1000, 1060, true);
    pair(ctx, 1000, 1000, 1002, true);
    pair(ctx, 1000, 5000, 4900, false);
    pair(ctx, 1000, 1000, 1100, true);
    pair(ctx, 1000, 1000, 2000, false);
    pair(ctx, 1000, 0xffff_ff00, 0x0000_0100, true); // wrap: 512 ticks/s

    // ---- 2. every frequency 0..1700 Hz (and far outside) at several intervals, ±1 tick, three bases
    let dts: Vec<u64> = if ctx.tier == Tier::Thorough { vec![25, 40, 100, 200, 1000, 3000, 60_000, 600_000] } else { vec![40, 1000, 60_000] };
    for f in (0..=1700u64).chain([2000, 3000, 10_000, 100_000]) {
        for &dt in &dts {
            let dv = (f * dt + 500) / 1000;
            for d in [dv.saturating_sub(1), dv, dv + 1] {
                if d > u32::MAX as u64 {
                    continue;
                }
                let bases: &[u32] = if ctx.tier == Tier::Thorough { &[0, 123_456_789, 0xffff_fff0] } else { &[123_456_789] };
                for &v0 in bases {
                    pair(ctx, dt, v0, v0.wrapping_add(d as u32), f % 2 == 0);
                }
            }
        }
    }
    // all integer and half-integer rates: every Δv at Δt = 1000 / 2000 / 500 / 250 ms
    for (dt, max) in [(1000u64, 1700u32), (2000, 3400), (500, 850), (250, 425)] {
        for dv in 0..=max {
            pair(ctx, dt, 77_000, 77_000 + dv, true);
        }
    }
    // ---- 3. interval boundaries x Δv adjacent to every threshold
    let bdts: Vec<u64> = if ctx.tier == Tier::Thorough {
        vec![0, 1, 24, 25, 26, 27, 33, 50, 99, 100, 101, 999, 1001, 7777, 599_999, 600_000, 600_001, 10_000_000]
    } else {
        vec![0, 24, 25, 26, 99, 100, 101, 1001, 600_000, 600_001]
    };
    for &dt in &bdts {
        for dv in threshold_dvs(dt.max(1)) {
            if dv <= u32::MAX as u64 {
                pair(ctx, dt, 1_000_000, 1_000_000u32.wrapping_add(dv as u32), dv % 2 == 0);
            }
        }
    }
    if ctx.tier == Tier::Thorough {
        // every interval 25..=2000 ms and a spread of longer ones
        let mut all: Vec<u64> = (25..=2000).collect();
        for _ in 0..300 {
            all.push(r.range(2001, 600_000));
        }
        for dt in all {
            for dv in threshold_dvs(dt) {
                if dv <= u32::MAX as u64 {
                    pair(ctx, dt, 2_000_000_000, 2_000_000_000u32.wrapping_add(dv as u32), dv % 2 == 1);
                }
            }
        }
    }
    // ---- 4. backward and wrapping movement
    for &dt in &[25u64, 50, 99, 100, 101, 1000, 10_000, 600_000] {
        for &k in &[1u32, 4, 5, 6, 24, 25, 100, 149, 150, 151, 1499, 1500, 1501, 14_999, 15_000, 15_001, 150_000, 0x7fff_fffe, 0x7fff_ffff, 0x8000_0000, 0x8000_0001] {
            pair(ctx, dt, 3_000_000_000, 3_000_000_000u32.wrapping_sub(k), true);
            pair(ctx, dt, 5, 5u32.wrapping_sub(k), false);
            pair(ctx, dt, 0xffff_fffe, 0xffff_fffeu32.wrapping_add(k), true);
        }
    }
    // ---- 5. uptime split: TSval at multiples of 60·f / 3600·f / 86400·f, ±1, and the u32 extremes
    for &(dt, dv, f) in &[(1000u64, 1000u32, 1000u64), (1000, 100, 100), (1000, 250, 250), (1000, 2, 1u64.max(2)), (2000, 13, 5)] {
        let mut v1s: Vec<u64> = vec![dv as u64, u32::MAX as u64, u32::MAX as u64 - 1, 1u64 << 31];
        for unit in [60u64, 3600, 86_400, 86_400 * 7, 86_400 * 49] {
            for m in [1u64, 2, 23, 24, 59, 60] {
                let x = unit * m * f;
                v1s.extend([x.saturating_sub(1), x, x + 1]);
            }
        }
        for v1 in v1s {
            if v1 >= dv as u64 && v1 <= u32::MAX as u64 {
                pair(ctx, dt, (v1 as u32).wrapping_sub(dv), v1 as u32, true);
            }
        }
    }
    // ---- 6. histories: interleaved client/server, several connections, stickiness of the bad marker,
    //         repeated estimates against the first reference, small capacities
    let n = ctx.n(4_000, 60_000);
    for _ in 0..n {
        let len = r.range(2, 8) as usize;
        let conns = r.range(1, 3) as u32;
        let cap = *r.pick(&[0usize, 1, 2, 3, 8, 8, 8, 64]);
        let mut evs = vec![];
        let mut t = T0;
        let hz: Vec<u64> = (0..6).map(|_| *r.pick(&[1u64, 2, 10, 64, 100, 128, 250, 300, 512, 1000, 1024, 1200, 5000])).collect();
        let base: Vec<u32> = (0..6).map(|_| if r.chance(1, 5) { 0xffff_ff00 } else { r.next() as u32 }).collect();
        for _ in 0..len {
            t += *r.pick(&[0u64, 1, 10, 24, 25, 26, 50, 99, 100, 500, 1000, 1000, 2000, 30_000, 600_000, 600_001]);
            let c = r.range(1, conns as u64) as u32;
            let fc = r.chance(1, 2);
            let idx = (c as usize * 2 + fc as usize) % 6;
            let mut ts = base[idx].wrapping_add(((t - T0) * hz[idx] / 1000) as u32);
            if r.chance(1, 12) {
                ts = ts.wrapping_sub(r.range(1, 20_000) as u32);
            }
            if r.chance(1, 20) {
                ts = r.next() as u32;
            }
            evs.push(ev(c, fc, t, ts));
        }
        emit_seq(ctx, cap, &evs);
    }
    // IPv6 endpoints and direction of the tuple
    for fc in [false, true] {
        let a = (true, 0x2001_0db8_0000_0000_0000_0000_0000_0001u128);
        let b = (true, 0x2001_0db8_0000_0000_0000_0000_0000_0002u128);
        let e0 = Ev { wall: T0, src: a, sport: 5000, dst: b, dport: 443, from_client: fc, ts: 100 };
        let e1 = Ev { wall: T0 + 1000, ts: 1100, ..e0.clone() };
        let rev = Ev { wall: T0 + 1000, src: b, sport: 443, dst: a, dport: 5000, from_client: fc, ts: 1100 };
        emit_seq(ctx, 4, &[e0.clone(), e1]);
        emit_seq(ctx, 4, &[e0, rev]);
    }

    // ---- 7. packet level: handshake then data, both directions, v4 and v6
    for &(hz, dt) in &[(1000u64, 1000u64), (100, 1000), (250, 400), (300, 200), (1, 10_000), (2000, 1000), (1000, 20)] {
        let step = (hz * dt / 1000) as u32;
        let pk = vec![
            (T0, false, seg4(true, 0x02, 5_000, &[])),
            (T0 + 1, false, seg4(false, 0x12, 900_000, &[])),
            (T0 + dt, false, seg4(true, 0x10, 5_000 + step, &[])),
            (T0 + dt + 1, false, seg4(false, 0x10, 900_000 + step, &[])),
            (T0 + 2 * dt, false, seg4(true, 0x18, 5_000 + 2 * step, &[])),
            (T0 + 2 * dt + 1, false, seg4(false, 0x11, 900_000 + 2 * step, &[])),
        ];
        run_pkts(ctx, 16, &pk);
        let pk6 = vec![
            (T0, true, seg6(true, 0x02, 5_000)),
            (T0 + 1, true, seg6(false, 0x12, 900_000)),
            (T0 + dt, true, seg6(true, 0x10, 5_000 + step)),
            (T0 + dt + 1, true, seg6(false, 0x10, 900_000 + step)),
        ];
        run_pkts(ctx, 16, &pk6);
    }
    // two timestamp options in one segment; a short timestamp option; invalid flags in between
    run_pkts(
        ctx,
        16,
        &[
            (T0, false, seg4(true, 0x02, 1000, &[8, 10, 0, 0, 7, 208, 0, 0, 0, 0])),
            (T0 + 1000, false, seg4(true, 0x10, 2000, &[])),
            (T0 + 1500, false, seg4(true, 0x03, 2500, &[])),
            (T0 + 2000, false, seg4(true, 0x10, 3000, &[8, 6, 0, 0, 0, 0])),
        ],
    );
    let n = ctx.n(600, 10_000);
    for _ in 0..n {
        let len = r.range(2, 6) as usize;
        let mut t = T0;
        let hz = *r.pick(&[10u64, 100, 250, 300, 1000, 1024]);
        let mut pk = vec![];
        for i in 0..len {
            t += *r.pick(&[1u64, 24, 25, 100, 1000, 5000]);
            let client = r.chance(1, 2);
            let flags = if i == 0 { 0x02 } else { *r.pick(&[0x10u8, 0x18, 0x12, 0x11, 0x02, 0x14]) };
            let base = if client { 10_000u32 } else { 4_000_000_000 };
            let ts = base.wrapping_add(((t - T0) * hz / 1000) as u32);
            if r.chance(1, 4) {
                pk.push((t, true, seg6(client, flags, ts)));
            } else {
                pk.push((t, false, seg4(client, flags, ts, &[])));
            }
        }
        run_pkts(ctx, *r.pick(&[1usize, 2, 16]), &pk);
    }
    // ---- 8. one deliberate scenario on the cache's own clock (32 s of real time; thorough only): a steady
    //         clock seen 31 s apart IS reported (the entries live MAX_TWAIT = 600 s since fix c23ccf6; with the
    //         former 30 s lifetime the reference had expired and nothing was reported); a bad marker is still in
    //         force after 31 s. Expiry itself (601 s) is in the model but no longer exercised.
    if ctx.tier == Tier::Thorough {
        let a0 = ev(1, true, T0, 1000);
        let b0 = ev(2, true, T0, 5000);
        let b1 = ev(2, true, T0 + 10, 5001); // too soon: bad marker
        emit_exp(
            ctx,
            4,
            &[
                (0, a0.clone()),
                (0, b0.clone()),
                (5, b1),
                (1000, ev(1, true, T0 + 1000, 2000)),        // 1000 Hz
                (31_000, ev(1, true, T0 + 31_000, 32_000)),  // 31 s after the reference: still 1000 Hz
                (31_000, ev(2, true, T0 + 31_000, 36_000)),  // bad marker still in force
                (32_000, ev(3, true, T0 + 32_000, 1)),
                (32_001, ev(3, true, T0 + 33_000, 101)),     // 100 Hz
            ],
        );
    }
    VERIF_CLOCK_MS.store(u64::MAX, Ordering::SeqCst);
}
