//! Token writer for the line protocol (see lean/Huginn/Drv/Proto.lean).
use std::fmt::Write as _;

#[derive(Default)]
pub struct Line {
    s: String,
}

impl Line {
    pub fn op(op: &str) -> Self {
        Line { s: op.to_string() }
    }
    pub fn nat<T: Into<u128>>(&mut self, n: T) -> &mut Self {
        let n: u128 = n.into();
        write!(self.s, " {n}").unwrap();
        self
    }
    pub fn int(&mut self, n: i128) -> &mut Self {
        write!(self.s, " {n}").unwrap();
        self
    }
    pub fn usize(&mut self, n: usize) -> &mut Self {
        write!(self.s, " {n}").unwrap();
        self
    }
    pub fn bool(&mut self, b: bool) -> &mut Self {
        self.s.push_str(if b { " 1" } else { " 0" });
        self
    }
    pub fn tok(&mut self, t: &str) -> &mut Self {
        debug_assert!(!t.contains(' ') && !t.is_empty());
        self.s.push(' ');
        self.s.push_str(t);
        self
    }
    pub fn bytes(&mut self, b: &[u8]) -> &mut Self {
        self.s.push(' ');
        if b.is_empty() {
            self.s.push('-');
        } else {
            for x in b {
                write!(self.s, "{x:02x}").unwrap();
            }
        }
        self
    }
    pub fn text(&mut self, t: &str) -> &mut Self {
        self.bytes(t.as_bytes())
    }
    pub fn list<T>(&mut self, xs: &[T], mut f: impl FnMut(&mut Line, &T)) -> &mut Self {
        self.usize(xs.len());
        for x in xs {
            f(self, x);
        }
        self
    }
    /// Finish the case with the implementation's canonical output.
    pub fn finish(&self, impl_out: &str) -> String {
        debug_assert!(!impl_out.contains('\n'));
        format!("{} => {}", self.s, impl_out)
    }
}

pub fn hex(b: &[u8]) -> String {
    if b.is_empty() {
        return "-".into();
    }
    let mut s = String::with_capacity(b.len() * 2);
    for x in b {
        write!(s, "{x:02x}").unwrap();
    }
    s
}

pub fn unhex(s: &str) -> Option<Vec<u8>> {
    if s == "-" {
        return Some(vec![]);
    }
    if s.len() % 2 != 0 {
        return None;
    }
    (0..s.len())
        .step_by(2)
        .map(|i| u8::from_str_radix(&s[i..i + 2], 16).ok())
        .collect()
}

/// Run `f`, mapping a panic to the canonical output `PANIC`.
pub fn guarded(f: impl FnOnce() -> String + std::panic::UnwindSafe) -> String {
    match std::panic::catch_unwind(f) {
        Ok(s) => s,
        Err(_) => "PANIC".to_string(),
    }
}
