//! C16 — HTTP/2 requests and responses: `Http2Parser::parse_request/parse_response` (fields) and
//! `HttpProcessors::parse_request/parse_response` (observable, p0f signature), on header lists ×
//! HPACK encodings (the harness's own RFC 7541 encoder) × framings (PADDED, PRIORITY, CONTINUATION
//! cut anywhere, preceding control frames); `hpack_patched::Decoder` against RFC 7541;
//! `get_highest_quality_language`.
#[path = "h2gen.rs"]
mod h2gen;
use crate::rng::Rng;
use crate::wr::{guarded, hex, Line};
use crate::Ctx;
use h2gen::*;
use huginn_net_http::http2_parser::{Http2ParseError, Http2Request, Http2Response};
use huginn_net_http::http_common::{HttpCookie, HttpHeader};
use huginn_net_http::http_languages::get_highest_quality_language;
use huginn_net_http::{db, Http2FrameType, Http2Parser, HttpProcessors, ObservableHttpRequest, ObservableHttpResponse};

fn opt(v: &Option<String>) -> String {
    match v {
        None => "~".into(),
        Some(s) => hex(s.as_bytes()),
    }
}
fn show_hdr(h: &HttpHeader) -> String {
    format!("{}={}@{}", hex(h.name.as_bytes()), opt(&h.value), h.position)
}
fn show_cookie(c: &HttpCookie) -> String {
    format!("{}={}@{}", hex(c.name.as_bytes()), opt(&c.value), c.position)
}
fn show_list<T>(xs: &[T], f: impl Fn(&T) -> String) -> String {
    format!("{}[{}]", xs.len(), xs.iter().map(f).collect::<Vec<_>>().join(","))
}
fn show_sig(h: &db::http::Header) -> String {
    format!(
        "{}{}{}",
        if h.optional { "?" } else { "" },
        hex(h.name.as_bytes()),
        match &h.value {
            Some(v) => format!("={}", hex(v.as_bytes())),
            None => String::new(),
        }
    )
}
fn ty_byte(t: &Http2FrameType) -> u8 {
    match t {
        Http2FrameType::Data => 0,
        Http2FrameType::Headers => 1,
        Http2FrameType::Priority => 2,
        Http2FrameType::RstStream => 3,
        Http2FrameType::Settings => 4,
        Http2FrameType::PushPromise => 5,
        Http2FrameType::Ping => 6,
        Http2FrameType::GoAway => 7,
        Http2FrameType::WindowUpdate => 8,
        Http2FrameType::Continuation => 9,
        Http2FrameType::Unknown(b) => *b,
    }
}
fn show_types(ts: &[Http2FrameType]) -> String {
    ts.iter().map(|t| ty_byte(t).to_string()).collect::<Vec<_>>().join(".")
}
fn on<T: ToString>(v: &Option<T>) -> String {
    match v {
        None => "~".into(),
        Some(x) => x.to_string(),
    }
}
fn show_err(e: &Http2ParseError) -> String {
    let n = match e {
        Http2ParseError::InvalidPreface => "InvalidPreface",
        Http2ParseError::HpackDecodingFailed => "HpackDecodingFailed",
        Http2ParseError::MissingRequiredHeaders => "MissingRequiredHeaders",
        Http2ParseError::InvalidFrameHeader => "InvalidFrameHeader",
        Http2ParseError::InvalidFrameLength(_) => "InvalidFrameLength",
        Http2ParseError::InvalidStreamId(_) => "InvalidStreamId",
        Http2ParseError::FrameTooLarge(_) => "FrameTooLarge",
        Http2ParseError::InvalidPseudoHeader(_) => "InvalidPseudoHeader",
        Http2ParseError::IncompleteFrame => "IncompleteFrame",
        Http2ParseError::InvalidUtf8 => "InvalidUtf8",
        Http2ParseError::UnsupportedFeature(_) => "UnsupportedFeature",
    };
    format!("err:{n}")
}

fn show_req(r: &Http2Request) -> String {
    let s = &r.settings;
    let version_ok = r.version == db::http::Version::V20;
    format!(
        "ok m={} p={} a={} s={} h={} c={} r={} ## sid={} hc={} tl={} fs={} set={},{},{},{},{},{}{}",
        hex(r.method.as_bytes()),
        hex(r.path.as_bytes()),
        opt(&r.authority),
        opt(&r.scheme),
        show_list(&r.headers, show_hdr),
        show_list(&r.cookies, show_cookie),
        opt(&r.referer),
        r.stream_id,
        r.parsing_metadata.header_count,
        r.parsing_metadata.total_headers_length,
        show_types(&r.frame_sequence),
        on(&s.header_table_size),
        on(&s.enable_push.map(|b| if b { 1 } else { 0 })),
        on(&s.max_concurrent_streams),
        on(&s.initial_window_size),
        on(&s.max_frame_size),
        on(&s.max_header_list_size),
        if version_ok { "" } else { " VERSION?" }
    )
}
fn show_resp(r: &Http2Response) -> String {
    let version_ok = r.version == db::http::Version::V20;
    format!(
        "ok st={} h={} ## sid={} hc={} tl={} fs={} srv={} ct={}{}",
        r.status,
        show_list(&r.headers, show_hdr),
        r.stream_id,
        r.parsing_metadata.header_count,
        r.parsing_metadata.total_headers_length,
        show_types(&r.frame_sequence),
        opt(&r.server),
        opt(&r.content_type),
        if version_ok { "" } else { " VERSION?" }
    )
}
fn show_oreq(o: &Option<ObservableHttpRequest>) -> String {
    match o {
        None => "none".into(),
        Some(o) => format!(
            "ok m={} u={} h={} c={} r={} ua={} lang={} ho={} ha={} sw={} sig={}{}",
            opt(&o.method).replace('~', "MISSING"),
            opt(&o.uri).replace('~', "MISSING"),
            show_list(&o.headers, show_hdr),
            show_list(&o.cookies, show_cookie),
            opt(&o.referer),
            opt(&o.user_agent),
            opt(&o.lang),
            show_list(&o.matching.horder, show_sig),
            show_list(&o.matching.habsent, show_sig),
            hex(o.matching.expsw.as_bytes()),
            hex(format!("{}", o.matching).as_bytes()),
            if o.matching.version == db::http::Version::V20 { "" } else { " VERSION?" }
        ),
    }
}
fn show_oresp(o: &Option<ObservableHttpResponse>) -> String {
    match o {
        None => "none".into(),
        Some(o) => format!(
            "ok st={} h={} ho={} ha={} sw={} sig={}{}",
            on(&o.status_code),
            show_list(&o.headers, show_hdr),
            show_list(&o.matching.horder, show_sig),
            show_list(&o.matching.habsent, show_sig),
            hex(o.matching.expsw.as_bytes()),
            hex(format!("{}", o.matching).as_bytes()),
            if o.matching.version == db::http::Version::V20 { "" } else { " VERSION?" }
        ),
    }
}

fn op_preq(ctx: &mut Ctx, data: &[u8]) {
    let d = data.to_vec();
    let out = guarded(move || match Http2Parser::new().parse_request(&d) {
        Err(e) => show_err(&e),
        Ok(None) => "none".into(),
        Ok(Some(r)) => show_req(&r),
    });
    let mut l = Line::op("C16.preq");
    l.bytes(data);
    ctx.emit(l.finish(&out));
}
fn op_presp(ctx: &mut Ctx, data: &[u8]) {
    let d = data.to_vec();
    let out = guarded(move || match Http2Parser::new().parse_response(&d) {
        Err(e) => show_err(&e),
        Ok(None) => "none".into(),
        Ok(Some(r)) => show_resp(&r),
    });
    let mut l = Line::op("C16.presp");
    l.bytes(data);
    ctx.emit(l.finish(&out));
}
fn h1_rejects(d: &[u8]) -> bool {
    d.starts_with(PREFACE) || d.first() == Some(&0)
}
fn op_oreq(ctx: &mut Ctx, data: &[u8]) {
    if !h1_rejects(data) {
        return;
    }
    let d = data.to_vec();
    let out = guarded(move || show_oreq(&HttpProcessors::new().parse_request(&d)));
    let mut l = Line::op("C16.oreq");
    l.bytes(data);
    ctx.emit(l.finish(&out));
}
fn op_oresp(ctx: &mut Ctx, data: &[u8]) {
    if !h1_rejects(data) {
        return;
    }
    let d = data.to_vec();
    let out = guarded(move || show_oresp(&HttpProcessors::new().parse_response(&d)));
    let mut l = Line::op("C16.oresp");
    l.bytes(data);
    ctx.emit(l.finish(&out));
}
fn op_seq(ctx: &mut Ctx, a: &[u8], b: &[u8]) {
    if !h1_rejects(b) {
        return;
    }
    let (x, y) = (a.to_vec(), b.to_vec());
    let out = guarded(move || {
        let p = HttpProcessors::new();
        let _ = p.parse_request(&x);
        let _ = p.parse_response(&x);
        // after A on the same processors  @@  on a fresh instance
        format!("{} @@ {}", show_oreq(&p.parse_request(&y)), show_oreq(&HttpProcessors::new().parse_request(&y)))
    });
    let mut l = Line::op("C16.seq");
    l.bytes(a).bytes(b);
    ctx.emit(l.finish(&out));
}
/// like `op_seq`, but B is a server stream (no preface) handed to `parse_response`: the response path
/// must start from an empty HPACK table of the default size too, whatever A left behind
fn op_seqr(ctx: &mut Ctx, a: &[u8], b: &[u8]) {
    if !h1_rejects(b) {
        return;
    }
    let (x, y) = (a.to_vec(), b.to_vec());
    let out = guarded(move || {
        let p = HttpProcessors::new();
        let _ = p.parse_request(&x);
        let _ = p.parse_response(&x);
        format!("{} @@ {}", show_oresp(&p.parse_response(&y)), show_oresp(&HttpProcessors::new().parse_response(&y)))
    });
    let mut l = Line::op("C16.seqr");
    l.bytes(a).bytes(b);
    ctx.emit(l.finish(&out));
}
fn op_lang(ctx: &mut Ctx, v: &str) {
    let s = v.to_string();
    let out = guarded(move || opt(&get_highest_quality_language(s)));
    let mut l = Line::op("C16.lang");
    l.bytes(v.as_bytes());
    ctx.emit(l.finish(&out));
}
fn op_hpack(ctx: &mut Ctx, blocks: &[Vec<u8>]) {
    let bs = blocks.to_vec();
    let out = guarded(move || {
        let mut d = hpack_patched::Decoder::new();
        let mut outs = Vec::new();
        for b in &bs {
            match d.decode(b) {
                Err(_) => outs.push("err".to_string()),
                Ok(hs) => {
                    let mut s = format!("{}", hs.len());
                    for (n, v) in &hs {
                        s.push_str(&format!(",{}={}", hex(n), hex(v)));
                    }
                    outs.push(s);
                }
            }
        }
        outs.join(";")
    });
    let mut l = Line::op("C16.hpack");
    l.list(blocks, |l, c| {
        l.bytes(c);
    });
    ctx.emit(l.finish(&out));
}

// ------------------------------------------------------------------------------------ generators

const LANGS: [&str; 14] = ["en", "en-US", "es", "fr-FR", "de", "zh-CN", "ja", "pt-BR", "xx", "*", "ru", "it", "e", ""];
const QS: [&str; 16] = ["q=0.9", "q=0.8", "q=1", "q=1.0", "q=0", "q=0.5", "q=0.50", "q=0.500", "q=.7", "q=1.", "q=", "q=abc", " q=0.9", "q=q=0.3", "0.4", "q=+0.6"];

fn gen_accept_language(r: &mut Rng) -> String {
    let n = r.range(1, 5) as usize;
    let mut parts = Vec::new();
    for _ in 0..n {
        let mut p = String::new();
        if r.chance(1, 4) {
            p.push(' ');
        }
        p.push_str(*r.pick(&LANGS));
        if r.chance(1, 8) {
            p.push(' ');
        }
        if r.chance(2, 3) {
            p.push(';');
            p.push_str(*r.pick(&QS));
            if r.chance(1, 10) {
                p.push_str(";x=1");
            }
        }
        parts.push(p);
    }
    parts.join(",")
}

fn gen_cookie_value(r: &mut Rng) -> String {
    let crumbs = ["a=b", "sid=abc123", "x", "k=", "=v", " sp = aced ", "", "q=1=2", "theme=dark", "\tt=1"];
    let n = r.range(1, 4) as usize;
    let sep = if r.chance(3, 4) { "; " } else { ";" };
    (0..n).map(|_| *r.pick(&crumbs)).collect::<Vec<_>>().join(sep)
}

fn maybe_upper(r: &mut Rng, n: &str) -> String {
    match r.below(12) {
        0 => n.to_uppercase(),
        1 => {
            // Title-Case
            let mut out = String::new();
            let mut up = true;
            for c in n.chars() {
                if up {
                    out.extend(c.to_uppercase());
                } else {
                    out.push(c);
                }
                up = c == '-';
            }
            out
        }
        _ => n.to_string(),
    }
}

fn gen_regular_request(r: &mut Rng) -> Vec<Hdr> {
    let mut out: Vec<Hdr> = Vec::new();
    let n = r.below(8) as usize;
    for _ in 0..n {
        let (name, value): (String, Vec<u8>) = match r.below(20) {
            0 | 1 => ("user-agent".into(), r.pick(&["curl/8.0", "Mozilla/5.0 (X11; Linux x86_64) Firefox/120.0", "x"]).as_bytes().to_vec()),
            2 => ("accept".into(), b"*/*".to_vec()),
            3 => ("accept-encoding".into(), b"gzip, deflate".to_vec()),
            4 | 5 => ("accept-language".into(), gen_accept_language(r).into_bytes()),
            6 | 7 => ("cookie".into(), gen_cookie_value(r).into_bytes()),
            8 => ("referer".into(), b"https://example.com/a?b=c".to_vec()),
            9 => ("cache-control".into(), b"no-cache".to_vec()),
            10 => ("host".into(), b"example.com".to_vec()),
            11 => ((*r.pick(&["origin", "range", "if-modified-since", "if-none-match", "via", "x-forwarded-for", "authorization", "proxy-authorization"])).into(), b"v".to_vec()),
            12 => ("x-custom".into(), b"custom value, with = and [brackets]".to_vec()),
            13 => ((*r.pick(&["x-empty", "user-agent", "referer", "cookie", "accept-language"])).into(), Vec::new()),
            14 => ("x-bin".into(), vec![0x66, 0xff, 0xfe, 0x80, 0x41]),
            15 => ("accept-charset".into(), b"utf-8".to_vec()),
            16 => ("connection".into(), b"keep-alive".to_vec()),
            17 => ("x-long".into(), vec![b'y'; [100usize, 300, 1000, 5000][r.below(4) as usize]]),
            18 => ("keep-alive".into(), b"timeout=5".to_vec()),
            _ => ("te".into(), b"trailers".to_vec()),
        };
        // at most one user-agent / accept-language / referer most of the time (duplicates are outside the statement)
        let lname = name.to_lowercase();
        if ["user-agent", "accept-language", "referer"].contains(&lname.as_str())
            && out.iter().any(|(n, _)| n.to_ascii_lowercase() == lname.as_bytes())
            && !r.chance(1, 8)
        {
            continue;
        }
        let name = maybe_upper(r, &name);
        let mut nb = name.into_bytes();
        if r.chance(1, 60) {
            nb.push(0xff); // name that is not UTF-8
        }
        out.push((nb, value));
    }
    out
}

fn gen_request_fields(r: &mut Rng) -> Vec<Hdr> {
    let mut ps: Vec<Hdr> = vec![
        h(":method", *r.pick(&["GET", "POST", "PUT", "OPTIONS"])),
        h(":scheme", *r.pick(&["https", "http"])),
        h(":authority", *r.pick(&["example.com", "www.example.com:8443", ""])),
        h(":path", *r.pick(&["/", "/index.html", "/a/b?c=d&e=f", "*"])),
    ];
    for i in (1..ps.len()).rev() {
        let j = r.below(i as u64 + 1) as usize;
        ps.swap(i, j);
    }
    match r.below(48) {
        0 => {
            ps.retain(|x| x.0 != b":authority");
        }
        1 => {
            ps.retain(|x| x.0 != b":scheme");
        }
        2 => {
            ps.retain(|x| x.0 != b":path");
        }
        3 => {
            ps.retain(|x| x.0 != b":method");
        }
        4 => ps.push(h(":status", "200")),
        5 => ps.push(h(":protocol", "websocket")),
        6 => {
            let d = ps[r.below(4) as usize].clone();
            ps.push(d);
        }
        7 => {
            let k = r.below(4) as usize;
            ps[k].1 = vec![0x2f, 0xc3, 0x28];
        }
        8 => {
            let k = r.below(4) as usize;
            ps[k].1.clear();
        }
        _ => {}
    }
    let mut out = ps;
    let reg = gen_regular_request(r);
    if r.chance(1, 20) && !reg.is_empty() {
        // a regular header before a pseudo-header
        out.insert(r.below(out.len() as u64 + 1) as usize, reg[0].clone());
    }
    out.extend(reg);
    out
}

fn gen_response_fields(r: &mut Rng) -> Vec<Hdr> {
    let status = match r.below(32) {
        0 => "",
        1 => "abc",
        2 => "+200",
        3 => "65535",
        4 => "65536",
        5 => "099",
        6 => "2000",
        _ => *r.pick(&["200", "204", "301", "404", "500", "206"]),
    };
    let mut out = vec![h(":status", status)];
    match r.below(40) {
        0 => out.clear(),
        1 => out.push(h(":status", "404")),
        2 => out.push(h(":method", "GET")),
        _ => {}
    }
    let pool: [(&str, &str); 16] = [
        ("server", "nginx/1.18.0"),
        ("server", "Apache"),
        ("content-type", "text/html; charset=utf-8"),
        ("date", "Mon, 01 Jan 2024 00:00:00 GMT"),
        ("content-length", "1234"),
        ("set-cookie", "a=b; Path=/"),
        ("etag", "\"abc\""),
        ("cache-control", "max-age=3600"),
        ("vary", "Accept-Encoding"),
        ("last-modified", "Mon, 01 Jan 2024 00:00:00 GMT"),
        ("accept-ranges", "bytes"),
        ("connection", "keep-alive"),
        ("x-empty", ""),
        ("server", ""),
        ("location", "/next"),
        ("expires", "0"),
    ];
    let n = r.below(8) as usize;
    for _ in 0..n {
        let (a, b) = *r.pick(&pool);
        if a == "server" && out.iter().any(|(n, _)| n.to_ascii_lowercase() == b"server") && !r.chance(1, 8) {
            continue;
        }
        let name = maybe_upper(r, a);
        let mut v = b.as_bytes().to_vec();
        if r.chance(1, 40) {
            v.push(0xfe);
        }
        out.push((name.into_bytes(), v));
    }
    out
}

fn gen_opts(r: &mut Rng) -> EncOpts {
    match r.below(6) {
        0 => EncOpts::plain(),
        1 => EncOpts { p_indexed: 1000, p_name_ref: 1000, p_huff: 1000, p_incremental: 1000, p_never: 0, p_size_update: 0, allow_idx15: false },
        2 => EncOpts { p_indexed: 0, p_name_ref: 500, p_huff: 500, p_incremental: 0, p_never: 1000, p_size_update: 0, allow_idx15: false },
        3 => EncOpts { p_size_update: 800, ..EncOpts::mixed() },
        4 => EncOpts { allow_idx15: true, p_name_ref: 1000, ..EncOpts::mixed() },
        _ => EncOpts::mixed(),
    }
}

fn gen_framing(r: &mut Rng, sid: u32, block_len: usize) -> Framing {
    let mut f = Framing::plain(sid);
    f.end_stream = r.chance(1, 2);
    match r.below(12) {
        0 => f.pad = Some(0),
        1 => f.pad = Some(r.range(1, 60) as u8),
        2 => f.pad = Some(255),
        _ => {}
    }
    if r.chance(1, 5) {
        f.prio = Some((r.chance(1, 2), *r.pick(&[0u32, 3, 0x7fff_ffff]), *r.pick(&[0u8, 15, 255])));
    }
    if r.chance(1, 3) {
        let k = r.range(1, 3) as usize;
        f.cuts = (0..k).map(|_| r.below(block_len as u64 + 1) as usize).collect();
    }
    if r.chance(1, 20) {
        f.extra_flags = r.next() as u8;
    }
    if r.chance(1, 40) {
        f.unterminated = true;
    }
    f
}

fn control_frames(r: &mut Rng) -> Vec<GFrame> {
    let mut v = Vec::new();
    if r.chance(3, 4) {
        v.push(settings_frame(&[(1, 65536), (2, r.below(2) as u32), (3, 1000), (4, 6291456), (5, 16384), (6, 262144), (7, 9)][..r.range(0, 7) as usize]));
    }
    if r.chance(1, 2) {
        v.push(window_frame(0, 15663105));
    }
    if r.chance(1, 6) {
        v.push(ping_frame());
    }
    if r.chance(1, 6) {
        v.push(priority_frame(3, false, 0, 200));
    }
    if r.chance(1, 10) {
        let mut s = settings_frame(&[]);
        s.flags = 1;
        v.push(s);
    }
    if r.chance(1, 12) {
        v.push(settings_frame(&[(5, 32768), (1, 0)]));
    }
    v
}

struct Msg {
    bytes: Vec<u8>,
}

fn gen_message(r: &mut Rng, request: bool) -> Msg {
    let fields = if request { gen_request_fields(r) } else { gen_response_fields(r) };
    let mut enc = Enc::new();
    let opts = gen_opts(r);
    let block = enc.encode_block(r, &opts, &fields);
    let sid = match r.below(12) {
        0 => 0x8000_0001,
        1 => 3,
        2 => 0x7fff_ffff,
        _ => 1,
    };
    let fr = gen_framing(r, sid, block.len());
    let mut frames = control_frames(r);
    if r.chance(1, 15) {
        // a complete message of another kind first: HEADERS on stream 0 is not a message
        frames.push(GFrame::new(T_HEADERS, 5, 0, vec![0x82]));
    }
    let hb = frame_block(&block, &fr);
    if hb.len() > 1 && r.chance(1, 12) {
        // a foreign frame interleaved between HEADERS and CONTINUATION (illegal; other stream)
        let mut x = hb.clone();
        x.insert(1, window_frame(5, 10));
        frames.extend(x);
    } else {
        frames.extend(hb);
    }
    match r.below(24) {
        0 | 3 | 4 => frames.push(GFrame::new(T_DATA, 1, sid & 0x7fff_ffff, b"body".to_vec())),
        1 => {
            // trailers on the same stream
            let mut e2 = enc.clone();
            let t = e2.encode_block(r, &EncOpts::plain(), &[h("x-trailer", "t")]);
            frames.extend(frame_block(&t, &Framing::plain(sid)));
        }
        2 | 5 | 6 => {
            // a second message on another stream
            let f2 = if request { gen_request_fields(r) } else { gen_response_fields(r) };
            let b2 = enc.encode_block(r, &opts, &f2);
            frames.extend(frame_block(&b2, &Framing::plain((sid & 0x7fff_ffff) + 2)));
        }
        _ => {}
    }
    let mut bytes = ser(&frames, request);
    match r.below(40) {
        0 => {
            let k = r.below(bytes.len() as u64 + 1) as usize;
            bytes.truncate(k);
        }
        1 => {
            if !bytes.is_empty() {
                let k = r.below(bytes.len() as u64) as usize;
                bytes[k] ^= 1 << r.below(8);
            }
        }
        2 => bytes.extend_from_slice(&[0, 0, 5, 1]),
        _ => {}
    }
    Msg { bytes }
}

fn req_bytes(fields: &[Hdr], fr: &Framing, pre: &[GFrame]) -> Vec<u8> {
    let mut enc = Enc::new();
    let mut r = Rng::new(7);
    let block = enc.encode_block(&mut r, &EncOpts::plain(), fields);
    let mut frames = pre.to_vec();
    frames.extend(frame_block(&block, fr));
    ser(&frames, true)
}

fn witnesses(ctx: &mut Ctx) {
    let fields = vec![h(":method", "GET"), h(":path", "/"), h(":scheme", "https"), h(":authority", "example.com"), h("user-agent", "curl/8"), h("cache-control", "no-cache"), h("accept", "*/*")];
    let pre = vec![settings_frame(&[(3, 100)]), window_frame(0, 1000)];
    // DESIGN §8 #26: plain HEADERS — list case
    let mut f = Framing::plain(1);
    for b in [req_bytes(&fields, &f, &pre)] {
        op_preq(ctx, &b);
        op_oreq(ctx, &b);
    }
    // DESIGN §8 #25: PRIORITY flag / PADDED / split by CONTINUATION
    f.prio = Some((false, 0, 15));
    let b = req_bytes(&fields, &f, &pre);
    op_preq(ctx, &b);
    op_oreq(ctx, &b);
    f.prio = None;
    f.pad = Some(4);
    let b = req_bytes(&fields, &f, &pre);
    op_preq(ctx, &b);
    op_oreq(ctx, &b);
    f.pad = None;
    f.cuts = vec![3];
    let b = req_bytes(&fields, &f, &pre);
    op_preq(ctx, &b);
    op_oreq(ctx, &b);
    f.cuts = vec![7]; // inside the literal :authority
    let b = req_bytes(&fields, &f, &pre);
    op_preq(ctx, &b);
    op_oreq(ctx, &b);
    // empty value
    let f0 = Framing::plain(1);
    let fe = vec![h(":method", "GET"), h(":path", "/"), h("x-empty", ""), h("accept", "*/*")];
    let b = req_bytes(&fe, &f0, &[]);
    op_preq(ctx, &b);
    op_oreq(ctx, &b);
    // static entry 15 (accept-charset) as a name reference
    let mut blk = vec![0x82, 0x84, 0x0f, 0x00, 0x05];
    blk.extend_from_slice(b"utf-8");
    let b = ser(&frame_block(&blk, &f0), true);
    op_preq(ctx, &b);
    op_oreq(ctx, &b);
    op_hpack(ctx, &[blk]);
    // response: status + server (skip-value list) + content-length (optional list)
    let mut enc = Enc::new();
    let mut r = Rng::new(9);
    let blk = enc.encode_block(&mut r, &EncOpts::plain(), &[h(":status", "200"), h("server", "nginx"), h("content-length", "12"), h("x-a", "b")]);
    let b = ser(&frame_block(&blk, &f0), false);
    op_presp(ctx, &b);
    op_oresp(ctx, &b);
    // DESIGN §8 #13 (fixed): connection A inserts x-secret into the dynamic table, connection B refers to it
    let a = {
        let mut blk = vec![0x82, 0x84, 0x40, 0x08];
        blk.extend_from_slice(b"x-secret");
        blk.push(0x06);
        blk.extend_from_slice(b"tokenA");
        ser(&frame_block(&blk, &f0), true)
    };
    let bb = ser(&frame_block(&[0x82, 0x84, 0xbe], &f0), true);
    op_seq(ctx, &a, &bb);
    op_oreq(ctx, &bb);
    // the same leak on the response path: B is a server stream whose block refers to dynamic entry 62
    // (invalid against a fresh table); and a table-size update left behind by A (size 0 / size 32)
    // followed by a response that relies on the default 4096-octet table
    let rb = ser(&frame_block(&[0x88, 0xbe], &f0), false);
    op_seqr(ctx, &a, &rb);
    op_oresp(ctx, &rb);
    for upd in [vec![0x20u8], vec![0x3f, 0x01]] {
        let a2 = {
            let mut blk = upd.clone();
            blk.extend_from_slice(&[0x82, 0x84, 0x87]);
            ser(&frame_block(&blk, &f0), true)
        };
        let rb2 = {
            // :status 200, literal with incremental indexing (new name) x-long: 40 bytes, then index 62
            let mut blk = vec![0x88, 0x40, 0x06];
            blk.extend_from_slice(b"x-long");
            blk.push(40);
            blk.extend_from_slice(&[b'v'; 40]);
            blk.push(0xbe);
            ser(&frame_block(&blk, &f0), false)
        };
        op_seqr(ctx, &a2, &rb2);
        op_oresp(ctx, &rb2);
        // and the other way round: a response that shrinks the table, then a request relying on the default
        let ra = {
            let mut blk = upd.clone();
            blk.push(0x88);
            ser(&frame_block(&blk, &f0), false)
        };
        let qb = {
            let mut blk = vec![0x82, 0x84, 0x87, 0x40, 0x06];
            blk.extend_from_slice(b"x-long");
            blk.push(40);
            blk.extend_from_slice(&[b'v'; 40]);
            blk.push(0xbe);
            ser(&frame_block(&blk, &f0), true)
        };
        op_seq(ctx, &ra, &qb);
        op_seqr(ctx, &ra, &rb2);
    }
}

pub fn run(ctx: &mut Ctx) {
    let mut r = ctx.rng.fork();
    witnesses(ctx);

    // ---- exhaustive sub-enumerations --------------------------------------------------------
    let fields = vec![h(":method", "GET"), h(":scheme", "https"), h(":path", "/a"), h(":authority", "example.com"), h("user-agent", "curl/8.0"), h("accept", "*/*"), h("cookie", "a=b; c=d")];
    let mut enc = Enc::new();
    let mut r0 = Rng::new(1);
    let block = enc.encode_block(&mut r0, &EncOpts::plain(), &fields);
    // every single cut position, every pair of cut positions (one and two CONTINUATION frames)
    for c in 0..=block.len() {
        let mut f = Framing::plain(1);
        f.cuts = vec![c];
        let b = ser(&frame_block(&block, &f), true);
        op_preq(ctx, &b);
        if c % 4 == 0 {
            op_oreq(ctx, &b);
        }
    }
    for c1 in (0..=block.len()).step_by(3) {
        for c2 in (c1..=block.len()).step_by(5) {
            let mut f = Framing::plain(1);
            f.cuts = vec![c1, c2];
            op_preq(ctx, &ser(&frame_block(&block, &f), true));
        }
    }
    // every pad length 0..=255, with and without the PRIORITY fields
    for pad in 0..=255u8 {
        let mut f = Framing::plain(1);
        f.pad = Some(pad);
        op_preq(ctx, &ser(&frame_block(&block, &f), true));
        if pad % 16 == 0 {
            f.prio = Some((true, 3, pad));
            op_preq(ctx, &ser(&frame_block(&block, &f), true));
            op_oreq(ctx, &ser(&frame_block(&block, &f), true));
        }
    }
    // every flag byte on the HEADERS frame (payload = the plain block)
    for fl in 0..=255u8 {
        let fr = vec![GFrame::new(T_HEADERS, fl, 1, block.clone())];
        op_preq(ctx, &ser(&fr, true));
    }
    // every name of the request/response lists, lower-case and Title-Case, alone after the pseudo-headers
    for name in ["Cookie", "Referer", "Origin", "Range", "If-Modified-Since", "If-None-Match", "Via", "X-Forwarded-For", "Authorization", "Proxy-Authorization", "Cache-Control", "Host", "User-Agent", "Connection", "Accept", "Accept-Encoding", "Accept-Language", "Accept-Charset", "Keep-Alive"] {
        for n in [name.to_string(), name.to_lowercase(), name.to_uppercase()] {
            let fs = vec![h(":method", "GET"), h(":path", "/"), (n.into_bytes(), b"v1".to_vec())];
            let b = req_bytes(&fs, &Framing::plain(1), &[]);
            op_oreq(ctx, &b);
        }
    }
    for name in ["Set-Cookie", "Last-Modified", "ETag", "Content-Length", "Content-Disposition", "Cache-Control", "Expires", "Pragma", "Location", "Refresh", "Content-Range", "Vary", "Date", "Content-Type", "Server", "Connection", "Keep-Alive", "Accept-Ranges"] {
        for n in [name.to_string(), name.to_lowercase()] {
            let mut enc = Enc::new();
            let blk = enc.encode_block(&mut r0, &EncOpts::plain(), &[h(":status", "200"), (n.into_bytes(), b"v1".to_vec())]);
            op_oresp(ctx, &ser(&frame_block(&blk, &Framing::plain(1)), false));
        }
    }
    // frame sizes around 16 KiB: a block of exactly 16384 / 16385 octets in one frame, and split
    for total in [16383usize, 16384, 16385] {
        let mut blk = vec![0x82, 0x84];
        // literal without indexing, new name "x", value of the right length
        let vlen = total - 2 - 1 - 2 - 3; // 0x00, name len+name (2), value length prefix (3 octets for >= 127+128)
        blk.push(0x00);
        blk.extend_from_slice(&[0x01, b'x']);
        let mut lenb = Vec::new();
        enc_int(&mut lenb, 7, 0x00, vlen, 0);
        blk.extend_from_slice(&lenb);
        blk.extend(std::iter::repeat(b'v').take(vlen));
        let mut f = Framing::plain(1);
        op_preq(ctx, &ser(&frame_block(&blk, &f), true));
        f.cuts = vec![8000];
        op_preq(ctx, &ser(&frame_block(&blk, &f), true));
    }
    // which inputs the HTTP/2 adapter accepts at all (`can_process_request || can_process_response`):
    // first frame type 0..=12, announced length around 16384, fewer than 9 / 24 octets
    {
        let mut enc = Enc::new();
        let blk = enc.encode_block(&mut r0, &EncOpts::plain(), &[h(":status", "200"), h("x-a", "b")]);
        let msg = frame_block(&blk, &Framing::plain(1));
        for ty in 0..=12u8 {
            for len in [0usize, 5, 16384, 16385] {
                let mut frames = vec![GFrame::new(ty, 0, 0, vec![0u8; len])];
                frames.extend(msg.clone());
                let b = ser(&frames, false);
                op_oresp(ctx, &b);
                op_oreq(ctx, &b);
            }
        }
        let b = ser(&msg, false);
        for k in 0..=12usize {
            op_oresp(ctx, &b[..k.min(b.len())]);
        }
        let rq = ser(&frame_block(&block, &Framing::plain(1)), true);
        for k in [0usize, 1, 9, 23, 24, 25, 32, 33, 40] {
            op_oreq(ctx, &rq[..k.min(rq.len())]);
            op_oresp(ctx, &rq[..k.min(rq.len())]);
            op_preq(ctx, &rq[..k.min(rq.len())]);
        }
    }
    // status strings
    for st in ["200", "0", "00200", "65535", "65536", "+7", "-1", " 200", "2 0", "", "٣"] {
        let mut enc = Enc::new();
        let blk = enc.encode_block(&mut r0, &EncOpts::plain(), &[h(":status", st), h("server", "s")]);
        let b = ser(&frame_block(&blk, &Framing::plain(1)), false);
        op_presp(ctx, &b);
    }
    // accept-language grammar
    for l in LANGS {
        for q in QS {
            op_lang(ctx, &format!("{l};{q}"));
            op_lang(ctx, &format!("fr;q=0.5,{l};{q},de;q=0.5"));
        }
        op_lang(ctx, l);
    }
    for v in ["en,es", "es,en", "en;q=0.5,es;q=0.5", "es;q=0.5,en;q=0.50", "en;q=0.999,es;q=1", "en;q=0.001,es;q=0", ",,", ";q=1", "en-US-x-y;q=0.3, fr", "EN", "en ;q=0.2,fr;q=0.1", "xx,yy", ""] {
        op_lang(ctx, v);
    }

    // ---- generated messages --------------------------------------------------------------------
    let n = ctx.n(5000, 40000);
    for i in 0..n {
        let request = i % 3 != 2;
        let m = gen_message(&mut r, request);
        if request {
            op_preq(ctx, &m.bytes);
            op_oreq(ctx, &m.bytes);
            if r.chance(1, 20) {
                // the same frames without the preface: not a request
                op_preq(ctx, &m.bytes[PREFACE.len().min(m.bytes.len())..]);
                op_oreq(ctx, &m.bytes[PREFACE.len().min(m.bytes.len())..]);
                op_oresp(ctx, &m.bytes);
            }
        } else {
            op_presp(ctx, &m.bytes);
            op_oresp(ctx, &m.bytes);
            if r.chance(1, 20) {
                op_oreq(ctx, &m.bytes);
            }
        }
        if i % 10 == 0 {
            let m2 = gen_message(&mut r, true);
            op_seq(ctx, &m.bytes, &m2.bytes);
            let m3 = gen_message(&mut r, false);
            op_seqr(ctx, &m.bytes, &m3.bytes);
            op_seqr(ctx, &m2.bytes, &m3.bytes);
        }
    }
    // accept-language values
    for _ in 0..ctx.n(1500, 20000) {
        let v = gen_accept_language(&mut r);
        op_lang(ctx, &v);
    }
    // HPACK: the crate against RFC 7541 on encoder output (state carried over blocks)
    let pool: Vec<Hdr> = vec![
        h(":method", "GET"), h(":method", "PUT"), h(":path", "/"), h(":path", "/a/b?c=d"), h(":scheme", "https"),
        h(":authority", "www.example.com"), h(":status", "200"), h(":status", "404"), h("accept-charset", "utf-8"), h("accept-charset", ""),
        h("accept-encoding", "gzip, deflate"), h("user-agent", "Mozilla/5.0 (X11; Linux x86_64)"), h("cookie", "a=b; c=d"),
        h("cache-control", "no-cache"), h("x-empty", ""), h("custom-key", "custom-value"), h("accept", "*/*"),
        (b"x-bin".to_vec(), (0..=255u8).collect()), (vec![b'X', 0xff], vec![0x00, 0x80]), h("www-authenticate", ""),
        h("x-long", &"y".repeat(300)), h("x-huge", &"z".repeat(4100)), h("x-mid", &"m".repeat(2000)),
    ];
    for _ in 0..ctx.n(2500, 40000) {
        let mut enc = Enc::new();
        let mut opts = gen_opts(&mut r);
        opts.allow_idx15 = r.chance(1, 6);
        let nb = r.range(1, 4) as usize;
        let mut blocks = Vec::new();
        for _ in 0..nb {
            let k = r.below(8) as usize;
            let hs: Vec<Hdr> = (0..k).map(|_| r.pick(&pool).clone()).collect();
            blocks.push(enc.encode_block(&mut r, &opts, &hs));
        }
        op_hpack(ctx, &blocks);
    }
}
