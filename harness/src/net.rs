//! Frame builders shared by the history-level harness modules (C07, C10, C11, C15, C20, C01).
#![allow(dead_code)]
use crate::rng::Rng;
use std::net::{IpAddr, Ipv4Addr, Ipv6Addr};

pub const FIN: u8 = 0x01;
pub const SYN: u8 = 0x02;
pub const RST: u8 = 0x04;
pub const PSH: u8 = 0x08;
pub const ACK: u8 = 0x10;

#[derive(Clone, Debug)]
pub struct Seg {
    pub src: (IpAddr, u16),
    pub dst: (IpAddr, u16),
    pub seq: u32,
    pub ack: u32,
    pub flags: u8,
    pub window: u16,
    pub ttl: u8,
    pub options: Vec<u8>, // padded to a multiple of 4 by the builder
    pub payload: Vec<u8>,
    /// wall-clock arrival time in ms fed to the clock hook (uptime tracker)
    pub wall_ms: u64,
}

impl Seg {
    pub fn new(src: (IpAddr, u16), dst: (IpAddr, u16), flags: u8) -> Seg {
        Seg { src, dst, seq: 1000, ack: 0, flags, window: 65535, ttl: 64, options: vec![], payload: vec![], wall_ms: 1_700_000_000_000 }
    }
    pub fn ts_option(tsval: u32, tsecr: u32) -> Vec<u8> {
        let mut o = vec![1, 1, 8, 10];
        o.extend_from_slice(&tsval.to_be_bytes());
        o.extend_from_slice(&tsecr.to_be_bytes());
        o
    }
    pub fn syn_options(mss: u16, ws: u8, tsval: Option<u32>) -> Vec<u8> {
        let mut o = vec![2, 4];
        o.extend_from_slice(&mss.to_be_bytes());
        o.extend_from_slice(&[4, 2]); // sack permitted
        if let Some(t) = tsval {
            o.extend_from_slice(&[8, 10]);
            o.extend_from_slice(&t.to_be_bytes());
            o.extend_from_slice(&0u32.to_be_bytes());
        }
        o.extend_from_slice(&[1, 3, 3, ws]);
        o
    }
}

fn tcp_bytes(s: &Seg) -> Vec<u8> {
    let mut opts = s.options.clone();
    while opts.len() % 4 != 0 {
        opts.push(0);
    }
    let doff = 5 + opts.len() / 4;
    let mut t = Vec::with_capacity(20 + opts.len() + s.payload.len());
    t.extend_from_slice(&s.src.1.to_be_bytes());
    t.extend_from_slice(&s.dst.1.to_be_bytes());
    t.extend_from_slice(&s.seq.to_be_bytes());
    t.extend_from_slice(&s.ack.to_be_bytes());
    t.push((doff as u8) << 4);
    t.push(s.flags);
    t.extend_from_slice(&s.window.to_be_bytes());
    t.extend_from_slice(&[0, 0, 0, 0]); // checksum, urgent
    t.extend_from_slice(&opts);
    t.extend_from_slice(&s.payload);
    t
}

/// IP packet (no link header) for the segment.
pub fn ip_bytes(s: &Seg) -> Vec<u8> {
    let tcp = tcp_bytes(s);
    match (s.src.0, s.dst.0) {
        (IpAddr::V4(a), IpAddr::V4(b)) => {
            let total = 20 + tcp.len();
            let mut p = vec![0x45, 0, (total >> 8) as u8, total as u8, 0x12, 0x34, 0x40, 0, s.ttl, 6, 0, 0];
            p.extend_from_slice(&a.octets());
            p.extend_from_slice(&b.octets());
            p.extend_from_slice(&tcp);
            p
        }
        (IpAddr::V6(a), IpAddr::V6(b)) => {
            let mut p = vec![0x60, 0, 0, 0, (tcp.len() >> 8) as u8, tcp.len() as u8, 6, s.ttl];
            p.extend_from_slice(&a.octets());
            p.extend_from_slice(&b.octets());
            p.extend_from_slice(&tcp);
            p
        }
        _ => panic!("mixed address families"),
    }
}

/// Ethernet II frame for the segment.
pub fn eth_bytes(s: &Seg) -> Vec<u8> {
    let ip = ip_bytes(s);
    // MAC addresses vary per connection (symmetric in the direction): first bytes whose high nibble is 4 or 6,
    // or that equal the loopback signature, must not make an Ethernet frame look like raw IP / NULL framing
    const FIRST: [u8; 8] = [0x02, 0x48, 0x64, 0x00, 0x1e, 0x45, 0x60, 0xff];
    let k = (s.src.1 as usize + s.dst.1 as usize) % 8;
    let mut f = vec![FIRST[k], 0, 0, 0, 0, 2, FIRST[(k + 3) % 8], 0, 0, 0, 0, 1];
    if matches!(s.src.0, IpAddr::V4(_)) {
        f.extend_from_slice(&[0x08, 0x00]);
    } else {
        f.extend_from_slice(&[0x86, 0xDD]);
    }
    f.extend_from_slice(&ip);
    f
}

pub fn v4(a: u32) -> IpAddr {
    IpAddr::V4(Ipv4Addr::from(a))
}
pub fn v6(a: u128) -> IpAddr {
    IpAddr::V6(Ipv6Addr::from(a))
}
pub fn addr_nat(a: &IpAddr) -> u128 {
    match a {
        IpAddr::V4(x) => u32::from(*x) as u128,
        IpAddr::V6(x) => u128::from(*x) | (1u128 << 127) | 1, // keep v6 values apart from v4 ones
    }
}

/// A syntactically valid TLS ClientHello record (tls-parser accepts it) with randomised content.
pub fn client_hello(r: &mut Rng) -> Vec<u8> {
    const GREASE: [u16; 4] = [0x0a0a, 0x1a1a, 0x2a2a, 0xfafa];
    let mut body = vec![0x03, 0x03];
    body.extend(r.bytes(32));
    let sid = r.below(2) * 32;
    body.push(sid as u8);
    body.extend(r.bytes(sid as usize));
    let nc = r.range(1, 20) as usize;
    let mut ciphers: Vec<u16> = vec![];
    if r.chance(1, 2) {
        ciphers.push(*r.pick(&GREASE));
    }
    for _ in 0..nc {
        ciphers.push(*r.pick(&[0x1301u16, 0x1302, 0x1303, 0xc02b, 0xc02f, 0xc02c, 0xc030, 0xcca9, 0xcca8, 0xc013, 0xc014, 0x009c, 0x009d, 0x002f, 0x0035]));
    }
    body.extend_from_slice(&((ciphers.len() * 2) as u16).to_be_bytes());
    for c in &ciphers {
        body.extend_from_slice(&c.to_be_bytes());
    }
    body.extend_from_slice(&[1, 0]); // compression: null
    let mut exts: Vec<u8> = vec![];
    let ext = |ty: u16, data: &[u8], exts: &mut Vec<u8>| {
        exts.extend_from_slice(&ty.to_be_bytes());
        exts.extend_from_slice(&(data.len() as u16).to_be_bytes());
        exts.extend_from_slice(data);
    };
    if r.chance(1, 2) {
        ext(*r.pick(&GREASE), &[], &mut exts);
    }
    if r.chance(3, 4) {
        let name = format!("host{}.example.com", r.below(1000));
        let mut d = vec![];
        d.extend_from_slice(&((name.len() + 3) as u16).to_be_bytes());
        d.push(0);
        d.extend_from_slice(&(name.len() as u16).to_be_bytes());
        d.extend_from_slice(name.as_bytes());
        ext(0, &d, &mut exts);
    }
    ext(0x000a, &[0, 4, 0, 0x1d, 0, 0x17], &mut exts); // supported_groups
    ext(0x000b, &[1, 0], &mut exts); // ec_point_formats
    if r.chance(3, 4) {
        ext(0x000d, &[0, 6, 4, 3, 8, 4, 4, 1], &mut exts); // signature_algorithms
    }
    if r.chance(3, 4) {
        let protos: &[&str] = if r.chance(1, 2) { &["h2", "http/1.1"] } else { &["http/1.1"] };
        let mut l = vec![];
        for p in protos {
            l.push(p.len() as u8);
            l.extend_from_slice(p.as_bytes());
        }
        let mut d = (l.len() as u16).to_be_bytes().to_vec();
        d.extend(l);
        ext(0x0010, &d, &mut exts);
    }
    if r.chance(2, 3) {
        ext(0x002b, &[4, 3, 4, 3, 3], &mut exts); // supported_versions 1.3, 1.2
    }
    let pad = r.below(4) as usize * 50;
    if pad > 0 {
        ext(0x0015, &vec![0u8; pad], &mut exts); // padding
    }
    for _ in 0..r.below(3) {
        let ty = *r.pick(&[0x0017u16, 0xff01, 0x0023, 0x0033, 0x002d, 0x4469]);
        let d: Vec<u8> = match ty {
            0x0017 | 0x0023 => vec![],
            0xff01 => vec![0],
            0x002d => vec![1, 1],
            0x0033 => {
                let mut k = vec![0, 36, 0, 0x1d, 0, 32];
                k.extend(r.bytes(32));
                k
            }
            _ => r.bytes(3),
        };
        ext(ty, &d, &mut exts);
    }
    body.extend_from_slice(&(exts.len() as u16).to_be_bytes());
    body.extend(exts);
    let mut hs = vec![1, (body.len() >> 16) as u8, (body.len() >> 8) as u8, body.len() as u8];
    hs.extend(body);
    let mut rec = vec![0x16, 0x03, 0x01, (hs.len() >> 8) as u8, hs.len() as u8];
    rec.extend(hs);
    rec
}

/// Split `data` into `k` non-empty chunks at random cut points (k ≥ 1; fewer if data is short).
pub fn split_random(r: &mut Rng, data: &[u8], k: usize) -> Vec<Vec<u8>> {
    if data.len() <= 1 || k <= 1 {
        return vec![data.to_vec()];
    }
    let mut cuts: Vec<usize> = (0..k - 1).map(|_| r.range(1, data.len() as u64 - 1) as usize).collect();
    cuts.sort();
    cuts.dedup();
    let mut out = vec![];
    let mut prev = 0;
    for c in cuts {
        out.push(data[prev..c].to_vec());
        prev = c;
    }
    out.push(data[prev..].to_vec());
    out
}

pub fn http1_request(r: &mut Rng) -> Vec<u8> {
    let methods = ["GET", "POST", "HEAD", "PUT"];
    let uas = ["Mozilla/5.0 (X11; Linux x86_64) Firefox/115.0", "curl/8.1.2", "Wget/1.21", "Mozilla/5.0 Chrome/120.0"];
    let mut s = format!("{} /p{}?q={} HTTP/1.1\r\nHost: h{}.example\r\n", r.pick(&methods), r.below(100), r.below(1000), r.below(50));
    if r.chance(3, 4) {
        s += &format!("User-Agent: {}\r\n", r.pick(&uas));
    }
    if r.chance(1, 2) {
        s += "Accept: */*\r\n";
    }
    if r.chance(1, 2) {
        s += &format!("Accept-Language: {}\r\n", r.pick(&["en-US,en;q=0.5", "de", "fr;q=0.8, es;q=0.9"]));
    }
    if r.chance(1, 3) {
        s += &format!("Cookie: sid={}; t={}\r\n", r.below(100000), r.below(10));
    }
    if r.chance(1, 3) {
        s += &format!("X-Token: {}\r\n", r.next());
    }
    s += "Connection: keep-alive\r\n\r\n";
    let mut b = s.into_bytes();
    if r.chance(1, 3) {
        b.extend(r.bytes_in(0, 39));
    }
    b
}

pub fn http1_response(r: &mut Rng) -> Vec<u8> {
    let mut s = format!("HTTP/1.1 {} OK\r\nServer: {}\r\n", r.pick(&[200, 204, 301, 404, 500]), r.pick(&["nginx/1.18.0", "Apache/2.4.41 (Ubuntu)", "gws"]));
    if r.chance(1, 2) {
        s += "Content-Type: text/html\r\n";
    }
    if r.chance(1, 2) {
        s += &format!("Content-Length: {}\r\n", r.below(1000));
    }
    if r.chance(1, 3) {
        s += &format!("Set-Cookie: k={}\r\n", r.next());
    }
    s += "\r\n";
    let mut b = s.into_bytes();
    if r.chance(1, 2) {
        b.extend(r.bytes_in(0, 59));
    }
    b
}

// ---------------------------------------------------------------- HTTP/2 (hand-rolled encoder)

pub const H2_PREFACE: &[u8] = b"PRI * HTTP/2.0\r\n\r\nSM\r\n\r\n";

pub fn h2_frame(ty: u8, flags: u8, stream: u32, payload: &[u8]) -> Vec<u8> {
    let mut f = vec![(payload.len() >> 16) as u8, (payload.len() >> 8) as u8, payload.len() as u8, ty, flags];
    f.extend_from_slice(&stream.to_be_bytes());
    f.extend_from_slice(payload);
    f
}

fn hpack_int(prefix_bits: u8, first: u8, mut v: usize, out: &mut Vec<u8>) {
    let max = (1usize << prefix_bits) - 1;
    if v < max {
        out.push(first | v as u8);
    } else {
        out.push(first | max as u8);
        v -= max;
        while v >= 128 {
            out.push((v % 128) as u8 | 0x80);
            v /= 128;
        }
        out.push(v as u8);
    }
}
fn hpack_str(s: &[u8], out: &mut Vec<u8>) {
    hpack_int(7, 0, s.len(), out);
    out.extend_from_slice(s);
}

#[derive(Clone, Debug)]
pub enum HpackOp {
    Indexed(usize),                       // 1xxxxxxx
    LitIncNew(Vec<u8>, Vec<u8>),          // 01000000 name value  (adds to the dynamic table)
    LitIncIdx(usize, Vec<u8>),            // 01xxxxxx value
    LitNoIdxNew(Vec<u8>, Vec<u8>),        // 00000000
    LitNoIdxIdx(usize, Vec<u8>),          // 0000xxxx
    SizeUpdate(usize),                    // 001xxxxx
}

pub fn hpack_block(ops: &[HpackOp]) -> Vec<u8> {
    let mut out = vec![];
    for op in ops {
        match op {
            HpackOp::Indexed(i) => hpack_int(7, 0x80, *i, &mut out),
            HpackOp::LitIncNew(n, v) => {
                out.push(0x40);
                hpack_str(n, &mut out);
                hpack_str(v, &mut out);
            }
            HpackOp::LitIncIdx(i, v) => {
                hpack_int(6, 0x40, *i, &mut out);
                hpack_str(v, &mut out);
            }
            HpackOp::LitNoIdxNew(n, v) => {
                out.push(0x00);
                hpack_str(n, &mut out);
                hpack_str(v, &mut out);
            }
            HpackOp::LitNoIdxIdx(i, v) => {
                hpack_int(4, 0x00, *i, &mut out);
                hpack_str(v, &mut out);
            }
            HpackOp::SizeUpdate(n) => hpack_int(5, 0x20, *n, &mut out),
        }
    }
    out
}

/// Client connection start: preface, SETTINGS, optional WINDOW_UPDATE, one HEADERS (END_HEADERS|END_STREAM).
/// `adversarial`: the header block manipulates / relies on the dynamic table.
pub fn h2_request(r: &mut Rng, adversarial: bool) -> Vec<u8> {
    let mut b = H2_PREFACE.to_vec();
    let mut settings = vec![];
    for (id, v) in [(1u16, 65536u32), (3, 1000), (4, 6291456)] {
        if r.chance(3, 4) {
            settings.extend_from_slice(&id.to_be_bytes());
            settings.extend_from_slice(&v.to_be_bytes());
        }
    }
    if adversarial && r.chance(1, 2) {
        // settings a parser might (wrongly) remember beyond this connection: extreme per-connection limits
        extreme_settings(r, &mut settings);
    }
    b.extend(h2_frame(4, 0, 0, &settings));
    if r.chance(1, 2) {
        b.extend(h2_frame(8, 0, 0, &15663105u32.to_be_bytes()));
    }
    let mut ops = vec![];
    if adversarial && r.chance(1, 2) {
        ops.push(HpackOp::SizeUpdate(*r.pick(&[0usize, 64, 4096])));
    }
    ops.push(HpackOp::Indexed(2)); // :method GET
    ops.push(HpackOp::Indexed(*r.pick(&[6usize, 7]))); // :scheme
    ops.push(HpackOp::Indexed(4)); // :path /
    ops.push(HpackOp::LitIncIdx(1, format!("h{}.example", r.below(50)).into_bytes())); // :authority
    if adversarial {
        match r.below(3) {
            0 => {
                // insert a secret, then reference it by dynamic index within the same block
                ops.push(HpackOp::LitIncNew(b"x-secret".to_vec(), format!("tok{}", r.below(1000)).into_bytes()));
                ops.push(HpackOp::Indexed(62));
            }
            1 => {
                // reference dynamic entries that only exist if an earlier connection filled the table
                ops.push(HpackOp::Indexed(63));
            }
            _ => {
                ops.push(HpackOp::LitIncNew(b"x-a".to_vec(), b"1".to_vec()));
                ops.push(HpackOp::LitIncNew(b"x-b".to_vec(), b"2".to_vec()));
                ops.push(HpackOp::Indexed(64));
            }
        }
    }
    ops.push(HpackOp::LitNoIdxIdx(58, format!("agent/{}", r.below(10)).into_bytes())); // user-agent
    if r.chance(1, 2) {
        ops.push(HpackOp::LitNoIdxNew(b"x-req".to_vec(), format!("{}", r.next()).into_bytes()));
    }
    b.extend(h2_frame(1, 0x05, 1, &hpack_block(&ops)));
    b
}

/// HEADER_TABLE_SIZE, ENABLE_PUSH, MAX_FRAME_SIZE, MAX_HEADER_LIST_SIZE at their extremes
fn extreme_settings(r: &mut Rng, settings: &mut Vec<u8>) {
    for (id, vals) in [(1u16, [0u32, 1, 4096]), (2, [0, 1, 1]), (5, [0, 1, 16384]), (6, [0, 1, 10])] {
        if r.chance(1, 2) {
            settings.extend_from_slice(&id.to_be_bytes());
            settings.extend_from_slice(&r.pick(&vals).to_be_bytes());
        }
    }
}

pub fn h2_response(r: &mut Rng, adversarial: bool) -> Vec<u8> {
    let mut ss = vec![];
    if adversarial && r.chance(1, 2) {
        extreme_settings(r, &mut ss);
    }
    let mut b = h2_frame(4, 0, 0, &ss);
    let mut ops = vec![HpackOp::Indexed(*r.pick(&[8usize, 13]))]; // :status 200 / 404
    ops.push(HpackOp::LitIncIdx(54, b"srv/1".to_vec())); // server
    if adversarial {
        ops.push(HpackOp::Indexed(62));
        if r.chance(1, 2) {
            ops.push(HpackOp::Indexed(63));
        }
    }
    ops.push(HpackOp::LitNoIdxIdx(31, b"text/html".to_vec()));
    b.extend(h2_frame(1, 0x04, 1, &hpack_block(&ops)));
    b
}
