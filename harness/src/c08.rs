//! C08 — TLS ClientHello reassembly: `TlsClientHelloReader::add_bytes` per segment and
//! `huginn_net_tls::process_ipv4_packet` / `process_ipv6_packet` per packet on a `TtlCache`.
//!
//! `C08.rd <n> seg… => <single>;<out>/<buffer_len> …`
//! `C08.pk <cap> <n> (<flow> <payload>)… => <single_0>,…;<out> …`
//! out = `-` | `sig:<JA4>` | `err:too-large` | `err:parse` | `err:insert`
#[path = "tlsgen.rs"]
mod tlsgen;

use crate::rng::Rng;
use crate::wr::{guarded, Line};
use crate::Ctx;
use huginn_net_tls::tls_client_hello_reader::TlsClientHelloReader;
use huginn_net_tls::{FlowKey, HuginnNetTlsError};
use pnet::packet::ipv4::Ipv4Packet;
use pnet::packet::ipv6::Ipv6Packet;
use tlsgen::*;
use ttl_cache::TtlCache;

fn show(r: Result<Option<huginn_net_tls::tls::Signature>, HuginnNetTlsError>) -> String {
    match r {
        Ok(None) => "-".into(),
        Ok(Some(s)) => format!("sig:{}", esc8(s.generate_ja4().full.value())),
        Err(HuginnNetTlsError::Parse(m)) if m == "TLS record too large" => "err:too-large".into(),
        Err(HuginnNetTlsError::Parse(_)) => "err:parse".into(),
        Err(_) => "err:other".into(),
    }
}

/// Only letters, digits and `_` go through unescaped: a JA4 string carries the first and last character of the
/// first ALPN value verbatim, and `;`, `,`, `/` and the space are separators of this line protocol.
fn esc8(s: &str) -> String {
    let mut o = String::with_capacity(s.len());
    for c in s.chars() {
        if c.is_ascii_alphanumeric() || c == '_' {
            o.push(c);
        } else {
            o.push_str(&format!("\\u{{{:x}}}", c as u32));
        }
    }
    o
}

fn single_of(whole: &[u8]) -> String {
    let mut rd = TlsClientHelloReader::new();
    show(rd.add_bytes(whole))
}

fn emit_reader(ctx: &mut Ctx, segs: &[Vec<u8>]) {
    let mut l = Line::op("C08.rd");
    l.list(segs, |l, s| {
        l.bytes(s);
    });
    let segs2 = segs.to_vec();
    let out = guarded(move || {
        let whole: Vec<u8> = segs2.concat();
        let mut s = single_of(&whole);
        s.push(';');
        let mut rd = TlsClientHelloReader::new();
        let mut first = true;
        for seg in &segs2 {
            if !first {
                s.push(' ');
            }
            first = false;
            let o = show(rd.add_bytes(seg));
            s.push_str(&format!("{}/{}", o, rd.buffer_len()));
        }
        s
    });
    ctx.emit(l.finish(&out));
}

fn cut(bytes: &[u8], cuts: &[usize]) -> Vec<Vec<u8>> {
    let mut v = Vec::new();
    let mut prev = 0;
    for &c in cuts {
        v.push(bytes[prev..c].to_vec());
        prev = c;
    }
    v.push(bytes[prev..].to_vec());
    v
}

// ------------------------------------------------------------------------------------------ frames

fn tcp_segment(sport: u16, dport: u16, seq: u32, payload: &[u8]) -> Vec<u8> {
    let mut t = Vec::with_capacity(20 + payload.len());
    t.extend_from_slice(&sport.to_be_bytes());
    t.extend_from_slice(&dport.to_be_bytes());
    t.extend_from_slice(&seq.to_be_bytes());
    t.extend_from_slice(&0u32.to_be_bytes());
    t.push(5 << 4);
    t.push(0x18); // PSH|ACK
    t.extend_from_slice(&0xffffu16.to_be_bytes());
    t.extend_from_slice(&[0, 0, 0, 0]);
    t.extend_from_slice(payload);
    t
}

fn ipv4_frame(src: [u8; 4], dst: [u8; 4], tcp: &[u8]) -> Vec<u8> {
    let total = 20 + tcp.len();
    assert!(total <= 65535);
    let mut p = vec![0x45, 0, (total >> 8) as u8, total as u8, 0, 1, 0x40, 0, 64, 6, 0, 0];
    p.extend_from_slice(&src);
    p.extend_from_slice(&dst);
    p.extend_from_slice(tcp);
    p
}

fn ipv6_frame(src: [u8; 16], dst: [u8; 16], tcp: &[u8]) -> Vec<u8> {
    assert!(tcp.len() <= 65535);
    let mut p = vec![0x60, 0, 0, 0, (tcp.len() >> 8) as u8, tcp.len() as u8, 6, 64];
    p.extend_from_slice(&src);
    p.extend_from_slice(&dst);
    p.extend_from_slice(tcp);
    p
}

fn show_pk(r: Result<Option<huginn_net_tls::TlsClientOutput>, HuginnNetTlsError>, want: (u16, u16)) -> String {
    match r {
        Ok(None) => "-".into(),
        Ok(Some(o)) => {
            if (o.source.port, o.destination.port) != want {
                return format!("sig-wrong-endpoints:{}:{}", o.source.port, o.destination.port);
            }
            // the output carries the fingerprint computed by the processor
            format!("sig:{}", esc8(o.sig.ja4.full.value()))
        }
        Err(HuginnNetTlsError::Parse(m)) if m.starts_with("Failed to retrieve flow") => "err:insert".into(),
        Err(HuginnNetTlsError::Parse(_)) => "err:parse".into(),
        Err(_) => "err:other".into(),
    }
}

/// `pks`: (flow id, payload). Flow `f` is 10.0.0.(f+1):(40000+f) -> 192.0.2.1:443; odd flows use IPv6 when `v6`.
fn emit_packets(ctx: &mut Ctx, cap: usize, pks: &[(usize, Vec<u8>)], v6: bool) {
    let mut l = Line::op("C08.pk");
    l.usize(cap);
    l.list(pks, |l, (f, p)| {
        l.usize(*f);
        l.bytes(p);
    });
    let pks2 = pks.to_vec();
    let out = guarded(move || {
        let nflows = pks2.iter().map(|p| p.0 + 1).max().unwrap_or(0);
        let mut s = String::new();
        for f in 0..nflows {
            if f > 0 {
                s.push(',');
            }
            let whole: Vec<u8> = pks2.iter().filter(|p| p.0 == f).flat_map(|p| p.1.clone()).collect();
            s.push_str(&single_of(&whole));
        }
        s.push(';');
        let mut cache: TtlCache<FlowKey, TlsClientHelloReader> = TtlCache::new(cap);
        let mut seqs = vec![1000u32; nflows];
        for (i, (f, payload)) in pks2.iter().enumerate() {
            if i > 0 {
                s.push(' ');
            }
            let sport = 40000 + *f as u16;
            let tcp = tcp_segment(sport, 443, seqs[*f], payload);
            seqs[*f] = seqs[*f].wrapping_add(payload.len() as u32);
            let o = if v6 && f % 2 == 1 {
                let mut a = [0u8; 16];
                a[0] = 0x20;
                a[1] = 0x01;
                a[15] = *f as u8 + 1;
                let mut b = [0u8; 16];
                b[0] = 0x20;
                b[1] = 0x01;
                b[15] = 0xfe;
                let fr = ipv6_frame(a, b, &tcp);
                let ip = Ipv6Packet::new(&fr).unwrap();
                show_pk(huginn_net_tls::process_ipv6_packet(&ip, &mut cache), (sport, 443))
            } else {
                let fr = ipv4_frame([10, 0, 0, *f as u8 + 1], [192, 0, 2, 1], &tcp);
                let ip = Ipv4Packet::new(&fr).unwrap();
                show_pk(huginn_net_tls::process_ipv4_packet(&ip, &mut cache), (sport, 443))
            };
            s.push_str(&o);
        }
        s
    });
    ctx.emit(l.finish(&out));
}

// ------------------------------------------------------------------------------------------ streams

fn raw_record(ty: u8, ver: u16, len: usize, fill: impl Fn(usize) -> u8) -> Vec<u8> {
    let mut v = vec![ty, (ver >> 8) as u8, ver as u8, (len >> 8) as u8, len as u8];
    v.extend((0..len).map(fill));
    v
}

fn handshake_record(msgs: &[(u8, Vec<u8>)]) -> Vec<u8> {
    let mut b = Vec::new();
    for (t, m) in msgs {
        b.push(*t);
        b.extend_from_slice(&[(m.len() >> 16) as u8, (m.len() >> 8) as u8, m.len() as u8]);
        b.extend_from_slice(m);
    }
    let mut v = vec![22, 3, 3, (b.len() >> 8) as u8, b.len() as u8];
    v.extend_from_slice(&b);
    v
}

/// records that are not a ClientHello (or not even well-formed)
fn non_hello(r: &mut Rng) -> Vec<u8> {
    match r.below(16) {
        0 => handshake_record(&[(0, vec![])]),                                  // HelloRequest
        1 => {
            // ServerHello TLS1.2
            let mut m = vec![3, 3];
            m.extend(r.bytes(32));
            m.push(0);
            m.extend_from_slice(&[0x13, 0x01, 0]);
            handshake_record(&[(2, m)])
        }
        2 => handshake_record(&[(14, vec![])]),                                 // ServerHelloDone
        3 => handshake_record(&[(20, r.bytes(12))]),                            // Finished
        4 => handshake_record(&[(11, vec![0, 0, 0])]),                          // Certificate (empty chain)
        5 => handshake_record(&[(r.next() as u8, rbytes(r, 0, 39))]), // any type, random body
        6 => handshake_record(&[(16, r.bytes(33)), (20, r.bytes(12))]),         // CKE + Finished
        7 => raw_record(0x17, 0x0303, r.below(60) as usize, |i| i as u8),       // application data
        8 => raw_record(0x15, 0x0303, 2, |i| i as u8 + 1),                      // alert
        9 => raw_record(0x14, 0x0303, 1, |_| 1),                                // change cipher spec
        10 => raw_record(0x16, 0x0303, r.below(50) as usize, |i| (i * 37) as u8), // handshake record with junk
        11 => {
            // hello with a session id length of 33 (parser error)
            let mut h = gen_small_hello(r, 300).encode();
            h[5 + 4 + 34] = 33;
            h
        }
        12 => handshake_record(&[(13, vec![1, 1, 0, 2, 4, 3, 0, 0])]),          // CertificateRequest
        13 => handshake_record(&[(24, vec![0])]),                               // KeyUpdate
        14 => handshake_record(&[(4, vec![0, 0, 1, 0, 9, 9])]),                 // NewSessionTicket
        _ => raw_record(r.next() as u8, 0x0303, r.below(30) as usize, |i| i as u8),
    }
}

fn random_cuts(r: &mut Rng, n: usize, k: usize) -> Vec<usize> {
    let mut c: Vec<usize> = (0..k).map(|_| r.below(n as u64 + 1) as usize).collect();
    c.sort_unstable();
    c
}

/// cut positions worth trying on any record: around the header, the handshake header, the end
fn boundary_cuts(n: usize) -> Vec<usize> {
    let mut v: Vec<usize> = (1..=12).filter(|&x| x < n).collect();
    for d in 1..=3 {
        if n > d + 12 {
            v.push(n - d);
        }
    }
    v
}

pub fn run(ctx: &mut Ctx) {
    let mut r = ctx.rng.fork();

    // ---- corpus: one fixed hello, the reader tests' style of split and a few degenerate ones
    let fixed = Hello {
        record_version: 0x0301,
        legacy_version: 0x0303,
        random: (0..32).collect(),
        session_id: vec![],
        ciphers: vec![0x1301, 0x1302, 0xc02b],
        compression: vec![0],
        extensions: Some(vec![
            Ext::ServerName(vec![(0, b"example.com".to_vec())]),
            Ext::Alpn(vec![b"h2".to_vec()]),
            Ext::SupportedVersions(vec![0x0304, 0x0303]),
            Ext::SigAlgs(vec![0x0403, 0x0804]),
        ]),
    }
    .encode();
    emit_reader(ctx, &[fixed.clone()]);
    emit_reader(ctx, &cut(&fixed, &[5]));
    emit_reader(ctx, &cut(&fixed, &[5, 9]));
    emit_reader(ctx, &cut(&fixed, &[fixed.len() - 1]));
    emit_reader(ctx, &cut(&fixed, &[3])); // first segment shorter than the header (unspecified, model-compared)
    emit_reader(ctx, &[fixed.clone(), vec![1, 2, 3]]); // bytes after the record
    emit_reader(ctx, &[fixed.clone(), fixed.clone()]); // a second record after the first
    emit_reader(ctx, &[[fixed.clone(), vec![0x17, 3, 3, 0, 1, 0]].concat()]);
    emit_reader(ctx, &[]);
    emit_reader(ctx, &[vec![]]);
    emit_reader(ctx, &[vec![], fixed.clone()]);
    emit_packets(ctx, 8, &[(0, fixed.clone())], false);
    emit_packets(ctx, 8, &[(0, fixed[..5].to_vec()), (0, fixed[5..].to_vec())], false);
    emit_packets(ctx, 8, &[(0, fixed[..4].to_vec()), (0, fixed[4..].to_vec())], false);
    emit_packets(ctx, 8, &[(0, fixed.clone()), (0, vec![1, 2, 3]), (0, fixed.clone())], false);
    emit_packets(ctx, 0, &[(0, fixed.clone())], false);
    emit_packets(ctx, 1, &[(0, fixed[..20].to_vec()), (1, fixed[..30].to_vec()), (0, fixed[20..].to_vec()), (1, fixed[30..].to_vec())], true);
    // HelloRequest first, then application data on the same flow (never reported)
    emit_packets(ctx, 8, &[(0, handshake_record(&[(0, vec![])])), (0, vec![0x17, 3, 3, 0, 2, 9, 9]), (0, vec![9; 40])], false);

    // a hello whose own bytes contain what looks like the start of a handshake record (random and
    // session id begin 16 03 0x ..): every single cut, reader API and packet level — a continuation
    // segment that happens to start with those bytes continues the record of an ACTIVE flow
    {
        let mut sid = vec![0x16, 0x03, 0x03, 0x00, 0x20];
        sid.extend((0..27).map(|i| 0xa0 + i as u8));
        let mut rnd = vec![0x16, 0x03, 0x01, 0x00, 0x10];
        rnd.extend((0..27).map(|i| 0x40 + i as u8));
        let tricky = Hello {
            record_version: 0x0301,
            legacy_version: 0x0303,
            random: rnd,
            session_id: sid,
            ciphers: vec![0x1301, 0x1603, 0x0300],
            compression: vec![0],
            extensions: Some(vec![
                Ext::ServerName(vec![(0, b"example.com".to_vec())]),
                Ext::SupportedVersions(vec![0x0304, 0x0303]),
            ]),
        }
        .encode();
        for i in 1..tricky.len() {
            emit_reader(ctx, &cut(&tricky, &[i]));
            emit_packets(ctx, 4, &[(0, tricky[..i].to_vec()), (0, tricky[i..].to_vec())], i % 2 == 0);
        }
    }

    // ---- size boundary of the reader: needed = 65536 is parsed, 65537..65540 is "too large"; > 16640 is
    //      rejected by tls-parser
    for len in [16384usize, 16640, 16641, 65530, 65531, 65532, 65535] {
        let rec = raw_record(0x16, 0x0303, len, |i| if i == 0 { 1 } else { 0 });
        emit_reader(ctx, &[rec.clone()]);
        let c = random_cuts(&mut r, rec.len(), 3);
        emit_reader(ctx, &cut(&rec, &c));
        emit_reader(ctx, &cut(&rec, &[5, rec.len() - 1]));
        if len == 16640 || len == 65531 || len == 65532 {
            let pk: Vec<(usize, Vec<u8>)> = rec.chunks(30000).map(|c| (0usize, c.to_vec())).collect();
            emit_packets(ctx, 2, &pk, false);
        }
    }
    for total in [16645usize, 16646, 20000, 65000] {
        let h = gen_padded_hello(&mut r, total).encode();
        emit_reader(ctx, &[h.clone()]);
        let c = random_cuts(&mut r, h.len(), 4);
        emit_reader(ctx, &cut(&h, &c));
        // packet level: TCP payload is limited by the IPv4 total length
        let mut pk: Vec<(usize, Vec<u8>)> = Vec::new();
        for ch in h.chunks(30000) {
            pk.push((0, ch.to_vec()));
        }
        emit_packets(ctx, 4, &pk, false);
    }

    // ---- exhaustive: every two-cut partition (i ≤ j, empty middle segment included) of small records
    let n_small = ctx.n(16, 32);
    let small_max = ctx.n(150, 200);
    for k in 0..n_small {
        let rec = if k % 4 == 3 { non_hello(&mut r) } else { gen_small_hello(&mut r, small_max).encode() };
        let n = rec.len();
        for i in 1..n {
            emit_reader(ctx, &cut(&rec, &[i]));
            for j in i..n {
                emit_reader(ctx, &cut(&rec, &[i, j]));
            }
        }
        // packet level: every single cut, and every two-cut with the first cut ≥ 5
        for i in 1..n {
            emit_packets(ctx, 4, &[(0, rec[..i].to_vec()), (0, rec[i..].to_vec())], false);
        }
        if k == 0 {
            for i in 5..n {
                for j in (i + 1)..n {
                    emit_packets(ctx, 4, &[(0, rec[..i].to_vec()), (0, rec[i..j].to_vec()), (0, rec[j..].to_vec())], false);
                }
            }
        }
    }
    // thorough: every two-cut partition of records up to 600 bytes
    if ctx.tier == crate::Tier::Thorough {
        for _ in 0..5 {
            let rec = gen_hello(&mut r, Profile::Clean).encode();
            let rec = if rec.len() > 600 { gen_padded_hello(&mut r, 600).encode() } else { rec };
            let n = rec.len();
            for i in 1..n {
                for j in i..n {
                    emit_reader(ctx, &cut(&rec, &[i, j]));
                }
            }
        }
    }

    // ---- records ≤ 600 bytes: every single cut, two-cuts on the boundary set × everything
    for _ in 0..ctx.n(6, 30) {
        let rec = {
            let h = gen_hello(&mut r, Profile::Wide).encode();
            if h.len() > 600 { let t = r.range(300, 600) as usize; gen_padded_hello(&mut r, t).encode() } else { h }
        };
        let n = rec.len();
        for i in 1..n {
            emit_reader(ctx, &cut(&rec, &[i]));
        }
        for &i in &boundary_cuts(n) {
            for j in (i..n).step_by(if ctx.tier == crate::Tier::Quick { 7 } else { 1 }) {
                emit_reader(ctx, &cut(&rec, &[i, j]));
            }
        }
        for &i in &boundary_cuts(n) {
            emit_packets(ctx, 4, &[(0, rec[..i].to_vec()), (0, rec[i..].to_vec())], false);
        }
    }

    // ---- generated: hellos / non-hellos / mutated hellos × random k-cut partitions, with and without tail
    for case in 0..ctx.n(3000, 80000) {
        let kind = r.below(10);
        let mut rec = match kind {
            0..=4 => gen_hello(&mut r, Profile::Wide).encode(),
            5 => { let t = r.range(600, 17000) as usize; gen_padded_hello(&mut r, t).encode() }
            6 | 7 => non_hello(&mut r),
            _ => {
                let mut h = gen_hello(&mut r, Profile::Wide).encode();
                let n = h.len();
                match r.below(4) {
                    0 => {
                        let i = r.below(n as u64) as usize;
                        h[i] ^= 1 << r.below(8);
                    }
                    1 => {
                        h.truncate(r.range(1, n as u64) as usize); // never completes
                    }
                    2 => {
                        // length field lies (record length)
                        let l = r.next() as u16;
                        h[3] = (l >> 8) as u8;
                        h[4] = l as u8;
                    }
                    _ => {
                        let i = r.range(5, 12.min(n as u64 - 1)) as usize;
                        h[i] = r.next() as u8;
                    }
                }
                h
            }
        };
        match r.below(6) {
            0 => rec.extend(rbytes(&mut r, 1, 40)),             // bytes after the record
            1 => rec.extend(gen_small_hello(&mut r, 300).encode()),          // another record after it
            2 => rec.extend_from_slice(&[0x14, 3, 3, 0, 1, 1]),
            _ => {}
        }
        let n = rec.len();
        let k = match r.below(6) { 0 => 0, 1 => 1, 2 => 2, _ => r.range(3, 9) as usize };
        let mut cuts = random_cuts(&mut r, n, k);
        if r.chance(3, 4) {
            // keep the header in the first segment most of the time (the stated domain)
            for c in cuts.iter_mut() {
                if *c < 5 {
                    *c = 5.min(n);
                }
            }
        }
        let segs = cut(&rec, &cuts);
        if case % 3 != 2 {
            emit_reader(ctx, &segs);
        } else if segs.iter().all(|s| s.len() <= 60000) {
            let pk: Vec<(usize, Vec<u8>)> = segs.iter().map(|s| (0usize, s.clone())).collect();
            let cap = r.range(1, 4) as usize;
            emit_packets(ctx, cap, &pk, false);
        }
    }

    // ---- several flows interleaved on one cache (capacity below / at / above the number of flows)
    for _ in 0..ctx.n(500, 15000) {
        let nflows = r.range(2, 4) as usize;
        let mut queues: Vec<Vec<Vec<u8>>> = Vec::new();
        for _ in 0..nflows {
            let rec = if r.chance(4, 5) { gen_hello(&mut r, Profile::Wide).encode() } else { non_hello(&mut r) };
            let k = r.range(0, 4) as usize;
            let mut cuts = random_cuts(&mut r, rec.len(), k);
            for c in cuts.iter_mut() {
                if *c < 5 {
                    *c = 5.min(rec.len());
                }
            }
            let mut segs = cut(&rec, &cuts);
            if r.chance(1, 5) {
                segs.insert(r.below(segs.len() as u64 + 1) as usize, vec![]); // a bare ACK
            }
            segs.reverse();
            queues.push(segs);
        }
        let mut pks = Vec::new();
        while queues.iter().any(|q| !q.is_empty()) {
            let f = r.below(nflows as u64) as usize;
            if let Some(s) = queues[f].pop() {
                pks.push((f, s));
            }
        }
        let cap = match r.below(4) { 0 => nflows - 1, 1 => 1, _ => nflows + r.below(3) as usize };
        emit_packets(ctx, cap, &pks, r.chance(1, 2));
    }
    run_worker_path(ctx);
}

/// Per-worker path (C08 "sequential and per-worker"): the segments of a ClientHello are dispatched to a real
/// TLS WorkerPool with idle gaps LONGER than the workers' receive timeout between them; exactly one result,
/// equal to the single-segment result, must still come out. The driver compares with the sequential analyzer's
/// result for the same segments (model = spec = sequential).
fn run_worker_path(ctx: &mut Ctx) {
    use std::sync::mpsc;
    use std::time::{Duration, Instant};
    let mut r = ctx.rng.fork();
    let rounds = ctx.n(4, 40);
    for k in 0..rounds {
        let hello = crate::net::client_hello(&mut r);
        let ncut = r.range(1, 3) as usize;
        let parts = crate::net::split_random(&mut r, &hello, ncut + 1);
        let n = *r.pick(&[1usize, 2, 4]);
        let timeout_ms = 3u64;
        let c = (crate::net::v4(0x0a50_0000 + k as u32), 41000);
        let sv = (crate::net::v4(0x0a51_0001), 443);
        let mut seq = 1u32;
        let frames: Vec<Vec<u8>> = parts
            .iter()
            .map(|p| {
                let mut g = crate::net::Seg::new(c, sv, crate::net::ACK | crate::net::PSH);
                g.seq = seq;
                seq = seq.wrapping_add(p.len() as u32);
                g.payload = p.clone();
                crate::net::eth_bytes(&g)
            })
            .collect();
        // sequential reference
        let mut cache: ttl_cache::TtlCache<huginn_net_tls::FlowKey, huginn_net_tls::TlsClientHelloReader> = ttl_cache::TtlCache::new(100);
        let mut seq_out: Vec<String> = vec![];
        for f in &frames {
            if let huginn_net_tls::packet_parser::IpPacket::Ipv4(ip) = huginn_net_tls::packet_parser::parse_packet(f) {
                if let Ok(Some(o)) = huginn_net_tls::process_ipv4_packet(&ip, &mut cache) {
                    seq_out.push(crate::canon::tls_sig(&o.sig));
                }
            }
        }
        // worker pool with idle gaps
        let (tx, rx) = mpsc::channel();
        let pool = huginn_net_tls::WorkerPool::new(n, 64, 8, timeout_ms, tx, 100, None).unwrap();
        let mut queued = true;
        for (i, f) in frames.iter().enumerate() {
            if i > 0 {
                std::thread::sleep(Duration::from_millis(timeout_ms * 8));
            }
            queued &= pool.dispatch(f.clone()) == huginn_net_tls::DispatchResult::Queued;
        }
        // wait (up to 10 s, a loaded machine may be slow) for as many results as the sequential analyzer
        // reported, then a little longer for any surplus
        let mut got: Vec<String> = vec![];
        let deadline = Instant::now() + Duration::from_secs(10);
        while got.len() < seq_out.len() && Instant::now() < deadline {
            match rx.recv_timeout(Duration::from_millis(50)) {
                Ok(o) => got.push(crate::canon::tls_sig(&o.sig)),
                Err(mpsc::RecvTimeoutError::Timeout) => {}
                Err(_) => break,
            }
        }
        let settle = Instant::now() + Duration::from_millis(if seq_out.is_empty() { 250 } else { 120 });
        while Instant::now() < settle {
            match rx.recv_timeout(Duration::from_millis(40)) {
                Ok(o) => got.push(crate::canon::tls_sig(&o.sig)),
                Err(mpsc::RecvTimeoutError::Timeout) => {}
                Err(_) => break,
            }
        }
        pool.shutdown();
        let mut l = Line::op("C08.pool");
        l.usize(n).usize(frames.len()).text(&seq_out.join(";"));
        let out = if !queued { "OVERFLOW".to_string() } else { got.join(";") };
        ctx.emit(l.finish(&out));
    }
}
