//! C09 — HTTP stream reassembly: `huginn_net_http::process_ipv4_packet` on hand-built IPv4/TCP
//! frames. One case = one packet sequence on a fresh flow table. Output format: see
//! lean/Huginn/Drv/C09.lean.
use crate::registry::c05;
use crate::rng::Rng;
use crate::wr::{guarded, hex, Line};
use crate::Ctx;
use huginn_net_http::http_process::{FlowKey, HttpProcessors, TcpFlow};
use pnet::packet::ipv4::Ipv4Packet;
use std::panic::AssertUnwindSafe;
use ttl_cache::TtlCache;

#[derive(Clone)]
struct Pkt {
    src: u32,
    dst: u32,
    sport: u16,
    dport: u16,
    seq: u32,
    flags: u8,
    payload: Vec<u8>,
}

fn frame(p: &Pkt) -> Vec<u8> {
    let total = 40 + p.payload.len();
    let mut b = Vec::with_capacity(total);
    b.extend_from_slice(&[0x45, 0]);
    b.extend_from_slice(&(total as u16).to_be_bytes());
    b.extend_from_slice(&[0x12, 0x34, 0x40, 0x00, 64, 6, 0, 0]);
    b.extend_from_slice(&p.src.to_be_bytes());
    b.extend_from_slice(&p.dst.to_be_bytes());
    b.extend_from_slice(&p.sport.to_be_bytes());
    b.extend_from_slice(&p.dport.to_be_bytes());
    b.extend_from_slice(&p.seq.to_be_bytes());
    b.extend_from_slice(&0u32.to_be_bytes());
    b.extend_from_slice(&[0x50, p.flags, 0xff, 0xff, 0, 0, 0, 0]);
    b.extend_from_slice(&p.payload);
    b
}

fn run_pkts(procs: &HttpProcessors, pkts: &[Pkt]) -> String {
    guarded(AssertUnwindSafe(|| {
        let mut cache: TtlCache<FlowKey, TcpFlow> = TtlCache::new(64);
        let mut out: Vec<String> = Vec::with_capacity(pkts.len());
        for p in pkts {
            let buf = frame(p);
            let ip = match Ipv4Packet::new(&buf) {
                Some(ip) => ip,
                None => {
                    out.push("X".into());
                    continue;
                }
            };
            let ep = format!("{} {} {} {}", p.src, p.sport, p.dst, p.dport);
            match huginn_net_http::process_ipv4_packet(&ip, &mut cache, procs, None) {
                Err(_) => out.push("E".into()),
                Ok(r) => {
                    let mut parts = vec![];
                    if let Some(q) = &r.http_request {
                        let src = match q.source.ip {
                            std::net::IpAddr::V4(a) => u32::from(a),
                            _ => 0,
                        };
                        let dst = match q.destination.ip {
                            std::net::IpAddr::V4(a) => u32::from(a),
                            _ => 0,
                        };
                        let ep2 = format!("{} {} {} {}", src, q.source.port, dst, q.destination.port);
                        debug_assert_eq!(ep, ep2);
                        parts.push(format!(
                            "Q {} {} {} {}",
                            ep2,
                            hex(q.sig.to_string().as_bytes()),
                            hex(q.sig.method.clone().unwrap_or_default().as_bytes()),
                            hex(q.sig.uri.clone().unwrap_or_default().as_bytes())
                        ));
                    }
                    if let Some(s) = &r.http_response {
                        let src = match s.source.ip {
                            std::net::IpAddr::V4(a) => u32::from(a),
                            _ => 0,
                        };
                        let dst = match s.destination.ip {
                            std::net::IpAddr::V4(a) => u32::from(a),
                            _ => 0,
                        };
                        parts.push(format!(
                            "S {} {} {} {} {} {}",
                            src,
                            s.source.port,
                            dst,
                            s.destination.port,
                            hex(s.sig.to_string().as_bytes()),
                            s.sig.status_code.unwrap_or(0)
                        ));
                    }
                    out.push(if parts.is_empty() { "-".into() } else { parts.join("+") });
                }
            }
        }
        out.join(";")
    }))
}

fn emit_pkts(ctx: &mut Ctx, procs: &HttpProcessors, pkts: &[Pkt]) {
    let out = run_pkts(procs, pkts);
    let mut l = Line::op("C09.pkts");
    l.list(pkts, |l, p| {
        l.nat(p.src).nat(p.dst).nat(p.sport).nat(p.dport).nat(p.seq).nat(p.flags).bytes(&p.payload);
    });
    ctx.emit(l.finish(&out));
}

#[derive(Clone)]
struct Data {
    from_client: bool,
    seq: u32,
    flags: u8,
    payload: Vec<u8>,
}
#[derive(Clone, Copy)]
struct Conn {
    cip: u32,
    sip: u32,
    cport: u16,
    sport: u16,
    isn_c: u32,
    isn_s: u32,
}

fn conn_pkts(c: &Conn, ds: &[Data]) -> Vec<Pkt> {
    let mut v = vec![
        Pkt { src: c.cip, dst: c.sip, sport: c.cport, dport: c.sport, seq: c.isn_c, flags: 0x02, payload: vec![] },
        Pkt { src: c.sip, dst: c.cip, sport: c.sport, dport: c.cport, seq: c.isn_s, flags: 0x12, payload: vec![] },
    ];
    for d in ds {
        v.push(if d.from_client {
            Pkt { src: c.cip, dst: c.sip, sport: c.cport, dport: c.sport, seq: d.seq, flags: d.flags, payload: d.payload.clone() }
        } else {
            Pkt { src: c.sip, dst: c.cip, sport: c.sport, dport: c.cport, seq: d.seq, flags: d.flags, payload: d.payload.clone() }
        });
    }
    v
}

fn emit_conn(ctx: &mut Ctx, procs: &HttpProcessors, c: &Conn, ds: &[Data]) {
    let out = run_pkts(procs, &conn_pkts(c, ds));
    let mut l = Line::op("C09.conn");
    l.nat(c.cip).nat(c.sip).nat(c.cport).nat(c.sport).nat(c.isn_c).nat(c.isn_s);
    l.list(ds, |l, d| {
        l.nat(if d.from_client { 0u8 } else { 1u8 }).nat(d.seq).nat(d.flags).bytes(&d.payload);
    });
    ctx.emit(l.finish(&out));
}

/// split `bytes` at the (sorted, distinct, interior) cut positions; sequence numbers from isn+1 mod 2^32
fn segments(bytes: &[u8], cuts: &[usize], isn: u32, from_client: bool) -> Vec<Data> {
    let mut v = vec![];
    let mut start = 0usize;
    let mut all: Vec<usize> = cuts.iter().copied().filter(|c| *c > 0 && *c < bytes.len()).collect();
    all.sort_unstable();
    all.dedup();
    all.push(bytes.len());
    for end in all {
        if end > start {
            v.push(Data {
                from_client,
                seq: isn.wrapping_add(1).wrapping_add(start as u32),
                flags: 0x18,
                payload: bytes[start..end].to_vec(),
            });
        }
        start = end;
    }
    v
}

fn permutations(n: usize) -> Vec<Vec<usize>> {
    fn go(k: usize, cur: &mut Vec<usize>, used: &mut Vec<bool>, out: &mut Vec<Vec<usize>>) {
        if cur.len() == k {
            out.push(cur.clone());
            return;
        }
        for i in 0..k {
            if !used[i] {
                used[i] = true;
                cur.push(i);
                go(k, cur, used, out);
                cur.pop();
                used[i] = false;
            }
        }
    }
    let mut out = vec![];
    go(n, &mut vec![], &mut vec![false; n], &mut out);
    out
}

/// interleave client and server arrival lists: 0 = client first, 1 = server first, 2 = alternate, 3 = random merge
fn interleave(r: &mut Rng, mode: u64, c: Vec<Data>, s: Vec<Data>) -> Vec<Data> {
    match mode {
        0 => c.into_iter().chain(s).collect(),
        1 => s.into_iter().chain(c).collect(),
        _ => {
            let mut out = vec![];
            let (mut i, mut j) = (0, 0);
            let mut turn = true;
            while i < c.len() || j < s.len() {
                let take_c = if i >= c.len() {
                    false
                } else if j >= s.len() {
                    true
                } else if mode == 2 {
                    turn
                } else {
                    r.chance(1, 2)
                };
                if take_c {
                    out.push(c[i].clone());
                    i += 1;
                } else {
                    out.push(s[j].clone());
                    j += 1;
                }
                turn = !turn;
            }
            out
        }
    }
}

fn boundary_cuts(bytes: &[u8]) -> Vec<usize> {
    let mut v = vec![1, 3, 4, 5, 15, 16, 17];
    if let Some(p) = bytes.windows(2).position(|w| w == b"\r\n") {
        v.extend([p, p + 1, p + 2, p + 3]);
    }
    if let Some(p) = bytes.windows(4).position(|w| w == b"\r\n\r\n") {
        v.extend([p.saturating_sub(1), p, p + 1, p + 2, p + 3, p + 4, p + 5]);
    }
    v.push(bytes.len().saturating_sub(1));
    v.push(bytes.len() / 2);
    v.retain(|c| *c > 0 && *c < bytes.len());
    v.sort_unstable();
    v.dedup();
    v
}

fn isns(r: &mut Rng, len: usize) -> Vec<u32> {
    let l = len as u32;
    let k = 1 + r.below(l.max(2) as u64 - 1) as u32;
    vec![
        0,
        1,
        1000,
        0x7fff_ffff,
        0x8000_0000,
        0x7fff_ffffu32.wrapping_sub(k),
        u32::MAX,
        u32::MAX - 1,
        u32::MAX.wrapping_sub(l),
        u32::MAX.wrapping_sub(l).wrapping_add(1),
        u32::MAX.wrapping_sub(l / 2),
        u32::MAX.wrapping_sub(k),
        u32::MAX.wrapping_sub(l).wrapping_sub(1),
    ]
}

const C1: Conn = Conn { cip: 0x0a00_0001, sip: 0x0a00_0002, cport: 40000, sport: 80, isn_c: 1000, isn_s: 5000 };

pub fn run(ctx: &mut Ctx) {
    let mut r = ctx.rng.fork();
    let procs = HttpProcessors::new();
    let req0: &[u8] = b"GET /a HTTP/1.1\r\nHost: x\r\nUser-Agent: curl/8\r\n\r\n";
    let res0: &[u8] = b"HTTP/1.1 200 OK\r\nServer: nginx\r\nContent-Length: 5\r\n\r\nhello";

    // 1. corpus: witnesses of the known findings
    {
        // #14: request in 3 segments, ISN = 2^32 - 31
        let c = Conn { isn_c: u32::MAX - 30, ..C1 };
        let segs = segments(req0, &[16, 32], c.isn_c, true);
        emit_conn(ctx, &procs, &c, &segs);
        // same with ISN 1000 (must report)
        emit_conn(ctx, &procs, &C1, &segments(req0, &[16, 32], 1000, true));
        // #15: segments 1 and 3 of "GET … \r\nHost: x\r\nUser-Agent…" delivered, 2 missing, then 2
        let segs = segments(req0, &[17, 26], 1000, true);
        emit_conn(ctx, &procs, &C1, &[segs[0].clone(), segs[2].clone()]);
        emit_conn(ctx, &procs, &C1, &[segs[0].clone(), segs[2].clone(), segs[1].clone()]);
        // duplicate retransmission of the first segment before the head completes
        emit_conn(ctx, &procs, &C1, &[segs[0].clone(), segs[0].clone(), segs[1].clone(), segs[2].clone()]);
        // response direction
        let rs = segments(res0, &[17, 32], 5000, false);
        emit_conn(ctx, &procs, &C1, &[rs[1].clone(), rs[0].clone(), rs[2].clone()]);
    }

    // 1b. the sender's last segment carries FIN (as the last segment of a short request or response does);
    //     every arrival order of the three segments of each direction
    {
        let mut cs = segments(req0, &[16, 32], 1000, true);
        let mut rs = segments(res0, &[17, 32], 5000, false);
        if let Some(l) = cs.last_mut() {
            l.flags |= 0x01;
        }
        if let Some(l) = rs.last_mut() {
            l.flags |= 0x01;
        }
        let cs_plain = segments(req0, &[16, 32], 1000, true);
        for perm in permutations(rs.len()) {
            let mut ds = cs_plain.clone();
            ds.extend(perm.iter().map(|&i| rs[i].clone()));
            emit_conn(ctx, &procs, &C1, &ds);
        }
        for perm in permutations(cs.len()) {
            let ds: Vec<Data> = perm.iter().map(|&i| cs[i].clone()).collect();
            emit_conn(ctx, &procs, &C1, &ds);
        }
    }

    // 2. exhaustive: short exchange, every set of <= 2 cuts (quick) / <= 3 cuts (thorough) x every permutation,
    //    in the client direction with the server in order, and vice versa
    {
        let short_q: &[u8] = b"GET / HTTP/1.1\r\nHost: a\r\n\r\n";
        let short_s: &[u8] = b"HTTP/1.0 200 OK\r\nServer: s\r\n\r\nbody";
        let max_cuts = ctx.n(2, 3);
        for (client_dir, bytes) in [(true, short_q), (false, short_s)] {
            let n = bytes.len();
            let mut cutsets: Vec<Vec<usize>> = vec![vec![]];
            for a in 1..n {
                cutsets.push(vec![a]);
                for b in (a + 1)..n {
                    cutsets.push(vec![a, b]);
                    if max_cuts >= 3 {
                        for c in (b + 1)..n {
                            cutsets.push(vec![a, b, c]);
                        }
                    }
                }
            }
            for cs in &cutsets {
                let isn = if client_dir { C1.isn_c } else { C1.isn_s };
                let segs = segments(bytes, cs, isn, client_dir);
                for perm in permutations(segs.len()) {
                    let arr: Vec<Data> = perm.iter().map(|i| segs[*i].clone()).collect();
                    let other = if client_dir { segments(short_s, &[], C1.isn_s, false) } else { segments(short_q, &[], C1.isn_c, true) };
                    let ds = if client_dir { interleave(&mut r, 0, arr, other) } else { interleave(&mut r, 0, other, arr) };
                    emit_conn(ctx, &procs, &C1, &ds);
                }
            }
        }
    }

    // 3. ISN set x boundary partitions x permutations x interleavings on generated exchanges
    let n = ctx.n(160, 3000);
    for k in 0..n {
        let mut q = c05::render_req(&c05::gen_req(&mut r));
        let mut s = c05::render_res(&c05::gen_res(&mut r));
        if q.len() > 2000 || s.len() > 2000 || k % 5 == 0 {
            q = req0.to_vec();
            s = res0.to_vec();
        }
        q.extend_from_slice(&c05::body(&mut r));
        s.extend_from_slice(&c05::body(&mut r));
        let bq = boundary_cuts(&q);
        let bs = boundary_cuts(&s);
        let isn_list_c = isns(&mut r, q.len());
        let isn_list_s = isns(&mut r, s.len());
        let rounds = 6;
        for _ in 0..rounds {
            let ncq = r.below(4) as usize;
            let ncs = r.below(4) as usize;
            let cq: Vec<usize> = (0..ncq).map(|_| *r.pick(&bq)).collect();
            let cs: Vec<usize> = (0..ncs).map(|_| *r.pick(&bs)).collect();
            let c = Conn { isn_c: *r.pick(&isn_list_c), isn_s: *r.pick(&isn_list_s), ..C1 };
            let sq = segments(&q, &cq, c.isn_c, true);
            let ss = segments(&s, &cs, c.isn_s, false);
            let pq = permutations(sq.len());
            let ps = permutations(ss.len());
            // in order (always), plus a few permutations
            let mut choices: Vec<(Vec<usize>, Vec<usize>)> = vec![((0..sq.len()).collect(), (0..ss.len()).collect())];
            for _ in 0..3 {
                choices.push((r.pick(&pq).clone(), r.pick(&ps).clone()));
            }
            for (a, b) in choices {
                let mut ca: Vec<Data> = a.iter().map(|i| sq[*i].clone()).collect();
                let sa: Vec<Data> = b.iter().map(|i| ss[*i].clone()).collect();
                // occasionally retransmit a segment
                if !ca.is_empty() && r.chance(1, 12) {
                    let i = r.below(ca.len() as u64) as usize;
                    let j = r.below(ca.len() as u64 + 1) as usize;
                    let d = ca[i].clone();
                    ca.insert(j, d);
                }
                let mode = r.below(4);
                let ds = interleave(&mut r, mode, ca, sa);
                emit_conn(ctx, &procs, &c, &ds);
            }
        }
    }

    // 4. buffer cap: a direction that never contains a head exceeds 64 KiB and is abandoned
    {
        let chunk = vec![b'z'; 1400];
        let mut ds = vec![];
        let mut seq = C1.isn_c.wrapping_add(1);
        for _ in 0..48 {
            ds.push(Data { from_client: true, seq, flags: 0x18, payload: chunk.clone() });
            seq = seq.wrapping_add(1400);
        }
        // a complete request after the cap was hit: must not be reported by the code (abandoned)
        ds.push(Data { from_client: true, seq, flags: 0x18, payload: req0.to_vec() });
        ds.extend(segments(res0, &[], C1.isn_s, false));
        emit_conn(ctx, &procs, &C1, &ds);
        // head present in the first segment, long body afterwards: reported once, later data ignored
        let mut ds = segments(req0, &[], C1.isn_c, true);
        let mut seq = C1.isn_c.wrapping_add(1).wrapping_add(req0.len() as u32);
        for _ in 0..50 {
            ds.push(Data { from_client: true, seq, flags: 0x18, payload: chunk.clone() });
            seq = seq.wrapping_add(1400);
        }
        emit_conn(ctx, &procs, &C1, &ds);
    }

    // 4b. the cap bounds what is *stored*: segments beyond a gap that is never filled, and one segment
    //     retransmitted over and over, exhaust the 64 KiB and the direction is abandoned
    {
        let chunk = vec![b'y'; 1400];
        let mut ds = vec![];
        let mut seq = C1.isn_c.wrapping_add(1).wrapping_add(5000); // bytes 0..5000 never arrive
        for _ in 0..48 {
            ds.push(Data { from_client: true, seq, flags: 0x18, payload: chunk.clone() });
            seq = seq.wrapping_add(1400);
        }
        ds.extend(segments(req0, &[], C1.isn_c, true)); // the head arrives after the direction was given up
        ds.extend(segments(res0, &[], C1.isn_s, false));
        emit_conn(ctx, &procs, &C1, &ds);
        let first = segments(req0, &[10], C1.isn_c, true);
        let mut ds = vec![];
        for _ in 0..(65536 / 10 + 2) {
            ds.push(first[0].clone()); // the same 10 bytes again and again
        }
        ds.push(first[1].clone());
        emit_conn(ctx, &procs, &C1, &ds);
        // just below the bound: 40 KiB of retransmissions, then the rest of the head is still reported
        let mut ds = vec![];
        for _ in 0..4000 {
            ds.push(first[0].clone());
        }
        ds.push(first[1].clone());
        emit_conn(ctx, &procs, &C1, &ds);
    }

    // 5. arbitrary packet sequences: several flows, FIN/RST, missing or repeated SYN, SYN with payload,
    //    reverse-direction first, same-endpoint tuples
    // a whole exchange as a plain packet sequence: both reported, flow removed
    {
        let mut pkts = conn_pkts(&C1, &segments(req0, &[], C1.isn_c, true));
        pkts.extend(conn_pkts(&C1, &segments(res0, &[], C1.isn_s, false)).into_iter().skip(2));
        emit_pkts(ctx, &procs, &pkts);
    }
    let n = ctx.n(1200, 20000);
    for _ in 0..n {
        let mut pkts = vec![];
        let flows = [
            (0x0a00_0001u32, 0x0a00_0002u32, 40000u16, 80u16, 1000u32, 5000u32),
            (0x0a00_0003, 0x0a00_0002, 40001, 80, u32::MAX - 20, 7),
            (0x0a00_0002, 0x0a00_0001, 80, 40000, 9, 9),
            (0x0a00_0005, 0x0a00_0005, 5555, 5555, 100, 100),
        ];
        let len = r.range(1, 12);
        let mut sent = [0u32; 8];
        for _ in 0..len {
            let nf = if r.chance(1, 8) { 4 } else { 2 };
            let fi = r.below(nf) as usize;
            let f = flows[fi];
            let from_client = r.chance(3, 5);
            let (src, dst, sp, dp, isn, slot) = if from_client { (f.0, f.1, f.2, f.3, f.4, fi * 2) } else { (f.1, f.0, f.3, f.2, f.5, fi * 2 + 1) };
            let kind = r.below(12);
            let (flags, payload): (u8, Vec<u8>) = match kind {
                0 | 1 => (0x02, vec![]),
                2 => (0x12, vec![]),
                3 => (0x02, b"GET /tfo HTTP/1.1\r\nHost: t\r\n\r\n".to_vec()),
                4 => (0x11, vec![]),
                5 => (0x19, if from_client { req0[..20].to_vec() } else { res0[..20].to_vec() }),
                6 => (0x04, vec![]),
                7 => (0x14, b"x".to_vec()),
                _ => {
                    let src_bytes = if from_client { req0 } else { res0 };
                    let a = (sent[slot] as usize).min(src_bytes.len());
                    let b = (a + r.range(1, 40) as usize).min(src_bytes.len());
                    (0x18, if r.chance(1, 10) { src_bytes.to_vec() } else { src_bytes[a..b].to_vec() })
                }
            };
            // a SYN is a retransmission (same ISN) or opens a new connection on the 4-tuple (another ISN)
            let isn = if flags & 0x02 != 0 && r.chance(1, 3) { isn.wrapping_add(77_777) } else { isn };
            let seq = if flags & 0x02 != 0 { isn } else { isn.wrapping_add(1).wrapping_add(sent[slot]) };
            if kind >= 8 {
                sent[slot] = sent[slot].wrapping_add(payload.len() as u32);
            }
            pkts.push(Pkt { src, dst, sport: sp, dport: dp, seq, flags, payload });
        }
        emit_pkts(ctx, &procs, &pkts);
    }
}
