//! C11 — memory per connection and work per packet stay bounded.
//!
//! Long single connections (and a few concurrent ones) through the real packet processors with a
//! counting global allocator: after every packet the live bytes above the baseline (retained) and the
//! bytes allocated while processing it (work proxy) are recorded. The driver runs the flow-logic
//! model on the same segment sizes (parser outcomes supplied as oracle tables) and compares
//! measured against modelled retained bytes / work within stated slack, and both against the
//! specification's fixed per-connection and per-packet limits.
use crate::alloc::snapshot;
use crate::net::{self, Seg, ACK, PSH, SYN};
use crate::rng::Rng;
use crate::wr::Line;
use crate::Ctx;
use pnet::packet::ipv4::Ipv4Packet;
use ttl_cache::TtlCache;

#[derive(Clone, Copy, PartialEq, Eq)]
enum An {
    Http,
    Tls,
    Tcp,
}

struct Scenario {
    name: &'static str,
    an: An,
    segs: Vec<Seg>,
}

fn mk_stream(c: (std::net::IpAddr, u16), s: (std::net::IpAddr, u16), syn: bool, first_client: Vec<Vec<u8>>, server: Vec<Vec<u8>>) -> Vec<Seg> {
    let mut segs = vec![];
    if syn {
        let mut x = Seg::new(c, s, SYN);
        x.seq = 1000;
        segs.push(x);
    }
    let mut seq = 1001u32;
    for p in first_client {
        let mut g = Seg::new(c, s, ACK | PSH);
        g.seq = seq;
        seq = seq.wrapping_add(p.len() as u32);
        g.payload = p;
        segs.push(g);
    }
    let mut seq = 9001u32;
    for p in server {
        let mut g = Seg::new(s, c, ACK | PSH);
        g.seq = seq;
        seq = seq.wrapping_add(p.len() as u32);
        g.payload = p;
        segs.push(g);
    }
    segs
}

fn scenarios(r: &mut Rng, n: usize) -> Vec<Scenario> {
    let c = (net::v4(0x0a00_0001), 40000);
    let s = (net::v4(0x0a00_0002), 80);
    let st = (net::v4(0x0a00_0002), 443);
    let seglen = *r.pick(&[1usize, 100, 536, 1400, 1460]);
    let junk = |r: &mut Rng, n: usize, len: usize| -> Vec<Vec<u8>> { (0..n).map(|_| r.bytes(len)).collect() };
    let mut out = vec![];
    // HTTP: binary data after a SYN, never a head (client direction)
    out.push(Scenario { name: "http-binary-client", an: An::Http, segs: mk_stream(c, s, true, junk(r, n, seglen), vec![]) });
    // HTTP: the same from the server side
    out.push(Scenario { name: "http-binary-server", an: An::Http, segs: mk_stream(c, s, true, vec![], junk(r, n, seglen)) });
    // HTTP: a head that never completes
    let mut endless = vec![b"GET /x HTTP/1.1\r\nHost: a\r\nX-Pad: ".to_vec()];
    endless.extend((0..n).map(|_| vec![b'a'; seglen]));
    out.push(Scenario { name: "http-endless-head", an: An::Http, segs: mk_stream(c, s, true, endless, vec![]) });
    // HTTP: a head that never completes, every segment retransmitted with the SAME sequence number
    {
        let mut segs = mk_stream(c, s, true, vec![b"GET /x HTTP/1.1\r\nHost: a\r\nX-Pad: ".to_vec()], vec![]);
        for _ in 0..n {
            let mut g = Seg::new(c, s, ACK | PSH);
            g.seq = 5000;
            g.payload = vec![b'a'; 1400];
            segs.push(g);
        }
        out.push(Scenario { name: "http-same-seq-retransmit", an: An::Http, segs });
    }
    // HTTP: request, response head, then a huge body
    let mut body = vec![net::http1_response(r)];
    body.extend(junk(r, n, seglen));
    out.push(Scenario { name: "http-big-body", an: An::Http, segs: mk_stream(c, s, true, vec![net::http1_request(r)], body) });
    // HTTP/2 preface then endless frames that are not HEADERS
    let mut h2 = vec![net::H2_PREFACE.to_vec()];
    h2.extend((0..n).map(|_| net::h2_frame(0, 0, 1, &vec![0u8; seglen.min(1000)])));
    out.push(Scenario { name: "http2-endless-data", an: An::Http, segs: mk_stream(c, s, true, h2, vec![]) });
    // TLS: hello then application data
    let mut tls = vec![net::client_hello(r)];
    tls.extend((0..n).map(|_| {
        let mut rec = vec![0x17, 3, 3, (seglen >> 8) as u8, seglen as u8];
        rec.extend(vec![0u8; seglen]);
        rec
    }));
    out.push(Scenario { name: "tls-hello-then-appdata", an: An::Tls, segs: mk_stream(c, st, false, tls, vec![]) });
    // TLS: a handshake record that is not a ClientHello, then application data on the kept flow
    let mut t2 = vec![vec![0x16, 3, 3, 0, 4, 0, 0, 0, 0]];
    t2.extend(junk(r, n, seglen).into_iter().map(|mut v| {
        if !v.is_empty() {
            v[0] = 0x17;
        }
        v
    }));
    out.push(Scenario { name: "tls-nonhello-then-appdata", an: An::Tls, segs: mk_stream(c, st, false, t2, vec![]) });
    // TLS: huge declared length, then data that keeps the first byte 0x16
    let mut t3 = vec![vec![0x16, 3, 1, 0xff, 0xfb, 1, 0, 0xff, 0xf7]];
    t3.extend(junk(r, n, seglen));
    out.push(Scenario { name: "tls-huge-declared", an: An::Tls, segs: mk_stream(c, st, false, t3, vec![]) });
    // TLS: a complete handshake record whose ClientHello body does not parse (the reader returns an error and keeps
    // its buffer; the flow must be dropped), then endless data on the same 4-tuple (seeded change C11e-2)
    {
        let mut rec = vec![0x16, 3, 1, 0, 14, 1, 0, 0, 10, 3, 3, 0, 0, 0, 0, 0, 0, 0, 0];
        rec.extend(r.bytes(0));
        let mut t5 = vec![rec];
        t5.extend(junk(r, n, seglen));
        out.push(Scenario { name: "tls-malformed-hello-then-data", an: An::Tls, segs: mk_stream(c, st, false, t5, vec![]) });
    }
    // TLS: endless sequence of small non-hello handshake records
    let t4: Vec<Vec<u8>> = (0..n).map(|_| vec![0x16, 3, 3, 0, 4, 0, 0, 0, 0]).collect();
    out.push(Scenario { name: "tls-many-records", an: An::Tls, segs: mk_stream(c, st, false, t4, vec![]) });
    // HTTP: the 4-tuple is re-opened again and again by SYNs with new sequence numbers (sometimes retransmitted,
    // sometimes from the other side), each followed by junk that never forms a head: every re-opening drops what
    // the previous connection left
    {
        let mut segs = vec![];
        let rounds = (n / 8).max(3);
        for i in 0..rounds {
            let from_server = i % 5 == 4;
            let (a, b) = if from_server { (s, c) } else { (c, s) };
            let isn = 1000u32.wrapping_add((i as u32).wrapping_mul(1_000_003));
            let mut x = Seg::new(a, b, SYN);
            x.seq = isn;
            segs.push(x.clone());
            if i % 3 == 1 {
                segs.push(x); // retransmitted SYN: the flow stays
            }
            let mut seq = isn.wrapping_add(1);
            for _ in 0..7 {
                let mut g = Seg::new(a, b, ACK | PSH);
                g.seq = seq;
                g.payload = r.bytes(seglen);
                seq = seq.wrapping_add(seglen as u32);
                segs.push(g);
            }
        }
        out.push(Scenario { name: "http-syn-reopen", an: An::Http, segs });
    }
    // TLS: likewise — every round a SYN, then the start of a 16 KiB handshake record that never completes
    {
        let mut segs = vec![];
        let rounds = (n / 8).max(3);
        for i in 0..rounds {
            let mut x = Seg::new(c, st, SYN);
            x.seq = 1000u32.wrapping_add((i as u32).wrapping_mul(1_000_003));
            segs.push(x);
            for k in 0..7 {
                let mut g = Seg::new(c, st, ACK | PSH);
                g.payload = if k == 0 { let mut v = vec![0x16, 3, 1, 0x40, 0x00]; v.extend(r.bytes(seglen)); v } else { r.bytes(seglen) };
                segs.push(g);
            }
        }
        out.push(Scenario { name: "tls-syn-reopen", an: An::Tls, segs });
    }
    // TCP: n timestamped ACKs in both directions
    let mut tcp = vec![];
    for i in 0..n {
        let (a, b) = if i % 2 == 0 { (c, s) } else { (s, c) };
        let mut g = Seg::new(a, b, ACK);
        g.options = Seg::ts_option(1000 + i as u32, 1);
        g.payload = vec![0; seglen.min(100)];
        tcp.push(g);
    }
    out.push(Scenario { name: "tcp-ts-acks", an: An::Tcp, segs: tcp });
    out
}

fn concat_sorted(parts: &[(u32, Vec<u8>)]) -> Vec<u8> {
    let mut v: Vec<&(u32, Vec<u8>)> = parts.iter().collect();
    v.sort_by_key(|p| p.0);
    v.iter().flat_map(|p| p.1.iter().copied()).collect()
}

fn run_scenario(ctx: &mut Ctx, sc: &Scenario) {
    huginn_net_tcp::uptime::VERIF_CLOCK_MS.store(1_700_000_000_000, std::sync::atomic::Ordering::SeqCst);
    let frames: Vec<Vec<u8>> = sc.segs.iter().map(net::ip_bytes).collect();
    let mut alloc_series: Vec<u64> = Vec::with_capacity(frames.len());
    let mut live_series: Vec<u64> = Vec::with_capacity(frames.len());
    let mut reported: Vec<u8> = Vec::with_capacity(frames.len());
    // instances
    let mut http: TtlCache<huginn_net_http::http_process::FlowKey, huginn_net_http::http_process::TcpFlow> = TtlCache::new(100);
    let procs = huginn_net_http::http_process::HttpProcessors::new();
    let mut tls: TtlCache<huginn_net_tls::FlowKey, huginn_net_tls::TlsClientHelloReader> = TtlCache::new(100);
    let mut tcp: TtlCache<huginn_net_tcp::ConnectionKey, huginn_net_tcp::TcpTimestamp> = TtlCache::new(100);
    // warm up: one unrelated packet so that lazily allocated structures exist before the baseline
    {
        let mut w = Seg::new((net::v4(1), 1), (net::v4(2), 2), SYN);
        w.payload = vec![];
        let b = net::ip_bytes(&w);
        let ip = Ipv4Packet::new(&b).unwrap();
        let _ = huginn_net_http::process_ipv4_packet(&ip, &mut http, &procs, None);
        let _ = huginn_net_tls::process_ipv4_packet(&ip, &mut tls);
        let _ = huginn_net_tcp::process_ipv4_packet(&ip, &mut tcp, None);
    }
    let (_, live0) = snapshot();
    for f in &frames {
        let ip = Ipv4Packet::new(f).unwrap();
        let (a0, _) = snapshot();
        let rep: u8 = match sc.an {
            An::Http => match huginn_net_http::process_ipv4_packet(&ip, &mut http, &procs, None) {
                Ok(o) => (o.http_request.is_some() as u8) + 2 * (o.http_response.is_some() as u8),
                Err(_) => 0,
            },
            An::Tls => match huginn_net_tls::process_ipv4_packet(&ip, &mut tls) {
                Ok(Some(_)) => 1,
                _ => 0,
            },
            An::Tcp => match huginn_net_tcp::process_ipv4_packet(&ip, &mut tcp, None) {
                Ok(o) => (o.client_uptime.is_some() || o.server_uptime.is_some()) as u8,
                Err(_) => 0,
            },
        };
        let (a1, l1) = snapshot();
        alloc_series.push(a1 - a0);
        live_series.push(l1.saturating_sub(live0));
        reported.push(rep);
    }
    // oracle: buffer lengths at which the parsers succeed (fresh instances)
    let mut ok_req: Vec<usize> = vec![];
    let mut ok_resp: Vec<usize> = vec![];
    let mut tls_sig: Vec<usize> = vec![];
    let mut tls_none: Vec<usize> = vec![];
    match sc.an {
        An::Http => {
            let client = sc.segs.first().map(|s| s.src);
            let mut cl: Vec<(u32, Vec<u8>)> = vec![];
            let mut sv: Vec<(u32, Vec<u8>)> = vec![];
            let mut abandoned = (false, false);
            for (i, s) in sc.segs.iter().enumerate() {
                if i > 0 && s.payload.is_empty() {
                    continue;
                }
                let is_c = Some(s.src) == client;
                if (is_c && abandoned.0) || (!is_c && abandoned.1) {
                    continue;
                }
                let v = if is_c { &mut cl } else { &mut sv };
                v.push((s.seq, s.payload.clone()));
                let buf = concat_sorted(v);
                if buf.len() > 64 * 1024 {
                    if is_c {
                        abandoned.0 = true;
                    } else {
                        abandoned.1 = true;
                    }
                    continue;
                }
                if buf.len() >= 4 {
                    let p = huginn_net_http::http_process::HttpProcessors::new();
                    if p.parse_request(&buf).is_some() && !ok_req.contains(&buf.len()) {
                        ok_req.push(buf.len());
                    }
                    let p = huginn_net_http::http_process::HttpProcessors::new();
                    if p.parse_response(&buf).is_some() && !ok_resp.contains(&buf.len()) {
                        ok_resp.push(buf.len());
                    }
                }
            }
        }
        An::Tls => {
            // every buffer starts at a payload boundary; key the oracle by (start index, needed)
            let pay: Vec<&Vec<u8>> = sc.segs.iter().filter(|s| !s.payload.is_empty()).map(|s| &s.payload).collect();
            // only boundaries the reader can actually start at matter; cheap over-approximation: the first 3 and
            // every boundary whose payload begins with 0x16
            for i in 0..pay.len() {
                if i > 2 && pay[i].first() != Some(&0x16) {
                    continue;
                }
                if i > 64 && ctx.tier == crate::Tier::Quick && i % 97 != 0 {
                    continue;
                }
                let mut stream: Vec<u8> = vec![];
                for p in &pay[i..] {
                    stream.extend_from_slice(p);
                    if stream.len() >= 5 {
                        let needed = u16::from_be_bytes([stream[3], stream[4]]) as usize + 5;
                        if stream.len() >= needed {
                            break;
                        }
                    }
                    if stream.len() > 70000 {
                        break;
                    }
                }
                if stream.len() < 5 {
                    continue;
                }
                let needed = u16::from_be_bytes([stream[3], stream[4]]) as usize + 5;
                if needed > stream.len() || needed > 65536 {
                    continue;
                }
                match huginn_net_tls::tls_process::parse_tls_client_hello(&stream[..needed]) {
                    Ok(Some(_)) => {
                        if !tls_sig.contains(&needed) {
                            tls_sig.push(needed)
                        }
                    }
                    Ok(None) => {
                        if !tls_none.contains(&needed) {
                            tls_none.push(needed)
                        }
                    }
                    Err(_) => {}
                }
            }
        }
        An::Tcp => {}
    }
    let mut l = Line::op("C11.conn");
    l.tok(sc.name).tok(match sc.an {
        An::Http => "http",
        An::Tls => "tls",
        An::Tcp => "tcp",
    });
    let client = sc.segs.first().map(|s| s.src);
    l.list(&sc.segs, |l, s| {
        l.bool(Some(s.src) == client).nat(s.seq).nat(s.flags).usize(s.payload.len());
        // the first five bytes (the TLS reader looks at bytes 0, 3 and 4 of its buffer)
        l.bytes(&s.payload[..s.payload.len().min(5)]);
        l.bool(huginn_net_tls::tls_process::is_tls_traffic(&s.payload));
    });
    l.list(&ok_req, |l, x| {
        l.usize(*x);
    });
    l.list(&ok_resp, |l, x| {
        l.usize(*x);
    });
    l.list(&tls_sig, |l, x| {
        l.usize(*x);
    });
    l.list(&tls_none, |l, x| {
        l.usize(*x);
    });
    // impl output: per packet `alloc,live,reported`
    let out: Vec<String> = (0..frames.len()).map(|i| format!("{},{},{}", alloc_series[i], live_series[i], reported[i])).collect();
    ctx.emit(l.finish(&out.join(";")));
}

/// Capacity: many concurrently open, never-completing flows against a small configured capacity, through the
/// sequential processors and through a real one-worker pool; the bytes retained afterwards are measured.
fn run_capacity(ctx: &mut Ctx) {
    use crate::registry::c10::{run_pool, Kind};
    let mut r = ctx.rng.fork();
    let rounds = ctx.n(2, 8);
    for _ in 0..rounds {
        for (kind, an) in [(Kind::Http, An::Http), (Kind::Tls, An::Tls)] {
            let cap = *r.pick(&[4usize, 8, 16]);
            let flows = 150usize;
            let per_flow_segs = 14usize;
            let seglen = 1400usize;
            let mut frames: Vec<Vec<u8>> = vec![];
            // all SYNs / first segments first, then the data round-robin: every flow is open at the same time
            let eps: Vec<((std::net::IpAddr, u16), (std::net::IpAddr, u16))> =
                (0..flows).map(|i| ((net::v4(0x0a30_0000 + i as u32), 42000), (net::v4(0x0a31_0001), if an == An::Http { 80 } else { 443 }))).collect();
            for (c, s) in &eps {
                if an == An::Http {
                    frames.push(net::eth_bytes(&Seg::new(*c, *s, SYN)));
                }
            }
            for k in 0..per_flow_segs {
                for (c, s) in &eps {
                    let mut g = Seg::new(*c, *s, ACK | PSH);
                    g.seq = 1001 + (k * seglen) as u32;
                    g.payload = if an == An::Http {
                        if k == 0 { b"GET /x HTTP/1.1\r\nX: ".iter().copied().chain(std::iter::repeat(b'a').take(seglen - 20)).collect() } else { vec![b'a'; seglen] }
                    } else if k == 0 {
                        // a handshake record announcing 60000 bytes that never completes
                        let mut v = vec![0x16, 3, 1, 0xea, 0x60, 1, 0, 0xea, 0x5c];
                        v.extend(std::iter::repeat(0u8).take(seglen - 9));
                        v
                    } else {
                        vec![0u8; seglen]
                    };
                    frames.push(net::eth_bytes(&g));
                }
            }
            // sequential
            let (_, live0) = snapshot();
            let live_seq;
            {
                let mut http: TtlCache<huginn_net_http::http_process::FlowKey, huginn_net_http::http_process::TcpFlow> = TtlCache::new(cap);
                let procs = huginn_net_http::http_process::HttpProcessors::new();
                let mut tls: TtlCache<huginn_net_tls::FlowKey, huginn_net_tls::TlsClientHelloReader> = TtlCache::new(cap);
                for f in &frames {
                    let ip = Ipv4Packet::new(&f[14..]).unwrap();
                    match an {
                        An::Http => {
                            let _ = huginn_net_http::process_ipv4_packet(&ip, &mut http, &procs, None);
                        }
                        _ => {
                            let _ = huginn_net_tls::process_ipv4_packet(&ip, &mut tls);
                        }
                    }
                }
                let (_, l1) = snapshot();
                live_seq = l1.saturating_sub(live0);
            }
            // one-worker pool with the same configured capacity and a large queue
            let nframes = frames.len();
            let (_, live0) = snapshot();
            let run = run_pool_keep(kind, 1, nframes + 64, 8, 2, cap, frames.clone(), &mut r); // the clones are freed once analysed
            let live_pool = run.1.saturating_sub(live0);
            let mut l = Line::op("C11.cap");
            l.tok(match an {
                An::Http => "http",
                _ => "tls",
            })
            .usize(cap)
            .usize(flows)
            .usize(per_flow_segs * seglen);
            let _ = run_pool;
            ctx.emit(l.finish(&format!("{},{},{}", live_seq, live_pool, if run.0 { "timeout" } else { "ok" })));
        }
        // TCP uptime tracker: far more timestamped endpoints than the configured capacity (one SYN each)
        {
            let cap = *r.pick(&[1usize, 4, 16]);
            let flows = 20_000usize;
            let frames: Vec<Vec<u8>> = (0..flows)
                .map(|i| {
                    let mut g = Seg::new((net::v4(0x0b00_0000 + i as u32), 40000 + (i % 1000) as u16), (net::v4(0x0a31_0001), 443), SYN);
                    g.options = Seg::syn_options(1460, 7, Some(1000 + i as u32));
                    g.wall_ms = 1_700_000_000_000 + i as u64;
                    net::eth_bytes(&g)
                })
                .collect();
            let (_, live0) = snapshot();
            let live_seq;
            let entries;
            {
                let mut tcp: TtlCache<huginn_net_tcp::ConnectionKey, huginn_net_tcp::TcpTimestamp> = TtlCache::new(cap);
                for f in &frames {
                    let ip = Ipv4Packet::new(&f[14..]).unwrap();
                    huginn_net_tcp::uptime::VERIF_CLOCK_MS.store(1_700_000_000_000, std::sync::atomic::Ordering::SeqCst);
                    let _ = huginn_net_tcp::process_ipv4_packet(&ip, &mut tcp, None);
                }
                let (_, l1) = snapshot();
                live_seq = l1.saturating_sub(live0);
                entries = tcp.iter().count();
            }
            // the pool path with fewer frames: its bounded queue and the harness's own bookkeeping are
            // allocated per frame and would otherwise dominate the measurement
            let frames: Vec<Vec<u8>> = frames.into_iter().take(4000).collect();
            let nframes = frames.len();
            let (_, live0) = snapshot();
            crate::registry::c10::DISCARD_RESULTS.store(true, std::sync::atomic::Ordering::SeqCst);
            let run = run_pool_keep(Kind::Tcp, 1, nframes + 64, 8, 2, cap, frames.clone(), &mut r);
            crate::registry::c10::DISCARD_RESULTS.store(false, std::sync::atomic::Ordering::SeqCst);
            let live_pool = run.1.saturating_sub(live0);
            let mut l = Line::op("C11.cap");
            l.tok("tcp").usize(cap).usize(flows).usize(256);
            ctx.emit(l.finish(&format!("{},{},{},{}", live_seq, live_pool, if run.0 { "timeout" } else { "ok" }, entries)));
        }
    }
}

/// Like c10::run_pool but measures the live bytes at quiescence, BEFORE the pool is shut down and dropped.
fn run_pool_keep(kind: crate::registry::c10::Kind, n: usize, queue: usize, batch: usize, timeout_ms: u64, max_conn: usize, frames: Vec<Vec<u8>>, r: &mut Rng) -> (bool, u64) {
    crate::registry::c10::run_pool_measured(kind, n, queue, batch, timeout_ms, max_conn, vec![frames], r)
}

pub fn run(ctx: &mut Ctx) {
    run_capacity(ctx);
    let mut r = ctx.rng.fork();
    let rounds = ctx.n(2, 6);
    for k in 0..rounds {
        let n = if ctx.tier == crate::Tier::Quick { [3000usize, 400][k % 2] } else { [100_000usize, 20_000, 3000, 1000, 400, 50][k % 6] };
        for sc in scenarios(&mut r, n) {
            run_scenario(ctx, &sc);
        }
    }
    huginn_net_tcp::uptime::VERIF_CLOCK_MS.store(u64::MAX, std::sync::atomic::Ordering::SeqCst);
}
