//! C04 — JA4 / JA4_r / JA4_o / JA4_ro and the separately reported fields, from bytes.
//!
//! `C04.ja4 <hello> <bytes> => J=… R=… O=… RO=… v=… sni=… alpn=… c=… e=… s=… g=…` (`parse_tls_client_hello`)
//! `C04.pk  <hello> <bytes> => …` the same record through `process_ipv4_packet` (`TlsClientOutput.sig`)
//! `C04.raw <bytes> => …` arbitrary bytes (model-compared only)
#[path = "tlsgen.rs"]
mod tlsgen;

use crate::rng::Rng;
use crate::wr::{guarded, hex, Line};
use crate::Ctx;
use huginn_net_tls::tls::{Ja4Payload, TlsVersion};
use huginn_net_tls::tls_client_hello_reader::TlsClientHelloReader;
use huginn_net_tls::FlowKey;
use pnet::packet::ipv4::Ipv4Packet;
use tlsgen::*;
use ttl_cache::TtlCache;

fn vname(v: TlsVersion) -> &'static str {
    match v {
        TlsVersion::V1_3 => "V1_3",
        TlsVersion::V1_2 => "V1_2",
        TlsVersion::V1_1 => "V1_1",
        TlsVersion::V1_0 => "V1_0",
        TlsVersion::Ssl3_0 => "Ssl3_0",
        TlsVersion::Ssl2_0 => "Ssl2_0",
        TlsVersion::Unknown(_) => "Unknown",
    }
}
fn nats(xs: &[u16]) -> String {
    if xs.is_empty() {
        "-".into()
    } else {
        xs.iter().map(|x| x.to_string()).collect::<Vec<_>>().join(",")
    }
}
fn optb(s: &Option<String>) -> String {
    match s {
        None => "none".into(),
        Some(s) => hex(s.as_bytes()),
    }
}

#[allow(clippy::too_many_arguments)]
fn render(
    j: &Ja4Payload,
    o: &Ja4Payload,
    v: TlsVersion,
    sni: &Option<String>,
    alpn: &Option<String>,
    c: &[u16],
    e: &[u16],
    s: &[u16],
    g: &[u16],
) -> String {
    // the parts must compose to the raw string
    for p in [j, o] {
        if format!("{}_{}_{}", p.ja4_a, p.ja4_b, p.ja4_c) != p.raw.value() {
            return "INCONSISTENT-PARTS".into();
        }
    }
    if j.full.variant_name() != "ja4" || j.raw.variant_name() != "ja4_r" || o.full.variant_name() != "ja4_o" || o.raw.variant_name() != "ja4_ro" {
        return "INCONSISTENT-VARIANTS".into();
    }
    format!(
        "J={} R={} O={} RO={} v={} sni={} alpn={} c={} e={} s={} g={}",
        esc(j.full.value()),
        esc(j.raw.value()),
        esc(o.full.value()),
        esc(o.raw.value()),
        vname(v),
        optb(sni),
        optb(alpn),
        nats(c),
        nats(e),
        nats(s),
        nats(g)
    )
}

fn run_parse(bytes: &[u8]) -> String {
    let b = bytes.to_vec();
    guarded(move || match huginn_net_tls::tls_process::parse_tls_client_hello(&b) {
        Err(_) => "err".into(),
        Ok(None) => "none".into(),
        Ok(Some(sig)) => {
            let j = sig.generate_ja4();
            let o = sig.generate_ja4_original();
            // the convenience entry point must agree
            if huginn_net_tls::tls_process::parse_tls_client_hello_ja4(&b).as_deref() != Some(j.full.value()) {
                return "INCONSISTENT-JA4-ENTRY".into();
            }
            render(&j, &o, sig.version, &sig.sni, &sig.alpn, &sig.cipher_suites, &sig.extensions, &sig.signature_algorithms, &sig.elliptic_curves)
        }
    })
}

fn run_packet(bytes: &[u8]) -> String {
    let b = bytes.to_vec();
    guarded(move || {
        let mut tcp = vec![0x9c, 0x40, 0x01, 0xbb, 0, 0, 3, 0xe8, 0, 0, 0, 0, 5 << 4, 0x18, 0xff, 0xff, 0, 0, 0, 0];
        tcp.extend_from_slice(&b);
        let total = 20 + tcp.len();
        let mut p = vec![0x45, 0, (total >> 8) as u8, total as u8, 0, 1, 0x40, 0, 64, 6, 0, 0, 10, 0, 0, 1, 192, 0, 2, 1];
        p.extend_from_slice(&tcp);
        let ip = Ipv4Packet::new(&p).unwrap();
        let mut cache: TtlCache<FlowKey, TlsClientHelloReader> = TtlCache::new(4);
        match huginn_net_tls::process_ipv4_packet(&ip, &mut cache) {
            Err(_) => "err".into(),
            Ok(None) => "none".into(),
            Ok(Some(o)) => {
                let s = &o.sig;
                render(&s.ja4, &s.ja4_original, s.version, &s.sni, &s.alpn, &s.cipher_suites, &s.extensions, &s.signature_algorithms, &s.elliptic_curves)
            }
        }
    })
}

fn emit_hello(ctx: &mut Ctx, h: &Hello) {
    if !h.fits() {
        return;
    }
    let bytes = h.encode();
    let mut l = Line::op("C04.ja4");
    h.tokens(&mut l);
    l.bytes(&bytes);
    ctx.emit(l.finish(&run_parse(&bytes)));
}

fn emit_hello_pk(ctx: &mut Ctx, h: &Hello) {
    let bytes = h.encode();
    if !h.fits() || bytes.len() > 60000 || !(0x0300..=0x0304).contains(&h.record_version) {
        return;
    }
    let mut l = Line::op("C04.pk");
    h.tokens(&mut l);
    l.bytes(&bytes);
    ctx.emit(l.finish(&run_packet(&bytes)));
}

fn emit_raw(ctx: &mut Ctx, bytes: &[u8]) {
    let mut l = Line::op("C04.raw");
    l.bytes(bytes);
    ctx.emit(l.finish(&run_parse(bytes)));
}

fn base() -> Hello {
    Hello {
        record_version: 0x0301,
        legacy_version: 0x0303,
        random: (0..32).collect(),
        session_id: vec![7; 32],
        ciphers: vec![0x1301, 0x1302, 0x1303, 0xc02b, 0xc02f],
        compression: vec![0],
        extensions: Some(vec![
            Ext::ServerName(vec![(0, b"example.com".to_vec())]),
            Ext::Other(23, vec![]),
            Ext::Other(0xff01, vec![0]),
            Ext::Groups(vec![0x001d, 0x0017, 0x0018]),
            Ext::EcPointFormats(vec![0]),
            Ext::Other(35, vec![]),
            Ext::Alpn(vec![b"h2".to_vec(), b"http/1.1".to_vec()]),
            Ext::Other(5, vec![1, 0, 0, 0, 0]),
            Ext::SigAlgs(vec![0x0403, 0x0804, 0x0401, 0x0503, 0x0805, 0x0501, 0x0806, 0x0601]),
            Ext::Other(18, vec![]),
            Ext::Other(51, vec![0, 2, 0, 0x1d]),
            Ext::Other(45, vec![1, 1]),
            Ext::SupportedVersions(vec![0x0304, 0x0303]),
            Ext::Other(27, vec![2, 0, 2]),
            Ext::Other(21, vec![0; 7]),
        ]),
    }
}

fn permutations<T: Clone>(xs: &[T]) -> Vec<Vec<T>> {
    if xs.len() <= 1 {
        return vec![xs.to_vec()];
    }
    let mut out = Vec::new();
    for i in 0..xs.len() {
        let mut rest = xs.to_vec();
        let x = rest.remove(i);
        for mut p in permutations(&rest) {
            p.insert(0, x.clone());
            out.push(p);
        }
    }
    out
}

const MALFORMED_TYPES: [u16; 23] = [0, 1, 10, 11, 13, 15, 16, 22, 23, 28, 42, 43, 45, 48, 49, 13172, 0xff01, 0xffce, 5, 18, 21, 35, 51];

/// a hello with a (probably) malformed body for one extension type tls-parser decodes (lenient stream)
fn malformed_known(r: &mut Rng, ty: u16, shape: u64) -> Vec<u8> {
    let mut h = gen_hello(r, Profile::Clean);
    let mut es = h.extensions.take().unwrap_or_default();
    es.retain(|e| e.ty() != ty);
    let body: Vec<u8> = match shape {
        0 => vec![],
        1 => vec![r.next() as u8],
        2 => vec![0, 9, 1],                 // inner length larger than the body
        3 => vec![0, 3, 1, 2, 3],           // odd list
        4 => rbytes(r, 2, 9),
        _ => vec![0xff; 3],
    };
    let pos = r.below(es.len() as u64 + 1) as usize;
    es.insert(pos, Ext::Other(ty, body));
    h.extensions = Some(es);
    h.encode()
}

pub fn run(ctx: &mut Ctx) {
    let mut r = ctx.rng.fork();

    // ------------------------------------------------------------------ corpus: witnesses of the known findings first
    let b = base();
    emit_hello(ctx, &b);
    emit_hello_pk(ctx, &b);
    {
        // #8 supported_versions = [1.2]
        let mut h = b.clone();
        let es = h.extensions.as_mut().unwrap();
        for e in es.iter_mut() {
            if let Ext::SupportedVersions(v) = e {
                *v = vec![0x0303];
            }
        }
        emit_hello(ctx, &h);
        // #9 legacy version 0x0305, no supported_versions
        let mut h = b.clone();
        h.legacy_version = 0x0305;
        h.extensions.as_mut().unwrap().retain(|e| e.ty() != 43);
        emit_hello(ctx, &h);
        // #10 no cipher suites / no extensions / only SNI+ALPN
        let mut h = b.clone();
        h.ciphers = vec![];
        emit_hello(ctx, &h);
        let mut h = b.clone();
        h.extensions = None;
        emit_hello(ctx, &h);
        let mut h = b.clone();
        h.extensions = Some(vec![]);
        emit_hello(ctx, &h);
        let mut h = b.clone();
        h.extensions.as_mut().unwrap().retain(|e| e.ty() == 0 || e.ty() == 16);
        emit_hello(ctx, &h);
        // GREASE-like, non-GREASE extension type
        let mut h = b.clone();
        h.extensions.as_mut().unwrap().insert(3, Ext::Other(0x1a2a, vec![1, 2]));
        emit_hello(ctx, &h);
        // ALPN with alphanumeric ends that is not UTF-8
        let mut h = b.clone();
        for e in h.extensions.as_mut().unwrap().iter_mut() {
            if let Ext::Alpn(p) = e {
                *p = vec![vec![b'h', 0xff, b'2']];
            }
        }
        emit_hello(ctx, &h);
    }

    // ------------------------------------------------------------------ exhaustive sub-enumerations
    // version selection grid: legacy version × supported_versions content
    let legacies = [0x0300u16, 0x0301, 0x0302, 0x0303, 0x0304, 0x0305, 0x0002, 0x0200, 0x0000, 0xffff, 0x7f12, 0x7f17, 0xfeff, 0xfefd, 0xfefc, 0x0a0a];
    let sv_lists: Vec<Option<Vec<u16>>> = vec![
        None,
        Some(vec![0x0304]),
        Some(vec![0x0303]),
        Some(vec![0x0302]),
        Some(vec![0x0301]),
        Some(vec![0x0300]),
        Some(vec![0x0002]),
        Some(vec![0x0305]),
        Some(vec![0x0304, 0x0303]),
        Some(vec![0x0303, 0x0304]),
        Some(vec![0x0303, 0x0302, 0x0301]),
        Some(vec![0x0a0a, 0x0304, 0x0303]),
        Some(vec![0xfafa, 0x0303]),
        Some(vec![0x0303, 0xfafa]),
        Some(vec![0x0a0a]),
        Some(vec![0x0a0a, 0x1a1a]),
        Some(vec![0x0305, 0x0304]),
        Some(vec![0x7f17, 0x0303]),
        Some(vec![0xfeff]),
        Some(vec![0x0304; 1]),
    ];
    for &lv in &legacies {
        for sv in &sv_lists {
            let mut h = b.clone();
            h.legacy_version = lv;
            let es = h.extensions.as_mut().unwrap();
            es.retain(|e| e.ty() != 43);
            if let Some(v) = sv {
                es.insert(4, Ext::SupportedVersions(v.clone()));
            }
            emit_hello(ctx, &h);
        }
    }
    // every permutation of a 5-element cipher list and of a 5-element extension list
    {
        let cs = [0x1301u16, 0xc02b, 0x009c, 0x1303, 0x0035];
        for p in permutations(&cs) {
            let mut h = b.clone();
            h.ciphers = p;
            emit_hello(ctx, &h);
        }
        let es = vec![
            Ext::ServerName(vec![(0, b"a.b".to_vec())]),
            Ext::Other(23, vec![]),
            Ext::Alpn(vec![b"h2".to_vec()]),
            Ext::SigAlgs(vec![0x0804, 0x0403]),
            Ext::Other(0xff01, vec![0]),
        ];
        for p in permutations(&es) {
            let mut h = b.clone();
            h.extensions = Some(p);
            emit_hello(ctx, &h);
        }
        // signature algorithm order: every permutation of four
        for p in permutations(&[0x0403u16, 0x0804, 0x0401, 0x0201]) {
            let mut h = b.clone();
            for e in h.extensions.as_mut().unwrap().iter_mut() {
                if let Ext::SigAlgs(v) = e {
                    *v = p.clone();
                }
            }
            emit_hello(ctx, &h);
        }
    }
    // each GREASE value at each position of the cipher list / the extension list / the signature algorithms
    for &g in &GREASE {
        for pos in 0..=4 {
            let mut h = b.clone();
            h.ciphers = vec![0x1301, 0xc02b, 0x009c, 0x0035];
            h.ciphers.insert(pos, g);
            emit_hello(ctx, &h);
            let mut h = b.clone();
            let es = h.extensions.as_mut().unwrap();
            es.truncate(4);
            es.insert(pos, Ext::Other(g, vec![0]));
            emit_hello(ctx, &h);
        }
        let mut h = b.clone();
        for e in h.extensions.as_mut().unwrap().iter_mut() {
            if let Ext::SigAlgs(v) = e {
                v.insert(2, g);
            }
        }
        emit_hello(ctx, &h);
    }
    // all 256 GREASE-like extension types (16 are GREASE, 240 are not)
    if ctx.tier == crate::Tier::Thorough {
        for hi in 0..16u16 {
            for lo in 0..16u16 {
                let t = (hi << 12) | 0x0a00 | (lo << 4) | 0x0a;
                let mut h = b.clone();
                h.extensions.as_mut().unwrap().insert(2, Ext::Other(t, vec![]));
                emit_hello(ctx, &h);
            }
        }
    }
    // counts 0..=120 (cipher suites, extensions), with and without one GREASE value
    let thorough = ctx.tier == crate::Tier::Thorough;
    for n in (0..=120usize).filter(|n| thorough || *n <= 6 || (95..=104).contains(n) || n % 20 == 0) {
        let mut h = b.clone();
        h.ciphers = (0..n as u16).map(|i| 0x2000 + i * 3).collect();
        emit_hello(ctx, &h);
        h.ciphers.insert(n / 2, 0x4a4a);
        emit_hello(ctx, &h);
        let mut h = b.clone();
        let mut es: Vec<Ext> = (0..n as u16).map(|i| Ext::Other(0x3001 + i * 5, vec![i as u8])).collect();
        h.extensions = Some(es.clone());
        emit_hello(ctx, &h);
        es.insert(n / 3, Ext::Other(0x8a8a, vec![]));
        es.insert(0, Ext::ServerName(vec![(0, b"x.y".to_vec())]));
        h.extensions = Some(es);
        emit_hello(ctx, &h);
    }
    // ALPN first value: byte classes at the first / last position, lengths 0..3
    {
        let classes: [u8; 15] = [0x00, b'0', b'9', b'A', b'Z', b'a', b'z', b'-', b'/', b'_', 0x7f, 0x80, 0xc3, 0xe9, 0xff];
        let mut vals: Vec<Vec<u8>> = vec![vec![]];
        for &a in &classes {
            vals.push(vec![a]);
            for &z in &classes {
                vals.push(vec![a, z]);
                vals.push(vec![a, b'x', z]);
            }
        }
        vals.push("é".as_bytes().to_vec());
        vals.push("éa".as_bytes().to_vec());
        vals.push("aé".as_bytes().to_vec());
        vals.push("日本".as_bytes().to_vec());
        vals.push("h2€".as_bytes().to_vec());
        for v in vals {
            let mut h = b.clone();
            for e in h.extensions.as_mut().unwrap().iter_mut() {
                if let Ext::Alpn(p) = e {
                    *p = vec![v.clone(), b"http/1.1".to_vec()];
                }
            }
            emit_hello(ctx, &h);
        }
        // ALPN extension present with an empty list (not well-formed: model-compared)
        let mut h = b.clone();
        for e in h.extensions.as_mut().unwrap().iter_mut() {
            if let Ext::Alpn(p) = e {
                *p = vec![];
            }
        }
        emit_hello(ctx, &h);
    }
    // SNI: absent / empty list / non-UTF-8 host / two names / name type 1
    for names in [vec![], vec![(0u8, vec![0xffu8, 0xfe])], vec![(0, b"a.b".to_vec()), (0, b"c.d".to_vec())], vec![(1, b"a.b".to_vec())], vec![(0, vec![])]] {
        let mut h = b.clone();
        for e in h.extensions.as_mut().unwrap().iter_mut() {
            if let Ext::ServerName(n) = e {
                *n = names.clone();
            }
        }
        emit_hello(ctx, &h);
    }
    // session id 0..=32, compression 1..=3, record versions
    for n in 0..=32usize {
        let mut h = b.clone();
        h.session_id = vec![n as u8; n];
        h.compression = vec![0; 1 + n % 3];
        h.record_version = [0x0300u16, 0x0301, 0x0302, 0x0303, 0x0304, 0x0305, 0x0200][n % 7];
        emit_hello(ctx, &h);
        emit_hello_pk(ctx, &h);
    }
    // every known extension type alone with its canonical body, and with its neighbours
    for &t in &KNOWN_OTHER {
        for _ in 0..3 {
            let mut h = b.clone();
            let es = h.extensions.as_mut().unwrap();
            es.retain(|e| e.ty() != t);
            es.insert(2, known_ext(&mut r, t));
            emit_hello(ctx, &h);
        }
    }
    // duplicated decoded extensions (not well-formed: last one wins in the code; model-compared)
    {
        let mut h = b.clone();
        let es = h.extensions.as_mut().unwrap();
        es.push(Ext::SigAlgs(vec![0x0201]));
        es.push(Ext::Alpn(vec![b"h3".to_vec()]));
        es.push(Ext::ServerName(vec![(0, b"second.example".to_vec())]));
        emit_hello(ctx, &h);
    }

    // ------------------------------------------------------------------ generated
    for i in 0..ctx.n(20000, 150000) {
        let h = gen_hello(&mut r, if i % 3 == 0 { Profile::Clean } else { Profile::Wide });
        emit_hello(ctx, &h);
        if i % 10 == 0 {
            emit_hello_pk(ctx, &h);
        }
        // a reordering / GREASE insertion of the same hello (the sorted variants must not move)
        if i % 4 == 0 {
            let mut h2 = h.clone();
            shuffle(&mut r, &mut h2.ciphers);
            if let Some(es) = h2.extensions.as_mut() {
                shuffle(&mut r, es);
                let pos = r.below(es.len() as u64 + 1) as usize;
                es.insert(pos, Ext::Other(*r.pick(&GREASE), vec![]));
            }
            sprinkle_grease(&mut r, &mut h2.ciphers, 1);
            emit_hello(ctx, &h2);
        }
    }

    // ------------------------------------------------------------------ lenient stream: model-compared only
    for &ty in &MALFORMED_TYPES {
        for shape in 0..6 {
            let b = malformed_known(&mut r, ty, shape);
            emit_raw(ctx, &b);
        }
    }
    for _ in 0..ctx.n(4000, 30000) {
        let bytes = match r.below(5) {
            0 | 1 => {
                let ty = *r.pick(&MALFORMED_TYPES);
                let shape = r.below(6);
                malformed_known(&mut r, ty, shape)
            }
            2 => {
                let mut v = gen_hello(&mut r, Profile::Wide).encode();
                let i = r.below(v.len() as u64) as usize;
                v[i] ^= 1 << r.below(8);
                v
            }
            3 => {
                let mut v = gen_hello(&mut r, Profile::Wide).encode();
                let n = r.range(0, v.len() as u64) as usize;
                v.truncate(n);
                v
            }
            _ => {
                // two handshake messages in one record / hello not first / trailing garbage in the record
                let h = gen_small_hello(&mut r, 300).encode();
                let hs = &h[5..];
                let mut body: Vec<u8> = Vec::new();
                match r.below(3) {
                    0 => {
                        body.extend_from_slice(&[0, 0, 0, 0]);
                        body.extend_from_slice(hs);
                    }
                    1 => {
                        body.extend_from_slice(hs);
                        body.extend_from_slice(&[0xee, 1, 2]);
                    }
                    _ => {
                        body.extend_from_slice(hs);
                        body.extend_from_slice(hs);
                    }
                }
                let mut v = vec![22, 3, 3, (body.len() >> 8) as u8, body.len() as u8];
                v.extend_from_slice(&body);
                if r.chance(1, 3) {
                    v.extend_from_slice(&[1, 2, 3]);
                }
                v
            }
        };
        emit_raw(ctx, &bytes);
    }
}
