//! C10 — parallel mode ≡ sequential mode (real WorkerPools, real threads), and the accounting
//! half of C18 (`run_acct`, also called from the C18 module).
//!
//! Quiescence is detected, never slept for: after the trace one *sentinel* connection per worker is
//! dispatched (its worker index computed with the public hash function, its result recognisable by
//! its source address); per-worker FIFO + the single result channel guarantee that once worker w's
//! sentinel result has arrived every earlier frame routed to w has been processed.
use crate::canon::{self, dig};
use crate::net::{self, Seg, ACK, PSH, SYN};
use crate::registry::c07::{endpoints, http_conn, interleave, tcp_conn, Conn};
use crate::rng::Rng;
use crate::wr::Line;
use crate::Ctx;
use std::collections::BTreeMap;
use std::net::IpAddr;
use std::sync::mpsc;
use std::sync::Arc;
use std::time::{Duration, Instant};
use ttl_cache::TtlCache;

fn freeze_clock() {
    huginn_net_tcp::uptime::VERIF_CLOCK_MS.store(1_700_000_000_000, std::sync::atomic::Ordering::SeqCst);
}

#[derive(Clone, Copy, PartialEq, Eq, Debug)]
pub enum Kind {
    Tcp,
    Http,
    Tls,
}
impl Kind {
    fn name(self) -> &'static str {
        match self {
            Kind::Tcp => "tcp",
            Kind::Http => "http",
            Kind::Tls => "tls",
        }
    }
}

/// (grouping key, digest) of a non-empty result
type KD = (String, String);

fn tcp_kd(o: &huginn_net_tcp::TcpAnalysisResult) -> Option<KD> {
    let src = o
        .syn
        .as_ref()
        .map(|x| x.source.ip)
        .or(o.syn_ack.as_ref().map(|x| x.source.ip))
        .or(o.mtu.as_ref().map(|x| x.source.ip))
        .or(o.client_uptime.as_ref().map(|x| x.source.ip))
        .or(o.server_uptime.as_ref().map(|x| x.source.ip))?;
    Some((format!("{src}"), dig("t", &format!("{o:?}"))))
}
fn http_kd(o: &huginn_net_http::HttpAnalysisResult) -> Option<KD> {
    let (a, b) = if let Some(q) = &o.http_request {
        ((q.source.ip, q.source.port), (q.destination.ip, q.destination.port))
    } else if let Some(r) = &o.http_response {
        ((r.source.ip, r.source.port), (r.destination.ip, r.destination.port))
    } else {
        return None;
    };
    let (lo, hi) = if a <= b { (a, b) } else { (b, a) };
    Some((format!("{}:{}-{}:{}", lo.0, lo.1, hi.0, hi.1), canon::http_result(o)))
}
fn tls_kd(o: &huginn_net_tls::TlsClientOutput) -> Option<KD> {
    Some((format!("{}:{}-{}:{}", o.source.ip, o.source.port, o.destination.ip, o.destination.port), canon::tls_sig(&o.sig)))
}

/// What the workers do per packet, run sequentially on one state.
pub fn sequential(kind: Kind, frames: &[Vec<u8>], max_conn: usize) -> Vec<KD> {
    let mut out = vec![];
    match kind {
        Kind::Tcp => {
            use huginn_net_tcp::packet_parser::{parse_packet, IpPacket};
            let mut cache: TtlCache<huginn_net_tcp::ConnectionKey, huginn_net_tcp::TcpTimestamp> = TtlCache::new(max_conn);
            for f in frames {
                let r = match parse_packet(f) {
                    IpPacket::Ipv4(ip) => huginn_net_tcp::process_ipv4_packet(&ip, &mut cache, None),
                    IpPacket::Ipv6(ip) => huginn_net_tcp::process_ipv6_packet(&ip, &mut cache, None),
                    IpPacket::None => continue,
                };
                if let Ok(o) = r {
                    out.extend(tcp_kd(&o));
                }
            }
        }
        Kind::Http => {
            use huginn_net_http::packet_parser::{parse_packet, IpPacket};
            let mut cache: TtlCache<huginn_net_http::http_process::FlowKey, huginn_net_http::http_process::TcpFlow> = TtlCache::new(max_conn);
            let procs = huginn_net_http::http_process::HttpProcessors::new();
            for f in frames {
                let r = match parse_packet(f) {
                    IpPacket::Ipv4(ip) => huginn_net_http::process_ipv4_packet(&ip, &mut cache, &procs, None),
                    IpPacket::Ipv6(ip) => huginn_net_http::process_ipv6_packet(&ip, &mut cache, &procs, None),
                    IpPacket::None => continue,
                };
                if let Ok(o) = r {
                    out.extend(http_kd(&o));
                }
            }
        }
        Kind::Tls => {
            use huginn_net_tls::packet_parser::{parse_packet, IpPacket};
            let mut cache: TtlCache<huginn_net_tls::FlowKey, huginn_net_tls::TlsClientHelloReader> = TtlCache::new(max_conn);
            for f in frames {
                let r = match parse_packet(f) {
                    IpPacket::Ipv4(ip) => huginn_net_tls::process_ipv4_packet(&ip, &mut cache),
                    IpPacket::Ipv6(ip) => huginn_net_tls::process_ipv6_packet(&ip, &mut cache),
                    IpPacket::None => continue,
                };
                if let Ok(Some(o)) = r {
                    out.extend(tls_kd(&o));
                }
            }
        }
    }
    out
}

pub fn worker_of(kind: Kind, frame: &[u8], n: usize) -> Option<usize> {
    match kind {
        Kind::Tcp => Some(huginn_net_tcp::packet_hash::hash_source_ip(frame).checked_rem(n).unwrap_or(0)),
        Kind::Http => Some(huginn_net_http::packet_hash::hash_flow(frame, n)),
        Kind::Tls => huginn_net_tls::packet_hash::hash_flow(frame, n),
    }
}

/// Frames of a sentinel connection with the given source address (result-producing for `kind`).
fn sentinel_frames(kind: Kind, src: IpAddr, r: &mut Rng) -> Vec<Vec<u8>> {
    let c = (src, 45000);
    let s = (net::v4(0x0a63_6301), 443);
    match kind {
        Kind::Tcp => {
            let mut syn = Seg::new(c, s, SYN);
            syn.options = Seg::syn_options(1460, 7, None);
            vec![net::eth_bytes(&syn)]
        }
        Kind::Tls => {
            let mut h = Seg::new(c, s, ACK | PSH);
            h.payload = net::client_hello(r);
            vec![net::eth_bytes(&h)]
        }
        Kind::Http => {
            let syn = Seg::new(c, s, SYN);
            let mut q = Seg::new(c, s, ACK | PSH);
            q.seq = 1001;
            q.payload = b"GET /sentinel HTTP/1.1\r\nHost: sentinel\r\n\r\n".to_vec();
            vec![net::eth_bytes(&syn), net::eth_bytes(&q)]
        }
    }
}

fn sentinel_sources(kind: Kind, n: usize, r: &mut Rng) -> Vec<(IpAddr, Vec<Vec<u8>>)> {
    // one source address per worker index
    let mut found: Vec<Option<(IpAddr, Vec<Vec<u8>>)>> = vec![None; n];
    let mut left = n;
    let mut i: u32 = 0;
    while left > 0 && i < 100_000 {
        let src = net::v4(0x0a09_0000 + i);
        i += 1;
        let fr = sentinel_frames(kind, src, r);
        if let Some(w) = worker_of(kind, &fr[0], n) {
            if w < n && found[w].is_none() {
                found[w] = Some((src, fr));
                left -= 1;
            }
        }
    }
    found.into_iter().flatten().collect()
}

pub struct PoolRun {
    pub results: Vec<KD>,         // in channel order, sentinels removed
    pub sentinel_results: usize,
    pub outcomes: Vec<(usize, bool)>, // per dispatched frame (trace + sentinels): (worker or usize::MAX, queued)
    pub dispatched: u64,
    pub dropped: u64,
    pub wdropped: Vec<u64>,
    pub timed_out: bool,
}

enum AnyPool {
    Tcp(huginn_net_tcp::WorkerPool),
    Http(Arc<huginn_net_http::WorkerPool>),
    Tls(huginn_net_tls::WorkerPool),
}
impl AnyPool {
    fn dispatch(&self, f: Vec<u8>) -> bool {
        match self {
            AnyPool::Tcp(p) => p.dispatch(f) == huginn_net_tcp::DispatchResult::Queued,
            AnyPool::Http(p) => p.dispatch(f) == huginn_net_http::DispatchResult::Queued,
            AnyPool::Tls(p) => p.dispatch(f) == huginn_net_tls::DispatchResult::Queued,
        }
    }
    fn stats(&self) -> (u64, u64, Vec<u64>) {
        match self {
            AnyPool::Tcp(p) => {
                let s = p.stats();
                (s.total_dispatched, s.total_dropped, s.workers.iter().map(|w| w.dropped).collect())
            }
            AnyPool::Http(p) => {
                let s = p.stats();
                (s.total_dispatched, s.total_dropped, s.workers.iter().map(|w| w.dropped).collect())
            }
            AnyPool::Tls(p) => {
                let s = p.stats();
                (s.total_dispatched, s.total_dropped, s.workers.iter().map(|w| w.dropped).collect())
            }
        }
    }
    fn shutdown(&self) {
        match self {
            AnyPool::Tcp(p) => p.shutdown(),
            AnyPool::Http(p) => p.shutdown(),
            AnyPool::Tls(p) => p.shutdown(),
        }
    }
}
// SAFETY of sharing: the pools are designed for concurrent `dispatch(&self)`; TCP/TLS pools hold only
// Arc/atomics/Senders.
struct Shared(AnyPool);
unsafe impl Sync for Shared {}
unsafe impl Send for Shared {}

/// Run a real pool: `threads` dispatcher threads feed `lanes` (each lane in order), then sentinels.
pub fn run_pool_measured(kind: Kind, n: usize, queue: usize, batch: usize, timeout_ms: u64, max_conn: usize, lanes: Vec<Vec<Vec<u8>>>, r: &mut Rng) -> (bool, u64) {
    MEASURE.with(|m| m.set(true));
    let run = run_pool(kind, n, queue, batch, timeout_ms, max_conn, lanes, r);
    MEASURE.with(|m| m.set(false));
    (run.timed_out, LIVE_AT_QUIESCENCE.with(|l| l.get()))
}

thread_local! {
    static MEASURE: std::cell::Cell<bool> = const { std::cell::Cell::new(false) };
    static LIVE_AT_QUIESCENCE: std::cell::Cell<u64> = const { std::cell::Cell::new(0) };
}

/// Idle gaps in the dispatching lane: after every `LANE_GAP_EVERY` frames the lane sleeps `LANE_GAP_MS`
/// (several times the workers' receive timeout), so workers go idle in the middle of connections.
/// When set, results other than the sentinels' are counted but not kept (memory measurements must not
/// include the harness's own copy of the results).
pub static DISCARD_RESULTS: std::sync::atomic::AtomicBool = std::sync::atomic::AtomicBool::new(false);
pub static LANE_GAP_MS: std::sync::atomic::AtomicU64 = std::sync::atomic::AtomicU64::new(0);
pub static LANE_GAP_EVERY: std::sync::atomic::AtomicU64 = std::sync::atomic::AtomicU64::new(3);

pub fn run_pool(kind: Kind, n: usize, queue: usize, batch: usize, timeout_ms: u64, max_conn: usize, lanes: Vec<Vec<Vec<u8>>>, r: &mut Rng) -> PoolRun {
    freeze_clock();
    let sentinels = sentinel_sources(kind, n, r);
    let sentinel_ips: Vec<String> = sentinels.iter().map(|s| format!("{}", s.0)).collect();
    enum Rx {
        Tcp(mpsc::Receiver<huginn_net_tcp::TcpAnalysisResult>),
        Http(mpsc::Receiver<huginn_net_http::HttpAnalysisResult>),
        Tls(mpsc::Receiver<huginn_net_tls::TlsClientOutput>),
    }
    let (pool, rx) = match kind {
        Kind::Tcp => {
            let (tx, rx) = mpsc::channel();
            (AnyPool::Tcp(huginn_net_tcp::WorkerPool::new(n, queue, batch, timeout_ms, tx, None, max_conn, None).unwrap()), Rx::Tcp(rx))
        }
        Kind::Http => {
            let (tx, rx) = mpsc::channel();
            (AnyPool::Http(huginn_net_http::WorkerPool::new(n, queue, batch, timeout_ms, tx, None, max_conn, None).unwrap()), Rx::Http(rx))
        }
        Kind::Tls => {
            let (tx, rx) = mpsc::channel();
            (AnyPool::Tls(huginn_net_tls::WorkerPool::new(n, queue, batch, timeout_ms, tx, max_conn, None).unwrap()), Rx::Tls(rx))
        }
    };
    let shared = Arc::new(Shared(pool));
    let mut handles = vec![];
    for lane in lanes {
        let sh = Arc::clone(&shared);
        handles.push(std::thread::spawn(move || {
            let mut out = vec![];
            let gap = LANE_GAP_MS.load(std::sync::atomic::Ordering::SeqCst);
            let every = LANE_GAP_EVERY.load(std::sync::atomic::Ordering::SeqCst).max(1) as usize;
            for (i, f) in lane.into_iter().enumerate() {
                if gap > 0 && i > 0 && i % every == 0 {
                    std::thread::sleep(Duration::from_millis(gap));
                }
                let w = worker_of(kind, &f, n).unwrap_or(usize::MAX);
                let q = sh.0.dispatch(f);
                out.push((w, q));
            }
            out
        }));
    }
    let mut outcomes: Vec<(usize, bool)> = vec![];
    for h in handles {
        outcomes.extend(h.join().unwrap());
    }
    // sentinels (retry until queued: tiny queues may be momentarily full)
    let deadline = Instant::now() + Duration::from_secs(20);
    let mut timed_out = false;
    for (_, frames) in &sentinels {
        for f in frames {
            loop {
                let w = worker_of(kind, f, n).unwrap_or(usize::MAX);
                let q = shared.0.dispatch(f.clone());
                outcomes.push((w, q));
                if q {
                    break;
                }
                if Instant::now() > deadline {
                    timed_out = true;
                    break;
                }
                std::thread::sleep(Duration::from_micros(200));
            }
        }
    }
    let mut results: Vec<KD> = vec![];
    let mut seen = 0usize;
    while seen < sentinels.len() && !timed_out {
        let left = deadline.saturating_duration_since(Instant::now());
        if left.is_zero() {
            timed_out = true;
            break;
        }
        let kd = match &rx {
            Rx::Tcp(rx) => rx.recv_timeout(left).ok().map(|o| tcp_kd(&o)),
            Rx::Http(rx) => rx.recv_timeout(left).ok().map(|o| http_kd(&o)),
            Rx::Tls(rx) => rx.recv_timeout(left).ok().map(|o| tls_kd(&o)),
        };
        match kd {
            None => {
                timed_out = true;
            }
            Some(None) => {}
            Some(Some(kd)) => {
                if sentinel_ips.iter().any(|ip| kd.0.starts_with(&format!("{ip}:")) || kd.0 == *ip) {
                    seen += 1;
                } else if !DISCARD_RESULTS.load(std::sync::atomic::Ordering::SeqCst) {
                    results.push(kd);
                }
            }
        }
    }
    if MEASURE.with(|m| m.get()) {
        LIVE_AT_QUIESCENCE.with(|l| l.set(crate::alloc::snapshot().1));
    }
    let (dispatched, dropped, wdropped) = shared.0.stats();
    shared.0.shutdown();
    PoolRun { results, sentinel_results: seen, outcomes, dispatched, dropped, wdropped, timed_out }
}

pub fn group(rs: &[KD]) -> String {
    let mut m: BTreeMap<&str, Vec<&str>> = BTreeMap::new();
    for (k, d) in rs {
        m.entry(k).or_default().push(d);
    }
    m.iter().map(|(k, v)| format!("{}={}", k, v.join(";"))).collect::<Vec<_>>().join("|")
}

pub fn conns_for(kind: Kind, r: &mut Rng) -> Vec<Conn> {
    let v6 = r.chance(1, 5);
    let n = r.range(2, 8) as usize;
    let eps = endpoints(r, n, v6);
    eps.into_iter()
        .map(|e| match kind {
            Kind::Tcp => tcp_conn(r, e),
            Kind::Http => http_conn(r, e),
            Kind::Tls => {
                let (c, s) = e;
                let mut segs = vec![];
                let h = net::client_hello(r);
                let k = r.range(1, 3) as usize;
                let mut seq = 1u32;
                for p in net::split_random(r, &h, k) {
                    let mut g = Seg::new(c, s, ACK | PSH);
                    g.seq = seq;
                    seq = seq.wrapping_add(p.len() as u32);
                    g.payload = p;
                    segs.push(g);
                }
                Conn { client: c, server: s, segs, kind: "tls" }
            }
        })
        .collect()
}

/// Round-robin interleaving: every connection is live at the same time.
pub fn round_robin(conns: &[Conn]) -> Vec<(usize, usize)> {
    let mut out = vec![];
    let maxlen = conns.iter().map(|c| c.segs.len()).max().unwrap_or(0);
    for i in 0..maxlen {
        for (c, conn) in conns.iter().enumerate() {
            if i < conn.segs.len() {
                out.push((c, i));
            }
        }
    }
    out
}

pub fn run(ctx: &mut Ctx) {
    let mut r = ctx.rng.fork();
    let rounds = ctx.n(40, 600);
    for round in 0..rounds {
        for kind in [Kind::Tcp, Kind::Http, Kind::Tls] {
            let n = *r.pick(&[1usize, 2, 3, 4, 8, 16]);
            // every third round: connection capacity exactly as large as the sequential analyzer needs, all
            // connections concurrently live and (as far as the public hash lets us choose) on ONE worker —
            // "within the configured connection capacity" must mean the same in parallel mode
            let tight = round % 3 == 2;
            let mut conns = conns_for(kind, &mut r);
            if tight && n > 1 {
                let mut same: Vec<Conn> = vec![];
                let mut guard = 0;
                while same.len() < 5 && guard < 400 {
                    guard += 1;
                    for c in conns_for(kind, &mut r) {
                        let f0 = net::eth_bytes(&c.segs[0]);
                        let dup = same.iter().any(|x| (x.client == c.client && x.server == c.server) || (x.client == c.server && x.server == c.client));
                        if !dup && worker_of(kind, &f0, n) == Some(0) && same.len() < 5 {
                            same.push(c);
                        }
                    }
                }
                if same.len() >= 3 {
                    conns = same;
                }
            }
            let order = if tight { round_robin(&conns) } else { interleave(&mut r, &conns) };
            let frames: Vec<Vec<u8>> = order.iter().map(|&(c, i)| net::eth_bytes(&conns[c].segs[i])).collect();
            let max_conn = if tight { conns.len() * if kind == Kind::Tcp { 4 } else { 1 } } else { 1000 };
            let seq = sequential(kind, &frames, max_conn);
            let batch = *r.pick(&[1usize, 8, 32]);
            // every fourth round: the dispatcher pauses for 8x the workers' receive timeout every few
            // frames, so workers time out idle in the middle of connections (state must survive)
            let gaps = round % 4 == 1;
            let timeout = if gaps { 1 } else { *r.pick(&[1u64, 10]) };
            LANE_GAP_MS.store(if gaps { 8 } else { 0 }, std::sync::atomic::Ordering::SeqCst);
            LANE_GAP_EVERY.store(r.range(2, 5), std::sync::atomic::Ordering::SeqCst);
            let run = run_pool(kind, n, frames.len() + 64, batch, timeout, max_conn, vec![frames.clone()], &mut r);
            LANE_GAP_MS.store(0, std::sync::atomic::Ordering::SeqCst);
            let mut l = Line::op("C10.pool");
            l.tok(&format!("{}{}{}", kind.name(), if tight { "-tightcap" } else { "" }, if gaps { "-gaps" } else { "" })).usize(n).usize(batch).nat(timeout).usize(frames.len()).usize(conns.len());
            l.usize(seq.len());
            l.text(&group(&seq));
            let all_queued = run.outcomes.iter().all(|o| o.1);
            let out = if run.timed_out {
                "TIMEOUT".to_string()
            } else if !all_queued {
                "OVERFLOW".to_string()
            } else {
                format!("{} {}", run.results.len(), group(&run.results))
            };
            ctx.emit(l.finish(&out));
        }
    }
    run_pcap(ctx);
    if std::env::var("HVH_C10_WITH_ACCT").is_ok() {
        run_acct(ctx); // normally emitted by the C18 module
    }
    huginn_net_tcp::uptime::VERIF_CLOCK_MS.store(u64::MAX, std::sync::atomic::Ordering::SeqCst);
}

fn write_pcap(path: &std::path::Path, frames: &[Vec<u8>]) {
    let mut b: Vec<u8> = vec![];
    b.extend_from_slice(&0xa1b2c3d4u32.to_le_bytes());
    b.extend_from_slice(&2u16.to_le_bytes());
    b.extend_from_slice(&4u16.to_le_bytes());
    b.extend_from_slice(&0u32.to_le_bytes());
    b.extend_from_slice(&0u32.to_le_bytes());
    b.extend_from_slice(&65535u32.to_le_bytes());
    b.extend_from_slice(&1u32.to_le_bytes()); // LINKTYPE_ETHERNET
    for (i, f) in frames.iter().enumerate() {
        b.extend_from_slice(&(1_700_000_000u32 + i as u32).to_le_bytes());
        b.extend_from_slice(&0u32.to_le_bytes());
        b.extend_from_slice(&(f.len() as u32).to_le_bytes());
        b.extend_from_slice(&(f.len() as u32).to_le_bytes());
        b.extend_from_slice(f);
    }
    std::fs::write(path, b).unwrap();
}

fn drain<T>(rx: mpsc::Receiver<T>, f: impl Fn(&T) -> Option<KD>) -> (Vec<KD>, bool) {
    let deadline = Instant::now() + Duration::from_secs(20);
    let mut out = vec![];
    loop {
        let left = deadline.saturating_duration_since(Instant::now());
        if left.is_zero() {
            return (out, true);
        }
        match rx.recv_timeout(left) {
            Ok(o) => out.extend(f(&o)),
            Err(mpsc::RecvTimeoutError::Disconnected) => return (out, false),
            Err(mpsc::RecvTimeoutError::Timeout) => return (out, true),
        }
    }
}

/// The analyzers' own parallel path (`with_config` + `init_pool` + `analyze_pcap`), whose end-of-input
/// behaviour is part of the property, against their sequential path on the same capture file.
fn run_pcap(ctx: &mut Ctx) {
    let mut r = ctx.rng.fork();
    let dir = std::env::temp_dir().join(format!("hvh-c10-{}", std::process::id()));
    std::fs::create_dir_all(&dir).unwrap();
    let rounds = ctx.n(10, 120);
    for k in 0..rounds {
        for kind in [Kind::Tcp, Kind::Http, Kind::Tls] {
            freeze_clock();
            let conns = conns_for(kind, &mut r);
            let order = interleave(&mut r, &conns);
            let frames: Vec<Vec<u8>> = order.iter().map(|&(c, i)| net::eth_bytes(&conns[c].segs[i])).collect();
            let path = dir.join(format!("t{k}.pcap"));
            write_pcap(&path, &frames);
            let ps = path.to_str().unwrap();
            let n = *r.pick(&[1usize, 2, 4, 8]);
            let q = frames.len() + 16;
            let (seq, par, to) = match kind {
                Kind::Tcp => {
                    let (tx, rx) = mpsc::channel();
                    let mut a = huginn_net_tcp::HuginnNetTcp::new(None, 1000).unwrap();
                    let _ = a.analyze_pcap(ps, tx, None);
                    drop(a);
                    let (seq, t1) = drain(rx, tcp_kd);
                    let (tx, rx) = mpsc::channel();
                    let mut a = huginn_net_tcp::HuginnNetTcp::with_config(None, 1000, n, q, 8, 5).unwrap();
                    a.init_pool(tx.clone()).unwrap();
                    let _ = a.analyze_pcap(ps, tx, None);
                    drop(a);
                    let (par, t2) = drain(rx, tcp_kd);
                    (seq, par, t1 || t2)
                }
                Kind::Http => {
                    let (tx, rx) = mpsc::channel();
                    let mut a = huginn_net_http::HuginnNetHttp::new(None, 1000).unwrap();
                    let _ = a.analyze_pcap(ps, tx, None);
                    drop(a);
                    let (seq, t1) = drain(rx, http_kd);
                    let (tx, rx) = mpsc::channel();
                    let mut a = huginn_net_http::HuginnNetHttp::with_config(None, 1000, n, q, 8, 5).unwrap();
                    a.init_pool(tx.clone()).unwrap();
                    let _ = a.analyze_pcap(ps, tx, None);
                    drop(a);
                    let (par, t2) = drain(rx, http_kd);
                    (seq, par, t1 || t2)
                }
                Kind::Tls => {
                    let (tx, rx) = mpsc::channel();
                    let mut a = huginn_net_tls::HuginnNetTls::new(1000);
                    let _ = a.analyze_pcap(ps, tx, None);
                    drop(a);
                    let (seq, t1) = drain(rx, tls_kd);
                    let (tx, rx) = mpsc::channel();
                    let mut a = huginn_net_tls::HuginnNetTls::with_config(n, q, 8, 5);
                    a.init_pool(tx.clone()).unwrap();
                    let _ = a.analyze_pcap(ps, tx, None);
                    drop(a);
                    let (par, t2) = drain(rx, tls_kd);
                    (seq, par, t1 || t2)
                }
            };
            let _ = std::fs::remove_file(&path);
            let mut l = Line::op("C10.pool");
            l.tok(&format!("pcap-{}", kind.name())).usize(n).usize(8).nat(5u8).usize(frames.len()).usize(conns.len());
            l.usize(seq.len());
            l.text(&group(&seq));
            let out = if to { "TIMEOUT".to_string() } else { format!("{} {}", par.len(), group(&par)) };
            ctx.emit(l.finish(&out));
        }
    }
    let _ = std::fs::remove_dir_all(&dir);
}

/// C15 in parallel mode: the analyzers' own `with_config` + `with_filter` + `init_pool` + `analyze_pcap`
/// path against their sequential filtered path on the same capture (called from the C15 module).
/// The capture is long enough for a backlog to exist when `analyze_pcap` calls `shutdown()`.
pub fn run_pcap_filtered(ctx: &mut Ctx) {
    let mut r = ctx.rng.fork();
    let dir = std::env::temp_dir().join(format!("hvh-c15p-{}", std::process::id()));
    std::fs::create_dir_all(&dir).unwrap();
    let rounds = ctx.n(6, 60);
    for k in 0..rounds {
        for kind in [Kind::Tcp, Kind::Http, Kind::Tls] {
            freeze_clock();
            let mut conns: Vec<Conn> = vec![];
            // every other round: a long capture, so that a backlog exists in the worker queues when
            // analyze_pcap reaches its end and calls shutdown()
            let batches = if k % 2 == 0 { 6 } else { 120 };
            for _ in 0..batches {
                conns.extend(conns_for(kind, &mut r));
            }
            // distinct 4-tuples only
            let mut uniq: Vec<Conn> = vec![];
            for c in conns {
                if !uniq.iter().any(|x| (x.client == c.client && x.server == c.server) || (x.client == c.server && x.server == c.client)) {
                    uniq.push(c);
                }
            }
            let conns = uniq;
            let order = interleave(&mut r, &conns);
            let mut frames: Vec<Vec<u8>> = order.iter().map(|&(c, i)| net::eth_bytes(&conns[c].segs[i])).collect();
            // odd rounds, HTTP: put a slow-to-analyse admitted flow first (a 48 KiB request head in 96-byte segments:
            // the flow is re-assembled and re-parsed on every segment), so that the rest of the capture is still
            // queued when analyze_pcap ends
            let mut slow_port: Option<u16> = None;
            if k % 2 == 1 && kind == Kind::Http {
                let c = (net::v4(0x0a77_0001), 47000);
                let s = (net::v4(0x0a77_0002), 8088);
                let mut head = b"GET /slow HTTP/1.1\r\nHost: slow\r\n".to_vec();
                while head.len() < 48 * 1024 {
                    head.extend_from_slice(format!("X-Pad-{}: {}\r\n", head.len(), "p".repeat(60)).as_bytes());
                }
                head.extend_from_slice(b"\r\n");
                let mut pre = vec![net::eth_bytes(&Seg::new(c, s, SYN))];
                let mut seq = 1001u32;
                for chunk in head.chunks(96) {
                    let mut g = Seg::new(c, s, ACK | PSH);
                    g.seq = seq;
                    seq = seq.wrapping_add(chunk.len() as u32);
                    g.payload = chunk.to_vec();
                    pre.push(net::eth_bytes(&g));
                }
                pre.extend(frames);
                frames = pre;
                slow_port = Some(8088);
            }
            let path = dir.join(format!("f{k}.pcap"));
            write_pcap(&path, &frames);
            let ps = path.to_str().unwrap();
            // a filter that splits the trace: one of the server ports in use
            let port = slow_port.unwrap_or(conns[r.below(conns.len() as u64) as usize].server.1);
            let deny = if slow_port.is_some() { false } else { r.chance(1, 2) };
            let n = if k % 2 == 0 { *r.pick(&[1usize, 2, 4]) } else { 1 };
            let q = frames.len() + 16;
            macro_rules! filt {
                ($k:ident) => {{
                    let f = $k::FilterConfig::new().with_port_filter($k::PortFilter::new().destination(port));
                    if deny {
                        f.mode($k::FilterMode::Deny)
                    } else {
                        f
                    }
                }};
            }
            let (seq, par, to) = match kind {
                Kind::Tcp => {
                    let (tx, rx) = mpsc::channel();
                    let mut a = huginn_net_tcp::HuginnNetTcp::new(None, 1000).unwrap().with_filter(filt!(huginn_net_tcp));
                    let _ = a.analyze_pcap(ps, tx, None);
                    drop(a);
                    let (seq, t1) = drain(rx, tcp_kd);
                    let (tx, rx) = mpsc::channel();
                    let mut a = huginn_net_tcp::HuginnNetTcp::with_config(None, 1000, n, q, 8, 5).unwrap().with_filter(filt!(huginn_net_tcp));
                    a.init_pool(tx.clone()).unwrap();
                    let _ = a.analyze_pcap(ps, tx, None);
                    drop(a);
                    let (par, t2) = drain(rx, tcp_kd);
                    (seq, par, t1 || t2)
                }
                Kind::Http => {
                    let (tx, rx) = mpsc::channel();
                    let mut a = huginn_net_http::HuginnNetHttp::new(None, 1000).unwrap().with_filter(filt!(huginn_net_http));
                    let _ = a.analyze_pcap(ps, tx, None);
                    drop(a);
                    let (seq, t1) = drain(rx, http_kd);
                    let (tx, rx) = mpsc::channel();
                    let mut a = huginn_net_http::HuginnNetHttp::with_config(None, 1000, n, q, 8, 5).unwrap().with_filter(filt!(huginn_net_http));
                    a.init_pool(tx.clone()).unwrap();
                    let _ = a.analyze_pcap(ps, tx, None);
                    drop(a);
                    let (par, t2) = drain(rx, http_kd);
                    (seq, par, t1 || t2)
                }
                Kind::Tls => {
                    let (tx, rx) = mpsc::channel();
                    let mut a = huginn_net_tls::HuginnNetTls::new(1000).with_filter(filt!(huginn_net_tls));
                    let _ = a.analyze_pcap(ps, tx, None);
                    drop(a);
                    let (seq, t1) = drain(rx, tls_kd);
                    let (tx, rx) = mpsc::channel();
                    let mut a = huginn_net_tls::HuginnNetTls::with_config(n, q, 8, 5).with_filter(filt!(huginn_net_tls));
                    a.init_pool(tx.clone()).unwrap();
                    let _ = a.analyze_pcap(ps, tx, None);
                    drop(a);
                    let (par, t2) = drain(rx, tls_kd);
                    (seq, par, t1 || t2)
                }
            };
            let _ = std::fs::remove_file(&path);
            let mut l = Line::op("C15.par");
            l.tok(kind.name()).usize(n).nat(port).bool(deny).usize(frames.len());
            l.usize(seq.len());
            l.text(&group(&seq));
            let out = if to { "TIMEOUT".to_string() } else { format!("{} {}", par.len(), group(&par)) };
            ctx.emit(l.finish(&out));
            // the pool API itself: dispatch everything, call shutdown() at once (a backlog is still queued), collect
            // until the workers have exited; what was queued must be analysed WITH the filter
            let (par2, to2) = match kind {
                Kind::Tcp => {
                    let (tx, rx) = mpsc::channel();
                    let pool = huginn_net_tcp::WorkerPool::new(n, q, 8, 5, tx, None, 1000, Some(filt!(huginn_net_tcp))).unwrap();
                    for f in &frames {
                        let _ = pool.dispatch(f.clone());
                    }
                    pool.shutdown();
                    drop(pool);
                    drain(rx, tcp_kd)
                }
                Kind::Http => {
                    let (tx, rx) = mpsc::channel();
                    let pool = huginn_net_http::WorkerPool::new(n, q, 8, 5, tx, None, 1000, Some(filt!(huginn_net_http))).unwrap();
                    for f in &frames {
                        let _ = pool.dispatch(f.clone());
                    }
                    pool.shutdown();
                    drop(pool);
                    drain(rx, http_kd)
                }
                Kind::Tls => {
                    let (tx, rx) = mpsc::channel();
                    let pool = huginn_net_tls::WorkerPool::new(n, q, 8, 5, tx, 1000, Some(filt!(huginn_net_tls))).unwrap();
                    for f in &frames {
                        let _ = pool.dispatch(f.clone());
                    }
                    pool.shutdown();
                    drop(pool);
                    drain(rx, tls_kd)
                }
            };
            let mut l = Line::op("C15.par");
            l.tok(&format!("{}-shutdown", kind.name())).usize(n).nat(port).bool(deny).usize(frames.len());
            l.usize(seq.len());
            l.text(&group(&seq));
            let out = if to2 { "TIMEOUT".to_string() } else { format!("{} {}", par2.len(), group(&par2)) };
            ctx.emit(l.finish(&out));
        }
    }
    let _ = std::fs::remove_dir_all(&dir);
}

/// C18 accounting: tiny queues, concurrent dispatchers; counters vs outcomes vs results.
/// `C18.shut`: dispatch calls made after `shutdown()` — every packet handed to a pool is either queued and
/// analysed, or reported dropped AND counted in the drop statistics; that includes the ones refused because
/// the pool is shutting down.
pub fn run_shutdown_acct(ctx: &mut Ctx) {
    let mut r = ctx.rng.fork();
    let rounds = ctx.n(4, 40);
    for _ in 0..rounds {
        for kind in [Kind::Tcp, Kind::Http, Kind::Tls] {
            let n = *r.pick(&[1usize, 2, 4]);
            let pre = r.range(0, 6) as usize;
            let post = r.range(1, 9) as usize;
            let pool = match kind {
                Kind::Tcp => {
                    let (tx, rx) = mpsc::channel();
                    std::mem::forget(rx);
                    AnyPool::Tcp(huginn_net_tcp::WorkerPool::new(n, 256, 8, 2, tx, None, 1000, None).unwrap())
                }
                Kind::Http => {
                    let (tx, rx) = mpsc::channel();
                    std::mem::forget(rx);
                    AnyPool::Http(huginn_net_http::WorkerPool::new(n, 256, 8, 2, tx, None, 1000, None).unwrap())
                }
                Kind::Tls => {
                    let (tx, rx) = mpsc::channel();
                    std::mem::forget(rx);
                    AnyPool::Tls(huginn_net_tls::WorkerPool::new(n, 256, 8, 2, tx, 1000, None).unwrap())
                }
            };
            let mut frames = |k: usize, base: u32, r: &mut Rng| -> Vec<Vec<u8>> {
                (0..k).flat_map(|i| sentinel_frames(kind, net::v4(base + i as u32), r)).collect()
            };
            let pre_frames = frames(pre, 0x0c00_0000, &mut r);
            let post_frames = frames(post, 0x0c10_0000, &mut r);
            let q_pre = pre_frames.iter().filter(|f| pool.dispatch((*f).clone())).count();
            pool.shutdown();
            let q_post = post_frames.iter().filter(|f| pool.dispatch((*f).clone())).count();
            let (d, x, _) = pool.stats();
            let mut l = Line::op("C18.shut");
            l.tok(kind.name()).usize(n).usize(pre_frames.len()).usize(post_frames.len());
            ctx.emit(l.finish(&format!("qpre={} qpost={} d={} x={}", q_pre, q_post, d, x)));
        }
    }
}

pub fn run_acct(ctx: &mut Ctx) {
    run_shutdown_acct(ctx);
    let mut r = ctx.rng.fork();
    let rounds = ctx.n(30, 400);
    for _ in 0..rounds {
        for kind in [Kind::Tcp, Kind::Http, Kind::Tls] {
            let n = *r.pick(&[1usize, 2, 3, 5, 8]);
            let queue = *r.pick(&[0usize, 1, 2, 4]);
            let threads = r.range(1, 8) as usize;
            let per = r.range(5, 60) as usize;
            // every flow yields exactly one result when all of its frames are queued in order
            let mut lanes: Vec<Vec<Vec<u8>>> = vec![];
            let mut flow_frames: Vec<usize> = vec![]; // frames per flow (all flows of a kind alike)
            let mut nontcp = 0usize;
            for t in 0..threads {
                let mut lane = vec![];
                for i in 0..per {
                    let src = net::v4(0x0b00_0000 + (t as u32) * 4096 + i as u32);
                    let fr = sentinel_frames(kind, src, &mut r);
                    flow_frames.push(fr.len());
                    lane.extend(fr);
                    if kind != Kind::Tls && r.chance(1, 10) {
                        // a non-TCP frame: queued, and the worker's analysis returns an error for it. No pool
                        // counts that as a drop (regression of KF.C18.httpWorkerErrCountedDropped, repaired by
                        // fixes/C18-http-worker-error-not-a-drop.patch; the TLS hasher refuses such frames)
                        let mut g = Seg::new((src, 1), (net::v4(1), 2), ACK);
                        g.payload = vec![1, 2, 3];
                        let mut f = net::eth_bytes(&g);
                        f[14 + 9] = 17;
                        lane.push(f);
                        nontcp += 1;
                    }
                }
                lanes.push(lane);
            }
            let lane_frames: Vec<Vec<Vec<u8>>> = lanes.clone();
            let run = run_pool(kind, n, queue, *r.pick(&[1usize, 8]), *r.pick(&[1u64, 5]), 100_000, lanes, &mut r);
            // expected number of results from the outcomes: per flow, the frames are consecutive in their lane
            let mut l = Line::op("C18.acct");
            l.tok(kind.name()).usize(n).usize(queue).usize(threads);
            // outcomes in lane order then sentinel order; per frame: worker (n = unroutable), queued,
            // frame class (0 = first frame of a flow, 1 = second frame (HTTP request), 2 = non-TCP) and flow id
            let mut meta: Vec<(u8, u32)> = vec![];
            let mut flow = 0u32;
            for lane in &lane_frames {
                let mut k = 0;
                while k < lane.len() {
                    let f = &lane[k];
                    let is_nontcp = kind != Kind::Tls && f.len() > 23 && f[23] == 17;
                    if is_nontcp {
                        meta.push((2, u32::MAX));
                        k += 1;
                    } else if kind == Kind::Http {
                        meta.push((0, flow));
                        meta.push((1, flow));
                        flow += 1;
                        k += 2;
                    } else {
                        meta.push((0, flow));
                        flow += 1;
                        k += 1;
                    }
                }
            }
            // sentinel dispatches follow: each frame of a sentinel flow is retried until queued
            let tail = &run.outcomes[meta.len()..];
            let mut cls = 0u8;
            for o in tail {
                meta.push((cls, flow));
                if o.1 {
                    if kind == Kind::Http && cls == 0 {
                        cls = 1;
                    } else {
                        cls = 0;
                        flow += 1;
                    }
                }
            }
            let oc: Vec<(usize, bool, u8, u32)> = run.outcomes.iter().zip(meta.iter()).map(|(o, m)| (o.0.min(n), o.1, m.0, m.1)).collect();
            l.list(&oc, |l, o| {
                l.usize(o.0).bool(o.1).nat(o.2).nat(o.3);
            });
            let _ = nontcp;
            let out = if run.timed_out {
                "TIMEOUT".to_string()
            } else {
                format!(
                    "d={} x={} w={} r={}",
                    run.dispatched,
                    run.dropped,
                    run.wdropped.iter().map(|x| x.to_string()).collect::<Vec<_>>().join(","),
                    run.results.len() + run.sentinel_results
                )
            };
            ctx.emit(l.finish(&out));
        }
    }
}
