//! Shared by c04.rs and c08.rs (included with `#[path]`): an abstract, RFC-shaped ClientHello, its
//! wire encoder (written here independently of the Lean `Spec.encode`; the driver checks they agree on
//! every case), its line-protocol tokens, and structured generators.
#![allow(dead_code)]
use crate::rng::Rng;
use crate::wr::Line;

#[derive(Clone, Debug)]
pub enum Ext {
    ServerName(Vec<(u8, Vec<u8>)>),
    Alpn(Vec<Vec<u8>>),
    SupportedVersions(Vec<u16>),
    SigAlgs(Vec<u16>),
    Groups(Vec<u16>),
    EcPointFormats(Vec<u8>),
    Other(u16, Vec<u8>),
}

#[derive(Clone, Debug)]
pub struct Hello {
    pub record_version: u16,
    pub legacy_version: u16,
    pub random: Vec<u8>,
    pub session_id: Vec<u8>,
    pub ciphers: Vec<u16>,
    pub compression: Vec<u8>,
    pub extensions: Option<Vec<Ext>>,
}

/// fingerprints may contain arbitrary ASCII (first/last ALPN byte): keep the line protocol printable
pub fn esc(s: &str) -> String {
    let mut o = String::with_capacity(s.len());
    for c in s.chars() {
        if ('!'..='~').contains(&c) && c != '\\' {
            o.push(c);
        } else {
            o.push_str(&format!("\\u{{{:x}}}", c as u32));
        }
    }
    o
}

pub const GREASE: [u16; 16] = [
    0x0a0a, 0x1a1a, 0x2a2a, 0x3a3a, 0x4a4a, 0x5a5a, 0x6a6a, 0x7a7a, 0x8a8a, 0x9a9a, 0xaaaa, 0xbaba,
    0xcaca, 0xdada, 0xeaea, 0xfafa,
];

fn p16(v: &mut Vec<u8>, n: usize) {
    v.push((n >> 8) as u8);
    v.push(n as u8);
}
fn vec16(v: &mut Vec<u8>, b: &[u8]) {
    p16(v, b.len());
    v.extend_from_slice(b);
}
fn vec8(v: &mut Vec<u8>, b: &[u8]) {
    v.push(b.len() as u8);
    v.extend_from_slice(b);
}
fn u16s(xs: &[u16]) -> Vec<u8> {
    xs.iter().flat_map(|x| x.to_be_bytes()).collect()
}

impl Ext {
    pub fn ty(&self) -> u16 {
        match self {
            Ext::ServerName(_) => 0,
            Ext::Alpn(_) => 16,
            Ext::SupportedVersions(_) => 43,
            Ext::SigAlgs(_) => 13,
            Ext::Groups(_) => 10,
            Ext::EcPointFormats(_) => 11,
            Ext::Other(t, _) => *t,
        }
    }
    pub fn body(&self) -> Vec<u8> {
        let mut v = Vec::new();
        match self {
            Ext::ServerName(names) => {
                let mut l = Vec::new();
                for (t, h) in names {
                    l.push(*t);
                    vec16(&mut l, h);
                }
                vec16(&mut v, &l);
            }
            Ext::Alpn(ps) => {
                let mut l = Vec::new();
                for p in ps {
                    vec8(&mut l, p);
                }
                vec16(&mut v, &l);
            }
            Ext::SupportedVersions(vs) => vec8(&mut v, &u16s(vs)),
            Ext::SigAlgs(xs) | Ext::Groups(xs) => vec16(&mut v, &u16s(xs)),
            Ext::EcPointFormats(f) => vec8(&mut v, f),
            Ext::Other(_, b) => v.extend_from_slice(b),
        }
        v
    }
    pub fn encode(&self, v: &mut Vec<u8>) {
        p16(v, self.ty() as usize);
        vec16(v, &self.body());
    }
    pub fn tokens(&self, l: &mut Line) {
        match self {
            Ext::ServerName(names) => {
                l.nat(0u8);
                l.list(names, |l, (t, h)| {
                    l.nat(*t);
                    l.bytes(h);
                });
            }
            Ext::Alpn(ps) => {
                l.nat(1u8);
                l.list(ps, |l, p| {
                    l.bytes(p);
                });
            }
            Ext::SupportedVersions(vs) => {
                l.nat(2u8);
                l.list(vs, |l, x| {
                    l.nat(*x);
                });
            }
            Ext::SigAlgs(xs) => {
                l.nat(3u8);
                l.list(xs, |l, x| {
                    l.nat(*x);
                });
            }
            Ext::Groups(xs) => {
                l.nat(4u8);
                l.list(xs, |l, x| {
                    l.nat(*x);
                });
            }
            Ext::EcPointFormats(f) => {
                l.nat(5u8);
                l.bytes(f);
            }
            Ext::Other(t, b) => {
                l.nat(6u8);
                l.nat(*t);
                l.bytes(b);
            }
        }
    }
}

impl Hello {
    pub fn body(&self) -> Vec<u8> {
        let mut v = Vec::new();
        p16(&mut v, self.legacy_version as usize);
        v.extend_from_slice(&self.random);
        vec8(&mut v, &self.session_id);
        vec16(&mut v, &u16s(&self.ciphers));
        vec8(&mut v, &self.compression);
        if let Some(es) = &self.extensions {
            let mut e = Vec::new();
            for x in es {
                x.encode(&mut e);
            }
            vec16(&mut v, &e);
        }
        v
    }
    /// one handshake record holding one client_hello message
    pub fn encode(&self) -> Vec<u8> {
        let b = self.body();
        let mut hs = vec![1u8, (b.len() >> 16) as u8, (b.len() >> 8) as u8, b.len() as u8];
        hs.extend_from_slice(&b);
        let mut v = vec![22u8];
        p16(&mut v, self.record_version as usize);
        vec16(&mut v, &hs);
        v
    }
    /// does the encoding fit the length fields (u24 body, u16 record)?
    pub fn fits(&self) -> bool {
        let b = self.body();
        let ext_ok = match &self.extensions {
            Some(es) => {
                let mut e = Vec::new();
                for x in es {
                    if x.body().len() > 65535 {
                        return false;
                    }
                    x.encode(&mut e);
                }
                e.len() <= 65535
            }
            None => true,
        };
        ext_ok && b.len() + 4 <= 65535 && self.session_id.len() <= 255 && self.compression.len() <= 255 && self.ciphers.len() <= 32767
    }
    pub fn tokens(&self, l: &mut Line) {
        l.nat(self.record_version);
        l.nat(self.legacy_version);
        l.bytes(&self.random);
        l.bytes(&self.session_id);
        l.list(&self.ciphers, |l, c| {
            l.nat(*c);
        });
        l.bytes(&self.compression);
        match &self.extensions {
            None => {
                l.nat(0u8);
            }
            Some(es) => {
                l.nat(1u8);
                l.list(es, |l, e| e.tokens(l));
            }
        }
    }
}

// ------------------------------------------------------------------------------------------ generators

pub const CIPHERS: [u16; 24] = [
    0x1301, 0x1302, 0x1303, 0xc02b, 0xc02f, 0xc02c, 0xc030, 0xcca9, 0xcca8, 0xc013, 0xc014, 0x009c,
    0x009d, 0x002f, 0x0035, 0x000a, 0x00ff, 0x5600, 0x0000, 0xffff, 0x0a0b, 0x1a1b, 0x0001, 0xc0ff,
];
const SIGALGS: [u16; 12] =
    [0x0403, 0x0804, 0x0401, 0x0503, 0x0805, 0x0501, 0x0806, 0x0601, 0x0201, 0x0203, 0x0807, 0x0808];
const GROUPS: [u16; 8] = [0x001d, 0x0017, 0x0018, 0x0019, 0x0100, 0x0101, 0x6399, 0x11ec];
const ALPNS: [&[u8]; 10] =
    [b"h2", b"http/1.1", b"h3", b"spdy/3.1", b"http/1.0", b"dot", b"imap", b"acme-tls/1", b"h2c", b"xx"];
const HOSTS: [&[u8]; 5] = [b"example.com", b"a.b", b"localhost", b"xn--bcher-kva.example", b"x"];

/// extension types tls-parser has a body parser for (besides the six decoded ones), with a body it accepts
pub fn known_ext(r: &mut Rng, ty: u16) -> Ext {
    let n = r.below(12) as usize;
    let body: Vec<u8> = match ty {
        1 => vec![r.range(1, 4) as u8],
        5 => {
            if r.chance(1, 4) {
                vec![]
            } else {
                vec![1, 0, 0, 0, 0]
            }
        }
        15 => vec![r.range(1, 2) as u8],
        18 => {
            if r.chance(1, 2) {
                vec![]
            } else {
                let b = r.bytes(n);
                let mut v = Vec::new();
                vec16(&mut v, &b);
                v
            }
        }
        21 => vec![0; r.below(40) as usize],
        22 | 23 | 49 | 13172 => vec![],
        28 => vec![0x40, 0x01],
        35 | 40 | 41 | 44 | 51 => r.bytes(n),
        42 => {
            if r.chance(1, 2) {
                vec![]
            } else {
                r.bytes(4)
            }
        }
        45 => {
            let b = rbytes(r, 1, 2);
            let mut v = Vec::new();
            vec8(&mut v, &b);
            v
        }
        48 => {
            let mut v = Vec::new();
            vec16(&mut v, &[]);
            v
        }
        0xff01 => {
            let b = rbytes(r, 0, 2);
            let mut v = Vec::new();
            vec8(&mut v, &b);
            v
        }
        0xffce => {
            let mut v = r.bytes(4);
            for _ in 0..3 {
                let b = rbytes(r, 0, 5);
                vec16(&mut v, &b);
            }
            v
        }
        _ => r.bytes(n),
    };
    Ext::Other(ty, body)
}

pub const KNOWN_OTHER: [u16; 26] = [
    1, 5, 15, 18, 21, 22, 23, 28, 35, 40, 41, 42, 44, 45, 48, 49, 51, 13172, 0xff01, 0xffce, 17, 27, 34, 50, 57, 0xfe0d,
];
const DECODED: [u16; 6] = [0, 10, 11, 13, 16, 43];

pub fn is_grease_like(t: u16) -> bool {
    t & 0x0f0f == 0x0a0a
}

/// a type tls-parser does not know and that is not GREASE-like
pub fn unknown_type(r: &mut Rng) -> u16 {
    loop {
        let t = match r.below(4) {
            0 => r.range(60, 400) as u16,
            1 => r.range(0xfe00, 0xfeff) as u16,
            _ => r.next() as u16,
        };
        if !is_grease_like(t) && !DECODED.contains(&t) && !KNOWN_OTHER.contains(&t) {
            return t;
        }
    }
}

pub fn rbytes(r: &mut Rng, lo: u64, hi: u64) -> Vec<u8> {
    let n = r.range(lo, hi) as usize;
    r.bytes(n)
}

pub fn shuffle<T>(r: &mut Rng, v: &mut [T]) {
    for i in (1..v.len()).rev() {
        let j = r.below(i as u64 + 1) as usize;
        v.swap(i, j);
    }
}

/// insert `k` GREASE values at random positions
pub fn sprinkle_grease(r: &mut Rng, v: &mut Vec<u16>, k: usize) {
    for _ in 0..k {
        let pos = r.below(v.len() as u64 + 1) as usize;
        v.insert(pos, *r.pick(&GREASE));
    }
}

#[derive(Clone, Copy, PartialEq)]
pub enum Profile {
    /// inside the well-formed domain and outside every known-finding class
    Clean,
    /// well-formed, anything (known-finding classes, spec-ambiguous ALPN, …) may occur
    Wide,
}

fn versions_list(r: &mut Rng, p: Profile) -> Vec<u16> {
    let mut v: Vec<u16> = match (p, r.below(8)) {
        (Profile::Clean, _) | (_, 0..=2) => {
            let mut v = vec![0x0304];
            for x in [0x0303u16, 0x0302, 0x0301, 0x0300] {
                if r.chance(1, 2) {
                    v.push(x);
                }
            }
            v
        }
        (_, 3) => vec![0x0303],
        (_, 4) => vec![0x0303, 0x0302, 0x0301],
        (_, 5) => vec![*r.pick(&[0x0305u16, 0x7f1c, 0x0002, 0x0200, 0xfeff, 0xfefd])],
        (_, 6) => vec![0x0305, 0x0304],
        _ => (0..r.range(1, 4)).map(|_| *r.pick(&[0x0304u16, 0x0303, 0x0302, 0x0301, 0x0300, 0x0002, 0x7f17])).collect(),
    };
    if r.chance(1, 2) {
        shuffle(r, &mut v);
    }
    let g = if p == Profile::Wide && r.chance(1, 12) { v.clear(); r.range(1, 2) } else { r.below(2) };
    sprinkle_grease(r, &mut v, g as usize);
    v
}

fn alpn_value(r: &mut Rng, p: Profile) -> Vec<u8> {
    if p == Profile::Clean || r.chance(3, 4) {
        return r.pick(&ALPNS).to_vec();
    }
    match r.below(11) {
        // first / last characters that are separators of the line protocols (found by a thorough-tier search seed:
        // a JA4 `…h;_…` split the C08 verdict line): every driver must escape them
        7 => b"h;".to_vec(),
        8 => b",b/".to_vec(),
        9 => b"x |".to_vec(),
        10 => b"#@ ".to_vec(),
        0 => vec![b'h'],                               // one byte: spec revisions differ
        1 => vec![b'h', 0xff, b'2'],                   // alnum ends, not UTF-8
        2 => "h\u{e9}2".as_bytes().to_vec(),           // valid UTF-8, non-ASCII inside
        3 => "\u{e9}t\u{e9}".as_bytes().to_vec(),      // non-ASCII ends
        4 => vec![0xab, 0xcd],                         // not alnum, not UTF-8
        5 => vec![b'-', b'x', b'_'],
        _ => "\u{e9}".as_bytes().to_vec(),             // one non-ASCII char
    }
}

pub fn gen_hello(r: &mut Rng, p: Profile) -> Hello {
    let wide = p == Profile::Wide;
    let legacy = if !wide || r.chance(5, 6) {
        *r.pick(&[0x0303u16, 0x0303, 0x0303, 0x0301, 0x0302, 0x0300, 0x0304])
    } else {
        *r.pick(&[0x0305u16, 0x0002, 0x0200, 0x0000, 0xffff, 0x7f12, 0x0403, 0xfeff, 0xfefd, 0x02ff])
    };
    // ciphers
    let nc = match r.below(10) {
        0 if wide => 0,
        0 | 1 => 1,
        2 => r.range(95, 120) as usize,
        _ => r.range(2, 20) as usize,
    };
    let mut ciphers: Vec<u16> = Vec::new();
    while ciphers.len() < nc {
        let c = if nc > CIPHERS.len() || r.chance(1, 6) { r.next() as u16 } else { *r.pick(&CIPHERS) };
        if !GREASE.contains(&c) && !ciphers.contains(&c) {
            ciphers.push(c);
        }
    }
    let g = match r.below(4) { 0 => 0, 1 => 1, 2 => 2, _ => r.below(5) };
    sprinkle_grease(r, &mut ciphers, g as usize);

    // extensions
    let extensions = if wide && r.chance(1, 14) {
        if r.chance(1, 2) { None } else { Some(vec![]) }
    } else {
        let mut es: Vec<Ext> = Vec::new();
        let with_sv = r.chance(3, 5);
        if r.chance(4, 5) {
            let n = if wide && r.chance(1, 10) { 2 } else { 1 };
            es.push(Ext::ServerName((0..n).map(|_| (0u8, r.pick(&HOSTS).to_vec())).collect()));
        }
        if r.chance(3, 4) {
            let n = r.range(1, 3);
            let mut ps: Vec<Vec<u8>> = (0..n).map(|_| r.pick(&ALPNS).to_vec()).collect();
            ps[0] = alpn_value(r, p);
            es.push(Ext::Alpn(ps));
        }
        if with_sv {
            es.push(Ext::SupportedVersions(versions_list(r, p)));
        }
        if r.chance(4, 5) {
            let n = if wide && r.chance(1, 10) { 0 } else { r.range(1, 10) };
            let mut xs: Vec<u16> = (0..n).map(|_| *r.pick(&SIGALGS)).collect();
            if r.chance(1, 4) {
                sprinkle_grease(r, &mut xs, 1);
            }
            es.push(Ext::SigAlgs(xs));
        }
        if r.chance(3, 4) {
            let mut xs: Vec<u16> = (0..r.range(1, 6)).map(|_| *r.pick(&GROUPS)).collect();
            if r.chance(1, 2) {
                sprinkle_grease(r, &mut xs, 1);
            }
            es.push(Ext::Groups(xs));
        }
        if r.chance(1, 2) {
            es.push(Ext::EcPointFormats(vec![0; r.range(1, 3) as usize]));
        }
        let n_other = match r.below(10) {
            0 => 0,
            1 => r.range(90, 118) as usize,
            _ => r.range(0, 12) as usize,
        };
        let mut seen: Vec<u16> = Vec::new();
        for _ in 0..n_other {
            let e = if n_other < 30 && r.chance(3, 5) {
                let t = *r.pick(&KNOWN_OTHER);
                known_ext(r, t)
            } else {
                let t = unknown_type(r);
                let n = r.below(9) as usize;
                Ext::Other(t, r.bytes(n))
            };
            if !seen.contains(&e.ty()) {
                seen.push(e.ty());
                es.push(e);
            }
        }
        if wide && r.chance(1, 12) {
            // only SNI / ALPN (the sorted extension list is then empty)
            es.retain(|e| e.ty() == 0 || e.ty() == 16);
        }
        if wide && r.chance(1, 10) {
            // a GREASE-like, non-GREASE type (tls-parser reports it as 0xfafa)
            let t = *r.pick(&[0x1a2au16, 0x0a1a, 0xfa0a, 0x2a3a, 0x0afa]);
            es.push(Ext::Other(t, r.bytes(3)));
        }
        shuffle(r, &mut es);
        let g = match r.below(4) { 0 => 0, 1 => 1, 2 => 2, _ => r.below(4) };
        for _ in 0..g {
            let pos = r.below(es.len() as u64 + 1) as usize;
            let n = r.below(3) as usize;
            es.insert(pos, Ext::Other(*r.pick(&GREASE), r.bytes(n)));
        }
        Some(es)
    };
    let h = Hello {
        record_version: if !wide || r.chance(9, 10) { *r.pick(&[0x0301u16, 0x0303, 0x0300, 0x0302, 0x0304]) } else { r.next() as u16 },
        legacy_version: legacy,
        random: r.bytes(32),
        session_id: { let n = *r.pick(&[0usize, 0, 32, 32, 1, 16, 31]); r.bytes(n) },
        ciphers,
        compression: vec![0; r.range(1, 3) as usize],
        extensions,
    };
    debug_assert!(h.fits());
    h
}

/// a small hello (for exhaustive cut enumeration): few ciphers, few short extensions
pub fn gen_small_hello(r: &mut Rng, max_len: usize) -> Hello {
    loop {
        let mut es: Vec<Ext> = Vec::new();
        if r.chance(1, 2) {
            es.push(Ext::ServerName(vec![(0, b"a.b".to_vec())]));
        }
        if r.chance(1, 2) {
            es.push(Ext::Alpn(vec![b"h2".to_vec()]));
        }
        if r.chance(1, 2) {
            es.push(Ext::SupportedVersions(vec![0x0304, 0x0303]));
        }
        if r.chance(1, 2) {
            es.push(Ext::SigAlgs(vec![0x0403, 0x0804]));
        }
        if r.chance(1, 3) {
            es.push(Ext::Other(*r.pick(&GREASE), vec![]));
        }
        if r.chance(1, 3) {
            es.push(Ext::Other(23, vec![]));
        }
        shuffle(r, &mut es);
        let nc = r.range(1, 4) as usize;
        let h = Hello {
            record_version: 0x0301,
            legacy_version: 0x0303,
            random: r.bytes(32),
            session_id: { let n = *r.pick(&[0usize, 0, 4]); r.bytes(n) },
            ciphers: (0..nc).map(|_| *r.pick(&CIPHERS)).collect(),
            compression: vec![0],
            extensions: if r.chance(1, 8) { None } else { Some(es) },
        };
        if h.encode().len() <= max_len {
            return h;
        }
    }
}

/// a hello padded (extension 21) so that the whole record has exactly `total` bytes (when possible)
pub fn gen_padded_hello(r: &mut Rng, total: usize) -> Hello {
    let mut h = gen_small_hello(r, 200);
    let mut es = h.extensions.take().unwrap_or_default();
    es.retain(|e| e.ty() != 21);
    h.extensions = Some(es.clone());
    let base = h.encode().len() + 4; // + padding extension header
    let pad = total.saturating_sub(base).min(65000);
    es.push(Ext::Other(21, vec![0; pad]));
    h.extensions = Some(es);
    h
}
