//! C17 — Akamai HTTP/2 fingerprint: `extract_akamai_fingerprint_from_bytes` (one-shot),
//! `Http2FingerprintExtractor::add_bytes` (incremental, every chunking), plus the layers the model is
//! built from: `Http2Parser::parse_frames_skip_preface`, `hpack_patched::Decoder::decode` (stateful
//! sequences), `std::str::from_utf8` / `String::from_utf8_lossy`.
#[path = "h2gen.rs"]
mod h2gen;
use crate::rng::Rng;
use crate::wr::{guarded, hex, Line};
use crate::Ctx;
use h2gen::*;
use huginn_net_http::{
    extract_akamai_fingerprint, extract_akamai_fingerprint_from_bytes, AkamaiFingerprint, Http2FingerprintExtractor,
    Http2Frame, Http2FrameType, Http2Parser,
};

fn ty_byte(t: &Http2FrameType) -> u8 {
    match t {
        Http2FrameType::Data => 0,
        Http2FrameType::Headers => 1,
        Http2FrameType::Priority => 2,
        Http2FrameType::RstStream => 3,
        Http2FrameType::Settings => 4,
        Http2FrameType::PushPromise => 5,
        Http2FrameType::Ping => 6,
        Http2FrameType::GoAway => 7,
        Http2FrameType::WindowUpdate => 8,
        Http2FrameType::Continuation => 9,
        Http2FrameType::Unknown(b) => *b,
    }
}

fn show_fp(sep: &str, fp: &Option<AkamaiFingerprint>) -> String {
    match fp {
        None => "0".to_string(),
        Some(f) => {
            // the structured fields must agree with the string (they are what the string is made from)
            let again = AkamaiFingerprint::generate_fingerprint_string(
                &f.settings,
                f.window_update,
                &f.priority_frames,
                &f.pseudo_header_order,
            );
            let h = AkamaiFingerprint::hash_fingerprint(&f.fingerprint);
            if again != f.fingerprint || h != f.hash {
                return format!("1{sep}INCONSISTENT");
            }
            format!("1{sep}{}{sep}{}", hex(f.fingerprint.as_bytes()), f.hash)
        }
    }
}

fn op_frames(ctx: &mut Ctx, data: &[u8]) {
    let d = data.to_vec();
    let out = guarded(move || {
        let p = Http2Parser::new();
        match p.parse_frames_skip_preface(&d) {
            Err(_) => "err".to_string(),
            Ok((frames, used)) => {
                let mut s = format!("{} {}", used, frames.len());
                for f in &frames {
                    s.push_str(&format!(" {}.{}.{}.{}.{}", ty_byte(&f.frame_type), f.flags, f.stream_id, f.length, hex(&f.payload)));
                }
                s
            }
        }
    });
    let mut l = Line::op("C17.frames");
    l.bytes(data);
    ctx.emit(l.finish(&out));
}

fn op_oneshot(ctx: &mut Ctx, data: &[u8]) {
    let d = data.to_vec();
    let out = guarded(move || show_fp(" ", &extract_akamai_fingerprint_from_bytes(&d)));
    let mut l = Line::op("C17.oneshot");
    l.bytes(data);
    ctx.emit(l.finish(&out));
}

fn op_inc(ctx: &mut Ctx, chunks: &[Vec<u8>]) {
    let cs = chunks.to_vec();
    let out = guarded(move || {
        let mut ex = Http2FingerprintExtractor::new();
        let mut outs = Vec::new();
        let mut reported: Option<AkamaiFingerprint> = None;
        for c in &cs {
            match ex.add_bytes(c) {
                Ok(r) => {
                    if r.is_some() {
                        reported = r.clone();
                    }
                    outs.push(show_fp(":", &r))
                }
                Err(_) => outs.push("err".to_string()),
            }
        }
        // get_fingerprint must be the reported one
        if ex.get_fingerprint().cloned() != reported || ex.fingerprint_extracted() != reported.is_some() {
            outs.push("GETTER-MISMATCH".to_string());
        }
        outs.join(";")
    });
    let mut l = Line::op("C17.inc");
    l.list(chunks, |l, c| {
        l.bytes(c);
    });
    ctx.emit(l.finish(&out));
}

fn op_hpack(ctx: &mut Ctx, blocks: &[Vec<u8>]) {
    let bs = blocks.to_vec();
    let out = guarded(move || {
        let mut d = hpack_patched::Decoder::new();
        let mut outs = Vec::new();
        for b in &bs {
            match d.decode(b) {
                Err(_) => outs.push("err".to_string()),
                Ok(hs) => {
                    let mut s = format!("{}", hs.len());
                    for (n, v) in &hs {
                        s.push_str(&format!(",{}={}", hex(n), hex(v)));
                    }
                    outs.push(s);
                }
            }
        }
        outs.join(";")
    });
    let mut l = Line::op("C17.hpack");
    l.list(blocks, |l, c| {
        l.bytes(c);
    });
    ctx.emit(l.finish(&out));
}

fn op_utf8(ctx: &mut Ctx, b: &[u8]) {
    let v = std::str::from_utf8(b).is_ok();
    let lossy = String::from_utf8_lossy(b);
    let mut l = Line::op("C17.utf8");
    l.bytes(b);
    ctx.emit(l.finish(&format!("{} {}", if v { 1 } else { 0 }, hex(lossy.as_bytes()))));
}

// ------------------------------------------------------------------------------------ generators

fn rbytes(r: &mut Rng, below: u64) -> Vec<u8> {
    let n = r.below(below) as usize;
    r.bytes(n)
}

const SETTING_IDS: [u16; 12] = [1, 2, 3, 4, 5, 6, 8, 9, 0, 7, 0x0a0a, 0xffff];
const SETTING_VALS: [u32; 12] = [0, 1, 100, 1000, 16384, 65535, 65536, 262144, 6291456, 0x7fff_ffff, 0x8000_0000, 0xffff_ffff];
const INCS: [u32; 8] = [1, 15663105, 12517377, 0x7fff_ffff, 0x8000_0001, 0xffff_ffff, 65535, 10485760];
const SIDS: [u32; 8] = [1, 3, 5, 7, 13, 0x7fff_ffff, 0x8000_0001, 0x8000_0003];

fn gen_settings(r: &mut Rng) -> GFrame {
    let n = match r.below(10) {
        0 => 0,
        1 => 1,
        2 => 8,
        _ => r.range(2, 6) as usize,
    };
    let pairs: Vec<(u16, u32)> = (0..n)
        .map(|_| {
            let id = if r.chance(5, 6) { *r.pick(&SETTING_IDS) } else { r.next() as u16 };
            let v = if r.chance(3, 4) { *r.pick(&SETTING_VALS) } else { r.next() as u32 };
            (id, v)
        })
        .collect();
    let mut f = settings_frame(&pairs);
    match r.below(40) {
        0 => f.flags = 1,                                  // ACK (possibly with a payload: illegal)
        1 => {
            f.flags = 1;
            f.payload.clear();
        }
        2 => f.sid = 0x8000_0000,                          // reserved bit on stream 0
        3 => f.sid = 1,                                    // SETTINGS on a stream (illegal)
        4 => {
            let k = r.range(1, 5) as usize;
            f.payload.extend(r.bytes(k));                  // not a multiple of 6
        }
        5 => f.flags = r.next() as u8,
        _ => {}
    }
    f
}

fn gen_wu(r: &mut Rng) -> GFrame {
    let inc = match r.below(12) {
        0 => 0,
        1 => 0x8000_0000, // reserved bit set, increment 0
        2 => r.next() as u32,
        _ => *r.pick(&INCS),
    };
    let sid = if r.chance(5, 6) { 0 } else if r.chance(1, 2) { 0x8000_0000 } else { *r.pick(&SIDS) };
    let mut f = window_frame(sid, inc);
    match r.below(30) {
        0 => {
            f.payload.pop();
        }
        1 => f.payload.push(7),
        2 => f.payload.clear(),
        3 => f.flags = r.next() as u8,
        _ => {}
    }
    f
}

fn gen_prio(r: &mut Rng) -> GFrame {
    let sid = match r.below(8) {
        0 => 0,
        1 => r.next() as u32,
        _ => *r.pick(&SIDS),
    };
    let dep = match r.below(6) {
        0 => 0x7fff_ffff,
        1 => r.next() as u32,
        2 => sid,
        _ => [0u32, 3, 5, 7, 11][r.below(5) as usize],
    };
    let w = match r.below(6) {
        0 => 0,
        1 => 255,
        2 => r.next() as u8,
        _ => [200u8, 100, 0, 240, 15, 41][r.below(6) as usize],
    };
    let mut f = priority_frame(sid, r.chance(1, 3), dep, w);
    match r.below(30) {
        0 => {
            f.payload.pop();
        }
        1 => f.payload.push(9),
        2 => f.payload.clear(),
        _ => {}
    }
    f
}

fn gen_other(r: &mut Rng) -> GFrame {
    match r.below(8) {
        0 => ping_frame(),
        1 => GFrame::new(T_DATA, r.below(2) as u8, *r.pick(&SIDS), rbytes(r, 20)),
        2 => GFrame::new(T_RST, 0, *r.pick(&SIDS), vec![0, 0, 0, 8]),
        3 => GFrame::new(T_GOAWAY, 0, 0, vec![0, 0, 0, 0, 0, 0, 0, 0]),
        4 => GFrame::new(T_PUSH, 4, *r.pick(&SIDS), vec![0, 0, 0, 2, 0x82]),
        5 => GFrame::new(T_CONT, 4, *r.pick(&SIDS), vec![0x82]),           // stray CONTINUATION
        6 => GFrame::new(T_HEADERS, 5, 0, vec![0x82, 0x84]),               // HEADERS on stream 0 (illegal)
        _ => GFrame::new(10 + r.below(246) as u8, r.next() as u8, r.next() as u32, rbytes(r, 12)),
    }
}

fn gen_request_headers(r: &mut Rng) -> Vec<Hdr> {
    let mut ps: Vec<Hdr> = vec![
        h(":method", if r.chance(3, 4) { "GET" } else { "POST" }),
        h(":authority", "example.com"),
        h(":scheme", if r.chance(3, 4) { "https" } else { "http" }),
        h(":path", if r.chance(1, 2) { "/" } else { "/index.html?q=1" }),
    ];
    // permutation
    for i in (1..ps.len()).rev() {
        let j = r.below(i as u64 + 1) as usize;
        ps.swap(i, j);
    }
    match r.below(12) {
        0 => {
            ps.pop();
        }
        1 => ps.push(h(":status", "200")),
        2 => ps.push(h(":protocol", "websocket")),
        3 => {
            let k = r.below(ps.len() as u64) as usize;
            ps[k].1 = vec![0x2f, 0xff, 0xfe];                   // value that is not UTF-8
        }
        4 => ps.push((vec![b':', 0xc3, 0x28], b"x".to_vec())),   // name that is not UTF-8
        5 => {
            let d = ps[0].clone();
            ps.push(d);
        }
        6 => ps.clear(),
        _ => {}
    }
    let regular = [
        h("user-agent", "curl/8.0"),
        h("accept", "*/*"),
        h("accept-encoding", "gzip, deflate"),
        h("accept-language", "en-US,en;q=0.9"),
        h("cookie", "a=b"),
        h("x-custom", ""),
        (b"x-bin".to_vec(), vec![0x80, 0x01]),
    ];
    let n = r.below(4) as usize;
    let mut out = ps;
    for _ in 0..n {
        let x = r.pick(&regular).clone();
        if r.chance(1, 8) {
            let pos = r.below(out.len() as u64 + 1) as usize;
            out.insert(pos, x); // regular header between pseudo-headers (illegal, but order is still defined)
        } else {
            out.push(x);
        }
    }
    out
}

fn gen_framing(r: &mut Rng, sid: u32, block_len: usize) -> Framing {
    let mut f = Framing::plain(sid);
    f.end_stream = r.chance(2, 3);
    match r.below(10) {
        0 => f.pad = Some(0),
        1 => f.pad = Some(r.range(1, 40) as u8),
        2 => f.pad = Some(255),
        _ => {}
    }
    if r.chance(1, 4) {
        f.prio = Some((r.chance(1, 2), *r.pick(&[0u32, 3, 0x7fff_ffff]), *r.pick(&[0u8, 15, 255])));
    }
    if r.chance(1, 4) {
        let k = r.range(1, 3) as usize;
        f.cuts = (0..k).map(|_| r.below(block_len as u64 + 1) as usize).collect();
    }
    if r.chance(1, 10) {
        f.extra_flags = r.next() as u8;
    }
    if r.chance(1, 25) {
        f.unterminated = true;
    }
    f
}

fn gen_headers(r: &mut Rng) -> Vec<GFrame> {
    let hs = gen_request_headers(r);
    let mut enc = Enc::new();
    let opts = if r.chance(1, 3) { EncOpts::plain() } else { EncOpts::mixed() };
    let mut block = enc.encode_block(r, &opts, &hs);
    if r.chance(1, 25) {
        // corrupt the block
        if !block.is_empty() {
            let k = r.below(block.len() as u64) as usize;
            block[k] ^= 1 << r.below(8);
        }
    }
    let sid = if r.chance(1, 30) { 0 } else { *r.pick(&SIDS) };
    let fr = gen_framing(r, sid, block.len());
    frame_block(&block, &fr)
}

struct Stream {
    preface: bool,
    frames: Vec<GFrame>,
    tail: Vec<u8>,
}

impl Stream {
    fn bytes(&self) -> Vec<u8> {
        let mut b = ser(&self.frames, self.preface);
        b.extend_from_slice(&self.tail);
        b
    }
    /// offsets of frame boundaries (after preface), for boundary-directed cuts
    fn boundaries(&self) -> Vec<usize> {
        let mut v = Vec::new();
        let mut off = if self.preface { PREFACE.len() } else { 0 };
        v.push(off);
        for f in &self.frames {
            off += 9 + f.payload.len();
            v.push(off);
        }
        v
    }
}

fn gen_stream(r: &mut Rng) -> Stream {
    let preface = r.chance(2, 3);
    let mut frames: Vec<GFrame> = Vec::new();
    match r.below(10) {
        0..=5 => {
            // canonical client start with small perturbations
            if r.chance(1, 12) {
                frames.push(gen_other(r));
            }
            if r.chance(14, 15) {
                frames.push(gen_settings(r));
            }
            if r.chance(2, 3) {
                frames.push(gen_wu(r));
            }
            for _ in 0..[0usize, 0, 0, 1, 2, 5][r.below(6) as usize] {
                frames.push(gen_prio(r));
            }
            if r.chance(1, 8) {
                frames.push(gen_other(r));
            }
            if r.chance(3, 4) {
                frames.extend(gen_headers(r));
            }
            if r.chance(1, 6) {
                frames.push(gen_settings(r));
            }
            if r.chance(1, 6) {
                frames.push(gen_wu(r));
            }
            if r.chance(1, 6) {
                frames.extend(gen_headers(r));
            }
        }
        6..=8 => {
            // any order
            let n = r.range(1, 7);
            for _ in 0..n {
                match r.below(6) {
                    0 => frames.push(gen_settings(r)),
                    1 => frames.push(gen_wu(r)),
                    2 => frames.push(gen_prio(r)),
                    3 => frames.extend(gen_headers(r)),
                    4 => frames.push(gen_other(r)),
                    _ => frames.push(gen_prio(r)),
                }
            }
        }
        _ => {
            // early frames before SETTINGS (the incremental finding), then SETTINGS
            if r.chance(1, 2) {
                frames.push(gen_prio(r));
            }
            if r.chance(1, 2) {
                frames.push(gen_wu(r));
            }
            if r.chance(1, 3) {
                frames.extend(gen_headers(r));
            }
            if r.chance(1, 4) {
                frames.push(settings_frame(&[]));
            }
            frames.push(gen_settings(r));
            if r.chance(1, 2) {
                frames.push(gen_prio(r));
            }
        }
    }
    let mut tail = Vec::new();
    match r.below(14) {
        0 => tail = { let k = r.range(1, 8) as usize; r.bytes(k) },                       // < 9 stray bytes
        1 => {
            // incomplete frame
            let f = gen_settings(r);
            let mut b = Vec::new();
            f.ser_into(&mut b);
            let k = r.range(9, b.len().max(10) as u64 - 1) as usize;
            b.truncate(k.min(b.len().saturating_sub(1)).max(1));
            tail = b;
        }
        2 => {
            // oversize frame header (+ a valid frame behind it that must never be reached)
            let f = GFrame::new(T_DATA, 0, 1, vec![0; 4]);
            f.ser_lying(if r.chance(1, 2) { 16385 } else { 0xff_ffff }, &mut tail);
            if r.chance(1, 2) {
                tail.extend(vec![0u8; 16385]);
                settings_frame(&[(1, 1)]).ser_into(&mut tail);
            }
        }
        _ => {}
    }
    Stream { preface, frames, tail }
}

fn cut_at(b: &[u8], cuts: &[usize]) -> Vec<Vec<u8>> {
    let mut cs: Vec<usize> = cuts.iter().map(|&c| c.min(b.len())).collect();
    cs.sort();
    let mut out = Vec::new();
    let mut prev = 0;
    for c in cs {
        out.push(b[prev..c].to_vec());
        prev = c;
    }
    out.push(b[prev..].to_vec());
    out
}

fn every_two_cut(ctx: &mut Ctx, b: &[u8]) {
    for c in 0..=b.len() {
        op_inc(ctx, &cut_at(b, &[c]));
    }
}

fn directed_cuts(ctx: &mut Ctx, r: &mut Rng, s: &Stream, n_two: usize, n_k: usize) {
    let b = s.bytes();
    op_inc(ctx, &[b.clone()]);
    let bd = s.boundaries();
    let mut pts: Vec<usize> = Vec::new();
    for &x in &bd {
        for d in [0isize, -1, 1, 9, 8] {
            let y = x as isize + d;
            if y >= 0 && (y as usize) <= b.len() {
                pts.push(y as usize);
            }
        }
    }
    pts.extend([0, 1, 23, 24, 25, 33, b.len()].iter().filter(|&&x| x <= b.len()));
    pts.sort();
    pts.dedup();
    // 2-cuts at boundary-directed positions (all of them if few), plus random ones
    if pts.len() <= n_two {
        for &c in &pts {
            op_inc(ctx, &cut_at(&b, &[c]));
        }
    } else {
        for _ in 0..n_two {
            let c = *r.pick(&pts);
            op_inc(ctx, &cut_at(&b, &[c]));
        }
    }
    for _ in 0..n_k {
        let k = r.range(2, 6) as usize;
        let cuts: Vec<usize> = (0..k)
            .map(|_| if r.chance(1, 2) && !pts.is_empty() { *r.pick(&pts) } else { r.below(b.len() as u64 + 1) as usize })
            .collect();
        op_inc(ctx, &cut_at(&b, &cuts));
    }
}

// -------------------------------------------------------------------------------------- corpus

fn corpus_streams() -> Vec<(String, Vec<GFrame>)> {
    let mut out = Vec::new();
    let root = repo_root();
    for file in ["akamai_test_cases.json", "akamai_paper_cases.json"] {
        let p = format!("{root}/huginn-net-http/tests/snapshots/{file}");
        let Ok(txt) = std::fs::read_to_string(&p) else { continue };
        let Some(j) = parse_json(&txt) else { continue };
        for c in j.arr() {
            let name = c.get("name").and_then(|x| x.str()).unwrap_or("?").to_string();
            let mut frames = Vec::new();
            for f in c.get("frames").map(|x| x.arr()).unwrap_or(&[]) {
                let g = |k: &str| f.get(k).and_then(|x| x.num()).unwrap_or(0.0);
                let payload: Vec<u8> = f.get("payload").map(|x| x.arr().iter().map(|b| b.num().unwrap_or(0.0) as u8).collect()).unwrap_or_default();
                frames.push(GFrame::new(g("frame_type") as u8, g("flags") as u8, g("stream_id") as u32, payload));
            }
            out.push((name, frames));
        }
    }
    // the "simple" paper cases give only the signature S|WU|P: rebuild the frames it describes
    let p = format!("{root}/huginn-net-http/tests/snapshots/akamai_paper_simple_cases.json");
    if let Ok(txt) = std::fs::read_to_string(&p) {
        if let Some(j) = parse_json(&txt) {
            for c in j.arr() {
                let name = c.get("name").and_then(|x| x.str()).unwrap_or("?").to_string();
                let sig = c.get("expected_signature").and_then(|x| x.str()).unwrap_or("");
                let parts: Vec<&str> = sig.split('|').collect();
                if parts.len() < 3 {
                    continue;
                }
                let pairs: Vec<(u16, u32)> = parts[0]
                    .split(';')
                    .filter_map(|kv| {
                        let mut it = kv.split(':');
                        Some((it.next()?.parse().ok()?, it.next()?.parse().ok()?))
                    })
                    .collect();
                let mut frames = vec![settings_frame(&pairs)];
                if let Ok(w) = parts[1].parse::<u32>() {
                    if parts[1] != "00" {
                        frames.push(window_frame(0, w));
                    }
                }
                if parts[2] != "0" {
                    for p in parts[2].split(',') {
                        let f: Vec<u32> = p.split(':').filter_map(|x| x.parse().ok()).collect();
                        if f.len() == 4 {
                            frames.push(priority_frame(f[0], f[1] != 0, f[2], (f[3].saturating_sub(1)) as u8));
                        }
                    }
                }
                out.push((name, frames));
            }
        }
    }
    out
}

fn std_settings() -> GFrame {
    settings_frame(&[(1, 65536), (4, 131072)])
}

fn std_block() -> Vec<u8> {
    // :method GET, :path /, :scheme https, :authority example.com (literal w/o indexing, name idx 1)
    let mut b = vec![0x82, 0x84, 0x87, 0x01, 0x0b];
    b.extend_from_slice(b"example.com");
    b
}

fn witnesses(ctx: &mut Ctx) {
    // DESIGN §8 #27: chunk 1 = preface + PRIORITY(3,0,0,200), chunk 2 = SETTINGS
    let a = ser(&[priority_frame(3, false, 0, 200)], true);
    let b = ser(&[std_settings()], false);
    op_inc(ctx, &[a.clone(), b.clone()]);
    op_oneshot(ctx, &[a.clone(), b.clone()].concat());
    op_inc(ctx, &[[a, b].concat()]);
    // WINDOW_UPDATE / HEADERS before SETTINGS in an earlier chunk
    op_inc(ctx, &[ser(&[window_frame(0, 15663105)], true), ser(&[std_settings()], false)]);
    op_inc(ctx, &[ser(&frame_block(&std_block(), &Framing::plain(1)), true), ser(&[std_settings()], false)]);
    // empty first SETTINGS, then a non-empty one
    op_oneshot(ctx, &ser(&[settings_frame(&[]), window_frame(0, 5), std_settings()], true));
    op_inc(ctx, &[ser(&[settings_frame(&[])], true), ser(&[std_settings()], false)]);
    op_oneshot(ctx, &ser(&[settings_frame(&[])], true));
    // WINDOW_UPDATE increment 0
    op_oneshot(ctx, &ser(&[std_settings(), window_frame(0, 0)], true));
    // HEADERS: plain / PADDED / PRIORITY / continued
    let blk = std_block();
    let mut f = Framing::plain(1);
    op_oneshot(ctx, &ser(&[vec![std_settings()], frame_block(&blk, &f)].concat(), true));
    f.pad = Some(3);
    op_oneshot(ctx, &ser(&[vec![std_settings()], frame_block(&blk, &f)].concat(), true));
    f.pad = None;
    f.prio = Some((false, 0, 255));
    op_oneshot(ctx, &ser(&[vec![std_settings()], frame_block(&blk, &f)].concat(), true));
    f.prio = None;
    f.cuts = vec![2];
    op_oneshot(ctx, &ser(&[vec![std_settings()], frame_block(&blk, &f)].concat(), true));
    f.cuts = vec![1, 3];
    op_oneshot(ctx, &ser(&[vec![std_settings()], frame_block(&blk, &f)].concat(), true));
    // pseudo-header value that is not UTF-8: :method GET, :path (literal) ff, :scheme https
    let blk2 = vec![0x82, 0x04, 0x01, 0xff, 0x87];
    op_oneshot(ctx, &ser(&[vec![std_settings()], frame_block(&blk2, &Framing::plain(1))].concat(), true));
}

pub fn run(ctx: &mut Ctx) {
    let mut r = ctx.rng.fork();

    // ---- known-finding witnesses and the golden corpus -------------------------------------
    witnesses(ctx);
    for (_name, frames) in corpus_streams() {
        for preface in [true, false] {
            let b = ser(&frames, preface);
            op_frames(ctx, &b);
            op_oneshot(ctx, &b);
            // same frames through the frame-level API (`extract_akamai_fingerprint(&[Http2Frame])`)
            let hf: Vec<Http2Frame> = frames.iter().map(|f| Http2Frame::new(f.ty, f.flags, f.sid & 0x7fff_ffff, f.payload.clone())).collect();
            let api = show_fp(" ", &extract_akamai_fingerprint(&hf));
            let mut l = Line::op("C17.oneshot");
            l.bytes(&ser(&frames, false));
            ctx.emit(l.finish(&api));
            every_two_cut(ctx, &b);
        }
    }

    // ---- exhaustive sub-enumerations --------------------------------------------------------
    let blk = std_block();
    // every flag byte on the request HEADERS frame
    for fl in 0..=255u8 {
        let fr = vec![std_settings(), GFrame::new(T_HEADERS, fl, 1, blk.clone())];
        op_oneshot(ctx, &ser(&fr, true));
    }
    // every frame type byte, before and after SETTINGS, stream 0 and stream 1
    for ty in 0..=255u8 {
        for sid in [0u32, 1] {
            let x = GFrame::new(ty, 4, sid, vec![0, 0, 0, 9, 7]);
            op_oneshot(ctx, &ser(&[x.clone(), std_settings()], false));
            op_oneshot(ctx, &ser(&[std_settings(), x], true));
        }
    }
    // SETTINGS / WINDOW_UPDATE / PRIORITY payload lengths
    for n in 0..=14usize {
        let p: Vec<u8> = (0..n).map(|i| (i as u8).wrapping_mul(37).wrapping_add(1)).collect();
        op_oneshot(ctx, &ser(&[GFrame::new(T_SETTINGS, 0, 0, p.clone())], true));
        op_oneshot(ctx, &ser(&[std_settings(), GFrame::new(T_WINDOW, 0, 0, p.clone()), window_frame(0, 77)], true));
        op_oneshot(ctx, &ser(&[std_settings(), GFrame::new(T_PRIORITY, 0, 3, p.clone()), priority_frame(5, true, 3, 9)], true));
    }
    // every 2-cut (and byte-by-byte delivery) of a full canonical start
    {
        let mut fr = vec![std_settings(), window_frame(0, 15663105), priority_frame(3, false, 0, 200), priority_frame(5, true, 3, 0)];
        fr.extend(frame_block(&blk, &Framing::plain(1)));
        for preface in [true, false] {
            let b = ser(&fr, preface);
            every_two_cut(ctx, &b);
            op_inc(ctx, &b.iter().map(|x| vec![*x]).collect::<Vec<_>>());
        }
        // and of the reordered stream (PRIORITY and WINDOW_UPDATE first)
        let fr2 = vec![priority_frame(3, false, 0, 200), window_frame(0, 15663105), std_settings()];
        every_two_cut(ctx, &ser(&fr2, true));
        every_two_cut(ctx, &ser(&fr2, false));
        // every prefix of the preface alone, then the rest
        let b = ser(&fr, true);
        for k in 0..=PREFACE.len() {
            for j in [k, k + 9, k + 15] {
                if j <= b.len() {
                    op_inc(ctx, &cut_at(&b, &[k, j]));
                }
            }
        }
    }
    // frame splitter: length field boundaries
    for len in [0u32, 1, 5, 16383, 16384, 16385, 65536, 0xff_ffff] {
        for have in [0usize, 1, 5, 16384] {
            let f = GFrame::new(T_DATA, 0, 1, vec![0xab; have]);
            let mut b = Vec::new();
            f.ser_lying(len, &mut b);
            op_frames(ctx, &b);
            let mut c = ser(&[std_settings()], false);
            c.extend_from_slice(&b);
            if c.len() < 2000 {
                op_oneshot(ctx, &c);
            }
        }
    }
    for k in 0..=30usize {
        let b = ser(&[std_settings()], true);
        op_frames(ctx, &b[..k.min(b.len())]);
        op_frames(ctx, &PREFACE[..k.min(PREFACE.len())]);
    }

    // HPACK: every one-octet block; integer boundaries for each prefix size
    for b in 0..=255u8 {
        op_hpack(ctx, &[vec![b]]);
        op_hpack(ctx, &[vec![0x40, 0x01, b'a', 0x01, b'b'], vec![b]]); // one dynamic entry, then the octet
    }
    if ctx.tier == crate::Tier::Thorough {
        for a in 0..=255u8 {
            for b in 0..=255u8 {
                op_hpack(ctx, &[vec![a, b]]);
            }
        }
    } else {
        for a in [0x00u8, 0x0f, 0x10, 0x1f, 0x20, 0x3f, 0x40, 0x7f, 0x80, 0xbe, 0xbf, 0xff] {
            for b in 0..=255u8 {
                op_hpack(ctx, &[vec![a, b]]);
            }
        }
    }
    for (bits, top) in [(7u8, 0x80u8), (6, 0x40), (5, 0x20), (4, 0x10), (4, 0x00)] {
        for v in [0usize, 1, 14, 15, 16, 30, 31, 32, 61, 62, 63, 64, 126, 127, 128, 254, 255, 256, 4096, 16383, 16384, 2097151, 2097152, 268435455, 268435456, (1 << 28) + 200, u32::MAX as usize] {
            for extra in [0usize, 1, 2, 3] {
                let mut b = Vec::new();
                enc_int(&mut b, bits, top, v, extra);
                b.extend_from_slice(&[0x01, b'v']); // something that could be a value string
                op_hpack(ctx, &[b]);
            }
        }
    }
    // Huffman: every single symbol, with each padding discipline
    let codes = huff_codes();
    for s in 0..=255u8 {
        for pad in [Pad::Eos, Pad::Zeros, Pad::ExtraOctet, Pad::EosSymbol] {
            let mut b = vec![0x00];
            enc_str(&mut b, &codes, b"n", false, Pad::Eos);
            enc_str(&mut b, &codes, &[s, b'a', s], true, pad);
            op_hpack(ctx, &[b]);
        }
    }
    // UTF-8: every 1-octet string, every (lead, second) pair for multi-octet leads, boundary triples
    for a in 0..=255u8 {
        op_utf8(ctx, &[a]);
        op_utf8(ctx, &[b'x', a, b'y']);
    }
    for a in 0xc0..=0xffu8 {
        for b in [0x00u8, 0x7f, 0x80, 0x8f, 0x90, 0x9f, 0xa0, 0xbf, 0xc0, 0xff] {
            op_utf8(ctx, &[a, b]);
            for c in [0x7fu8, 0x80, 0xbf, 0xc0] {
                op_utf8(ctx, &[a, b, c]);
                op_utf8(ctx, &[a, b, c, 0x80]);
                op_utf8(ctx, &[a, b, c, 0x41]);
            }
        }
    }

    // ---- generated cases ---------------------------------------------------------------------
    let n_streams = ctx.n(1500, 12000);
    for i in 0..n_streams {
        let s = gen_stream(&mut r);
        let b = s.bytes();
        if b.len() > 40000 {
            op_frames(ctx, &b);
            op_oneshot(ctx, &b);
            continue;
        }
        op_frames(ctx, &b);
        op_oneshot(ctx, &b);
        if i % 16 == 0 && b.len() <= 200 {
            every_two_cut(ctx, &b);
        } else {
            directed_cuts(ctx, &mut r, &s, 10, 4);
        }
        // truncation at a random offset / single-bit corruption (one-shot and splitter)
        if r.chance(1, 3) && !b.is_empty() {
            let k = r.below(b.len() as u64) as usize;
            op_oneshot(ctx, &b[..k]);
            op_frames(ctx, &b[..k]);
            let mut c = b.clone();
            c[k] ^= 1 << r.below(8);
            op_oneshot(ctx, &c);
        }
    }

    // HPACK sequences: valid blocks from the encoder (state carried across blocks), corrupted
    // blocks, random octets
    let n_h = ctx.n(4000, 40000);
    let pool: Vec<Hdr> = vec![
        h(":method", "GET"), h(":method", "PUT"), h(":path", "/"), h(":path", "/a/b?c=d"), h(":scheme", "https"),
        h(":authority", "www.example.com"), h(":status", "200"), h(":status", "404"), h("accept-charset", "utf-8"),
        h("accept-encoding", "gzip, deflate"), h("user-agent", "Mozilla/5.0 (X11; Linux x86_64)"), h("cookie", "a=b; c=d"),
        h("cache-control", "no-cache"), h("x-empty", ""), h("custom-key", "custom-value"), h("accept", "*/*"),
        (b"x-bin".to_vec(), (0..=255u8).collect()), (vec![b'X', 0xff], vec![0x00, 0x80]), h("www-authenticate", ""),
        h("x-long", &"y".repeat(300)), h("x-huge", &"z".repeat(4100)),
    ];
    for _ in 0..n_h {
        let mut enc = Enc::new();
        let mut opts = EncOpts::mixed();
        opts.allow_idx15 = r.chance(1, 4);
        if r.chance(1, 5) {
            opts.p_size_update = 600;
        }
        let nb = r.range(1, 4) as usize;
        let mut blocks = Vec::new();
        for _ in 0..nb {
            let k = r.below(7) as usize;
            let hs: Vec<Hdr> = (0..k).map(|_| r.pick(&pool).clone()).collect();
            let mut b = enc.encode_block(&mut r, &opts, &hs);
            match r.below(12) {
                0 if !b.is_empty() => {
                    let i = r.below(b.len() as u64) as usize;
                    b[i] ^= 1 << r.below(8);
                }
                1 if !b.is_empty() => {
                    let i = r.below(b.len() as u64) as usize;
                    b.truncate(i);
                }
                2 => b = rbytes(&mut r, 12),
                3 => {
                    // dynamic reference to a plausible index
                    enc_int(&mut b, 7, 0x80, 62 + r.below(4) as usize, 0);
                }
                _ => {}
            }
            blocks.push(b);
        }
        op_hpack(ctx, &blocks);
    }
    // UTF-8: random strings biased to multi-octet sequences
    for _ in 0..ctx.n(1500, 30000) {
        let n = r.range(1, 10) as usize;
        let mut b = Vec::new();
        for _ in 0..n {
            match r.below(6) {
                0 => b.push(r.range(0x20, 0x7e) as u8),
                1 => b.extend_from_slice("é".as_bytes()),
                2 => b.extend_from_slice("€".as_bytes()),
                3 => b.extend_from_slice("😀".as_bytes()),
                4 => b.push(*r.pick(&[0x80u8, 0xbf, 0xc0, 0xc1, 0xc2, 0xdf, 0xe0, 0xed, 0xef, 0xf0, 0xf4, 0xf5, 0xff, 0xa0, 0x9f, 0x90, 0x8f])),
                _ => b.push(r.next() as u8),
            }
        }
        if r.chance(1, 3) && !b.is_empty() {
            let k = r.below(b.len() as u64) as usize;
            b.truncate(k + 1);
        }
        op_utf8(ctx, &b);
    }
}
