//! C05 — HTTP/1.x heads: `Http1Parser::parse_request/parse_response`, `HttpProcessors::parse_request/
//! parse_response`, `get_highest_quality_language` on heads built from the RFC 7230 grammar (with a
//! body appended), on malformed / truncated / mutated heads and on raw text.
//! Output formats: see lean/Huginn/Drv/C05.lean.
use crate::rng::Rng;
use crate::wr::{guarded, hex, Line};
use crate::Ctx;
use huginn_net_db::http::Version;
use huginn_net_http::http1_parser::{Http1ParseError, Http1Parser};
use huginn_net_http::http_common::{HttpCookie, HttpHeader};
use huginn_net_http::http_languages::get_highest_quality_language;
use huginn_net_http::http_process::HttpProcessors;
use std::fmt::Write as _;
use std::panic::AssertUnwindSafe;

// ------------------------------------------------------------------------------------------ printing

fn opt_b(v: &Option<String>) -> String {
    match v {
        None => "0".into(),
        Some(s) => format!("1 {}", hex(s.as_bytes())),
    }
}
fn opt_n(v: &Option<usize>) -> String {
    match v {
        None => "0".into(),
        Some(n) => format!("1 {n}"),
    }
}
fn ver_num(v: Version) -> u32 {
    match v {
        Version::V10 => 0,
        Version::V11 => 1,
        Version::V20 => 2,
        Version::V30 => 3,
        Version::Any => 9,
    }
}
fn show_hdrs(hs: &[HttpHeader]) -> String {
    let mut s = format!("{}", hs.len());
    for h in hs {
        write!(s, " {} {} {}", hex(h.name.as_bytes()), opt_b(&h.value), h.position).unwrap();
    }
    s
}
fn show_cookies(cs: &[HttpCookie]) -> String {
    let mut s = format!("{}", cs.len());
    for c in cs {
        write!(s, " {} {} {}", hex(c.name.as_bytes()), opt_b(&c.value), c.position).unwrap();
    }
    s
}
fn show_strs(xs: &[String]) -> String {
    let mut s = format!("{}", xs.len());
    for x in xs {
        write!(s, " {}", hex(x.as_bytes())).unwrap();
    }
    s
}
fn err_name(e: &Http1ParseError) -> &'static str {
    match e {
        Http1ParseError::InvalidRequestLine(_) => "InvalidRequestLine",
        Http1ParseError::InvalidStatusLine(_) => "InvalidStatusLine",
        Http1ParseError::InvalidVersion(_) => "InvalidVersion",
        Http1ParseError::InvalidMethod(_) => "InvalidMethod",
        Http1ParseError::InvalidStatusCode(_) => "InvalidStatusCode",
        Http1ParseError::HeaderTooLong(_) => "HeaderTooLong",
        Http1ParseError::TooManyHeaders(_) => "TooManyHeaders",
        Http1ParseError::MalformedHeader(_) => "MalformedHeader",
        Http1ParseError::IncompleteData => "IncompleteData",
        Http1ParseError::InvalidUtf8 => "InvalidUtf8",
    }
}

fn impl_parser_req(data: &[u8]) -> String {
    guarded(AssertUnwindSafe(|| match Http1Parser::new().parse_request(data) {
        Ok(None) => "none".to_string(),
        Err(e) => format!("err:{}", err_name(&e)),
        Ok(Some(r)) => {
            let m = &r.parsing_metadata;
            format!(
                "ok M {} U {} V {} H {} C {} R {} CL {} TE {} CN {} HO {} UA {} AL {} RAW {} META {} {} {} {} {}",
                hex(r.method.as_bytes()),
                hex(r.uri.as_bytes()),
                ver_num(r.version),
                show_hdrs(&r.headers),
                show_cookies(&r.cookies),
                opt_b(&r.referer),
                opt_n(&r.content_length),
                opt_b(&r.transfer_encoding),
                opt_b(&r.connection),
                opt_b(&r.host),
                opt_b(&r.user_agent),
                opt_b(&r.accept_language),
                hex(r.raw_request_line.as_bytes()),
                m.header_count,
                show_strs(&m.duplicate_headers),
                m.has_malformed_headers as u8,
                m.request_line_length,
                m.total_headers_length
            )
        }
    }))
}

fn impl_parser_res(data: &[u8]) -> String {
    guarded(AssertUnwindSafe(|| match Http1Parser::new().parse_response(data) {
        Ok(None) => "none".to_string(),
        Err(e) => format!("err:{}", err_name(&e)),
        Ok(Some(r)) => {
            let m = &r.parsing_metadata;
            format!(
                "ok V {} ST {} RP {} H {} CL {} TE {} SRV {} CT {} RAW {} META {} {} {} {} {}",
                ver_num(r.version),
                r.status_code,
                hex(r.reason_phrase.as_bytes()),
                show_hdrs(&r.headers),
                opt_n(&r.content_length),
                opt_b(&r.transfer_encoding),
                opt_b(&r.server),
                opt_b(&r.content_type),
                hex(r.raw_status_line.as_bytes()),
                m.header_count,
                show_strs(&m.duplicate_headers),
                m.has_malformed_headers as u8,
                m.request_line_length,
                m.total_headers_length
            )
        }
    }))
}

pub fn impl_proc_req(p: &HttpProcessors, data: &[u8]) -> String {
    guarded(AssertUnwindSafe(|| match p.parse_request(data) {
        None => "none".to_string(),
        Some(r) => format!(
            "some V {} SIG {} LANG {} UA {} H {} C {} R {} M {} U {}",
            ver_num(r.matching.version),
            hex(r.to_string().as_bytes()),
            opt_b(&r.lang),
            opt_b(&r.user_agent),
            show_hdrs(&r.headers),
            show_cookies(&r.cookies),
            opt_b(&r.referer),
            hex(r.method.clone().unwrap_or_default().as_bytes()),
            hex(r.uri.clone().unwrap_or_default().as_bytes())
        ),
    }))
}

pub fn impl_proc_res(p: &HttpProcessors, data: &[u8]) -> String {
    guarded(AssertUnwindSafe(|| match p.parse_response(data) {
        None => "none".to_string(),
        Some(r) => format!(
            "some V {} SIG {} H {} ST {}",
            ver_num(r.matching.version),
            hex(r.to_string().as_bytes()),
            show_hdrs(&r.headers),
            r.status_code.unwrap_or(0)
        ),
    }))
}

// ------------------------------------------------------------------------------------------ heads

#[derive(Clone, Default)]
pub struct Field {
    name: Vec<u8>,
    ows1: Vec<u8>,
    value: Vec<u8>,
    ows2: Vec<u8>,
}
#[derive(Clone)]
pub struct Weight {
    ows: Vec<u8>,
    upper: bool,
    whole: u8,
    dot: bool,
    frac: Vec<u8>,
    trail: Vec<u8>,
}
#[derive(Clone)]
pub struct LangItem {
    pre: Vec<u8>,
    tag: Vec<u8>,
    post: Vec<u8>,
    weight: Option<Weight>,
}
#[derive(Clone)]
pub struct ReqHead {
    method: Vec<u8>,
    target: Vec<u8>,
    ver: u8,
    fields: Vec<Field>,
    langs: Vec<LangItem>,
}
#[derive(Clone)]
pub struct ResHead {
    ver: u8,
    status: Vec<u8>,
    reason: Vec<u8>,
    fields: Vec<Field>,
}

fn ver_text(v: u8) -> &'static [u8] {
    match v {
        0 => b"HTTP/1.0",
        1 => b"HTTP/1.1",
        2 => b"HTTP/2",
        _ => b"HTTP/3",
    }
}

fn render_fields(out: &mut Vec<u8>, fs: &[Field]) {
    for f in fs {
        out.extend_from_slice(&f.name);
        out.push(b':');
        out.extend_from_slice(&f.ows1);
        out.extend_from_slice(&f.value);
        out.extend_from_slice(&f.ows2);
        out.extend_from_slice(b"\r\n");
    }
    out.extend_from_slice(b"\r\n");
}
pub fn render_req(h: &ReqHead) -> Vec<u8> {
    let mut out = Vec::new();
    out.extend_from_slice(&h.method);
    out.push(b' ');
    out.extend_from_slice(&h.target);
    out.push(b' ');
    out.extend_from_slice(ver_text(h.ver));
    out.extend_from_slice(b"\r\n");
    render_fields(&mut out, &h.fields);
    out
}
pub fn render_res(h: &ResHead) -> Vec<u8> {
    let mut out = Vec::new();
    out.extend_from_slice(ver_text(h.ver));
    out.push(b' ');
    out.extend_from_slice(&h.status);
    out.push(b' ');
    out.extend_from_slice(&h.reason);
    out.extend_from_slice(b"\r\n");
    render_fields(&mut out, &h.fields);
    out
}
fn render_item(i: &LangItem) -> Vec<u8> {
    let mut o = Vec::new();
    o.extend_from_slice(&i.pre);
    o.extend_from_slice(&i.tag);
    o.extend_from_slice(&i.post);
    if let Some(w) = &i.weight {
        o.push(b';');
        o.extend_from_slice(&w.ows);
        o.push(if w.upper { b'Q' } else { b'q' });
        o.push(b'=');
        o.push(b'0' + w.whole);
        if w.dot {
            o.push(b'.');
            o.extend_from_slice(&w.frac);
        }
        o.extend_from_slice(&w.trail);
    }
    o
}
fn render_langs(ls: &[LangItem]) -> Vec<u8> {
    let mut o = Vec::new();
    for (k, i) in ls.iter().enumerate() {
        if k > 0 {
            o.push(b',');
        }
        o.extend_from_slice(&render_item(i));
    }
    o
}

fn put_fields(l: &mut Line, fs: &[Field]) {
    l.list(fs, |l, f| {
        l.bytes(&f.name).bytes(&f.ows1).bytes(&f.value).bytes(&f.ows2);
    });
}
fn put_langs(l: &mut Line, ls: &[LangItem]) {
    l.list(ls, |l, i| {
        l.bytes(&i.pre).bytes(&i.tag).bytes(&i.post);
        match &i.weight {
            None => {
                l.bool(false);
            }
            Some(w) => {
                l.bool(true).bytes(&w.ows).bool(w.upper).nat(w.whole).bool(w.dot).bytes(&w.frac).bytes(&w.trail);
            }
        }
    });
}

struct Env {
    procs: HttpProcessors,
}

fn emit_hreq(ctx: &mut Ctx, env: &Env, h: &ReqHead, body: &[u8], also_parser: bool) {
    let mut data = render_req(h);
    data.extend_from_slice(body);
    let mut l = Line::op("C05.hreq");
    l.bytes(&h.method).bytes(&h.target).nat(h.ver);
    put_fields(&mut l, &h.fields);
    put_langs(&mut l, &h.langs);
    l.bytes(body);
    let out = impl_proc_req(&env.procs, &data);
    ctx.emit(l.finish(&out));
    if also_parser {
        emit_raw(ctx, env, "C05.preq", &data);
    }
}
fn emit_hres(ctx: &mut Ctx, env: &Env, h: &ResHead, body: &[u8], also_parser: bool) {
    let mut data = render_res(h);
    data.extend_from_slice(body);
    let mut l = Line::op("C05.hres");
    l.nat(h.ver).bytes(&h.status).bytes(&h.reason);
    put_fields(&mut l, &h.fields);
    l.bytes(body);
    let out = impl_proc_res(&env.procs, &data);
    ctx.emit(l.finish(&out));
    if also_parser {
        emit_raw(ctx, env, "C05.pres", &data);
    }
}
fn emit_raw(ctx: &mut Ctx, env: &Env, op: &str, data: &[u8]) {
    let out = match op {
        "C05.preq" => impl_parser_req(data),
        "C05.pres" => impl_parser_res(data),
        "C05.req" => impl_proc_req(&env.procs, data),
        _ => impl_proc_res(&env.procs, data),
    };
    let mut l = Line::op(op);
    l.bytes(data);
    ctx.emit(l.finish(&out));
}
fn emit_all_raw(ctx: &mut Ctx, env: &Env, data: &[u8]) {
    for op in ["C05.preq", "C05.pres", "C05.req", "C05.res"] {
        emit_raw(ctx, env, op, data);
    }
}
fn emit_lang(ctx: &mut Ctx, al: &[u8]) {
    let s = match std::str::from_utf8(al) {
        Ok(s) => s.to_string(),
        Err(_) => return,
    };
    let out = guarded(AssertUnwindSafe(|| opt_b(&get_highest_quality_language(s))));
    let mut l = Line::op("C05.lang");
    l.bytes(al);
    ctx.emit(l.finish(&out));
}
fn emit_hlang(ctx: &mut Ctx, ls: &[LangItem]) {
    let al = String::from_utf8(render_langs(ls)).unwrap();
    let out = guarded(AssertUnwindSafe(|| opt_b(&get_highest_quality_language(al))));
    let mut l = Line::op("C05.hlang");
    put_langs(&mut l, ls);
    ctx.emit(l.finish(&out));
}

// ------------------------------------------------------------------------------------------ vocabulary

const METHODS: [&str; 18] = [
    "GET", "POST", "PUT", "DELETE", "HEAD", "OPTIONS", "PATCH", "TRACE", "CONNECT", "PROPFIND", "PROPPATCH",
    "MKCOL", "COPY", "MOVE", "LOCK", "UNLOCK", "MKCALENDAR", "REPORT",
];
const BAD_METHODS: [&str; 9] = ["get", "FOO", "PRI", "G", "GETX", "Post", "PURGE", "SEARCH", "QUERY"];
const OWS: [&str; 5] = ["", " ", "\t", "  ", " \t"];
const TCHARS: &[u8] = b"abcdefghijklmnopqrstuvwxyzABCDEFGHIJKLMNOPQRSTUVWXYZ0123456789!#$%&'*+-.^_`|~";
const LANG_CODES: [&str; 14] = ["en", "fr", "de", "es", "zh", "ja", "pt", "ru", "it", "nl", "xx", "tlh", "q", "*"];

/// header-name vocabulary of the generators: the p0f lists (frozen here, independent of the crate's
/// own copies) plus a few ordinary headers
const REQ_NAMES: [&str; 27] = [
    "Cookie", "Referer", "Origin", "Range", "If-Modified-Since", "If-None-Match", "Via", "X-Forwarded-For", "Authorization",
    "Proxy-Authorization", "Cache-Control", "Host", "User-Agent", "Connection", "Accept", "Accept-Encoding", "Accept-Language",
    "Accept-Charset", "Keep-Alive", "Content-Length", "Transfer-Encoding", "X-Custom", "DNT", "Upgrade-Insecure-Requests",
    "Content-Type", "Pragma", "TE",
];
const RES_NAMES: [&str; 27] = [
    "Set-Cookie", "Last-Modified", "ETag", "Content-Length", "Content-Disposition", "Cache-Control", "Expires", "Pragma",
    "Location", "Refresh", "Content-Range", "Vary", "Date", "Content-Type", "Server", "Connection", "Keep-Alive", "Accept-Ranges",
    "Transfer-Encoding", "X-Powered-By", "Via", "Age", "Content-Encoding", "Cookie", "Referer", "Strict-Transport-Security",
    "X-Frame-Options",
];
fn req_names() -> Vec<&'static str> {
    REQ_NAMES.to_vec()
}
fn res_names() -> Vec<&'static str> {
    RES_NAMES.to_vec()
}

fn case_variant(r: &mut Rng, s: &str) -> Vec<u8> {
    match r.below(20) {
        0 => s.to_ascii_lowercase().into_bytes(),
        1 => s.to_ascii_uppercase().into_bytes(),
        2 => s.bytes().map(|b| if r.chance(1, 2) { b.to_ascii_uppercase() } else { b.to_ascii_lowercase() }).collect(),
        _ => s.as_bytes().to_vec(),
    }
}
fn token(r: &mut Rng) -> Vec<u8> {
    let n = r.range(1, 12) as usize;
    (0..n).map(|_| *r.pick(TCHARS)).collect()
}
fn ows(r: &mut Rng) -> Vec<u8> {
    if r.chance(1, 2) {
        b" ".to_vec()
    } else {
        r.pick(&OWS).as_bytes().to_vec()
    }
}

const UTF8_WORDS: [&str; 8] = ["héllo", "中文", "日本語テキスト", "😀", "Ünïcödé", "ß", "привет", "a\u{301}"];
const USPACES: [&str; 6] = ["\u{a0}", "\u{3000}", "\u{2003}", "\u{85}", "\u{1680}", "\u{205f}"];
const PLAIN_VALUES: [&str; 14] = [
    "example.com",
    "Mozilla/5.0 (X11; Linux x86_64) AppleWebKit/537.36 (KHTML, like Gecko) Chrome/120.0 Safari/537.36",
    "curl/8.4.0",
    "text/html,application/xhtml+xml,application/xml;q=0.9,*/*;q=0.8",
    "gzip, deflate, br",
    "keep-alive",
    "no-cache",
    "nginx/1.24.0",
    "Apache/2.4.57 (Debian)",
    "Mon, 01 Jan 2024 00:00:00 GMT",
    "a:b:c",
    "x=[y],z",
    "1",
    "",
];

/// a field-value: no leading/trailing SP/HTAB unless `sloppy`
fn value(r: &mut Rng) -> Vec<u8> {
    match if r.chance(1, 60) { 12 } else { r.below(12) } {
        12 => {
            // obs-text that is not UTF-8 (RFC 7230 field-vchar = VCHAR / obs-text): Latin-1, stray high bytes
            match r.below(3) {
                0 => b"caf\xe9".to_vec(),
                1 => vec![0xff, 0xfe, 0xfd],
                _ => { let mut v = r.pick(&PLAIN_VALUES).as_bytes().to_vec(); v.push(0xa0 + r.below(0x50) as u8); v.push(b'z'); v }
            }
        }
        0..=4 => r.pick(&PLAIN_VALUES).as_bytes().to_vec(),
        5 => r.pick(&UTF8_WORDS).as_bytes().to_vec(),
        6 => format!("{} {}", r.pick(&UTF8_WORDS), r.pick(&PLAIN_VALUES)).trim().as_bytes().to_vec(),
        7 => {
            // visible ASCII with inner spaces/tabs
            let n = r.range(1, 40) as usize;
            let mut v: Vec<u8> = (0..n)
                .map(|_| match r.below(10) {
                    0 => b' ',
                    1 => b'\t',
                    _ => r.range(0x21, 0x7e) as u8,
                })
                .collect();
            v[0] = r.range(0x21, 0x7e) as u8;
            let k = v.len() - 1;
            v[k] = r.range(0x21, 0x7e) as u8;
            v
        }
        8 => {
            // Unicode white space at an edge (known-finding class) or inside (harmless)
            let w = *r.pick(&USPACES);
            match r.below(9) {
                0 => format!("{w}edge").into_bytes(),
                1 => format!("edge{w}").into_bytes(),
                _ => format!("in{w}side").into_bytes(),
            }
        }
        9 => vec![b'v'; r.range(1, 300) as usize],
        10 => {
            // random valid UTF-8 from scalar values
            let n = r.range(1, 8);
            let mut s = String::new();
            for _ in 0..n {
                let cp = match r.below(4) {
                    0 => r.range(0x21, 0x7e) as u32,
                    1 => r.range(0xa1, 0x7ff) as u32,
                    2 => r.range(0x800, 0xd7ff) as u32,
                    _ => r.range(0x10000, 0x10ffff) as u32,
                };
                if let Some(c) = char::from_u32(cp) {
                    if !c.is_whitespace() {
                        s.push(c);
                    }
                }
            }
            if s.is_empty() {
                s.push('x');
            }
            s.into_bytes()
        }
        _ => {
            if r.chance(1, 8) {
                // sloppy: leading / trailing OWS inside the value (not well-formed as a value)
                format!(" {} ", r.pick(&PLAIN_VALUES)).into_bytes()
            } else {
                r.pick(&PLAIN_VALUES).as_bytes().to_vec()
            }
        }
    }
}

fn cookie_value(r: &mut Rng) -> Vec<u8> {
    const C: [&str; 12] = [
        "a=1; b=2",
        "a=1;b",
        ";;",
        " a = 1 ;  b=  ",
        "x",
        "k=v=w",
        "sid=abc123; theme=dark; lang=en-US",
        "a=1;;b=2;",
        "=v",
        "n=",
        "é=ü; 中=文",
        "a=\u{a0}1; b=2\u{3000}",
    ];
    r.pick(&C).trim().as_bytes().to_vec()
}

fn weight(r: &mut Rng) -> Weight {
    let whole = if r.chance(1, 4) { 1 } else { 0 };
    let dot = r.chance(4, 5);
    let nfrac = if dot { r.below(4) as usize } else { 0 };
    let frac: Vec<u8> = (0..nfrac)
        .map(|_| if whole == 1 { b'0' } else { *r.pick(b"0013579558") })
        .collect();
    Weight {
        ows: if r.chance(1, 10) { r.pick(&[" ", "\t", "  "]).as_bytes().to_vec() } else { vec![] },
        upper: r.chance(1, 40),
        whole,
        dot,
        frac,
        trail: if r.chance(1, 20) { b" ".to_vec() } else { vec![] },
    }
}
fn lang_item(r: &mut Rng) -> LangItem {
    let code = *r.pick(&LANG_CODES);
    let mut tag = code.as_bytes().to_vec();
    if code != "*" {
        match r.below(6) {
            0 => tag.extend_from_slice(b"-US"),
            1 => tag.extend_from_slice(b"-Hant-TW"),
            2 => tag.extend_from_slice(b"-419"),
            _ => {}
        }
        if r.chance(1, 30) {
            tag = tag.to_ascii_uppercase();
        }
    }
    LangItem {
        pre: if r.chance(1, 3) { b" ".to_vec() } else { vec![] },
        tag,
        post: if r.chance(1, 8) { b" ".to_vec() } else { vec![] },
        weight: if r.chance(2, 3) { Some(weight(r)) } else { None },
    }
}
fn lang_list(r: &mut Rng) -> Vec<LangItem> {
    let n = r.range(1, 6) as usize;
    (0..n).map(|_| lang_item(r)).collect()
}

fn field(r: &mut Rng, names: &[&str]) -> Field {
    let name = match r.below(10) {
        0 => token(r),
        _ => { let n: &str = *r.clone().pick(names); case_variant(r, n) },
    };
    Field { name, ows1: ows(r), value: value(r), ows2: if r.chance(1, 4) { ows(r) } else { vec![] } }
}

fn n_fields(r: &mut Rng) -> usize {
    match r.below(40) {
        0 => 0,
        1 => 99,
        2 => 100,
        3 => 101,
        4 | 5 => r.range(10, 98) as usize,
        _ => r.range(1, 9) as usize,
    }
}

fn target(r: &mut Rng) -> Vec<u8> {
    match r.below(8) {
        0 => b"/".to_vec(),
        1 => b"*".to_vec(),
        2 => b"/index.html?a=b&c=%20d".to_vec(),
        3 => b"http://example.com:8080/path".to_vec(),
        4 => b"example.com:443".to_vec(),
        _ => {
            let n = r.range(1, 60) as usize;
            let mut v = vec![b'/'];
            v.extend((0..n).map(|_| r.range(0x21, 0x7e) as u8));
            v
        }
    }
}

pub fn gen_req(r: &mut Rng) -> ReqHead {
    let names = req_names();
    let method = if r.chance(1, 25) { r.pick(&BAD_METHODS).as_bytes().to_vec() } else if r.chance(1, 30) { r.pick(&METHODS[16..]).as_bytes().to_vec() } else { r.pick(&METHODS[..16]).as_bytes().to_vec() };
    let ver = if r.chance(1, 30) { r.range(2, 3) as u8 } else { r.below(2) as u8 };
    let n = n_fields(r);
    let mut fields: Vec<Field> = (0..n).map(|_| field(r, &names)).collect();
    let mut langs = vec![];
    if n > 0 && r.chance(1, 3) {
        let k = r.below(fields.len() as u64) as usize;
        fields[k].name = case_variant(r, "Cookie");
        fields[k].value = cookie_value(r);
    }
    if n > 0 && r.chance(1, 4) {
        let k = r.below(fields.len() as u64) as usize;
        fields[k].name = case_variant(r, "Referer");
        fields[k].value = b"https://example.org/a?b=c".to_vec();
    }
    if n > 1 && r.chance(1, 6) {
        // a second (third) Cookie / Referer line, any letter case, anywhere
        for _ in 0..r.range(1, 2) {
            let k = r.below(fields.len() as u64) as usize;
            if r.chance(2, 3) {
                fields[k].name = case_variant(r, "Cookie");
                fields[k].value = cookie_value(r);
            } else {
                fields[k].name = case_variant(r, "Referer");
                fields[k].value = b"https://second.example/".to_vec();
            }
        }
    }
    if n > 0 && r.chance(1, 2) {
        let k = r.below(fields.len() as u64) as usize;
        fields[k].name = case_variant(r, "Accept-Language");
    }
    // Cookie / Referer lines may repeat (the pool and the two insertions above produce duplicates); the first Accept-Language field carries the structured list
    let mut seen_ck = false;
    let mut seen_rf = false;
    let mut seen_al = false;
    for f in fields.iter_mut() {
        if f.name.eq_ignore_ascii_case(b"cookie") {
            if seen_ck && r.chance(1, 2) {
                f.name = b"X-Cookie2".to_vec();
            }
            seen_ck = true;
        } else if f.name.eq_ignore_ascii_case(b"referer") {
            if seen_rf && r.chance(1, 2) {
                f.name = b"X-Referer2".to_vec();
            }
            seen_rf = true;
        } else if f.name.eq_ignore_ascii_case(b"accept-language") && !seen_al {
            seen_al = true;
            langs = lang_list(r);
            // keep the value free of edge OWS
            if let Some(x) = langs.first_mut() {
                x.pre.clear();
            }
            if let Some(l) = langs.last_mut() {
                l.post.clear();
                if let Some(w) = &mut l.weight {
                    w.trail.clear();
                }
            }
            f.value = render_langs(&langs);
        }
    }
    let mut h = ReqHead { method, target: target(r), ver, fields, langs };
    if r.chance(2, 5) {
        clean_req(&mut h);
    }
    h
}

/// rewrite a generated head so that it lies outside every known-finding class: canonical letter case
/// for listed names, no Unicode white space in values, plain `;q=` weights, lower-case primary tags
fn clean_fields(fields: &mut [Field], names: &[&str]) {
    for f in fields.iter_mut() {
        if let Some(c) = names.iter().find(|n| n.as_bytes().eq_ignore_ascii_case(&f.name)) {
            f.name = c.as_bytes().to_vec();
        }
        if let Ok(t) = std::str::from_utf8(&f.value) {
            if t.chars().any(|c| c.is_whitespace() && !c.is_ascii()) {
                f.value = b"plain value".to_vec();
            }
        } else {
            f.value = b"plain value".to_vec();
        }
    }
}
fn clean_req(h: &mut ReqHead) {
    clean_fields(&mut h.fields, &REQ_NAMES);
    if h.method == b"REPORT" || h.method == b"MKCALENDAR" {
        h.method = b"GET".to_vec();
    }
    for i in h.langs.iter_mut() {
        if let Some(w) = &mut i.weight {
            w.ows.clear();
            w.trail.clear();
            w.upper = false;
        }
        let cut = i.tag.iter().position(|b| *b == b'-').unwrap_or(i.tag.len());
        for b in i.tag[..cut].iter_mut() {
            *b = b.to_ascii_lowercase();
        }
    }
    if !h.langs.is_empty() {
        let v = render_langs(&h.langs);
        if let Some(f) = h.fields.iter_mut().find(|f| f.name.eq_ignore_ascii_case(b"accept-language")) {
            f.value = v;
        }
    }
}

pub fn gen_res(r: &mut Rng) -> ResHead {
    let names = res_names();
    let ver = if r.chance(1, 30) { r.range(2, 3) as u8 } else { r.below(2) as u8 };
    let status = match r.below(36) {
        0 => b"99".to_vec(),
        1 => b"2000".to_vec(),
        2 => b"2x0".to_vec(),
        3 => b"000".to_vec(),
        4 => b"999".to_vec(),
        _ => format!("{}", r.pick(&[200u16, 204, 301, 302, 304, 400, 404, 500, 503, 100, 100, 101, 103, 199])).into_bytes(),
    };
    let reason = match r.below(6) {
        0 => vec![],
        1 => b"Not Found".to_vec(),
        2 => "Pas trouvé".as_bytes().to_vec(),
        3 => b"OK  with  spaces ".to_vec(),
        _ => b"OK".to_vec(),
    };
    let n = n_fields(r);
    let mut fields: Vec<Field> = (0..n).map(|_| field(r, &names)).collect();
    if r.chance(2, 5) {
        clean_fields(&mut fields, &RES_NAMES);
    }
    ResHead { ver, status, reason, fields }
}

pub fn body(r: &mut Rng) -> Vec<u8> {
    match r.below(16) {
        // a body that is itself a complete message (pipelined / interim + final response, tunnelled request)
        12 => b"HTTP/1.1 500 Internal Server Error\r\nServer: evil/6.6\r\nContent-Length: 0\r\n\r\n".to_vec(),
        13 => b"GET /second HTTP/1.1\r\nHost: b\r\nUser-Agent: evil/6.6\r\n\r\n".to_vec(),
        14 => {
            let mut d = render_res(&gen_small_res(r));
            d.extend_from_slice(b"tail");
            d
        }
        15 => render_req(&gen_small_req(r)),
        0 | 1 => vec![],
        2 => b"hello world".to_vec(),
        3 => b"line1\r\nline2\r\n\r\nline4".to_vec(),
        4 => b"a\n\nb".to_vec(),
        5 => b"\n".to_vec(),
        6 => b"X-Injected: yes\r\nHost: evil\r\n\r\n".to_vec(),
        7 => b"\r\nGET /second HTTP/1.1\r\nHost: b\r\n\r\n".to_vec(),
        8 => vec![0x1f, 0x8b, 0x08, 0x00, 0xff, 0xfe, 0x00, 0x03],
        9 => vec![0xff, 0xfe, 0xfd],
        10 => "réponse 中文\r\n".as_bytes().to_vec(),
        _ => {
            let n = r.range(1, 64) as usize;
            r.bytes(n)
        }
    }
}

// ------------------------------------------------------------------------------------------ run

fn simple_req(method: &str, ver: u8, fields: Vec<Field>) -> ReqHead {
    ReqHead { method: method.as_bytes().to_vec(), target: b"/".to_vec(), ver, fields, langs: vec![] }
}
fn fld(n: &str, o1: &str, v: &str, o2: &str) -> Field {
    Field { name: n.as_bytes().to_vec(), ows1: o1.as_bytes().to_vec(), value: v.as_bytes().to_vec(), ows2: o2.as_bytes().to_vec() }
}
fn item(tag: &str, w: Option<(&str, bool, u8, bool, &str, &str)>) -> LangItem {
    LangItem {
        pre: vec![],
        tag: tag.as_bytes().to_vec(),
        post: vec![],
        weight: w.map(|(ows, upper, whole, dot, frac, trail)| Weight {
            ows: ows.as_bytes().to_vec(),
            upper,
            whole,
            dot,
            frac: frac.as_bytes().to_vec(),
            trail: trail.as_bytes().to_vec(),
        }),
    }
}

pub fn run(ctx: &mut Ctx) {
    let mut r = ctx.rng.fork();
    let env = Env { procs: HttpProcessors::new() };

    // 1. corpus / witnesses of the known-finding classes (always first)
    {
        // #11 (fixed): a binary body must not change the report
        let h = ResHead { ver: 1, status: b"200".to_vec(), reason: b"OK".to_vec(), fields: vec![fld("Server", " ", "nginx", "")] };
        emit_hres(ctx, &env, &h, &[0x1f, 0x8b, 0xff, 0xfe], true);
        emit_hres(ctx, &env, &h, b"", true);
        // method gate: REPORT / MKCALENDAR are parser methods but not gate methods
        for m in ["REPORT", "MKCALENDAR"] {
            emit_hreq(ctx, &env, &simple_req(m, 1, vec![fld("Host", " ", "a", "")]), b"", true);
        }
        // header-name case: lower-case user-agent keeps its value in the signature
        emit_hreq(ctx, &env, &simple_req("GET", 1, vec![fld("host", " ", "a", ""), fld("user-agent", " ", "curl/8", ""), fld("cache-control", " ", "no-cache", "")]), b"", true);
        emit_hres(ctx, &env, &ResHead { ver: 1, status: b"200".to_vec(), reason: b"OK".to_vec(), fields: vec![fld("server", " ", "nginx", ""), fld("content-length", " ", "0", "")] }, b"", true);
        // ` q=` with OWS: `fr; q=0.1, en` must prefer en
        let mut h = simple_req("GET", 1, vec![fld("Host", " ", "a", ""), fld("Accept-Language", " ", "", "")]);
        h.langs = vec![item("fr", Some((" ", false, 0, true, "1", ""))), LangItem { pre: b" ".to_vec(), ..item("en", None) }];
        h.fields[1].value = render_langs(&h.langs);
        emit_hreq(ctx, &env, &h, b"", true);
        emit_hlang(ctx, &h.langs);
        // upper-case primary tag
        emit_hlang(ctx, &[item("EN-US", None), item("fr", Some(("", false, 0, true, "5", "")))]);
        // Unicode space at the edge of a value
        emit_hreq(ctx, &env, &simple_req("GET", 1, vec![fld("Host", " ", "a", ""), fld("X-Note", " ", "\u{a0}padded\u{3000}", "")]), b"", true);
    }

    // 2. exhaustive sub-enumerations
    // 2a. every method x version x {no header, Host}
    for m in METHODS.iter().chain(BAD_METHODS.iter()) {
        for ver in 0..4u8 {
            emit_hreq(ctx, &env, &simple_req(m, ver, vec![]), b"", true);
            emit_hreq(ctx, &env, &simple_req(m, ver, vec![fld("Host", " ", "example.com", "")]), b"body", false);
        }
    }
    // 2b. every listed header name x {exact, lower, UPPER} x request/response, value present
    for (is_req, names) in [(true, req_names()), (false, res_names())] {
        for n in &names {
            for variant in 0..3 {
                let name = match variant {
                    0 => n.to_string(),
                    1 => n.to_ascii_lowercase(),
                    _ => n.to_ascii_uppercase(),
                };
                let v = if n.eq_ignore_ascii_case("accept-language") { "" } else { "v1" };
                if is_req {
                    let mut h = simple_req("GET", 1, vec![fld(&name, " ", v, ""), fld("X-After", " ", "1", "")]);
                    if v.is_empty() {
                        h.langs = vec![item("en", None)];
                        h.fields[0].value = render_langs(&h.langs);
                    }
                    emit_hreq(ctx, &env, &h, b"", false);
                } else {
                    let h = ResHead { ver: 0, status: b"200".to_vec(), reason: b"OK".to_vec(), fields: vec![fld(&name, " ", "v1", ""), fld("X-After", " ", "1", "")] };
                    emit_hres(ctx, &env, &h, b"", false);
                }
            }
        }
    }
    // 2c. OWS variants x OWS variants
    for o1 in OWS {
        for o2 in OWS {
            emit_hreq(ctx, &env, &simple_req("GET", 1, vec![fld("Host", o1, "a b", o2), fld("Empty", o1, "", o2)]), b"", true);
            emit_hres(ctx, &env, &ResHead { ver: 1, status: b"200".to_vec(), reason: b"OK".to_vec(), fields: vec![fld("Server", o1, "s/1", o2)] }, b"", true);
        }
    }
    // 2c'. two and three Cookie / Referer lines: every letter-case pair x positions around a Host line
    {
        let cases = ["Cookie", "cookie", "COOKIE"];
        let vals = ["a=1; b", "c=3", " ;d = 4 ;", ""];
        for (i, c1) in cases.iter().enumerate() {
            for c2 in cases {
                for pos in 0..3 {
                    let mut fs = vec![fld(c1, " ", vals[i], ""), fld(c2, " ", vals[(i + 1) % 4].trim(), ""), fld("Cookie", "", vals[(i + 2) % 4].trim(), " ")];
                    fs.insert(pos, fld("Host", " ", "h", ""));
                    fs.insert(pos + 1, fld(if pos == 1 { "REFERER" } else { "Referer" }, " ", "r1", ""));
                    fs.push(fld("referer", " ", "r2", ""));
                    emit_hreq(ctx, &env, &simple_req("GET", 1, fs), b"", true);
                }
            }
        }
    }
    // 2d. line lengths around the limits (request line, header line), header counts around 100
    for total in [8190usize, 8191, 8192, 8193, 8194] {
        let t = total - "GET ".len() - " HTTP/1.1".len();
        let mut h = simple_req("GET", 1, vec![fld("Host", " ", "a", "")]);
        h.target = std::iter::once(b'/').chain(std::iter::repeat(b'a').take(t - 1)).collect();
        emit_hreq(ctx, &env, &h, b"", true);
        let vlen = total - "X-Long: ".len();
        let h = simple_req("GET", 1, vec![fld("X-Long", " ", &"b".repeat(vlen), ""), fld("Host", " ", "a", "")]);
        emit_hreq(ctx, &env, &h, b"\xff\xfe", true);
        let hr = ResHead { ver: 1, status: b"200".to_vec(), reason: b"OK".to_vec(), fields: vec![fld("X-Long", " ", &"b".repeat(vlen), "")] };
        emit_hres(ctx, &env, &hr, b"", true);
    }
    for n in [0usize, 1, 99, 100, 101, 102] {
        let fs: Vec<Field> = (0..n).map(|k| fld(&format!("X-H{k}"), " ", &format!("{k}"), "")).collect();
        emit_hreq(ctx, &env, &simple_req("POST", 1, fs.clone()), b"x=1", true);
        emit_hres(ctx, &env, &ResHead { ver: 1, status: b"404".to_vec(), reason: b"Not Found".to_vec(), fields: fs }, b"x=1", true);
    }
    // 2e. every body kind on two fixed heads
    {
        let hq = simple_req("GET", 1, vec![fld("Host", " ", "example.com", ""), fld("User-Agent", " ", "curl/8.4.0", ""), fld("Accept", " ", "*/*", "")]);
        let hs = ResHead { ver: 1, status: b"200".to_vec(), reason: b"OK".to_vec(), fields: vec![fld("Server", " ", "nginx", ""), fld("Content-Type", " ", "text/html", ""), fld("Content-Length", " ", "11", "")] };
        // interim (1xx) response heads: what follows them on the wire is not part of the head either
        let h100 = ResHead { ver: 1, status: b"100".to_vec(), reason: b"Continue".to_vec(), fields: vec![] };
        let h103 = ResHead { ver: 1, status: b"103".to_vec(), reason: b"Early Hints".to_vec(), fields: vec![fld("Link", " ", "</style.css>; rel=preload", "")] };
        let mut br = Rng::new(5);
        for _ in 0..96 {
            let b = body(&mut br);
            emit_hreq(ctx, &env, &hq, &b, true);
            emit_hres(ctx, &env, &hs, &b, true);
            emit_hres(ctx, &env, &h100, &b, true);
            emit_hres(ctx, &env, &h103, &b, true);
        }
    }
    // 2f. every language of the table alone; q boundary pairs
    {
        let repo = std::env::var("VERIF_REPO").unwrap_or_else(|_| "/repo".to_string());
        let src = std::fs::read_to_string(format!("{repo}/huginn-net-http/src/http_languages.rs")).unwrap_or_default();
        let mut codes = vec![];
        for l in src.lines() {
            if let Some(p) = l.find("map.insert(\"") {
                let rest = &l[p + 12..];
                if let Some(q) = rest.find('"') {
                    codes.push(rest[..q].to_string());
                }
            }
        }
        for c in &codes {
            emit_hlang(ctx, &[item("xx", None), item(&format!("{c}-ZZ"), Some(("", false, 0, true, "5", "")))]);
        }
        let qs: [(u8, bool, &str); 11] = [(0, false, ""), (0, true, ""), (0, true, "001"), (0, true, "1"), (0, true, "3"), (0, true, "30"), (0, true, "300"), (0, true, "5"), (0, true, "999"), (1, false, ""), (1, true, "000")];
        for a in qs {
            for b in qs {
                emit_hlang(ctx, &[item("fr", Some(("", false, a.0, a.1, a.2, ""))), item("en", Some(("", false, b.0, b.1, b.2, ""))), item("de", Some(("", false, b.0, b.1, b.2, "")))]);
            }
        }
    }
    // 2g. truncation at every offset and every single-byte deletion of three heads
    {
        let samples: [&[u8]; 3] = [
            b"GET /a HTTP/1.1\r\nHost: x\r\nCookie: a=1; b\r\nReferer: r\r\n\r\nBODY",
            b"HTTP/1.0 404 Not Found\r\nServer: s\r\nContent-Length: 3\r\n\r\nabc",
            b"POST /p HTTP/1.0\nHost: y\nAccept-Language: fr;q=0.2, en\n\nzz",
        ];
        for s in samples {
            for cut in 0..=s.len() {
                emit_all_raw(ctx, &env, &s[..cut]);
            }
            for del in 0..s.len() {
                let mut v = s.to_vec();
                v.remove(del);
                emit_all_raw(ctx, &env, &v);
            }
        }
    }

    // 3. generated structured heads x bodies
    let n = ctx.n(2500, 40000);
    for k in 0..n {
        let b = body(&mut r);
        if k % 2 == 0 {
            let h = gen_req(&mut r);
            emit_hreq(ctx, &env, &h, &b, k % 4 == 0);
        } else {
            let h = gen_res(&mut r);
            emit_hres(ctx, &env, &h, &b, k % 4 == 1);
        }
    }

    // 4. malformed / mutated raw heads
    let n = ctx.n(1500, 20000);
    for _ in 0..n {
        let mut data = if r.chance(1, 2) { render_req(&gen_small_req(&mut r)) } else { render_res(&gen_small_res(&mut r)) };
        data.extend_from_slice(&body(&mut r));
        mutate(&mut r, &mut data);
        emit_all_raw(ctx, &env, &data);
    }
    for s in RAW_CORPUS {
        emit_all_raw(ctx, &env, s);
    }

    // 5. Accept-Language
    for s in LANG_CORPUS {
        emit_lang(ctx, s.as_bytes());
    }
    let n = ctx.n(1500, 30000);
    for _ in 0..n {
        let ls = lang_list(&mut r);
        emit_hlang(ctx, &ls);
    }
    let n = ctx.n(800, 10000);
    for _ in 0..n {
        let s = raw_lang(&mut r);
        emit_lang(ctx, s.as_bytes());
    }
}

fn gen_small_req(r: &mut Rng) -> ReqHead {
    let mut h = gen_req(r);
    h.fields.truncate(6);
    h
}
fn gen_small_res(r: &mut Rng) -> ResHead {
    let mut h = gen_res(r);
    h.fields.truncate(6);
    h
}

/// Structure-aware damage: line endings, colons, white space, invalid UTF-8, truncation.
fn mutate(r: &mut Rng, d: &mut Vec<u8>) {
    let k = r.range(1, 3);
    for _ in 0..k {
        if d.is_empty() {
            return;
        }
        match r.below(14) {
            0 => {
                // CRLF -> LF everywhere
                let mut o = Vec::with_capacity(d.len());
                let mut i = 0;
                while i < d.len() {
                    if d[i] == b'\r' && d.get(i + 1) == Some(&b'\n') {
                        i += 1;
                        continue;
                    }
                    o.push(d[i]);
                    i += 1;
                }
                *d = o;
            }
            1 => {
                // one CRLF -> LF
                if let Some(p) = find_nth(d, b"\r\n", r.below(4) as usize) {
                    d.remove(p);
                }
            }
            2 => {
                // remove one colon
                if let Some(p) = find_nth(d, b":", r.below(4) as usize) {
                    d.remove(p);
                }
            }
            3 => {
                let p = r.below(d.len() as u64) as usize;
                d.truncate(p);
            }
            4 => {
                let p = r.below(d.len() as u64) as usize;
                d[p] = r.next() as u8;
            }
            5 => {
                let p = r.below(d.len() as u64 + 1) as usize;
                let ins: &[u8] = match r.below(8) {
                    0 => b" ",
                    1 => b"\t",
                    2 => "\u{a0}".as_bytes(),
                    3 => "\u{2003}".as_bytes(),
                    4 => b"\r",
                    5 => b"\n",
                    6 => b"\x0b",
                    _ => b"\xc2",
                };
                for (k, b) in ins.iter().enumerate() {
                    d.insert(p + k, *b);
                }
            }
            6 => {
                // space before the colon / empty name
                if let Some(p) = find_nth(d, b":", r.below(3) as usize) {
                    d.insert(p, b' ');
                }
            }
            7 => {
                // obs-fold
                if let Some(p) = find_nth(d, b"\r\n", 1 + r.below(3) as usize) {
                    for (k, b) in b"\r\n folded".iter().enumerate() {
                        d.insert(p + k, *b);
                    }
                }
            }
            8 => {
                // line starting with a colon
                if let Some(p) = find_nth(d, b"\r\n", r.below(3) as usize) {
                    for (k, b) in b"\r\n: novalue".iter().enumerate() {
                        d.insert(p + k, *b);
                    }
                }
            }
            9 => {
                // blank line early
                if let Some(p) = find_nth(d, b"\r\n", r.below(3) as usize) {
                    for (k, b) in b"\r\n".iter().enumerate() {
                        d.insert(p + k, *b);
                    }
                }
            }
            10 => {
                // content-length variants
                let v: &[u8] = match r.below(7) {
                    0 => b"Content-Length: +5\r\n",
                    1 => b"Content-Length: -1\r\n",
                    2 => b"Content-Length: 18446744073709551615\r\n",
                    3 => b"Content-Length: 18446744073709551616\r\n",
                    4 => b"content-length: 007\r\n",
                    5 => b"Content-Length: 1 2\r\n",
                    _ => b"Content-Length:\r\n",
                };
                if let Some(p) = find_nth(d, b"\r\n", 0) {
                    for (k, b) in v.iter().enumerate() {
                        d.insert(p + 2 + k, *b);
                    }
                }
            }
            11 => {
                // drop the first byte(s)
                let k = r.range(1, 3) as usize;
                d.drain(..k.min(d.len()));
            }
            12 => {
                // double the space in the start line
                if let Some(p) = find_nth(d, b" ", r.below(2) as usize) {
                    d.insert(p, if r.chance(1, 2) { b' ' } else { b'\t' });
                }
            }
            _ => {
                // swap the start line's version
                if let Some(p) = find_nth(d, b"HTTP/1.", 0) {
                    let reps: [&[u8]; 5] = [b"HTTP/2.0", b"HTTP/1.2", b"http/1.1", b"HTTP/3", b"HTTP/2"];
                    let rep = *r.pick(&reps);
                    d.splice(p..(p + 8).min(d.len()), rep.iter().copied());
                }
            }
        }
    }
}

fn find_nth(d: &[u8], pat: &[u8], n: usize) -> Option<usize> {
    let mut c = 0;
    if d.len() < pat.len() {
        return None;
    }
    for i in 0..=(d.len() - pat.len()) {
        if &d[i..i + pat.len()] == pat {
            if c == n {
                return Some(i);
            }
            c += 1;
        }
    }
    None
}

const RAW_CORPUS: &[&[u8]] = &[
    b"",
    b"\r\n\r\n",
    b"\n\n",
    b"GET / HTTP/1.1\r\n\r\n",
    b"GET / HTTP/1.1\n\n",
    b"GET / HTTP/1.1\r\nHost: a\n\n",
    b"GET / HTTP/1.1\nHost: a\r\n\r\n",
    b"GET / HTTP/1.1\r\nHost: a\r\n",
    b"GET  /  HTTP/1.1 \r\nHost: a\r\n\r\n",
    b"GET\t/\tHTTP/1.1\r\n\r\n",
    b"GET /\xc2\xa0HTTP/1.1\r\nHost: a\r\n\r\n",
    b"GET\xe2\x80\x83/ HTTP/1.1\r\nHost: a\r\n\r\n",
    b"GET / HTTP/1.1\r\n\xff: a\r\n\r\n",
    b"GET / HTTP/1.1\r\nHost: \xe4\xb8\r\n\r\n",
    b"GET / HTTP/1.1\r\nA\r\nB: \r\n: c\r\n  : d\r\nE : f\r\n\r\n",
    b"GET / HTTP/1.1\r\nCookie: a=1\r\nCookie: b=2\r\nReferer: x\r\nReferer: y\r\n\r\n",
    b"GET / HTTP/1.1\r\nHost: a\r\nhost: b\r\nHOST: c\r\nUser-Agent: u1\r\nuser-agent: u2\r\n\r\n",
    b"PRI * HTTP/2.0\r\n\r\nSM\r\n\r\n",
    b"PRI * HTTP/2.0\r\n\r\n",
    b"HTTP/1.1 200\r\n\r\n",
    b"HTTP/1.1 200 \r\n\r\n",
    b"HTTP/1.1 +200 OK\r\n\r\n",
    b"HTTP/1.1 65535 OK\r\n\r\n",
    b"HTTP/1.1 65536 OK\r\n\r\n",
    b"HTTP/1.1  200 OK\r\n\r\n",
    b"HTTP/1.1 200 OK\r\nServer: a\r\nserver: b\r\nSet-Cookie: x\r\nSet-Cookie: y\r\n\r\n",
    b"HTTP/1.1 200 OK\rServer: a\r\n\r\n",
    b"HTTP/2 200 OK\r\n\r\n",
    b"HTTP/1.1\r\n\r\n",
    b"GET / HTTP/1.1\r\nHost: a\r\n\r\n\n",
    b"GET / HTTP/1.1\r\nX: a\n\nb\r\n\r\n",
    b"\r\nGET / HTTP/1.1\r\nHost: a\r\n\r\n",
    b"GET / HTTP/1.1\r\r\nHost: a\r\n\r\n",
];

const LANG_CORPUS: &[&str] = &[
    "", ",", ",,", " ", "en", "EN", "en-US", "en_US", "xx", "*", "en,fr", "fr,en", "en;q=0.5,fr", "en;q=0.5,fr;q=0.5",
    "en;q=0.5,fr;q=0.50", "en;q=0.5,fr;q=0.500", "en;q=0.3,fr;q=0.30,de;q=0.300", "en;q=", "en;q=abc", "en;q=1.", "en;q=.5",
    "en;q=.", "en;q=+0.5,fr;q=0.4", "en;q=-0.5,fr;q=-0.6", "en;q=-0,fr;q=0", "en;q=q=0.3,fr;q=0.4", "en; q=0.5,fr;q=0.6",
    "en ;q=0.5,fr;q=0.6", "en;q=0.5 ,fr;q=0.4", "en;Q=0.5,fr;q=0.6", "en;x=1;q=0.2,fr;q=0.3", "en;q=0.2;x=1,fr;q=0.1",
    ";q=0.5", ";", "en;", "en;;q=0.1,fr;q=0.5", "-en", "en-", "e-n", "fr; q=0.1, en", "fr;q=0.1, en", "da, en-gb;q=0.8, en;q=0.7",
    "zh-Hant-TW;q=0.9,zh;q=0.8", "en;q=2,fr;q=1.5", "en;q=00.5,fr;q=0.6", "en;q=0.50000,fr;q=0.5", "en;q=1,fr;q=1.000",
    "en;q=0.1234,fr;q=0.1235", "\u{a0}en", "en\u{3000};q=0.2,fr;q=0.1", "é;q=0.1", "en;q=0.5\u{a0},fr;q=0.4",
];

fn raw_lang(r: &mut Rng) -> String {
    const TAGS: [&str; 12] = ["en", "fr", "de", "EN", "en-US", "xx", "*", "", " ", "zh-CN", "q", "e"];
    const QS: [&str; 22] = [
        "q=0.5", "q=0", "q=1", "q=1.0", "q=0.001", "q=0.999", "q=.5", "q=5.", "q=", "q=x", " q=0.5", "q=0.5 ", "Q=0.5", "q=q=0.2",
        "q=+0.5", "q=-0.5", "x=1", "", "0.7", "q=0.25", "q=0.250", "q=00.25",
    ];
    let n = r.range(1, 5);
    let mut s = String::new();
    for k in 0..n {
        if k > 0 {
            s.push(',');
            if r.chance(1, 2) {
                s.push(' ');
            }
        }
        s.push_str(*r.pick(&TAGS));
        let m = r.below(3);
        for _ in 0..m {
            s.push(';');
            s.push_str(*r.pick(&QS));
        }
    }
    s
}
