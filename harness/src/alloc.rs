//! Counting global allocator (C11): total bytes ever allocated and bytes currently live.
use std::alloc::{GlobalAlloc, Layout, System};
use std::sync::atomic::{AtomicU64, Ordering};

pub struct Counting;

pub static ALLOCATED: AtomicU64 = AtomicU64::new(0);
pub static LIVE: AtomicU64 = AtomicU64::new(0);

unsafe impl GlobalAlloc for Counting {
    unsafe fn alloc(&self, l: Layout) -> *mut u8 {
        let p = System.alloc(l);
        if !p.is_null() {
            ALLOCATED.fetch_add(l.size() as u64, Ordering::Relaxed);
            LIVE.fetch_add(l.size() as u64, Ordering::Relaxed);
        }
        p
    }
    unsafe fn dealloc(&self, p: *mut u8, l: Layout) {
        System.dealloc(p, l);
        LIVE.fetch_sub(l.size() as u64, Ordering::Relaxed);
    }
    unsafe fn realloc(&self, p: *mut u8, l: Layout, new_size: usize) -> *mut u8 {
        let q = System.realloc(p, l, new_size);
        if !q.is_null() {
            if new_size > l.size() {
                let d = (new_size - l.size()) as u64;
                ALLOCATED.fetch_add(d, Ordering::Relaxed);
                LIVE.fetch_add(d, Ordering::Relaxed);
            } else {
                LIVE.fetch_sub((l.size() - new_size) as u64, Ordering::Relaxed);
            }
        }
        q
    }
}

pub fn snapshot() -> (u64, u64) {
    (ALLOCATED.load(Ordering::Relaxed), LIVE.load(Ordering::Relaxed))
}
