//! C06 — signature text round-trips (`Display` / `FromStr` of huginn-net-db's tcp and http
//! signature types), the token tables, every `sig` line of the bundled p0f.fp, and
//! `Database::from_str` on structured and raw documents.
use crate::rng::Rng;
use crate::wr::{guarded, hex, Line};
use crate::Ctx;
use huginn_net_db::http::{Header, Signature as HttpSig, Version};
use huginn_net_db::tcp::{IpVersion, PayloadSize, Quirk, Signature as TcpSig, TcpOption, Ttl, WindowSize};
use huginn_net_db::{Database, Label, Type};
use std::str::FromStr;

// ------------------------------------------------------------------------------------------------
// wire encodings (mirrored in lean/Huginn/Drv/C06.lean)

const QUIRKS: [Quirk; 17] = [
    Quirk::Df,
    Quirk::NonZeroID,
    Quirk::ZeroID,
    Quirk::Ecn,
    Quirk::MustBeZero,
    Quirk::FlowID,
    Quirk::SeqNumZero,
    Quirk::AckNumNonZero,
    Quirk::AckNumZero,
    Quirk::NonZeroURG,
    Quirk::Urg,
    Quirk::Push,
    Quirk::OwnTimestampZero,
    Quirk::PeerTimestampNonZero,
    Quirk::TrailinigNonZero,
    Quirk::ExcessiveWindowScaling,
    Quirk::OptBad,
];

/// index in enum declaration order; the `match` is exhaustive so that a new variant is a compile error here.
fn quirk_idx(q: &Quirk) -> usize {
    match q {
        Quirk::Df => 0,
        Quirk::NonZeroID => 1,
        Quirk::ZeroID => 2,
        Quirk::Ecn => 3,
        Quirk::MustBeZero => 4,
        Quirk::FlowID => 5,
        Quirk::SeqNumZero => 6,
        Quirk::AckNumNonZero => 7,
        Quirk::AckNumZero => 8,
        Quirk::NonZeroURG => 9,
        Quirk::Urg => 10,
        Quirk::Push => 11,
        Quirk::OwnTimestampZero => 12,
        Quirk::PeerTimestampNonZero => 13,
        Quirk::TrailinigNonZero => 14,
        Quirk::ExcessiveWindowScaling => 15,
        Quirk::OptBad => 16,
    }
}

fn enc_opt_nat<T: Into<u64> + Copy>(v: &Option<T>) -> String {
    match v {
        None => "0".into(),
        Some(n) => format!("1 {}", (*n).into()),
    }
}
fn enc_list<T>(xs: &[T], f: impl Fn(&T) -> String) -> String {
    if xs.is_empty() {
        "0".into()
    } else {
        format!("{} {}", xs.len(), xs.iter().map(f).collect::<Vec<_>>().join(" "))
    }
}
fn enc_ttl(t: &Ttl) -> String {
    match t {
        Ttl::Value(a) => format!("0 {a} 0"),
        Ttl::Distance(a, b) => format!("1 {a} {b}"),
        Ttl::Guess(a) => format!("2 {a} 0"),
        Ttl::Bad(a) => format!("3 {a} 0"),
    }
}
fn enc_wsize(w: &WindowSize) -> String {
    match w {
        WindowSize::Mss(n) => format!("0 {n}"),
        WindowSize::Mtu(n) => format!("1 {n}"),
        WindowSize::Value(n) => format!("2 {n}"),
        WindowSize::Mod(n) => format!("3 {n}"),
        WindowSize::Any => "4 0".into(),
    }
}
fn enc_opt(o: &TcpOption) -> String {
    match o {
        TcpOption::Eol(n) => format!("0 {n}"),
        TcpOption::Nop => "1 0".into(),
        TcpOption::Mss => "2 0".into(),
        TcpOption::Ws => "3 0".into(),
        TcpOption::Sok => "4 0".into(),
        TcpOption::Sack => "5 0".into(),
        TcpOption::TS => "6 0".into(),
        TcpOption::Unknown(n) => format!("7 {n}"),
    }
}
fn enc_tcp(s: &TcpSig) -> String {
    [
        match s.version {
            IpVersion::V4 => "0".to_string(),
            IpVersion::V6 => "1".into(),
            IpVersion::Any => "2".into(),
        },
        enc_ttl(&s.ittl),
        s.olen.to_string(),
        enc_opt_nat(&s.mss),
        enc_wsize(&s.wsize),
        enc_opt_nat(&s.wscale),
        enc_list(&s.olayout, enc_opt),
        enc_list(&s.quirks, |q| quirk_idx(q).to_string()),
        match s.pclass {
            PayloadSize::Zero => "0".to_string(),
            PayloadSize::NonZero => "1".into(),
            PayloadSize::Any => "2".into(),
        },
    ]
    .join(" ")
}
fn enc_header(h: &Header) -> String {
    format!(
        "{} {} {}",
        h.optional as u8,
        hex(h.name.as_bytes()),
        match &h.value {
            None => "0".to_string(),
            Some(v) => format!("1 {}", hex(v.as_bytes())),
        }
    )
}
fn enc_http(s: &HttpSig) -> String {
    format!(
        "{} {} {} {}",
        match s.version {
            Version::V10 => 0,
            Version::V11 => 1,
            Version::V20 => 2,
            Version::V30 => 3,
            Version::Any => 4,
        },
        enc_list(&s.horder, enc_header),
        enc_list(&s.habsent, enc_header),
        hex(s.expsw.as_bytes())
    )
}

fn raw(op: &str, enc: &str, out: &str) -> String {
    format!("{op} {enc} => {out}")
}

// ------------------------------------------------------------------------------------------------
// operations on the real types

fn tcp_roundtrip(s: &TcpSig) -> String {
    let s = s.clone();
    guarded(move || {
        let text = s.to_string();
        match TcpSig::from_str(&text) {
            Ok(v) => format!("{} ok {}", hex(text.as_bytes()), enc_tcp(&v)),
            Err(_) => format!("{} err", hex(text.as_bytes())),
        }
    })
}
fn tcp_parse(t: &str) -> String {
    let t = t.to_string();
    guarded(move || match TcpSig::from_str(&t) {
        Ok(v) => format!("ok {} {}", enc_tcp(&v), hex(v.to_string().as_bytes())),
        Err(_) => "err".into(),
    })
}
fn http_roundtrip(s: &HttpSig) -> String {
    let s = s.clone();
    guarded(move || {
        let text = s.to_string();
        match HttpSig::from_str(&text) {
            Ok(v) => format!("{} ok {}", hex(text.as_bytes()), enc_http(&v)),
            Err(_) => format!("{} err", hex(text.as_bytes())),
        }
    })
}
fn http_parse(t: &str) -> String {
    let t = t.to_string();
    guarded(move || match HttpSig::from_str(&t) {
        Ok(v) => format!("ok {} {}", enc_http(&v), hex(v.to_string().as_bytes())),
        Err(_) => "err".into(),
    })
}

fn emit_tcp(ctx: &mut Ctx, s: &TcpSig) {
    let out = tcp_roundtrip(s);
    ctx.emit(raw("C06.tcp", &enc_tcp(s), &out));
}
fn emit_ptcp(ctx: &mut Ctx, t: &str) {
    if t.contains('\n') && false {
        return;
    }
    let out = tcp_parse(t);
    ctx.emit(Line::op("C06.ptcp").text(t).finish(&out));
}
fn emit_http(ctx: &mut Ctx, s: &HttpSig) {
    let out = http_roundtrip(s);
    ctx.emit(raw("C06.http", &enc_http(s), &out));
}
fn emit_phttp(ctx: &mut Ctx, t: &str) {
    let out = http_parse(t);
    ctx.emit(Line::op("C06.phttp").text(t).finish(&out));
}

// ------------------------------------------------------------------------------------------------
// generators

const U8B: [u8; 14] = [0, 1, 2, 7, 9, 10, 11, 64, 99, 100, 128, 200, 254, 255];
const U16B: [u16; 16] =
    [0, 1, 9, 10, 99, 100, 255, 256, 1460, 8192, 9999, 10000, 32768, 65280, 65534, 65535];

fn g_u8(r: &mut Rng) -> u8 {
    if r.chance(2, 3) {
        *r.pick(&U8B)
    } else {
        r.next() as u8
    }
}
fn g_u16(r: &mut Rng) -> u16 {
    if r.chance(2, 3) {
        *r.pick(&U16B)
    } else {
        r.next() as u16
    }
}
fn g_ttl(r: &mut Rng) -> Ttl {
    match r.below(4) {
        0 => Ttl::Value(g_u8(r)),
        1 => Ttl::Distance(g_u8(r), g_u8(r)),
        2 => Ttl::Guess(g_u8(r)),
        _ => Ttl::Bad(g_u8(r)),
    }
}
fn g_wsize(r: &mut Rng) -> WindowSize {
    match r.below(5) {
        0 => WindowSize::Mss(g_u8(r)),
        1 => WindowSize::Mtu(g_u8(r)),
        2 => WindowSize::Value(g_u16(r)),
        3 => WindowSize::Mod(g_u16(r)),
        _ => WindowSize::Any,
    }
}
fn g_opt(r: &mut Rng) -> TcpOption {
    match r.below(8) {
        0 => TcpOption::Eol(g_u8(r)),
        1 => TcpOption::Nop,
        2 => TcpOption::Mss,
        3 => TcpOption::Ws,
        4 => TcpOption::Sok,
        5 => TcpOption::Sack,
        6 => TcpOption::TS,
        _ => TcpOption::Unknown(g_u8(r)),
    }
}
fn g_len(r: &mut Rng) -> usize {
    match r.below(10) {
        0 | 1 => 0,
        2 | 3 => 1,
        4 | 5 => 2,
        6 => 3,
        7 => 5,
        8 => r.range(6, 12) as usize,
        _ => r.range(13, 40) as usize,
    }
}
fn g_tcp(r: &mut Rng) -> TcpSig {
    let nl = g_len(r);
    let nq = g_len(r);
    TcpSig {
        version: *r.pick(&[IpVersion::V4, IpVersion::V6, IpVersion::Any]),
        ittl: g_ttl(r),
        olen: g_u8(r),
        mss: if r.chance(1, 2) { Some(g_u16(r)) } else { None },
        wsize: g_wsize(r),
        wscale: if r.chance(1, 2) { Some(g_u8(r)) } else { None },
        olayout: (0..nl).map(|_| g_opt(r)).collect(),
        quirks: (0..nq).map(|_| r.pick(&QUIRKS).clone()).collect(),
        pclass: *r.pick(&[PayloadSize::Zero, PayloadSize::NonZero, PayloadSize::Any]),
    }
}
fn base_tcp() -> TcpSig {
    TcpSig {
        version: IpVersion::V4,
        ittl: Ttl::Value(64),
        olen: 0,
        mss: Some(1460),
        wsize: WindowSize::Mss(20),
        wscale: Some(7),
        olayout: vec![TcpOption::Mss, TcpOption::Sok, TcpOption::TS, TcpOption::Nop, TcpOption::Ws],
        quirks: vec![Quirk::Df, Quirk::NonZeroID],
        pclass: PayloadSize::Zero,
    }
}

const NAMES: [&str; 16] = [
    "Host", "User-Agent", "Accept", "Accept-Language", "Accept-Encoding", "Connection", "Keep-Alive",
    "X-a-1", "-", "a", "0", "9z", "UA-CPU", "Content-Type", "Server", "Date",
];
const VALUES: [&str; 18] = [
    "", "keep-alive", "gzip,deflate", "gzip, deflate", ",*/*;q=", "utf-8;q=0.7,*;q=0.7", "a:b", ":", ",",
    "[", "=[", "[[", "?", " ", "x=[y", "\u{e9}t\u{e9}", "\u{3000}", "300",
];
const SW: [&str; 16] = [
    "", "Firefox/", " Chrom", "(compatible; MSIE", ":", "a:b,c", ",", "]", "=[x]", "?", "Apache", "x ",
    "\u{a0}", "caf\u{e9}", "::", "1:Host::",
];
/// names outside the vocabulary (exercise the model, not the specification)
const ODD_NAMES: [&str; 8] = ["a b", "a:b", "a=b", "a,b", "\u{e9}", "?x", "a]", "a[b"];
const ODD_VALUES: [&str; 4] = ["]", "a]b", "]]", "x]"];

fn g_name(r: &mut Rng, allow_empty: bool, odd: bool) -> String {
    if odd && r.chance(1, 12) {
        return (*r.pick(&ODD_NAMES)).to_string();
    }
    if allow_empty && r.chance(1, 10) {
        return String::new();
    }
    if r.chance(3, 4) {
        (*r.pick(&NAMES)).to_string()
    } else {
        let n = r.range(1, 8);
        (0..n)
            .map(|_| *r.pick(&[
                'a', 'z', 'A', 'Z', '0', '9', '-', 'm', 'Q', 'x',
            ]))
            .collect()
    }
}
fn g_header(r: &mut Rng, allow_empty: bool, odd: bool) -> Header {
    Header {
        optional: r.chance(1, 3),
        name: g_name(r, allow_empty, odd),
        value: if r.chance(1, 2) {
            Some(if odd && r.chance(1, 10) {
                (*r.pick(&ODD_VALUES)).to_string()
            } else {
                (*r.pick(&VALUES)).to_string()
            })
        } else {
            None
        },
    }
}
fn g_http(r: &mut Rng, odd: bool) -> HttpSig {
    let nh = if r.chance(1, 12) { 0 } else { 1 + g_len(r) % 9 };
    let na = g_len(r) % 7;
    HttpSig {
        version: if odd && r.chance(1, 10) {
            *r.pick(&[Version::V20, Version::V30])
        } else {
            *r.pick(&[Version::V10, Version::V11, Version::Any])
        },
        horder: (0..nh).map(|_| g_header(r, odd, odd)).collect(),
        habsent: (0..na).map(|_| g_header(r, false, odd)).collect(),
        expsw: (*r.pick(&SW)).to_string(),
    }
}
fn hdr(name: &str) -> Header {
    Header { optional: false, name: name.into(), value: None }
}

const TCP_ALPHABET: &[u8] = b"0123456789:,*+-?%abcdefiklmnopqrstuwx ";
const HTTP_ALPHABET: &[u8] = b"01*:,?=[]-aZ9 ";

fn mutate(r: &mut Rng, t: &str, alphabet: &[u8]) -> String {
    let mut c: Vec<char> = t.chars().collect();
    let n = 1 + r.below(2);
    for _ in 0..n {
        let pos = r.below(c.len() as u64 + 1) as usize;
        match r.below(4) {
            0 if !c.is_empty() => {
                c.remove(pos.min(c.len() - 1));
            }
            1 => c.insert(pos, *r.pick(alphabet) as char),
            2 if !c.is_empty() => {
                let p = pos.min(c.len() - 1);
                c[p] = *r.pick(alphabet) as char;
            }
            _ => {
                // duplicate a character (e.g. `,,` `::`)
                if !c.is_empty() {
                    let p = pos.min(c.len() - 1);
                    c.insert(p, c[p]);
                }
            }
        }
    }
    c.into_iter().collect()
}

/// insert leading zeros in front of one digit run
fn pad_zeros(r: &mut Rng, t: &str) -> String {
    let c: Vec<char> = t.chars().collect();
    let starts: Vec<usize> = (0..c.len())
        .filter(|&i| c[i].is_ascii_digit() && (i == 0 || !c[i - 1].is_ascii_digit()))
        .collect();
    if starts.is_empty() {
        return t.to_string();
    }
    let at = *r.pick(&starts);
    let k = 1 + r.below(3) as usize;
    let mut out: String = c[..at].iter().collect();
    out.push_str(&"0".repeat(k));
    out.extend(c[at..].iter());
    out
}

// ------------------------------------------------------------------------------------------------
// token tables

fn dbg<T: std::fmt::Debug, E>(r: Result<T, E>) -> String {
    match r {
        Ok(v) => format!("{v:?}"),
        Err(_) => "err".into(),
    }
}
fn tok_parse(table: &str, cand: &str) -> String {
    let (table, cand) = (table.to_string(), cand.to_string());
    guarded(move || match table.as_str() {
        "ipver" => dbg(IpVersion::from_str(&cand)),
        "quirk" => dbg(Quirk::from_str(&cand)),
        "payload" => dbg(PayloadSize::from_str(&cand)),
        "ltype" => dbg(Type::from_str(&cand)),
        "opt" => match TcpOption::from_str(&cand) {
            Ok(TcpOption::Eol(_)) | Ok(TcpOption::Unknown(_)) | Err(_) => "err".into(),
            Ok(o) => format!("{o:?}"),
        },
        // http::Version has no FromStr of its own: go through a signature
        "httpver" => match HttpSig::from_str(&format!("{cand}:Host::")) {
            Ok(s) if s.horder == vec![hdr("Host")] && s.habsent.is_empty() && s.expsw.is_empty() => {
                format!("{:?}", s.version)
            }
            _ => "err".into(),
        },
        _ => "err".into(),
    })
}

fn comp_parse(kind: &str, t: &str) -> String {
    let (kind, t) = (kind.to_string(), t.to_string());
    guarded(move || match kind.as_str() {
        "ttl" => Ttl::from_str(&t).map(|v| format!("ok {}", enc_ttl(&v))).unwrap_or_else(|_| "err".into()),
        "wsize" => WindowSize::from_str(&t).map(|v| format!("ok {}", enc_wsize(&v))).unwrap_or_else(|_| "err".into()),
        "opt" => TcpOption::from_str(&t).map(|v| format!("ok {}", enc_opt(&v))).unwrap_or_else(|_| "err".into()),
        "hdr" => Header::from_str(&t).map(|v| format!("ok {}", enc_header(&v))).unwrap_or_else(|_| "err".into()),
        _ => "err".into(),
    })
}

/// the `FromStr` of the component types on every numeral 0..=300 in each form, with and without a
/// leading zero, plus malformed neighbours
fn components(ctx: &mut Ctx, r: &mut Rng) {
    let mut cases: Vec<(&str, String)> = vec![];
    for n in (0..=300u32).chain([999, 1000, 9999, 65534, 65535, 65536, 70000, 99999, 4294967295]) {
        for z in ["", "0"] {
            let d = format!("{z}{n}");
            for t in [d.clone(), format!("{d}-"), format!("{d}+?"), format!("{d}+{d}"), format!("64+{d}"), format!("{d}+"), format!("+{d}")] {
                cases.push(("ttl", t));
            }
            for t in [d.clone(), format!("mss*{d}"), format!("mtu*{d}"), format!("%{d}"), format!("mss{d}"), format!("*{d}"), format!("m*{d}")] {
                cases.push(("wsize", t));
            }
            for t in [format!("eol+{d}"), format!("?{d}"), format!("eol{d}"), format!("eol+{d}x"), format!("nop{d}")] {
                cases.push(("opt", t));
            }
        }
    }
    for t in ["", "*", "**", "-", "+?", "64-+", "64+?+", "64 ", " 64", "mss*", "mtu*", "%", "eol+", "?", "nop", "mss", "ws", "sok", "sack", "ts",
        "NOP", "sackx", "ts1", "so", "?x", "??1"] {
        for k in ["ttl", "wsize", "opt"] {
            cases.push((k, t.to_string()));
        }
    }
    for t in ["Host", "?Host", "Host=[a]", "?Host=[a,b]", "", "?", "=[x]", "Host=[", "Host=[a]]", "Host=[a]b", "Ho st", "Host:", "Host,",
        "a-b", "-", "?-=[]", "H\u{e9}", "Host=[\u{e9}]", "??Host", "Host?", "Host=x", "Host=[]"] {
        cases.push(("hdr", t.to_string()));
    }
    for _ in 0..ctx.n(300, 5000) {
        let h = g_header(r, true, true);
        let t = if r.chance(1, 2) { h.to_string() } else { mutate(r, &h.to_string(), HTTP_ALPHABET) };
        cases.push(("hdr", t));
    }
    for (k, t) in cases {
        ctx.emit(Line::op("C06.pcomp").tok(k).text(&t).finish(&comp_parse(k, &t)));
    }
}

fn tokens(ctx: &mut Ctx) {
    // Display of every variant, and the parser on exactly that text
    let mut printed: Vec<(&str, String, String)> = vec![];
    for v in [IpVersion::V4, IpVersion::V6, IpVersion::Any] {
        printed.push(("ipver", format!("{v:?}"), v.to_string()));
    }
    for q in QUIRKS.iter() {
        printed.push(("quirk", format!("{q:?}"), q.to_string()));
    }
    for p in [PayloadSize::Zero, PayloadSize::NonZero, PayloadSize::Any] {
        printed.push(("payload", format!("{p:?}"), p.to_string()));
    }
    for v in [Version::V10, Version::V11, Version::V20, Version::V30, Version::Any] {
        printed.push(("httpver", format!("{v:?}"), v.to_string()));
    }
    for o in [TcpOption::Nop, TcpOption::Mss, TcpOption::Ws, TcpOption::Sok, TcpOption::Sack, TcpOption::TS] {
        printed.push(("opt", format!("{o:?}"), o.to_string()));
    }
    let mut cands: Vec<(&str, String)> = vec![];
    for (table, variant, text) in &printed {
        ctx.emit(Line::op("C06.tokd").tok(table).tok(variant).finish(&hex(text.as_bytes())));
        cands.push((table, text.clone()));
    }
    // candidates: every printed token against every table, every proper prefix, one-character
    // extensions, case changes, and the documented spellings
    let all: Vec<String> = printed.iter().map(|p| p.2.clone()).collect();
    let tables = ["ipver", "quirk", "payload", "httpver", "opt", "ltype"];
    let mut extra: Vec<String> = vec!["".into(), "s".into(), "g".into(), "S".into(), "x".into(), "eol".into(),
        "eol+".into(), "?".into(), "2".into(), "3".into(), "5".into(), "id".into(), "ts1".into(), "ts2".into(),
        "ts1+".into(), "ts2-".into(), "opt-".into(), "bad+".into(), "sack ".into(), " df".into()];
    for t in &all {
        for k in 1..t.len() {
            extra.push(t[..k].to_string());
        }
        extra.push(format!("{t}+"));
        extra.push(format!("{t}0"));
        extra.push(t.to_uppercase());
    }
    for table in tables {
        for t in all.iter().chain(extra.iter()) {
            cands.push((table, t.clone()));
        }
    }
    cands.sort();
    cands.dedup();
    for (table, t) in cands {
        ctx.emit(Line::op("C06.tokp").tok(table).text(&t).finish(&tok_parse(table, &t)));
    }
}

// ------------------------------------------------------------------------------------------------
// bundled file

fn repo_dir() -> String {
    std::env::var("VERIF_REPO").unwrap_or_else(|_| "/repo".to_string())
}

fn bundled_lines(ctx: &mut Ctx) -> Vec<(String, String)> {
    let path = format!("{}/huginn-net-db/config/p0f.fp", repo_dir());
    let text = std::fs::read_to_string(&path).unwrap_or_default();
    let mut section = String::new();
    let mut sigs = vec![];
    for (i, l) in text.split('\n').enumerate() {
        let t = l.trim();
        if t.starts_with('[') && t.ends_with(']') {
            section = t[1..t.len() - 1].to_string();
            continue;
        }
        if section == "mtu" || section.is_empty() {
            continue;
        }
        if let Some(rest) = t.strip_prefix("sig") {
            let rest = rest.trim_start();
            if let Some(v) = rest.strip_prefix('=') {
                let v = v.trim_start();
                let out = if section.starts_with("tcp") {
                    let v2 = v.to_string();
                    guarded(move || match TcpSig::from_str(&v2) {
                        Ok(s) => hex(s.to_string().as_bytes()),
                        Err(_) => "err".into(),
                    })
                } else {
                    let v2 = v.to_string();
                    guarded(move || match HttpSig::from_str(&v2) {
                        Ok(s) => hex(s.to_string().as_bytes()),
                        Err(_) => "err".into(),
                    })
                };
                ctx.emit(Line::op("C06.line").usize(i + 1).tok(&section).text(v).finish(&out));
                sigs.push((section.clone(), v.to_string()));
            }
        }
    }
    sigs
}

// ------------------------------------------------------------------------------------------------
// labels

#[derive(Clone)]
struct ULabel {
    generic: bool,
    cls: Option<String>,
    name: String,
    flavor: Option<String>,
}
fn enc_opt_text(t: &Option<String>) -> String {
    match t {
        None => "0".into(),
        Some(t) => format!("1 {}", hex(t.as_bytes())),
    }
}
fn enc_ulabel(l: &ULabel) -> String {
    format!("{} {} {} {}", l.generic as u8, enc_opt_text(&l.cls), hex(l.name.as_bytes()), enc_opt_text(&l.flavor))
}
fn enc_label(l: &Label) -> String {
    format!(
        "{} {} {} {}",
        match l.ty {
            Type::Specified => 0,
            Type::Generic => 1,
        },
        enc_opt_text(&l.class),
        hex(l.name.as_bytes()),
        enc_opt_text(&l.flavor)
    )
}
/// the file syntax of a label (not its `Display`)
fn file_label(ty_generic: bool, cls: &Option<String>, name: &str, flavor: &Option<String>) -> String {
    format!(
        "{}:{}:{}:{}",
        if ty_generic { "g" } else { "s" },
        cls.as_deref().unwrap_or("!"),
        name,
        flavor.as_deref().unwrap_or("")
    )
}
fn label_parse(t: &str) -> String {
    let t = t.to_string();
    guarded(move || match Label::from_str(&t) {
        Ok(l) => format!("ok {} {}", enc_label(&l), hex(l.to_string().as_bytes())),
        Err(_) => "err".into(),
    })
}
const CLS: [&str; 8] = ["unix", "win", "other", "", "a b", "x!", "\u{e9}", "0"];
const LNAMES: [&str; 10] = ["Linux", "Windows", "Mac OS X", "", "NMap", "a.b", "x y z", "-", "\u{3000}x", "!"];
const FLAVORS: [&str; 10] = ["3.11 and newer", "2.6.x", "XP", "a:b", ":", "::x", "7 or 8", "(loopback)", "\u{e9}", "x!"];
fn g_ulabel(r: &mut Rng) -> ULabel {
    ULabel {
        generic: r.chance(1, 3),
        cls: if r.chance(1, 3) { None } else { Some((*r.pick(&CLS)).to_string()) },
        name: (*r.pick(&LNAMES)).to_string(),
        flavor: if r.chance(1, 4) { None } else { Some((*r.pick(&FLAVORS)).to_string()) },
    }
}

// ------------------------------------------------------------------------------------------------
// documents (mirror of Spec.Doc in lean/Huginn/Spec/SigText.lean)

#[derive(Clone, Default)]
struct Pad {
    lead: String,
    pre: String,
    post: String,
    trail: String,
}
#[derive(Clone)]
enum Misc {
    Comment(String, String),
    Blank(String),
    Classes(Pad, Vec<String>),
    UaOs(Pad, Vec<(String, Option<String>)>),
}
#[derive(Clone)]
enum Item<L, S> {
    Misc(Misc),
    Label(Pad, L),
    Sys(Pad, String),
    Sig(Pad, S),
}
#[derive(Clone)]
enum Section {
    Tcp(String, String, bool, Vec<Item<ULabel, TcpSig>>),
    Http(String, String, bool, Vec<Item<ULabel, HttpSig>>),
    Mtu(String, String, Vec<Item<String, u32>>),
    Other(String, String, String, Option<String>, Vec<Item<ULabel, String>>),
}
#[derive(Clone)]
struct Doc {
    pre: Vec<Misc>,
    sections: Vec<Section>,
}

fn named(p: &Pad, name: &str, value: &str) -> String {
    format!("{}{}{}={}{}{}", p.lead, name, p.pre, p.post, value, p.trail)
}
fn render_rule(r: &(String, Option<String>)) -> String {
    match &r.1 {
        None => r.0.clone(),
        Some(v) => format!("{}=[{}]", r.0, v),
    }
}
fn render_misc(m: &Misc) -> String {
    match m {
        Misc::Comment(l, t) => format!("{l};{t}"),
        Misc::Blank(w) => w.clone(),
        Misc::Classes(p, cs) => named(p, "classes", &cs.join(",")),
        Misc::UaOs(p, rs) => named(p, "ua_os", &rs.iter().map(render_rule).collect::<Vec<_>>().join(",")),
    }
}
fn render_item<L, S>(it: &Item<L, S>, pl: impl Fn(&L) -> String, ps: impl Fn(&S) -> String) -> String {
    match it {
        Item::Misc(m) => render_misc(m),
        Item::Label(p, l) => named(p, "label", &pl(l)),
        Item::Sys(p, t) => named(p, "sys", t),
        Item::Sig(p, s) => named(p, "sig", &ps(s)),
    }
}
fn ulabel_text(l: &ULabel) -> String {
    file_label(l.generic, &l.cls, &l.name, &l.flavor)
}
fn section_lines(s: &Section) -> Vec<String> {
    let mut out = vec![];
    match s {
        Section::Tcp(lead, trail, resp, items) => {
            out.push(format!("{lead}[tcp:{}]{trail}", if *resp { "response" } else { "request" }));
            out.extend(items.iter().map(|it| render_item(it, ulabel_text, |s: &TcpSig| s.to_string())));
        }
        Section::Http(lead, trail, resp, items) => {
            out.push(format!("{lead}[http:{}]{trail}", if *resp { "response" } else { "request" }));
            out.extend(items.iter().map(|it| render_item(it, ulabel_text, |s: &HttpSig| s.to_string())));
        }
        Section::Mtu(lead, trail, items) => {
            out.push(format!("{lead}[mtu]{trail}"));
            out.extend(items.iter().map(|it| render_item(it, |l: &String| l.clone(), |n: &u32| n.to_string())));
        }
        Section::Other(lead, trail, m, d, items) => {
            out.push(format!("{lead}[{m}{}]{trail}", d.as_ref().map(|d| format!(":{d}")).unwrap_or_default()));
            out.extend(items.iter().map(|it| render_item(it, ulabel_text, |s: &String| s.clone())));
        }
    }
    out
}

fn w_pad(l: &mut Line, p: &Pad) {
    l.text(&p.lead).text(&p.pre).text(&p.post).text(&p.trail);
}
fn w_misc(l: &mut Line, m: &Misc) {
    match m {
        Misc::Comment(a, b) => {
            l.nat(0u8).text(a).text(b);
        }
        Misc::Blank(w) => {
            l.nat(1u8).text(w);
        }
        Misc::Classes(p, cs) => {
            l.nat(2u8);
            w_pad(l, p);
            l.list(cs, |l, c| {
                l.text(c);
            });
        }
        Misc::UaOs(p, rs) => {
            l.nat(3u8);
            w_pad(l, p);
            l.list(rs, |l, r| {
                l.text(&r.0);
                match &r.1 {
                    None => l.nat(0u8),
                    Some(v) => l.nat(1u8).text(v),
                };
            });
        }
    }
}
fn w_raw(l: &mut Line, enc: &str) {
    for t in enc.split(' ') {
        l.tok(t);
    }
}
fn w_item<L, S>(l: &mut Line, it: &Item<L, S>, wl: impl Fn(&mut Line, &L), ws: impl Fn(&mut Line, &S)) {
    match it {
        Item::Misc(m) => {
            l.nat(0u8);
            w_misc(l, m);
        }
        Item::Label(p, x) => {
            l.nat(1u8);
            w_pad(l, p);
            wl(l, x);
        }
        Item::Sys(p, t) => {
            l.nat(2u8);
            w_pad(l, p);
            l.text(t);
        }
        Item::Sig(p, s) => {
            l.nat(3u8);
            w_pad(l, p);
            ws(l, s);
        }
    }
}
fn w_section(l: &mut Line, s: &Section) {
    match s {
        Section::Tcp(lead, trail, resp, items) => {
            l.nat(0u8).text(lead).text(trail).bool(*resp);
            l.usize(items.len());
            for it in items {
                w_item(l, it, |l, x| w_raw(l, &enc_ulabel(x)), |l, s| w_raw(l, &enc_tcp(s)));
            }
        }
        Section::Http(lead, trail, resp, items) => {
            l.nat(1u8).text(lead).text(trail).bool(*resp);
            l.usize(items.len());
            for it in items {
                w_item(l, it, |l, x| w_raw(l, &enc_ulabel(x)), |l, s| w_raw(l, &enc_http(s)));
            }
        }
        Section::Mtu(lead, trail, items) => {
            l.nat(2u8).text(lead).text(trail);
            l.usize(items.len());
            for it in items {
                w_item(l, it, |l, x: &String| {
                    l.text(x);
                }, |l, n: &u32| {
                    l.nat(*n);
                });
            }
        }
        Section::Other(lead, trail, m, d, items) => {
            l.nat(3u8).text(lead).text(trail).text(m);
            match d {
                None => l.nat(0u8),
                Some(d) => l.nat(1u8).text(d),
            };
            l.usize(items.len());
            for it in items {
                w_item(l, it, |l, x| w_raw(l, &enc_ulabel(x)), |l, s: &String| {
                    l.text(s);
                });
            }
        }
    }
}

fn enc_table<S>(entries: &[(Label, Vec<S>)], f: impl Fn(&S) -> String) -> String {
    enc_list(entries, |e| format!("{} {}", enc_label(&e.0), enc_list(&e.1, &f)))
}
/// canonical value form of a loaded database (mirror of `dbValues` in Drv/C06.lean)
fn db_values(db: &Database) -> String {
    [
        "ok".to_string(),
        "C".into(),
        enc_list(&db.classes, |c| hex(c.as_bytes())),
        "M".into(),
        enc_list(&db.mtu, |e| format!("{} {}", hex(e.0.as_bytes()), enc_list(&e.1, |n| n.to_string()))),
        "U".into(),
        enc_list(&db.ua_os, |e| format!("{} {}", hex(e.0.as_bytes()), enc_opt_text(&e.1))),
        "T0".into(),
        enc_table(&db.tcp_request.entries, enc_tcp),
        "T1".into(),
        enc_table(&db.tcp_response.entries, enc_tcp),
        "H0".into(),
        enc_table(&db.http_request.entries, enc_http),
        "H1".into(),
        enc_table(&db.http_response.entries, enc_http),
    ]
    .join(" ")
}
fn err_kind(msg: &str) -> &'static str {
    let m = msg.strip_prefix("Parse error: ").unwrap_or(msg);
    if m.starts_with("fail to parse `classes`") {
        "classes"
    } else if m.starts_with("fail to parse `ua_os`") {
        "ua_os"
    } else if m.starts_with("fail to parse `module`") {
        "module"
    } else if m.starts_with("fail to parse named value") {
        "named-value"
    } else if m.starts_with("fail to parse `mtu` value") {
        "mtu-value"
    } else if m.starts_with("`mtu` value without `label`") {
        "mtu-no-label"
    } else if m.starts_with("fail to parse `label`") {
        "label"
    } else if m.starts_with("tcp signature without `label`") {
        "tcp-sig-no-label"
    } else if m.starts_with("http signature without `label`") {
        "http-sig-no-label"
    } else if m.starts_with("parse TcpSignature failed") {
        "tcp-sig"
    } else if m.starts_with("parse HttpSignature failed") {
        "http-sig"
    } else if m.starts_with("unexpected line outside the module") {
        "outside-module"
    } else {
        "other"
    }
}
fn load_out(text: &str) -> String {
    let text = text.to_string();
    guarded(move || match Database::from_str(&text) {
        Ok(db) => db_values(&db),
        Err(e) => format!("err:{}", err_kind(&e.to_string())),
    })
}

const WS_LEAD: [&str; 6] = ["", "", " ", "\t", "  ", "\u{a0}"];
const WS_TRAIL: [&str; 7] = ["", "", " ", "\r", " \t", "\u{3000}", "\u{2028}"];
const GAP: [&str; 6] = [" ", " ", "", "   ", "\t", " \t "];
fn g_pad(r: &mut Rng) -> Pad {
    Pad {
        lead: (*r.pick(&WS_LEAD)).into(),
        pre: (*r.pick(&GAP)).into(),
        post: (*r.pick(&GAP)).into(),
        trail: (*r.pick(&WS_TRAIL)).into(),
    }
}
const UA_NAMES: [&str; 8] = ["Linux", "Windows", "iOS", "Mac OS X", "FreeBSD", "a1", "X-y", "Sun.OS"];
fn g_misc(r: &mut Rng, lossy_ua: bool) -> Misc {
    match r.below(10) {
        0..=3 => Misc::Comment((*r.pick(&WS_LEAD)).into(), (*r.pick(&[" comment", "", "; ;", " [tcp:request]", " sig = x", " label = s:!:x:"])).into()),
        4..=6 => Misc::Blank((*r.pick(&["", "", " ", "\t ", "\r", "\u{3000}"])).into()),
        7 | 8 => {
            let n = 1 + r.below(3) as usize;
            Misc::Classes(g_pad(r), (0..n).map(|_| (*r.pick(&["win", "unix", "other", "x1", "0"])).to_string()).collect())
        }
        _ => {
            let n = 1 + r.below(4) as usize;
            Misc::UaOs(
                g_pad(r),
                (0..n)
                    .map(|_| {
                        if lossy_ua {
                            ((*r.pick(&UA_NAMES)).to_string(), if r.chance(1, 3) { Some((*r.pick(&["iPad", "SunOS", "a b", ""])).to_string()) } else { None })
                        } else {
                            ((*r.pick(&["Linux", "Windows", "FreeBSD", "a1", "0"])).to_string(), None)
                        }
                    })
                    .collect(),
            )
        }
    }
}
/// a value the loader's line handling preserves: trimmed, no line break
fn line_safe(v: &str) -> bool {
    !v.is_empty() && !v.contains('\n') && v.trim() == v
}
fn g_items<L: Clone, S>(
    r: &mut Rng,
    orphan_ok: bool,
    lossy_ua: bool,
    mut gl: impl FnMut(&mut Rng) -> L,
    mut gs: impl FnMut(&mut Rng) -> S,
) -> Vec<Item<L, S>> {
    let n = match r.below(6) {
        0 => 0,
        1 => 1,
        2 => 2,
        _ => r.range(3, 9) as usize,
    };
    let mut out: Vec<Item<L, S>> = vec![];
    let mut have_label = false;
    for _ in 0..n {
        match r.below(10) {
            0 | 1 => out.push(Item::Misc(g_misc(r, lossy_ua))),
            2 => out.push(Item::Sys(g_pad(r), (*r.pick(&["Windows,@unix", "Linux", "@unix,@win", "x = y", "="])).to_string())),
            3..=5 => {
                out.push(Item::Label(g_pad(r), gl(r)));
                have_label = true;
            }
            _ => {
                if have_label || orphan_ok {
                    out.push(Item::Sig(g_pad(r), gs(r)));
                } else {
                    out.push(Item::Label(g_pad(r), gl(r)));
                    have_label = true;
                }
            }
        }
    }
    out
}
fn g_wf_ulabel(r: &mut Rng) -> ULabel {
    loop {
        let l = g_ulabel(r);
        let ok_cls = l.cls.as_ref().map_or(true, |c| !c.contains(':') && !c.starts_with('!'));
        let ok_fl = l.flavor.as_ref().map_or(true, |f| !f.is_empty() && f.trim_end() == f);
        if ok_cls && !l.name.contains(':') && ok_fl && line_safe(&ulabel_text(&l)) {
            return l;
        }
    }
}
fn g_wf_http(r: &mut Rng) -> HttpSig {
    loop {
        let s = g_http(r, false);
        if !s.horder.is_empty() && line_safe(&s.to_string()) {
            return s;
        }
    }
}
fn g_section(r: &mut Rng, wf: bool) -> Section {
    let lead: String = (*r.pick(&WS_LEAD)).into();
    let trail: String = (*r.pick(&WS_TRAIL)).into();
    let orphan_ok = !wf && r.chance(1, 3);
    let lossy = r.chance(1, 8);
    match r.below(9) {
        0 | 1 => Section::Tcp(lead, trail, false, g_items(r, orphan_ok, lossy, g_wf_ulabel, g_tcp)),
        2 => Section::Tcp(lead, trail, true, g_items(r, orphan_ok, lossy, g_wf_ulabel, g_tcp)),
        3 | 4 => Section::Http(lead, trail, false, g_items(r, orphan_ok, lossy, g_wf_ulabel, |r| if wf { g_wf_http(r) } else { let mut s = g_http(r, false); if !line_safe(&s.to_string()) { s.expsw = "x".into(); } s })),
        5 => Section::Http(lead, trail, true, g_items(r, orphan_ok, lossy, g_wf_ulabel, g_wf_http)),
        6 | 7 => Section::Mtu(
            lead,
            trail,
            g_items(r, orphan_ok, lossy, |r| (*r.pick(&["Ethernet or modem", "DSL", "x", "a = b", "[x]", ";"])).to_string(), |r| g_u16(r) as u32),
        ),
        _ => {
            let (m, d) = *r.pick(&[("tls", None), ("tcp", None), ("http", Some("foo")), ("tcp", Some("requests")), ("x", Some("y")), ("MTU", None)]);
            Section::Other(
                lead,
                trail,
                m.into(),
                d.map(String::from),
                g_items(r, true, lossy, g_wf_ulabel, |r| (*r.pick(&["anything goes", "4:64:0:*:*,*:::0", "1:Host::", "x"])).to_string()),
            )
        }
    }
}
fn g_doc(r: &mut Rng, wf: bool) -> Doc {
    let npre = r.below(4) as usize;
    let nsec = match r.below(8) {
        0 => 0,
        1 | 2 => 1,
        3 | 4 => 2,
        5 => 3,
        _ => r.range(4, 7) as usize,
    };
    Doc { pre: (0..npre).map(|_| g_misc(r, r.0 % 7 == 0)).collect(), sections: (0..nsec).map(|_| g_section(r, wf)).collect() }
}
fn doc_lines(d: &Doc) -> (Vec<String>, Vec<Vec<String>>) {
    (d.pre.iter().map(render_misc).collect(), d.sections.iter().map(section_lines).collect())
}
struct Fault {
    kind: u8,
    sec: usize,
    idx: usize,
    text: String,
}
fn render_with_fault(d: &Doc, f: Option<&Fault>) -> String {
    let (mut pre, mut secs) = doc_lines(d);
    if let Some(f) = f {
        let line = match f.kind {
            0 => f.text.clone(),
            3 => format!("label = {}", f.text),
            _ => format!("sig = {}", f.text),
        };
        if f.sec == 0 {
            pre.insert(f.idx, line);
        } else {
            secs[f.sec - 1].insert(1 + f.idx, line);
        }
    }
    let mut out = String::new();
    for l in pre.iter().chain(secs.iter().flatten()) {
        out.push_str(l);
        out.push('\n');
    }
    out
}
fn emit_doc(ctx: &mut Ctx, d: &Doc, f: Option<&Fault>) {
    let text = render_with_fault(d, f);
    let mut l = Line::op("C06.doc");
    l.list(&d.pre, w_misc);
    l.usize(d.sections.len());
    for s in &d.sections {
        w_section(&mut l, s);
    }
    match f {
        None => {
            l.nat(0u8);
        }
        Some(f) => {
            l.nat(1u8).nat(f.kind).usize(f.sec).usize(f.idx).text(&f.text);
        }
    }
    l.text(&text);
    let out = load_out(&text);
    ctx.emit(l.finish(&out));
}
fn n_items(s: &Section) -> usize {
    match s {
        Section::Tcp(_, _, _, i) => i.len(),
        Section::Http(_, _, _, i) => i.len(),
        Section::Mtu(_, _, i) => i.len(),
        Section::Other(_, _, _, _, i) => i.len(),
    }
}
fn table_key(s: &Section) -> &'static str {
    match s {
        Section::Tcp(_, _, false, _) => "T0",
        Section::Tcp(_, _, true, _) => "T1",
        Section::Http(_, _, false, _) => "H0",
        Section::Http(_, _, true, _) => "H1",
        Section::Mtu(..) => "M",
        Section::Other(..) => "-",
    }
}
fn labels_of(s: &Section) -> Vec<bool> {
    fn f<L, S>(i: &[Item<L, S>]) -> Vec<bool> {
        i.iter().map(|x| matches!(x, Item::Label(..))).collect()
    }
    match s {
        Section::Tcp(_, _, _, i) => f(i),
        Section::Http(_, _, _, i) => f(i),
        Section::Mtu(_, _, i) => f(i),
        Section::Other(_, _, _, _, i) => f(i),
    }
}
fn label_before(d: &Doc, sec: usize, idx: usize) -> bool {
    let s = &d.sections[sec - 1];
    d.sections[..sec - 1].iter().any(|x| table_key(x) == table_key(s) && labels_of(x).iter().any(|b| *b))
        || labels_of(s)[..idx].iter().any(|b| *b)
}
const BAD_TCP: [&str; 10] = [
    "4:64:0:*:*,*:::", "4:64:0:*:*,*::df", "x", "4:256:0:*:*,*:::0", "4:64:0:*:mss*,*:::0", "4:64:0:*:*,*:mss,:df:0",
    "4:64:0:*:*,*:?300::0", "5:64:0:*:*,*:::0", "4:64:0:*:*:::0", "4:64:0:*:*,*:::0:",
];
const BAD_HTTP: [&str; 6] = ["2:Host::", "1:Host", "1:Host:", "Host::", "1:Host=[a::", "x"];
const BAD_LABEL: [&str; 8] = ["x:!:a:b", "s:unix:Linux", "s:!x:a:b", "s", "S:!:a:", ":!:a:b", "s:!", "s!:a:b:c"];
const BAD_MTU: [&str; 6] = ["65536", "x", "15 00", "1500x", "-1", "99999999999999999999"];
const OUTSIDE: [&str; 5] = ["label = s:!:x:", "sig = 1500", "sys = x", "x", "foo = bar"];

fn g_fault(r: &mut Rng, d: &Doc) -> Option<Fault> {
    for _ in 0..20 {
        let kind = r.below(5) as u8;
        if kind == 0 {
            return Some(Fault { kind, sec: 0, idx: r.below(d.pre.len() as u64 + 1) as usize, text: (*r.pick(&OUTSIDE)).into() });
        }
        if d.sections.is_empty() {
            continue;
        }
        let sec = 1 + r.below(d.sections.len() as u64) as usize;
        let s = &d.sections[sec - 1];
        let idx = r.below(n_items(s) as u64 + 1) as usize;
        let key = table_key(s);
        let lb = label_before(d, sec, idx);
        let text: Option<String> = match kind {
            1 if key != "-" && !lb => Some(match key {
                "M" => "1500".into(),
                "T0" | "T1" => g_tcp(r).to_string(),
                _ => g_wf_http(r).to_string(),
            }),
            2 if lb && key.starts_with('T') => Some((*r.pick(&BAD_TCP)).into()),
            2 if lb && key.starts_with('H') => Some((*r.pick(&BAD_HTTP)).into()),
            3 if key != "M" => Some((*r.pick(&BAD_LABEL)).into()),
            4 if key == "M" && lb => Some((*r.pick(&BAD_MTU)).into()),
            _ => None,
        };
        if let Some(text) = text {
            return Some(Fault { kind, sec, idx, text });
        }
    }
    None
}

fn printed_table<S: std::fmt::Display>(entries: &[(Label, Vec<S>)]) -> String {
    enc_list(entries, |e| {
        format!(
            "{} {}",
            hex(file_label(matches!(e.0.ty, Type::Generic), &e.0.class, &e.0.name, &e.0.flavor).as_bytes()),
            enc_list(&e.1, |s| hex(s.to_string().as_bytes()))
        )
    })
}
fn bundled_db(ctx: &mut Ctx) {
    let db = match Database::load_default() {
        Ok(db) => db,
        Err(_) => {
            ctx.emit(Line::op("C06.bundled").tok("classes").finish("err"));
            return;
        }
    };
    let parts: Vec<(&str, String)> = vec![
        ("classes", enc_list(&db.classes, |c| hex(c.as_bytes()))),
        ("uaos", enc_list(&db.ua_os, |e| format!("{} {}", hex(e.0.as_bytes()), enc_opt_text(&e.1)))),
        ("mtu", enc_list(&db.mtu, |e| format!("{} {}", hex(e.0.as_bytes()), enc_list(&e.1, |n| hex(n.to_string().as_bytes()))))),
        ("tcp:request", printed_table(&db.tcp_request.entries)),
        ("tcp:response", printed_table(&db.tcp_response.entries)),
        ("http:request", printed_table(&db.http_request.entries)),
        ("http:response", printed_table(&db.http_response.entries)),
    ];
    for (p, out) in parts {
        ctx.emit(Line::op("C06.bundled").tok(p).finish(&out));
    }
}

// ------------------------------------------------------------------------------------------------

pub fn run(ctx: &mut Ctx) {
    let mut r = ctx.rng.fork();

    // --- corpus / witnesses first
    let mut w = base_tcp();
    w.olayout.clear(); // finding #12 (fixed in /repo by `separated_list0`): `4:64:0:1460:mss*20,7::df,id+:0`
    emit_tcp(ctx, &w);
    w.quirks.clear();
    emit_tcp(ctx, &w);
    for t in [
        "*:64:0:*:*,0:?300::0",          // ?n with n > 255
        "*:64:0:*:*,0:?256::0",
        "*:64:0:*:*,0:?255::0",
        "*:64:0:*:*,0:?0300::0",
        "*:64:0:*:*,0:eol+256::0",
        "4:64:0:*:*,*::df:0",
        "4:064:0:*:*,*::df:0",
        "4:64+0:0:1460:mss*20,10:mss,sok,ts,nop,ws,eol+3,?12:df,id+:+",
        "4:64+?:0:*:%8192,*:mss::*",
        "6:255-:255:65535:65535,255:sack:bad:*",
        "4:256:0:*:*,*:::0",
        "4:64:0:65536:*,*:::0",
        "4:64:0:*:65536,*:::0",
        "4:64:0:*:mss*256,*:::0",
        "4:64:0:*:mssx,*:::0",
        "4:64:0:*:*,*:mss,:df:0",
        "4:64:0:*:*,*:mss,,ws:df:0",
        "4:64:0:*:*,*:mss:df,:0",
        "4:64:0:*:*,*:mss:df:0 ",
        "4:64:0:*:*,*:mss:df:0\n",
        " 4:64:0:*:*,*:mss:df:0",
        "4:64:0:*:*,*:mss:df:0:",
        "4:64:0:*:*,*:mss:df",
        "4:64:0:*:*:mss:df:0",
        "",
        ":::::::",
        "4:64+:0:*:*,*:::0",
        "4:64+1+2:0:*:*,*:::0",
        "4:+?:0:*:*,*:::0",
        "4:64:0:*:*,*:ts1-::0",
        "4:64:0:*:*,*:ts:ts1-,ts2+:0",
        "4:64:0:*:*,*:sok,sack:ack+,ack-:0",
        "4:99999999999999999999999:0:*:*,*:::0",
        "4:64:0:*:*,*:?99999999999999999999999::0",
        "4:00000000000000000000064:0:*:*,*:::0",
    ] {
        emit_ptcp(ctx, t);
    }
    // HTTP witnesses
    emit_http(ctx, &HttpSig { version: Version::V11, horder: vec![], habsent: vec![], expsw: "x".into() });
    emit_http(ctx, &HttpSig { version: Version::Any, horder: vec![], habsent: vec![hdr("Keep-Alive")], expsw: String::new() });
    emit_http(ctx, &HttpSig { version: Version::V10, horder: vec![hdr("Host")], habsent: vec![], expsw: String::new() });
    emit_http(ctx, &HttpSig { version: Version::V10, horder: vec![hdr("")], habsent: vec![], expsw: String::new() });
    emit_http(ctx, &HttpSig { version: Version::V10, horder: vec![hdr(""), hdr("")], habsent: vec![], expsw: String::new() });
    for t in [
        "1:::", "1:Host::", "1:Host:,A:x", "1:Host:?:x", "1:Host:=[v]:x", "1:Host:A,,B:x", "1:,Host::", "1:Host", "1:Host:",
        "2:Host::", "*:Host=[a]b::", "*:Host=[a::", "*:Host=[]::", "*:?Host=[a]]::", "*:Host:Keep-Alive:Fire:fox",
        "0:Accept=[*/*],?Referer,User-Agent,Host:Keep-Alive,Connection:(compatible; MSIE", "", ":", "1:a b::",
    ] {
        emit_phttp(ctx, t);
    }

    // --- token tables
    tokens(ctx);
    // --- component types
    components(ctx, &mut r);

    // --- every signature line of the bundled database
    let lines = bundled_lines(ctx);

    // --- exhaustive sub-enumerations (one field varied over its whole domain on a fixed base)
    for v in 0..=255u8 {
        for t in [Ttl::Value(v), Ttl::Guess(v), Ttl::Bad(v), Ttl::Distance(v, 255 - v), Ttl::Distance(64, v)] {
            let mut s = base_tcp();
            s.ittl = t;
            emit_tcp(ctx, &s);
        }
        for ws in [WindowSize::Mss(v), WindowSize::Mtu(v)] {
            let mut s = base_tcp();
            s.wsize = ws;
            s.olen = v;
            s.wscale = Some(v);
            emit_tcp(ctx, &s);
        }
        let mut s = base_tcp();
        s.olayout = vec![TcpOption::Eol(v), TcpOption::Unknown(v), TcpOption::Unknown(255 - v), TcpOption::Eol(255 - v)];
        emit_tcp(ctx, &s);
    }
    let wide: Vec<u16> = if ctx.n(0, 1) == 1 {
        (0..=65535u16).collect()
    } else {
        let mut v: Vec<u16> = U16B.to_vec();
        v.extend((0..=300u16).step_by(7));
        v.extend([999, 1000, 1001, 9999, 10001, 59999, 60000]);
        v
    };
    for v in wide {
        let mut s = base_tcp();
        s.mss = Some(v);
        s.wsize = WindowSize::Value(v);
        emit_tcp(ctx, &s);
        s.wsize = WindowSize::Mod(v);
        s.mss = Some(65535 - v);
        emit_tcp(ctx, &s);
    }
    let kinds = |v: u8| {
        [TcpOption::Eol(v), TcpOption::Nop, TcpOption::Mss, TcpOption::Ws, TcpOption::Sok, TcpOption::Sack, TcpOption::TS, TcpOption::Unknown(v)]
    };
    for a in kinds(1) {
        let mut s = base_tcp();
        s.olayout = vec![a.clone()];
        emit_tcp(ctx, &s);
        for b in kinds(20) {
            let mut s = base_tcp();
            s.olayout = vec![a.clone(), b.clone()];
            emit_tcp(ctx, &s);
            if ctx.n(0, 1) == 1 {
                for c in kinds(255) {
                    let mut s = base_tcp();
                    s.olayout = vec![a.clone(), b.clone(), c];
                    emit_tcp(ctx, &s);
                }
            }
        }
    }
    for a in QUIRKS.iter() {
        let mut s = base_tcp();
        s.quirks = vec![a.clone()];
        emit_tcp(ctx, &s);
        for b in QUIRKS.iter() {
            let mut s = base_tcp();
            s.quirks = vec![a.clone(), b.clone()];
            emit_tcp(ctx, &s);
        }
    }
    {
        let mut s = base_tcp();
        s.quirks = QUIRKS.to_vec();
        emit_tcp(ctx, &s);
        s.quirks.reverse();
        emit_tcp(ctx, &s);
    }
    // HTTP: every (optional, empty/non-empty name, value none/empty/non-empty) header shape in each list position
    for ver in [Version::V10, Version::V11, Version::Any, Version::V20, Version::V30] {
        for opt in [false, true] {
            for name in ["", "Host", "-"] {
                for value in [None, Some(""), Some("a,b:c"), Some("[")] {
                    let h = Header { optional: opt, name: name.into(), value: value.map(String::from) };
                    for (ho, ha) in [
                        (vec![h.clone()], vec![]),
                        (vec![hdr("A"), h.clone()], vec![hdr("B")]),
                        (vec![h.clone(), hdr("A")], vec![]),
                        (vec![hdr("A")], vec![h.clone()]),
                        (vec![hdr("A")], vec![hdr("B"), h.clone()]),
                        (vec![], vec![h.clone()]),
                    ] {
                        for sw in ["", "x:y"] {
                            emit_http(ctx, &HttpSig { version: ver, horder: ho.clone(), habsent: ha.clone(), expsw: sw.into() });
                        }
                    }
                }
            }
        }
    }

    // --- generated values
    for _ in 0..ctx.n(6000, 150_000) {
        let s = g_tcp(&mut r);
        emit_tcp(ctx, &s);
    }
    for _ in 0..ctx.n(4000, 100_000) {
        let odd = r.chance(1, 4);
        let s = g_http(&mut r, odd);
        emit_http(ctx, &s);
    }
    // --- generated texts: printed values, non-canonical numerals, mutations
    let tcp_lines: Vec<&String> = lines.iter().filter(|l| l.0.starts_with("tcp")).map(|l| &l.1).collect();
    let http_lines: Vec<&String> = lines.iter().filter(|l| l.0.starts_with("http")).map(|l| &l.1).collect();
    for _ in 0..ctx.n(5000, 120_000) {
        let base = if !tcp_lines.is_empty() && r.chance(1, 3) {
            (*r.pick(&tcp_lines)).clone()
        } else {
            g_tcp(&mut r).to_string()
        };
        let t = match r.below(6) {
            0 => base,
            1 | 2 => pad_zeros(&mut r, &base),
            _ => mutate(&mut r, &base, TCP_ALPHABET),
        };
        emit_ptcp(ctx, &t);
    }
    for _ in 0..ctx.n(3000, 80_000) {
        let base = if !http_lines.is_empty() && r.chance(1, 2) {
            (*r.pick(&http_lines)).clone()
        } else {
            g_http(&mut r, true).to_string()
        };
        let t = if r.chance(1, 5) { base } else { mutate(&mut r, &base, HTTP_ALPHABET) };
        emit_phttp(ctx, &t);
    }

    // --- labels: file syntax of generated labels, and mutations
    for t in ["s:unix:Linux:3.11 and newer", "g:!:x:", "s:!:NMap:SYN scan", "s::x:", "s:!x:a:b", "s:unix:Linux", "x:!:a:b",
        "s:!:a:b:c", "s:!:a::", "s:!::", "s:!:", "", "s", "s:", "g:win:Windows:XP ", "Specified:unix:Linux:3.x"] {
        ctx.emit(Line::op("C06.plabel").text(t).finish(&label_parse(t)));
    }
    for _ in 0..ctx.n(1500, 30_000) {
        let base = ulabel_text(&g_ulabel(&mut r));
        let t = if r.chance(1, 2) { base } else { mutate(&mut r, &base, b"sg:!ab ") };
        ctx.emit(Line::op("C06.plabel").text(&t).finish(&label_parse(&t)));
    }

    // --- the bundled database, part by part
    bundled_db(ctx);

    // --- documents
    {
        // the shape of the bundled file in miniature, and the ua_os line as it is written there
        let p = Pad { lead: "".into(), pre: "   ".into(), post: " ".into(), trail: "".into() };
        let lab = |n: &str, f: &str| ULabel { generic: false, cls: Some("unix".into()), name: n.into(), flavor: Some(f.into()) };
        let d = Doc {
            pre: vec![Misc::Comment("".into(), " p0f".into()), Misc::Blank("".into()), Misc::Classes(p.clone(), vec!["win".into(), "unix".into(), "other".into()])],
            sections: vec![
                Section::Mtu("".into(), "".into(), vec![Item::Label(p.clone(), "Ethernet or modem".into()), Item::Sig(p.clone(), 576), Item::Sig(p.clone(), 1500)]),
                Section::Tcp("".into(), "".into(), false, vec![Item::Label(p.clone(), lab("Linux", "3.x")), Item::Sig(p.clone(), base_tcp()), Item::Label(p.clone(), lab("Linux", "2.x")), Item::Sig(p.clone(), g_tcp(&mut r)), Item::Sig(p.clone(), g_tcp(&mut r))]),
                Section::Http("".into(), "".into(), false, vec![
                    Item::Misc(Misc::UaOs(p.clone(), vec![("Linux".into(), None), ("Windows".into(), None), ("iOS".into(), Some("iPad".into())), ("Mac OS X".into(), None), ("FreeBSD".into(), None)])),
                    Item::Label(p.clone(), lab("Firefox", "2.x")), Item::Sys(p.clone(), "Windows,@unix".into()), Item::Sig(p.clone(), g_wf_http(&mut r))]),
                Section::Tcp("".into(), "".into(), false, vec![Item::Label(p.clone(), lab("Again", "x")), Item::Sig(p.clone(), base_tcp())]),
            ],
        };
        emit_doc(ctx, &d, None);
        emit_doc(ctx, &Doc { pre: vec![], sections: vec![] }, None);
    }
    for _ in 0..ctx.n(2500, 60_000) {
        let wf = r.chance(4, 5);
        let d = g_doc(&mut r, wf);
        emit_doc(ctx, &d, None);
    }
    for _ in 0..ctx.n(1500, 30_000) {
        let d = g_doc(&mut r, true);
        if let Some(f) = g_fault(&mut r, &d) {
            emit_doc(ctx, &d, Some(&f));
        }
    }
    // --- raw texts: rendered documents with character-level damage, odd line endings
    for t in ["", "\n", "[tcp:request]", "[tcp:request", "tcp:request]", "[]", "[tcp:]", "[:x]", "[tcp:request]x]", "[tcp request]",
        "[mtu]\nlabel=x\nsig=+1500", "[mtu]\nlabel=x\nsig=+", "[mtu]\nlabel=x\nsig=-0", "[mtu]\nlabel=x\nsig=00001500", "[mtu]\nsig=1",
        "[mtu]\nlabel\n", "[mtu]\n=x", "[mtu]\nlabel x", "[mtu]\nla bel=x", "classes", "classes=", "classes = a,b c", "classesx = a",
        "[mtu]\nclassesx = a", "ua_os", "ua_os = a=b,c = d , e", "ua_os=a=[b]", "ua_osx", "[tcp:request]\r\nlabel = s:!:a:\r\nsig = 4:64:0:*:*,*:::0\r\n",
        "[tcp:request]\nlabel = s:!:a:\nsig = 4:64:0:*:*,*:::0 \u{3000}", "\u{feff}[mtu]", "[mtu]\nsys = x", "[tcp:request]\nsys = x\nsig = x"] {
        let t = t.replace("\\n", "\n");
        ctx.emit(Line::op("C06.raw").text(&t).finish(&load_out(&t)));
    }
    for _ in 0..ctx.n(1500, 40_000) {
        let d = g_doc(&mut r, true);
        let base = render_with_fault(&d, None);
        let t = mutate(&mut r, &base, b"[]:=;\n\r ,slabeligcu_o*1");
        ctx.emit(Line::op("C06.raw").text(&t).finish(&load_out(&t)));
    }
}
