//! C06 — signature text round-trips (`Display` / `FromStr` of huginn-net-db's tcp and http
//! signature types), the token tables, every `sig` line of the bundled p0f.fp, and
//! `Database::from_str` on structured and raw documents.
use crate::rng::Rng;
use crate::wr::{guarded, hex, Line};
use crate::Ctx;
use huginn_net_db::http::{Header, Signature as HttpSig, Version};
use huginn_net_db::tcp::{IpVersion, PayloadSize, Quirk, Signature as TcpSig, TcpOption, Ttl, WindowSize};
use huginn_net_db::{Database, Label, Type};
use std::str::FromStr;

// ------------------------------------------------------------------------------------------------
// wire encodings (mirrored in lean/Huginn/Drv/C06.lean)

const QUIRKS: [Quirk; 17] = [
    Quirk::Df,
    Quirk::NonZeroID,
    Quirk::ZeroID,
    Quirk::Ecn,
    Quirk::MustBeZero,
    Quirk::FlowID,
    Quirk::SeqNumZero,
    Quirk::AckNumNonZero,
    Quirk::AckNumZero,
    Quirk::NonZeroURG,
    Quirk::Urg,
    Quirk::Push,
    Quirk::OwnTimestampZero,
    Quirk::PeerTimestampNonZero,
    Quirk::TrailinigNonZero,
    Quirk::ExcessiveWindowScaling,
    Quirk::OptBad,
];

/// index in enum declaration order; the `match` is exhaustive so that a new variant is a compile error here.
fn quirk_idx(q: &Quirk) -> usize {
    match q {
        Quirk::Df => 0,
        Quirk::NonZeroID => 1,
        Quirk::ZeroID => 2,
        Quirk::Ecn => 3,
        Quirk::MustBeZero => 4,
        Quirk::FlowID => 5,
        Quirk::SeqNumZero => 6,
        Quirk::AckNumNonZero => 7,
        Quirk::AckNumZero => 8,
        Quirk::NonZeroURG => 9,
        Quirk::Urg => 10,
        Quirk::Push => 11,
        Quirk::OwnTimestampZero => 12,
        Quirk::PeerTimestampNonZero => 13,
        Quirk::TrailinigNonZero => 14,
        Quirk::ExcessiveWindowScaling => 15,
        Quirk::OptBad => 16,
    }
}

fn enc_opt_nat<T: Into<u64> + Copy>(v: &Option<T>) -> String {
    match v {
        None => "0".into(),
        Some(n) => format!("1 {}", (*n).into()),
    }
}
fn enc_list<T>(xs: &[T], f: impl Fn(&T) -> String) -> String {
    if xs.is_empty() {
        "0".into()
    } else {
        format!("{} {}", xs.len(), xs.iter().map(f).collect::<Vec<_>>().join(" "))
    }
}
fn enc_ttl(t: &Ttl) -> String {
    match t {
        Ttl::Value(a) => format!("0 {a} 0"),
        Ttl::Distance(a, b) => format!("1 {a} {b}"),
        Ttl::Guess(a) => format!("2 {a} 0"),
        Ttl::Bad(a) => format!("3 {a} 0"),
    }
}
fn enc_wsize(w: &WindowSize) -> String {
    match w {
        WindowSize::Mss(n) => format!("0 {n}"),
        WindowSize::Mtu(n) => format!("1 {n}"),
        WindowSize::Value(n) => format!("2 {n}"),
        WindowSize::Mod(n) => format!("3 {n}"),
        WindowSize::Any => "4 0".into(),
    }
}
fn enc_opt(o: &TcpOption) -> String {
    match o {
        TcpOption::Eol(n) => format!("0 {n}"),
        TcpOption::Nop => "1 0".into(),
        TcpOption::Mss => "2 0".into(),
        TcpOption::Ws => "3 0".into(),
        TcpOption::Sok => "4 0".into(),
        TcpOption::Sack => "5 0".into(),
        TcpOption::TS => "6 0".into(),
        TcpOption::Unknown(n) => format!("7 {n}"),
    }
}
fn enc_tcp(s: &TcpSig) -> String {
    [
        match s.version {
            IpVersion::V4 => "0".to_string(),
            IpVersion::V6 => "1".into(),
            IpVersion::Any => "2".into(),
        },
        enc_ttl(&s.ittl),
        s.olen.to_string(),
        enc_opt_nat(&s.mss),
        enc_wsize(&s.wsize),
        enc_opt_nat(&s.wscale),
        enc_list(&s.olayout, enc_opt),
        enc_list(&s.quirks, |q| quirk_idx(q).to_string()),
        match s.pclass {
            PayloadSize::Zero => "0".to_string(),
            PayloadSize::NonZero => "1".into(),
            PayloadSize::Any => "2".into(),
        },
    ]
    .join(" ")
}
fn enc_header(h: &Header) -> String {
    format!(
        "{} {} {}",
        h.optional as u8,
        hex(h.name.as_bytes()),
        match &h.value {
            None => "0".to_string(),
            Some(v) => format!("1 {}", hex(v.as_bytes())),
        }
    )
}
fn enc_http(s: &HttpSig) -> String {
    format!(
        "{} {} {} {}",
        match s.version {
            Version::V10 => 0,
            Version::V11 => 1,
            Version::V20 => 2,
            Version::V30 => 3,
            Version::Any => 4,
        },
        enc_list(&s.horder, enc_header),
        enc_list(&s.habsent, enc_header),
        hex(s.expsw.as_bytes())
    )
}

fn raw(op: &str, enc: &str, out: &str) -> String {
    format!("{op} {enc} => {out}")
}

// ------------------------------------------------------------------------------------------------
// operations on the real types

fn tcp_roundtrip(s: &TcpSig) -> String {
    let s = s.clone();
    guarded(move || {
        let text = s.to_string();
        match TcpSig::from_str(&text) {
            Ok(v) => format!("{} ok {}", hex(text.as_bytes()), enc_tcp(&v)),
            Err(_) => format!("{} err", hex(text.as_bytes())),
        }
    })
}
fn tcp_parse(t: &str) -> String {
    let t = t.to_string();
    guarded(move || match TcpSig::from_str(&t) {
        Ok(v) => format!("ok {} {}", enc_tcp(&v), hex(v.to_string().as_bytes())),
        Err(_) => "err".into(),
    })
}
fn http_roundtrip(s: &HttpSig) -> String {
    let s = s.clone();
    guarded(move || {
        let text = s.to_string();
        match HttpSig::from_str(&text) {
            Ok(v) => format!("{} ok {}", hex(text.as_bytes()), enc_http(&v)),
            Err(_) => format!("{} err", hex(text.as_bytes())),
        }
    })
}
fn http_parse(t: &str) -> String {
    let t = t.to_string();
    guarded(move || match HttpSig::from_str(&t) {
        Ok(v) => format!("ok {} {}", enc_http(&v), hex(v.to_string().as_bytes())),
        Err(_) => "err".into(),
    })
}

fn emit_tcp(ctx: &mut Ctx, s: &TcpSig) {
    let out = tcp_roundtrip(s);
    ctx.emit(raw("C06.tcp", &enc_tcp(s), &out));
}
fn emit_ptcp(ctx: &mut Ctx, t: &str) {
    if t.contains('\n') && false {
        return;
    }
    let out = tcp_parse(t);
    ctx.emit(Line::op("C06.ptcp").text(t).finish(&out));
}
fn emit_http(ctx: &mut Ctx, s: &HttpSig) {
    let out = http_roundtrip(s);
    ctx.emit(raw("C06.http", &enc_http(s), &out));
}
fn emit_phttp(ctx: &mut Ctx, t: &str) {
    let out = http_parse(t);
    ctx.emit(Line::op("C06.phttp").text(t).finish(&out));
}

// ------------------------------------------------------------------------------------------------
// generators

const U8B: [u8; 14] = [0, 1, 2, 7, 9, 10, 11, 64, 99, 100, 128, 200, 254, 255];
const U16B: [u16; 16] =
    [0, 1, 9, 10, 99, 100, 255, 256, 1460, 8192, 9999, 10000, 32768, 65280, 65534, 65535];

fn g_u8(r: &mut Rng) -> u8 {
    if r.chance(2, 3) {
        *r.pick(&U8B)
    } else {
        r.next() as u8
    }
}
fn g_u16(r: &mut Rng) -> u16 {
    if r.chance(2, 3) {
        *r.pick(&U16B)
    } else {
        r.next() as u16
    }
}
fn g_ttl(r: &mut Rng) -> Ttl {
    match r.below(4) {
        0 => Ttl::Value(g_u8(r)),
        1 => Ttl::Distance(g_u8(r), g_u8(r)),
        2 => Ttl::Guess(g_u8(r)),
        _ => Ttl::Bad(g_u8(r)),
    }
}
fn g_wsize(r: &mut Rng) -> WindowSize {
    match r.below(5) {
        0 => WindowSize::Mss(g_u8(r)),
        1 => WindowSize::Mtu(g_u8(r)),
        2 => WindowSize::Value(g_u16(r)),
        3 => WindowSize::Mod(g_u16(r)),
        _ => WindowSize::Any,
    }
}
fn g_opt(r: &mut Rng) -> TcpOption {
    match r.below(8) {
        0 => TcpOption::Eol(g_u8(r)),
        1 => TcpOption::Nop,
        2 => TcpOption::Mss,
        3 => TcpOption::Ws,
        4 => TcpOption::Sok,
        5 => TcpOption::Sack,
        6 => TcpOption::TS,
        _ => TcpOption::Unknown(g_u8(r)),
    }
}
fn g_len(r: &mut Rng) -> usize {
    match r.below(10) {
        0 | 1 => 0,
        2 | 3 => 1,
        4 | 5 => 2,
        6 => 3,
        7 => 5,
        8 => r.range(6, 12) as usize,
        _ => r.range(13, 40) as usize,
    }
}
fn g_tcp(r: &mut Rng) -> TcpSig {
    let nl = g_len(r);
    let nq = g_len(r);
    TcpSig {
        version: *r.pick(&[IpVersion::V4, IpVersion::V6, IpVersion::Any]),
        ittl: g_ttl(r),
        olen: g_u8(r),
        mss: if r.chance(1, 2) { Some(g_u16(r)) } else { None },
        wsize: g_wsize(r),
        wscale: if r.chance(1, 2) { Some(g_u8(r)) } else { None },
        olayout: (0..nl).map(|_| g_opt(r)).collect(),
        quirks: (0..nq).map(|_| r.pick(&QUIRKS).clone()).collect(),
        pclass: *r.pick(&[PayloadSize::Zero, PayloadSize::NonZero, PayloadSize::Any]),
    }
}
fn base_tcp() -> TcpSig {
    TcpSig {
        version: IpVersion::V4,
        ittl: Ttl::Value(64),
        olen: 0,
        mss: Some(1460),
        wsize: WindowSize::Mss(20),
        wscale: Some(7),
        olayout: vec![TcpOption::Mss, TcpOption::Sok, TcpOption::TS, TcpOption::Nop, TcpOption::Ws],
        quirks: vec![Quirk::Df, Quirk::NonZeroID],
        pclass: PayloadSize::Zero,
    }
}

const NAMES: [&str; 16] = [
    "Host", "User-Agent", "Accept", "Accept-Language", "Accept-Encoding", "Connection", "Keep-Alive",
    "X-a-1", "-", "a", "0", "9z", "UA-CPU", "Content-Type", "Server", "Date",
];
const VALUES: [&str; 18] = [
    "", "keep-alive", "gzip,deflate", "gzip, deflate", ",*/*;q=", "utf-8;q=0.7,*;q=0.7", "a:b", ":", ",",
    "[", "=[", "[[", "?", " ", "x=[y", "\u{e9}t\u{e9}", "\u{3000}", "300",
];
const SW: [&str; 16] = [
    "", "Firefox/", " Chrom", "(compatible; MSIE", ":", "a:b,c", ",", "]", "=[x]", "?", "Apache", "x ",
    "\u{a0}", "caf\u{e9}", "::", "1:Host::",
];
/// names outside the vocabulary (exercise the model, not the specification)
const ODD_NAMES: [&str; 8] = ["a b", "a:b", "a=b", "a,b", "\u{e9}", "?x", "a]", "a[b"];
const ODD_VALUES: [&str; 4] = ["]", "a]b", "]]", "x]"];

fn g_name(r: &mut Rng, allow_empty: bool, odd: bool) -> String {
    if odd && r.chance(1, 12) {
        return (*r.pick(&ODD_NAMES)).to_string();
    }
    if allow_empty && r.chance(1, 10) {
        return String::new();
    }
    if r.chance(3, 4) {
        (*r.pick(&NAMES)).to_string()
    } else {
        let n = r.range(1, 8);
        (0..n)
            .map(|_| *r.pick(&[
                'a', 'z', 'A', 'Z', '0', '9', '-', 'm', 'Q', 'x',
            ]))
            .collect()
    }
}
fn g_header(r: &mut Rng, allow_empty: bool, odd: bool) -> Header {
    Header {
        optional: r.chance(1, 3),
        name: g_name(r, allow_empty, odd),
        value: if r.chance(1, 2) {
            Some(if odd && r.chance(1, 10) {
                (*r.pick(&ODD_VALUES)).to_string()
            } else {
                (*r.pick(&VALUES)).to_string()
            })
        } else {
            None
        },
    }
}
fn g_http(r: &mut Rng, odd: bool) -> HttpSig {
    let nh = if r.chance(1, 12) { 0 } else { 1 + g_len(r) % 9 };
    let na = g_len(r) % 7;
    HttpSig {
        version: if odd && r.chance(1, 10) {
            *r.pick(&[Version::V20, Version::V30])
        } else {
            *r.pick(&[Version::V10, Version::V11, Version::Any])
        },
        horder: (0..nh).map(|_| g_header(r, odd, odd)).collect(),
        habsent: (0..na).map(|_| g_header(r, false, odd)).collect(),
        expsw: (*r.pick(&SW)).to_string(),
    }
}
fn hdr(name: &str) -> Header {
    Header { optional: false, name: name.into(), value: None }
}

const TCP_ALPHABET: &[u8] = b"0123456789:,*+-?%abcdefiklmnopqrstuwx ";
const HTTP_ALPHABET: &[u8] = b"01*:,?=[]-aZ9 ";

fn mutate(r: &mut Rng, t: &str, alphabet: &[u8]) -> String {
    let mut c: Vec<char> = t.chars().collect();
    let n = 1 + r.below(2);
    for _ in 0..n {
        let pos = r.below(c.len() as u64 + 1) as usize;
        match r.below(4) {
            0 if !c.is_empty() => {
                c.remove(pos.min(c.len() - 1));
            }
            1 => c.insert(pos, *r.pick(alphabet) as char),
            2 if !c.is_empty() => {
                let p = pos.min(c.len() - 1);
                c[p] = *r.pick(alphabet) as char;
            }
            _ => {
                // duplicate a character (e.g. `,,` `::`)
                if !c.is_empty() {
                    let p = pos.min(c.len() - 1);
                    c.insert(p, c[p]);
                }
            }
        }
    }
    c.into_iter().collect()
}

/// insert leading zeros in front of one digit run
fn pad_zeros(r: &mut Rng, t: &str) -> String {
    let c: Vec<char> = t.chars().collect();
    let starts: Vec<usize> = (0..c.len())
        .filter(|&i| c[i].is_ascii_digit() && (i == 0 || !c[i - 1].is_ascii_digit()))
        .collect();
    if starts.is_empty() {
        return t.to_string();
    }
    let at = *r.pick(&starts);
    let k = 1 + r.below(3) as usize;
    let mut out: String = c[..at].iter().collect();
    out.push_str(&"0".repeat(k));
    out.extend(c[at..].iter());
    out
}

// ------------------------------------------------------------------------------------------------
// token tables

fn dbg<T: std::fmt::Debug, E>(r: Result<T, E>) -> String {
    match r {
        Ok(v) => format!("{v:?}"),
        Err(_) => "err".into(),
    }
}
fn tok_parse(table: &str, cand: &str) -> String {
    let (table, cand) = (table.to_string(), cand.to_string());
    guarded(move || match table.as_str() {
        "ipver" => dbg(IpVersion::from_str(&cand)),
        "quirk" => dbg(Quirk::from_str(&cand)),
        "payload" => dbg(PayloadSize::from_str(&cand)),
        "ltype" => dbg(Type::from_str(&cand)),
        "opt" => match TcpOption::from_str(&cand) {
            Ok(TcpOption::Eol(_)) | Ok(TcpOption::Unknown(_)) | Err(_) => "err".into(),
            Ok(o) => format!("{o:?}"),
        },
        // http::Version has no FromStr of its own: go through a signature
        "httpver" => match HttpSig::from_str(&format!("{cand}:Host::")) {
            Ok(s) if s.horder == vec![hdr("Host")] && s.habsent.is_empty() && s.expsw.is_empty() => {
                format!("{:?}", s.version)
            }
            _ => "err".into(),
        },
        _ => "err".into(),
    })
}

fn tokens(ctx: &mut Ctx) {
    // Display of every variant, and the parser on exactly that text
    let mut printed: Vec<(&str, String, String)> = vec![];
    for v in [IpVersion::V4, IpVersion::V6, IpVersion::Any] {
        printed.push(("ipver", format!("{v:?}"), v.to_string()));
    }
    for q in QUIRKS.iter() {
        printed.push(("quirk", format!("{q:?}"), q.to_string()));
    }
    for p in [PayloadSize::Zero, PayloadSize::NonZero, PayloadSize::Any] {
        printed.push(("payload", format!("{p:?}"), p.to_string()));
    }
    for v in [Version::V10, Version::V11, Version::V20, Version::V30, Version::Any] {
        printed.push(("httpver", format!("{v:?}"), v.to_string()));
    }
    for o in [TcpOption::Nop, TcpOption::Mss, TcpOption::Ws, TcpOption::Sok, TcpOption::Sack, TcpOption::TS] {
        printed.push(("opt", format!("{o:?}"), o.to_string()));
    }
    let mut cands: Vec<(&str, String)> = vec![];
    for (table, variant, text) in &printed {
        ctx.emit(Line::op("C06.tokd").tok(table).tok(variant).finish(&hex(text.as_bytes())));
        cands.push((table, text.clone()));
    }
    // candidates: every printed token against every table, every proper prefix, one-character
    // extensions, case changes, and the documented spellings
    let all: Vec<String> = printed.iter().map(|p| p.2.clone()).collect();
    let tables = ["ipver", "quirk", "payload", "httpver", "opt", "ltype"];
    let mut extra: Vec<String> = vec!["".into(), "s".into(), "g".into(), "S".into(), "x".into(), "eol".into(),
        "eol+".into(), "?".into(), "2".into(), "3".into(), "5".into(), "id".into(), "ts1".into(), "ts2".into(),
        "ts1+".into(), "ts2-".into(), "opt-".into(), "bad+".into(), "sack ".into(), " df".into()];
    for t in &all {
        for k in 1..t.len() {
            extra.push(t[..k].to_string());
        }
        extra.push(format!("{t}+"));
        extra.push(format!("{t}0"));
        extra.push(t.to_uppercase());
    }
    for table in tables {
        for t in all.iter().chain(extra.iter()) {
            cands.push((table, t.clone()));
        }
    }
    cands.sort();
    cands.dedup();
    for (table, t) in cands {
        ctx.emit(Line::op("C06.tokp").tok(table).text(&t).finish(&tok_parse(table, &t)));
    }
}

// ------------------------------------------------------------------------------------------------
// bundled file

fn repo_dir() -> String {
    std::env::var("VERIF_REPO").unwrap_or_else(|_| "/repo".to_string())
}

fn bundled_lines(ctx: &mut Ctx) -> Vec<(String, String)> {
    let path = format!("{}/huginn-net-db/config/p0f.fp", repo_dir());
    let text = std::fs::read_to_string(&path).unwrap_or_default();
    let mut section = String::new();
    let mut sigs = vec![];
    for (i, l) in text.split('\n').enumerate() {
        let t = l.trim();
        if t.starts_with('[') && t.ends_with(']') {
            section = t[1..t.len() - 1].to_string();
            continue;
        }
        if section == "mtu" || section.is_empty() {
            continue;
        }
        if let Some(rest) = t.strip_prefix("sig") {
            let rest = rest.trim_start();
            if let Some(v) = rest.strip_prefix('=') {
                let v = v.trim_start();
                let out = if section.starts_with("tcp") {
                    let v2 = v.to_string();
                    guarded(move || match TcpSig::from_str(&v2) {
                        Ok(s) => hex(s.to_string().as_bytes()),
                        Err(_) => "err".into(),
                    })
                } else {
                    let v2 = v.to_string();
                    guarded(move || match HttpSig::from_str(&v2) {
                        Ok(s) => hex(s.to_string().as_bytes()),
                        Err(_) => "err".into(),
                    })
                };
                ctx.emit(Line::op("C06.line").usize(i + 1).tok(&section).text(v).finish(&out));
                sigs.push((section.clone(), v.to_string()));
            }
        }
    }
    sigs
}

// ------------------------------------------------------------------------------------------------

pub fn run(ctx: &mut Ctx) {
    let mut r = ctx.rng.fork();

    // --- corpus / witnesses first
    let mut w = base_tcp();
    w.olayout.clear(); // finding #12 (fixed in /repo by `separated_list0`): `4:64:0:1460:mss*20,7::df,id+:0`
    emit_tcp(ctx, &w);
    w.quirks.clear();
    emit_tcp(ctx, &w);
    for t in [
        "*:64:0:*:*,0:?300::0",          // ?n with n > 255
        "*:64:0:*:*,0:?256::0",
        "*:64:0:*:*,0:?255::0",
        "*:64:0:*:*,0:?0300::0",
        "*:64:0:*:*,0:eol+256::0",
        "4:64:0:*:*,*::df:0",
        "4:064:0:*:*,*::df:0",
        "4:64+0:0:1460:mss*20,10:mss,sok,ts,nop,ws,eol+3,?12:df,id+:+",
        "4:64+?:0:*:%8192,*:mss::*",
        "6:255-:255:65535:65535,255:sack:bad:*",
        "4:256:0:*:*,*:::0",
        "4:64:0:65536:*,*:::0",
        "4:64:0:*:65536,*:::0",
        "4:64:0:*:mss*256,*:::0",
        "4:64:0:*:mssx,*:::0",
        "4:64:0:*:*,*:mss,:df:0",
        "4:64:0:*:*,*:mss,,ws:df:0",
        "4:64:0:*:*,*:mss:df,:0",
        "4:64:0:*:*,*:mss:df:0 ",
        "4:64:0:*:*,*:mss:df:0\n",
        " 4:64:0:*:*,*:mss:df:0",
        "4:64:0:*:*,*:mss:df:0:",
        "4:64:0:*:*,*:mss:df",
        "4:64:0:*:*:mss:df:0",
        "",
        ":::::::",
        "4:64+:0:*:*,*:::0",
        "4:64+1+2:0:*:*,*:::0",
        "4:+?:0:*:*,*:::0",
        "4:64:0:*:*,*:ts1-::0",
        "4:64:0:*:*,*:ts:ts1-,ts2+:0",
        "4:64:0:*:*,*:sok,sack:ack+,ack-:0",
        "4:99999999999999999999999:0:*:*,*:::0",
        "4:64:0:*:*,*:?99999999999999999999999::0",
        "4:00000000000000000000064:0:*:*,*:::0",
    ] {
        emit_ptcp(ctx, t);
    }
    // HTTP witnesses
    emit_http(ctx, &HttpSig { version: Version::V11, horder: vec![], habsent: vec![], expsw: "x".into() });
    emit_http(ctx, &HttpSig { version: Version::Any, horder: vec![], habsent: vec![hdr("Keep-Alive")], expsw: String::new() });
    emit_http(ctx, &HttpSig { version: Version::V10, horder: vec![hdr("Host")], habsent: vec![], expsw: String::new() });
    emit_http(ctx, &HttpSig { version: Version::V10, horder: vec![hdr("")], habsent: vec![], expsw: String::new() });
    emit_http(ctx, &HttpSig { version: Version::V10, horder: vec![hdr(""), hdr("")], habsent: vec![], expsw: String::new() });
    for t in [
        "1:::", "1:Host::", "1:Host:,A:x", "1:Host:?:x", "1:Host:=[v]:x", "1:Host:A,,B:x", "1:,Host::", "1:Host", "1:Host:",
        "2:Host::", "*:Host=[a]b::", "*:Host=[a::", "*:Host=[]::", "*:?Host=[a]]::", "*:Host:Keep-Alive:Fire:fox",
        "0:Accept=[*/*],?Referer,User-Agent,Host:Keep-Alive,Connection:(compatible; MSIE", "", ":", "1:a b::",
    ] {
        emit_phttp(ctx, t);
    }

    // --- token tables
    tokens(ctx);

    // --- every signature line of the bundled database
    let lines = bundled_lines(ctx);

    // --- exhaustive sub-enumerations (one field varied over its whole domain on a fixed base)
    for v in 0..=255u8 {
        for t in [Ttl::Value(v), Ttl::Guess(v), Ttl::Bad(v), Ttl::Distance(v, 255 - v), Ttl::Distance(64, v)] {
            let mut s = base_tcp();
            s.ittl = t;
            emit_tcp(ctx, &s);
        }
        for ws in [WindowSize::Mss(v), WindowSize::Mtu(v)] {
            let mut s = base_tcp();
            s.wsize = ws;
            s.olen = v;
            s.wscale = Some(v);
            emit_tcp(ctx, &s);
        }
        let mut s = base_tcp();
        s.olayout = vec![TcpOption::Eol(v), TcpOption::Unknown(v), TcpOption::Unknown(255 - v), TcpOption::Eol(255 - v)];
        emit_tcp(ctx, &s);
    }
    let wide: Vec<u16> = if ctx.n(0, 1) == 1 {
        (0..=65535u16).collect()
    } else {
        let mut v: Vec<u16> = U16B.to_vec();
        v.extend((0..=300u16).step_by(7));
        v.extend([999, 1000, 1001, 9999, 10001, 59999, 60000]);
        v
    };
    for v in wide {
        let mut s = base_tcp();
        s.mss = Some(v);
        s.wsize = WindowSize::Value(v);
        emit_tcp(ctx, &s);
        s.wsize = WindowSize::Mod(v);
        s.mss = Some(65535 - v);
        emit_tcp(ctx, &s);
    }
    let kinds = |v: u8| {
        [TcpOption::Eol(v), TcpOption::Nop, TcpOption::Mss, TcpOption::Ws, TcpOption::Sok, TcpOption::Sack, TcpOption::TS, TcpOption::Unknown(v)]
    };
    for a in kinds(1) {
        let mut s = base_tcp();
        s.olayout = vec![a.clone()];
        emit_tcp(ctx, &s);
        for b in kinds(20) {
            let mut s = base_tcp();
            s.olayout = vec![a.clone(), b.clone()];
            emit_tcp(ctx, &s);
            if ctx.n(0, 1) == 1 {
                for c in kinds(255) {
                    let mut s = base_tcp();
                    s.olayout = vec![a.clone(), b.clone(), c];
                    emit_tcp(ctx, &s);
                }
            }
        }
    }
    for a in QUIRKS.iter() {
        let mut s = base_tcp();
        s.quirks = vec![a.clone()];
        emit_tcp(ctx, &s);
        for b in QUIRKS.iter() {
            let mut s = base_tcp();
            s.quirks = vec![a.clone(), b.clone()];
            emit_tcp(ctx, &s);
        }
    }
    {
        let mut s = base_tcp();
        s.quirks = QUIRKS.to_vec();
        emit_tcp(ctx, &s);
        s.quirks.reverse();
        emit_tcp(ctx, &s);
    }
    // HTTP: every (optional, empty/non-empty name, value none/empty/non-empty) header shape in each list position
    for ver in [Version::V10, Version::V11, Version::Any, Version::V20, Version::V30] {
        for opt in [false, true] {
            for name in ["", "Host", "-"] {
                for value in [None, Some(""), Some("a,b:c"), Some("[")] {
                    let h = Header { optional: opt, name: name.into(), value: value.map(String::from) };
                    for (ho, ha) in [
                        (vec![h.clone()], vec![]),
                        (vec![hdr("A"), h.clone()], vec![hdr("B")]),
                        (vec![h.clone(), hdr("A")], vec![]),
                        (vec![hdr("A")], vec![h.clone()]),
                        (vec![hdr("A")], vec![hdr("B"), h.clone()]),
                        (vec![], vec![h.clone()]),
                    ] {
                        for sw in ["", "x:y"] {
                            emit_http(ctx, &HttpSig { version: ver, horder: ho.clone(), habsent: ha.clone(), expsw: sw.into() });
                        }
                    }
                }
            }
        }
    }

    // --- generated values
    for _ in 0..ctx.n(6000, 150_000) {
        let s = g_tcp(&mut r);
        emit_tcp(ctx, &s);
    }
    for _ in 0..ctx.n(4000, 100_000) {
        let odd = r.chance(1, 4);
        let s = g_http(&mut r, odd);
        emit_http(ctx, &s);
    }
    // --- generated texts: printed values, non-canonical numerals, mutations
    let tcp_lines: Vec<&String> = lines.iter().filter(|l| l.0.starts_with("tcp")).map(|l| &l.1).collect();
    let http_lines: Vec<&String> = lines.iter().filter(|l| l.0.starts_with("http")).map(|l| &l.1).collect();
    for _ in 0..ctx.n(5000, 120_000) {
        let base = if !tcp_lines.is_empty() && r.chance(1, 3) {
            (*r.pick(&tcp_lines)).clone()
        } else {
            g_tcp(&mut r).to_string()
        };
        let t = match r.below(6) {
            0 => base,
            1 | 2 => pad_zeros(&mut r, &base),
            _ => mutate(&mut r, &base, TCP_ALPHABET),
        };
        emit_ptcp(ctx, &t);
    }
    for _ in 0..ctx.n(3000, 80_000) {
        let base = if !http_lines.is_empty() && r.chance(1, 2) {
            (*r.pick(&http_lines)).clone()
        } else {
            g_http(&mut r, true).to_string()
        };
        let t = if r.chance(1, 5) { base } else { mutate(&mut r, &base, HTTP_ALPHABET) };
        emit_phttp(ctx, &t);
    }
    let _ = (Database::load_default().is_ok(), Label::from_str("s:!:x:"));
}
