//! C02 — `find_best_match` through the index vs an exhaustive scan.
//! Databases are generated, rendered to p0f text with the crates' own `Display` impls, loaded by
//! the real `Database::from_str` (or, for signature HTTP versions the text format cannot express,
//! built with the public `FingerprintCollection::new`), and queried through
//! `FingerprintDb::find_best_match` and the `SignatureMatcher` wrappers of the tcp/http crates.
//! What is sent to the driver is the entry list the *loaded* collection holds.
use super::c12::*;
use crate::rng::Rng;
use crate::wr::{guarded, Line};
use crate::Ctx;
use huginn_net_db::db::FingerprintCollection;
use huginn_net_db::db_matching_trait::{DatabaseSignature, FingerprintDb, ObservedFingerprint};
use huginn_net_db::http::{self, Header, Version};
use huginn_net_db::observable_signals::{HttpRequestObservation, HttpResponseObservation, TcpObservation};
use huginn_net_db::tcp::{self, IpVersion, PayloadSize, Quirk, TcpOption, Ttl, WindowSize};
use huginn_net_db::{Database, Label, Type};
use std::str::FromStr;

type TcpEntries = Vec<(Label, Vec<tcp::Signature>)>;
type HttpEntries = Vec<(Label, Vec<http::Signature>)>;

fn label(i: usize, r: &mut Rng) -> Label {
    Label {
        ty: if r.chance(1, 4) { Type::Generic } else { Type::Specified },
        class: if r.chance(1, 3) { None } else { Some(r.pick(&["unix", "win", "other"]).to_string()) },
        name: format!("L{i}"),
        flavor: if r.chance(1, 2) { None } else { Some(format!("f{}", r.below(4))) },
    }
}
fn label_text(l: &Label) -> String {
    format!(
        "{}:{}:{}:{}",
        if l.ty == Type::Specified { "s" } else { "g" },
        l.class.as_deref().unwrap_or("!"),
        l.name,
        l.flavor.as_deref().unwrap_or("")
    )
}

struct Texts {
    tcp_req: TcpEntries,
    tcp_resp: TcpEntries,
    http_req: HttpEntries,
    http_resp: HttpEntries,
}

fn render(t: &Texts) -> String {
    let mut s = String::from("; generated\nclasses = win,unix,other\n\n[mtu]\nlabel = Ethernet\nsig = 1500\n\n");
    let mut sect = |name: &str, body: Vec<(String, Vec<String>)>| {
        s.push_str(&format!("[{name}]\n"));
        for (l, sigs) in body {
            s.push_str(&format!("label = {l}\nsys = Linux\n"));
            for g in sigs {
                s.push_str(&format!("sig   = {g}\n"));
            }
            s.push('\n');
        }
    };
    let tcp = |e: &TcpEntries| e.iter().map(|(l, v)| (label_text(l), v.iter().map(|x| x.to_string()).collect())).collect();
    let htt = |e: &HttpEntries| e.iter().map(|(l, v)| (label_text(l), v.iter().map(|x| x.to_string()).collect())).collect();
    sect("tcp:request", tcp(&t.tcp_req));
    sect("tcp:response", tcp(&t.tcp_resp));
    sect("http:request", htt(&t.http_req));
    sect("http:response", htt(&t.http_resp));
    s
}

/// A small layout alphabet so that buckets collide.
fn db_layouts(r: &mut Rng) -> Vec<Vec<TcpOption>> {
    let n = r.range(1, 4) as usize;
    let mut v: Vec<Vec<TcpOption>> = (0..n).map(|_| gen_layout(r)).collect();
    if r.chance(1, 2) {
        let base = v[0].clone();
        v.push(near_layout(r, &base));
    }
    v
}

fn gen_tcp_entries(r: &mut Rng, big: bool) -> TcpEntries {
    let nl = if big { r.range(8, 40) } else { r.range(1, 6) } as usize;
    gen_tcp_entries_shape(r, nl, if big { 6 } else { 3 }, None)
}

/// `nl` labels; each with `fixed` signatures when given, else 0..=`max_ns`
fn gen_tcp_entries_shape(r: &mut Rng, nl: usize, max_ns: u64, fixed: Option<usize>) -> TcpEntries {
    let layouts = db_layouts(r);
    let quirks = [gen_quirks(r), gen_quirks(r)];
    (0..nl)
        .map(|i| {
            let ns = match fixed {
                Some(k) => k,
                None => (if r.chance(1, 8) { 0 } else { r.range(1, max_ns) }) as usize,
            };
            let sigs = (0..ns)
                .map(|_| {
                    let mut s = gen_tcp_sig(r);
                    s.olayout = r.pick(&layouts).clone();
                    s.quirks = if r.chance(5, 6) { quirks[0].clone() } else { quirks[1].clone() };
                    // keep distances varied but mostly accepting: few fixed fields
                    if r.chance(2, 3) {
                        s.wsize = if r.chance(1, 2) { WindowSize::Any } else { s.wsize };
                        s.mss = if r.chance(2, 3) { None } else { s.mss };
                    }
                    if r.chance(3, 4) {
                        s.ittl = Ttl::Value(*r.pick(&[64u8, 64, 128, 255]));
                        s.olen = 0;
                    }
                    s
                })
                .collect();
            (label(i, r), sigs)
        })
        .collect()
}

fn tcp_queries(r: &mut Rng, e: &TcpEntries, n_extra: usize) -> Vec<TcpObservation> {
    let all: Vec<&tcp::Signature> = e.iter().flat_map(|(_, v)| v.iter()).collect();
    let mut out = vec![];
    if all.is_empty() {
        let s = gen_tcp_sig(r);
        out.push(tcp_instance(r, &s));
        return out;
    }
    // every version x pclass x (each layout of the database + a near miss)
    let mut layouts: Vec<Vec<TcpOption>> = vec![];
    for s in &all {
        if !layouts.contains(&s.olayout) {
            layouts.push(s.olayout.clone());
        }
    }
    let near = near_layout(r, &layouts[0]);
    if !layouts.contains(&near) {
        layouts.push(near);
    }
    for v in [IpVersion::V4, IpVersion::V6] {
        for p in [PayloadSize::Zero, PayloadSize::NonZero] {
            for l in &layouts {
                let s = *r.pick(&all);
                let mut o = tcp_instance(r, s);
                o.version = v;
                o.pclass = p;
                o.olayout = l.clone();
                if r.chance(1, 3) {
                    o.quirks = r.pick(&all).quirks.clone();
                }
                out.push(o);
            }
        }
    }
    for i in 0..n_extra {
        let s = *r.pick(&all);
        let mut o = tcp_instance(r, s);
        match i % 3 {
            0 => {}
            1 => {
                tcp_mutate(r, &mut o);
            }
            _ => {
                tcp_mutate(r, &mut o);
                tcp_mutate(r, &mut o);
            }
        }
        out.push(o);
    }
    out
}

fn gen_http_entries(r: &mut Rng, big: bool, versions: &[Version]) -> HttpEntries {
    let nl = if big { r.range(8, 40) } else { r.range(1, 6) } as usize;
    gen_http_entries_shape(r, nl, if big { 6 } else { 3 }, None, versions)
}

fn gen_http_entries_shape(r: &mut Rng, nl: usize, max_ns: u64, fixed: Option<usize>, versions: &[Version]) -> HttpEntries {
    // a shared skeleton so that several signatures accept the same observation at different distances
    let skel = {
        let mut h = gen_sig_headers(r, 5, true);
        if h.is_empty() {
            h.push(Header::new("Host"));
        }
        h
    };
    (0..nl)
        .map(|i| {
            let ns = match fixed {
                Some(k) => k,
                None => (if r.chance(1, 8) { 0 } else { r.range(1, max_ns) }) as usize,
            };
            let sigs = (0..ns)
                .map(|_| {
                    let mut s = gen_http_sig(r, versions);
                    if r.chance(3, 4) {
                        s.horder = skel.clone();
                        for _ in 0..r.below(4) {
                            hdr_mutate_sig(r, &mut s.horder);
                        }
                    }
                    if s.horder.is_empty() {
                        s.horder.push(Header::new("Host"));
                    }
                    s
                })
                .collect();
            (label(i, r), sigs)
        })
        .collect()
}
fn hdr_mutate_sig(r: &mut Rng, h: &mut Vec<Header>) {
    match r.below(4) {
        0 if h.len() > 1 => {
            let i = r.below(h.len() as u64) as usize;
            h.remove(i);
        }
        1 => {
            let i = r.below(h.len() as u64 + 1) as usize;
            h.insert(i, Header::new(format!("X-{}", r.below(5))));
        }
        2 if !h.is_empty() => {
            let i = r.below(h.len() as u64) as usize;
            h[i].optional = !h[i].optional;
        }
        _ => {
            if !h.is_empty() {
                let i = r.below(h.len() as u64) as usize;
                h[i].value = if h[i].value.is_some() { None } else { Some("x".into()) };
            }
        }
    }
}

fn http_queries(r: &mut Rng, e: &HttpEntries, n_extra: usize) -> Vec<http::Signature> {
    let all: Vec<&http::Signature> = e.iter().flat_map(|(_, v)| v.iter()).collect();
    let vs = [Version::V10, Version::V11, Version::V20, Version::V30];
    let mut out = vec![];
    if all.is_empty() {
        let s = gen_http_sig(r, &vs);
        out.push(http_instance(r, &s, &vs));
        return out;
    }
    for v in vs {
        for k in 0..2 {
            let s = *r.pick(&all);
            let mut o = http_instance(r, s, &vs);
            o.version = v;
            if k == 1 {
                hdr_mutate(r, &mut o.horder);
            }
            out.push(o);
        }
    }
    for i in 0..n_extra {
        let s = *r.pick(&all);
        let mut o = http_instance(r, s, &vs);
        match i % 3 {
            0 => {}
            1 => hdr_mutate(r, &mut o.horder),
            _ => {
                o.expsw = r.pick(&SW).to_string();
                o.version = *r.pick(&vs);
            }
        }
        out.push(o);
    }
    out
}

fn locate<S>(entries: &[(Label, Vec<S>)], l: &Label, s: &S) -> Option<(usize, usize)> {
    for (i, (lab, sigs)) in entries.iter().enumerate() {
        if std::ptr::eq(lab, l) {
            for (j, x) in sigs.iter().enumerate() {
                if std::ptr::eq(x, s) {
                    return Some((i, j));
                }
            }
        }
    }
    None
}

fn show<S>(entries: &[(Label, Vec<S>)], r: Option<(&Label, &S, f32)>) -> String {
    match r {
        None => "none".to_string(),
        Some((l, s, q)) => match locate(entries, l, s) {
            Some((i, j)) => format!("{i} {j} {q}"),
            None => "FOREIGN-REF".to_string(),
        },
    }
}

fn emit_tcp(ctx: &mut Ctx, db: &Database, which: u8, obs: &[TcpObservation]) {
    let coll = if which == 0 { &db.tcp_request } else { &db.tcp_response };
    let mut l = Line::op("C02.tcp");
    l.nat(which);
    l.list(&coll.entries, |l, (_, sigs)| {
        l.list(sigs, |l, s| w_tcp_sig(l, s));
    });
    l.list(obs, |l, o| w_tcp_sig(l, &obs_as_sig(o)));
    let mut outs = vec![];
    for o in obs {
        let out = guarded(std::panic::AssertUnwindSafe(|| {
            let direct = show(&coll.entries, coll.find_best_match(o));
            let m = huginn_net_tcp::signature_matcher::SignatureMatcher::new(db);
            let ot = huginn_net_tcp::observable::ObservableTcp { matching: o.clone() };
            let via = if which == 0 { m.matching_by_tcp_request(&ot) } else { m.matching_by_tcp_response(&ot) };
            let via = show(&coll.entries, via);
            if via == direct {
                direct
            } else {
                format!("DIFF direct={direct} matcher={via}")
            }
        }));
        outs.push(out);
    }
    ctx.emit(l.finish(&outs.join("|")));
}

fn emit_http(ctx: &mut Ctx, db: &Database, which: u8, obs: &[http::Signature]) {
    let mut l = Line::op("C02.http");
    l.nat(which);
    let entries = if which == 0 { &db.http_request.entries } else { &db.http_response.entries };
    l.list(entries, |l, (_, sigs)| {
        l.list(sigs, |l, s| w_http_sig(l, s));
    });
    l.list(obs, |l, o| w_http_sig(l, o));
    let mut outs = vec![];
    for o in obs {
        let out = guarded(std::panic::AssertUnwindSafe(|| {
            let m = huginn_net_http::signature_matcher::SignatureMatcher::new(db);
            if which == 0 {
                let ob: HttpRequestObservation = http_req(o);
                let direct = show(entries, db.http_request.find_best_match(&ob));
                let oh = huginn_net_http::observable::ObservableHttpRequest {
                    matching: ob,
                    lang: None,
                    user_agent: None,
                    headers: vec![],
                    cookies: vec![],
                    referer: None,
                    method: None,
                    uri: None,
                };
                let via = show(entries, m.matching_by_http_request(&oh));
                if via == direct {
                    direct
                } else {
                    format!("DIFF direct={direct} matcher={via}")
                }
            } else {
                let ob: HttpResponseObservation = http_resp(o);
                let direct = show(entries, db.http_response.find_best_match(&ob));
                let oh = huginn_net_http::observable::ObservableHttpResponse { matching: ob, headers: vec![], status_code: None };
                let via = show(entries, m.matching_by_http_response(&oh));
                if via == direct {
                    direct
                } else {
                    format!("DIFF direct={direct} matcher={via}")
                }
            }
        }));
        outs.push(out);
    }
    ctx.emit(l.finish(&outs.join("|")));
}

fn emit_keys(ctx: &mut Ctx, r: &mut Rng) {
    // the key string: every single option token, numeric arguments over all u8, and generated layouts
    let mut layouts: Vec<Vec<TcpOption>> = vec![vec![]];
    for c in 1..=6u8 {
        layouts.push(vec![opt_of(c, r)]);
    }
    for n in 0..=255u8 {
        layouts.push(vec![TcpOption::Eol(n)]);
        layouts.push(vec![TcpOption::Mss, TcpOption::Unknown(n), TcpOption::Nop]);
    }
    for _ in 0..ctx.n(300, 5000) {
        layouts.push(gen_layout(r));
    }
    for l in &layouts {
        let o = TcpObservation {
            version: IpVersion::V4,
            ittl: Ttl::Value(64),
            olen: 0,
            mss: None,
            wsize: WindowSize::Value(1),
            wscale: None,
            olayout: l.clone(),
            quirks: vec![],
            pclass: PayloadSize::Zero,
        };
        let mut ln = Line::op("C02.key");
        ln.list(l, |ln, x| w_opt(ln, x));
        let out = guarded(std::panic::AssertUnwindSafe(|| o.generate_index_key().olayout_key));
        ctx.emit(ln.finish(&out));
    }
    let sv = |v: IpVersion| match v {
        IpVersion::V4 => "4",
        IpVersion::V6 => "6",
        IpVersion::Any => "*",
    };
    let sp = |v: PayloadSize| match v {
        PayloadSize::Zero => "0",
        PayloadSize::NonZero => "+",
        PayloadSize::Any => "*",
    };
    for v in [IpVersion::V4, IpVersion::V6, IpVersion::Any] {
        for p in [PayloadSize::Zero, PayloadSize::NonZero, PayloadSize::Any] {
            for _ in 0..3 {
                let mut s = gen_tcp_sig(r);
                s.version = v;
                s.pclass = p;
                let mut ln = Line::op("C02.tkeys");
                w_tcp_sig(&mut ln, &s);
                let s2 = s.clone();
                let out = guarded(move || {
                    let ks = <tcp::Signature as DatabaseSignature<TcpObservation>>::generate_index_keys_for_db_entry(&s2);
                    ks.iter()
                        .map(|k| format!("{}/{}/{}", sv(k.ip_version_key), k.olayout_key, sp(k.pclass_key)))
                        .collect::<Vec<_>>()
                        .join(";")
                });
                ctx.emit(ln.finish(&out));
            }
        }
    }
    let hv = |v: Version| match v {
        Version::V10 => "10",
        Version::V11 => "11",
        Version::V20 => "20",
        Version::V30 => "30",
        Version::Any => "*",
    };
    for v in [Version::V10, Version::V11, Version::V20, Version::V30, Version::Any] {
        let s = http::Signature { version: v, horder: vec![Header::new("Host")], habsent: vec![], expsw: String::new() };
        let mut ln = Line::op("C02.hkeys");
        w_http_sig(&mut ln, &s);
        let out = guarded(move || {
            let a = <http::Signature as DatabaseSignature<HttpRequestObservation>>::generate_index_keys_for_db_entry(&s);
            let b = <http::Signature as DatabaseSignature<HttpResponseObservation>>::generate_index_keys_for_db_entry(&s);
            let f = |ks: Vec<huginn_net_db::db::HttpIndexKey>| ks.iter().map(|k| hv(k.http_version_key)).collect::<Vec<_>>().join(";");
            let (a, b) = (f(a), f(b));
            if a == b {
                a
            } else {
                format!("DIFF {a} vs {b}")
            }
        });
        ctx.emit(ln.finish(&out));
    }
}

fn all_versions_early() -> [Version; 5] {
    [Version::V10, Version::V11, Version::V20, Version::V30, Version::Any]
}

fn direct_db(tr: TcpEntries, ts: TcpEntries, hr: HttpEntries, hs: HttpEntries) -> Database {
    Database {
        classes: vec![],
        mtu: vec![],
        ua_os: vec![],
        tcp_request: FingerprintCollection::new(tr),
        tcp_response: FingerprintCollection::new(ts),
        http_request: FingerprintCollection::new(hr),
        http_response: FingerprintCollection::new(hs),
    }
}

fn hh(opt: bool, name: &str, value: Option<&str>) -> Header {
    Header { optional: opt, name: name.to_string(), value: value.map(|v| v.to_string()) }
}

fn corpus(ctx: &mut Ctx, r: &mut Rng) {
    // (#2, fixed by 343328d) `*`-version signatures must be found for HTTP/2 and HTTP/3 observations
    let text = "classes = unix\n[http:request]\nlabel = s:!:Any:\nsig = *:Host,Accept,Foo::\nlabel = s:!:One:\nsig = 1:Host,Accept,Foo::\n[http:response]\nlabel = s:!:Srv:\nsig = *:Server,Date::\n";
    if let Ok(db) = Database::from_str(text) {
        let mk = |v| http::Signature { version: v, horder: vec![hh(false, "Host", None), hh(false, "Accept", None), hh(false, "Foo", None)], habsent: vec![], expsw: String::new() };
        emit_http(ctx, &db, 0, &[mk(Version::V20), mk(Version::V30), mk(Version::V10), mk(Version::V11)]);
        let mk = |v| http::Signature { version: v, horder: vec![hh(false, "Server", None), hh(false, "Date", None)], habsent: vec![], expsw: String::new() };
        emit_http(ctx, &db, 1, &[mk(Version::V20), mk(Version::V30), mk(Version::V10), mk(Version::V11)]);
    } else {
        ctx.emit(Line::op("C02.http").finish("LOAD-FAILED"));
    }
    // ties, later-better, empty label, wildcard / concrete mixes in one bucket
    let base = tcp::Signature {
        version: IpVersion::Any,
        ittl: Ttl::Value(64),
        olen: 0,
        mss: None,
        wsize: WindowSize::Any,
        wscale: None,
        olayout: vec![TcpOption::Mss, TcpOption::Nop, TcpOption::Ws],
        quirks: vec![Quirk::Df],
        pclass: PayloadSize::Any,
    };
    let mut far = base.clone();
    far.ittl = Ttl::Value(128);
    let mut v6 = base.clone();
    v6.version = IpVersion::V6;
    let mut other = base.clone();
    other.olayout = vec![TcpOption::Mss];
    let mut zero = base.clone();
    zero.pclass = PayloadSize::Zero;
    let tr: TcpEntries = vec![
        (label(0, r), vec![far.clone(), other.clone()]),
        (label(1, r), vec![]),
        (label(2, r), vec![base.clone(), base.clone()]),
        (label(3, r), vec![v6.clone(), zero.clone()]),
    ];
    let t = Texts { tcp_req: tr.clone(), tcp_resp: vec![(label(0, r), vec![zero, far])], http_req: vec![], http_resp: vec![] };
    match Database::from_str(&render(&t)) {
        Ok(db) => {
            let mut o = sig_as_obs(&base);
            o.version = IpVersion::V4;
            o.pclass = PayloadSize::Zero;
            o.ittl = Ttl::Distance(60, 4);
            let mut o6 = o.clone();
            o6.version = IpVersion::V6;
            o6.pclass = PayloadSize::NonZero;
            let mut ofar = o.clone();
            ofar.ittl = Ttl::Distance(120, 8);
            let mut onone = o.clone();
            onone.olayout = vec![TcpOption::Mss, TcpOption::Nop];
            let mut orej = o.clone();
            orej.quirks = vec![];
            emit_tcp(ctx, &db, 0, &[o.clone(), o6.clone(), ofar.clone(), onone.clone(), orej.clone()]);
            emit_tcp(ctx, &db, 1, &[o.clone(), o6, ofar, onone, orej]);
            // a wildcard observation (never emitted by an analyzer): unspecified, model only
            let mut oany = o;
            oany.version = IpVersion::Any;
            emit_tcp(ctx, &db, 0, &[oany]);
        }
        Err(_) => ctx.emit(Line::op("C02.tcp").finish("LOAD-FAILED")),
    }
}

fn bundled(ctx: &mut Ctx, r: &mut Rng) {
    let db = match Database::load_default() {
        Ok(db) => db,
        Err(_) => {
            ctx.emit(Line::op("C02.tcp").finish("LOAD-FAILED"));
            return;
        }
    };
    let reps = ctx.n(1, 6);
    for which in 0..2u8 {
        let coll = if which == 0 { &db.tcp_request } else { &db.tcp_response };
        let mut obs = vec![];
        for _ in 0..reps {
            for (_, sigs) in &coll.entries {
                for s in sigs {
                    obs.push(tcp_instance(r, s));
                    if r.chance(1, 3) {
                        let mut o = tcp_instance(r, s);
                        tcp_mutate(r, &mut o);
                        obs.push(o);
                    }
                }
            }
        }
        for chunk in obs.chunks(60) {
            emit_tcp(ctx, &db, which, chunk);
        }
    }
    let vs = [Version::V10, Version::V11, Version::V20, Version::V30];
    for which in 0..2u8 {
        let entries = if which == 0 { &db.http_request.entries } else { &db.http_response.entries };
        let mut obs = vec![];
        for _ in 0..reps {
            for (_, sigs) in entries {
                for s in sigs {
                    obs.push(http_instance(r, s, &vs));
                    if r.chance(1, 3) {
                        let mut o = http_instance(r, s, &vs);
                        hdr_mutate(r, &mut o.horder);
                        obs.push(o);
                    }
                }
            }
        }
        for chunk in obs.chunks(40) {
            emit_http(ctx, &db, which, chunk);
        }
    }
}

pub fn run(ctx: &mut Ctx) {
    let mut r = ctx.rng.fork();
    corpus(ctx, &mut r);
    emit_keys(ctx, &mut r);
    bundled(ctx, &mut r);
    // generated databases through the text format and Database::from_str
    let n = ctx.n(700, 12_000);
    for i in 0..n {
        let big = i % 25 == 0;
        let text_versions = [Version::V10, Version::V11, Version::Any, Version::Any];
        let t = Texts {
            tcp_req: gen_tcp_entries(&mut r, big),
            tcp_resp: gen_tcp_entries(&mut r, false),
            http_req: gen_http_entries(&mut r, big, &text_versions),
            http_resp: gen_http_entries(&mut r, false, &text_versions),
        };
        let text = render(&t);
        let db = match guarded_load(&text) {
            Some(db) => db,
            None => {
                let mut l = Line::op("C02.tcp");
                l.text(&text);
                ctx.emit(l.finish("LOAD-FAILED"));
                continue;
            }
        };
        let extra = if big { 40 } else { 4 };
        let q = tcp_queries(&mut r, &db.tcp_request.entries, extra);
        for chunk in q.chunks(if big { 30 } else { 8 }) {
            emit_tcp(ctx, &db, 0, chunk);
        }
        let q = tcp_queries(&mut r, &db.tcp_response.entries, 2);
        for chunk in q.chunks(8) {
            emit_tcp(ctx, &db, 1, chunk);
        }
        let q = http_queries(&mut r, &db.http_request.entries, extra);
        for chunk in q.chunks(if big { 30 } else { 8 }) {
            emit_http(ctx, &db, 0, chunk);
        }
        let q = http_queries(&mut r, &db.http_response.entries, 2);
        for chunk in q.chunks(8) {
            emit_http(ctx, &db, 1, chunk);
        }
    }
    // shapes far from the bundled database: labels with hundreds of signatures (positions beyond 255),
    // (thorough: 700 labels, 600 signatures per label) — the answer must still be the first best entry.
    // (More labels than 16 bits can index were tried: 2.5 MB case lines, minutes per line in the model driver — dropped.)
    {
        let shapes: Vec<(usize, usize)> = if ctx.n(0, 1) == 1 { vec![(1, 300), (3, 270), (700, 2), (2, 600)] } else { vec![(1, 300), (3, 270)] };
        for (nl, ns) in shapes {
            let db = direct_db(
                gen_tcp_entries_shape(&mut r, nl, 0, Some(ns)),
                vec![],
                gen_http_entries_shape(&mut r, nl.min(400), 0, Some(ns), &all_versions_early()),
                vec![],
            );
            // observations that are instances of the LAST entries (late labels / signature positions >= 256)
            let vs = [Version::V10, Version::V11, Version::V20, Version::V30];
            let tall: Vec<tcp::Signature> = db.tcp_request.entries.iter().flat_map(|(_, v)| v.iter().cloned()).collect();
            let tq: Vec<TcpObservation> = (0..24).map(|k| tcp_instance(&mut r, &tall[tall.len() - 1 - (k * 7) % 40.min(tall.len())])).collect();
            for chunk in tq.chunks(if nl > 1000 { 2 } else { 12 }) {
                emit_tcp(ctx, &db, 0, chunk);
            }
            let hall: Vec<http::Signature> = db.http_request.entries.iter().flat_map(|(_, v)| v.iter().cloned()).collect();
            let hq: Vec<http::Signature> = (0..24).map(|k| http_instance(&mut r, &hall[hall.len() - 1 - (k * 7) % 40.min(hall.len())], &vs)).collect();
            for chunk in hq.chunks(12) {
                emit_http(ctx, &db, 0, chunk);
            }
        }
    }
    // databases built directly (signature HTTP versions 2 and 3, which the text format lacks;
    // TCP signatures exactly as generated)
    let n = ctx.n(250, 5_000);
    let all_versions = [Version::V10, Version::V11, Version::V20, Version::V30, Version::Any];
    for _ in 0..n {
        let db = direct_db(
            gen_tcp_entries(&mut r, false),
            gen_tcp_entries(&mut r, false),
            gen_http_entries(&mut r, false, &all_versions),
            gen_http_entries(&mut r, false, &all_versions),
        );
        let q = tcp_queries(&mut r, &db.tcp_request.entries, 3);
        for chunk in q.chunks(8) {
            emit_tcp(ctx, &db, 0, chunk);
        }
        let q = http_queries(&mut r, &db.http_request.entries, 4);
        for chunk in q.chunks(8) {
            emit_http(ctx, &db, 0, chunk);
        }
        let q = http_queries(&mut r, &db.http_response.entries, 4);
        for chunk in q.chunks(8) {
            emit_http(ctx, &db, 1, chunk);
        }
    }
}

fn guarded_load(text: &str) -> Option<Database> {
    let t = text.to_string();
    std::panic::catch_unwind(move || Database::from_str(&t).ok()).ok().flatten()
}
