//! C15 — filtering commutes with analysis.
//!
//! Ops (all on the real crates, public API only):
//!   C15.frame <cfg> <frame>           raw_filter::apply of the three crates (must coincide) and the endpoints the
//!                                     three analyzers themselves report for the frame through their per-packet API
//!   C15.run <analyzer> <cfg> <n> <frames…>   analyze_pcap with the filter installed vs. without a filter on
//!                                     (u) the frames raw_filter::apply lets through, (s) the frames whose own
//!                                     endpoints (parse_packet + pnet views, as process.rs computes them) the
//!                                     filter admits
//! The frame generator (`gen_frame`, `FrameSpec`) is shared with c18.rs.
use crate::rng::Rng;
use crate::wr::{hex, Line};
use crate::Ctx;
use pnet::packet::Packet;
use std::net::{IpAddr, Ipv4Addr, Ipv6Addr};

// ------------------------------------------------------------------------------------------------
// filter configurations (same token format as C14, parsed on the Lean side by Drv.C14.pConfig)

#[derive(Clone, Default)]
pub struct UPort {
    pub sp: Vec<u16>,
    pub dp: Vec<u16>,
    pub sr: Vec<(u16, u16)>,
    pub dr: Vec<(u16, u16)>,
    pub any: bool,
}
#[derive(Clone)]
pub struct UIp {
    pub v4: Vec<u32>,
    pub v6: Vec<u128>,
    pub cs: bool,
    pub cd: bool,
}
#[derive(Clone)]
pub struct USub {
    pub v4: Vec<(u32, u8)>,
    pub v6: Vec<(u128, u8)>,
    pub cs: bool,
    pub cd: bool,
}
#[derive(Clone)]
pub struct UCfg {
    pub deny: bool,
    pub port: Option<UPort>,
    pub ip: Option<UIp>,
    pub sub: Option<USub>,
}

fn w_port(l: &mut Line, p: &UPort) {
    l.list(&p.sp, |l, x| {
        l.nat(*x);
    });
    l.list(&p.dp, |l, x| {
        l.nat(*x);
    });
    l.list(&p.sr, |l, x| {
        l.nat(x.0).nat(x.1);
    });
    l.list(&p.dr, |l, x| {
        l.nat(x.0).nat(x.1);
    });
    l.bool(p.any);
}
pub fn w_cfg(l: &mut Line, c: &UCfg) {
    l.nat(c.deny as u8);
    l.bool(c.port.is_some());
    if let Some(p) = &c.port {
        w_port(l, p);
    }
    l.bool(c.ip.is_some());
    if let Some(f) = &c.ip {
        l.list(&f.v4, |l, x| {
            l.nat(*x);
        });
        l.list(&f.v6, |l, x| {
            l.nat(*x);
        });
        l.bool(f.cs).bool(f.cd);
    }
    l.bool(c.sub.is_some());
    if let Some(f) = &c.sub {
        l.list(&f.v4, |l, x| {
            l.nat(x.0).nat(x.1);
        });
        l.list(&f.v6, |l, x| {
            l.nat(x.0).nat(x.1);
        });
        l.bool(f.cs).bool(f.cd);
    }
}

macro_rules! build_cfg {
    ($krate:ident, $c:expr) => {{
        use $krate::{FilterConfig, FilterMode, IpFilter, PortFilter, SubnetFilter};
        let c: &UCfg = $c;
        let mut cfg = FilterConfig::new().mode(if c.deny { FilterMode::Deny } else { FilterMode::Allow });
        if let Some(p) = &c.port {
            let mut x = PortFilter::new();
            if !p.sp.is_empty() {
                x = x.source_list(p.sp.clone());
            }
            if !p.dp.is_empty() {
                x = x.destination_list(p.dp.clone());
            }
            for (a, b) in &p.sr {
                x = x.source_range(*a..*b);
            }
            for (a, b) in &p.dr {
                x = x.destination_range(*a..*b);
            }
            if p.any {
                x = x.any_port();
            }
            cfg = cfg.with_port_filter(x);
        }
        if let Some(f) = &c.ip {
            let mut x = IpFilter::new();
            for a in &f.v4 {
                x = x.allow(&Ipv4Addr::from(*a).to_string()).unwrap();
            }
            for a in &f.v6 {
                x = x.allow(&Ipv6Addr::from(*a).to_string()).unwrap();
            }
            if f.cs && !f.cd {
                x = x.source_only();
            }
            if !f.cs && f.cd {
                x = x.destination_only();
            }
            cfg = cfg.with_ip_filter(x);
        }
        if let Some(f) = &c.sub {
            let mut x = SubnetFilter::new();
            for (a, p) in &f.v4 {
                x = x.allow(&format!("{}/{}", Ipv4Addr::from(*a), p)).unwrap();
            }
            for (a, p) in &f.v6 {
                x = x.allow(&format!("{}/{}", Ipv6Addr::from(*a), p)).unwrap();
            }
            if f.cs && !f.cd {
                x = x.source_only();
            }
            if !f.cs && f.cd {
                x = x.destination_only();
            }
            cfg = cfg.with_subnet_filter(x);
        }
        cfg
    }};
}

// ------------------------------------------------------------------------------------------------
// frames

pub const A4: [u32; 6] = [0x0a00_0001, 0x0a00_0002, 0xc0a8_0101, 0x0800_0101, 0x86dd_0101, 0x0a00_0102];
pub const A6: [u128; 4] = [
    0x2001_0db8_0000_0000_0000_0000_0000_0001,
    0x2001_0db8_0000_0000_0000_0000_0000_0002,
    0xfe80_0000_0800_0000_0000_0000_0000_0001, // bytes 4..6 = 08 00: a raw IPv6 frame "looks like Ethernet"
    0x2001_0db8_86dd_0000_0000_0000_0000_0003,
];
pub const PORTS: [u16; 8] = [80, 443, 1234, 50000, 0, 65535, 8080, 1024];

#[derive(Clone, Copy, PartialEq, Eq, Debug)]
pub enum Framing {
    Eth,
    Raw,
    Null,
}

/// Header fields that are part of no connection identity and of no decoder decision.
#[derive(Clone, Debug)]
pub struct Misc {
    pub macs: [u8; 12],
    pub tos: u8,
    pub id: u16,
    pub ttl: u8,
    pub ipck: u16,
    pub flow: [u8; 3],
    pub tcpck: u16,
    pub urg: u16,
}
impl Default for Misc {
    fn default() -> Misc {
        Misc { macs: [2, 0, 0, 0, 0, 1, 2, 0, 0, 0, 0, 2], tos: 0, id: 0x1234, ttl: 64, ipck: 0, flow: [0, 0, 0], tcpck: 0, urg: 0 }
    }
}
impl Misc {
    pub fn random(r: &mut Rng) -> Misc {
        let b = r.bytes(12);
        let mut macs = [0u8; 12];
        macs.copy_from_slice(&b);
        Misc {
            macs,
            tos: *r.pick(&[0u8, 1, 2, 3, 0x10, 0xff]),
            id: r.next() as u16,
            ttl: *r.pick(&[64u8, 128, 255, 1, 0, 57]),
            ipck: r.next() as u16,
            flow: [r.next() as u8 & 0x0f, r.next() as u8, r.next() as u8],
            tcpck: r.next() as u16,
            urg: if r.chance(1, 2) { 0 } else { r.next() as u16 },
        }
    }
}

#[derive(Clone, Debug)]
pub struct FrameSpec {
    pub framing: Framing,
    pub ethertype: Option<u16>, // None = matching the IP version
    pub null_hdr: [u8; 4],
    pub v6: bool,
    pub ver_nibble: Option<u8>, // None = 4 / 6
    pub ihl: u8,
    pub total_len: Option<u16>, // None = correct
    pub frag: u16,              // flags(3) + fragment offset(13)
    pub proto: u8,
    pub src4: u32,
    pub dst4: u32,
    pub src6: u128,
    pub dst6: u128,
    pub ip_fill: u8, // byte used for option bytes when ihl > 5
    pub misc: Misc, // header fields that belong to no identity
    pub sp: u16,
    pub dp: u16,
    pub seq: u32,
    pub ack: u32,
    pub doff: u8,
    pub flags: u8,
    pub win: u16,
    pub tcp_opts: Vec<u8>,
    pub payload: Vec<u8>,
    pub cut: Option<usize>,
}

impl FrameSpec {
    pub fn basic(framing: Framing, v6: bool) -> FrameSpec {
        FrameSpec {
            framing,
            ethertype: None,
            null_hdr: [0x1e, 0, 0, 0],
            v6,
            ver_nibble: None,
            ihl: 5,
            total_len: None,
            frag: 0x4000,
            proto: 6,
            src4: A4[0],
            dst4: A4[1],
            src6: A6[0],
            dst6: A6[1],
            ip_fill: 1,
            misc: Misc::default(),
            sp: 50000,
            dp: 80,
            seq: 1000,
            ack: 0,
            doff: 5,
            flags: 0x02,
            win: 65535,
            tcp_opts: vec![],
            payload: vec![],
            cut: None,
        }
    }
    pub fn reversed(&self) -> FrameSpec {
        let mut r = self.clone();
        std::mem::swap(&mut r.src4, &mut r.dst4);
        std::mem::swap(&mut r.src6, &mut r.dst6);
        std::mem::swap(&mut r.sp, &mut r.dp);
        r
    }
    pub fn tcp_bytes(&self) -> Vec<u8> {
        let mut t = Vec::new();
        t.extend(self.sp.to_be_bytes());
        t.extend(self.dp.to_be_bytes());
        t.extend(self.seq.to_be_bytes());
        t.extend(self.ack.to_be_bytes());
        t.push(self.doff << 4);
        t.push(self.flags);
        t.extend(self.win.to_be_bytes());
        t.extend(self.misc.tcpck.to_be_bytes());
        t.extend(self.misc.urg.to_be_bytes());
        t.extend(&self.tcp_opts);
        t.extend(&self.payload);
        t
    }
    pub fn build(&self) -> Vec<u8> {
        let tcp = self.tcp_bytes();
        let mut ip = Vec::new();
        if self.v6 {
            let vn = self.ver_nibble.unwrap_or(6);
            ip.push((vn << 4) | (self.misc.flow[0] >> 4));
            ip.extend([self.misc.flow[0] << 4 | (self.misc.flow[1] >> 4), self.misc.flow[1], self.misc.flow[2]]);
            let pl = self.total_len.unwrap_or(tcp.len() as u16);
            ip.extend(pl.to_be_bytes());
            ip.push(self.proto);
            ip.push(self.misc.ttl);
            ip.extend(self.src6.to_be_bytes());
            ip.extend(self.dst6.to_be_bytes());
        } else {
            let vn = self.ver_nibble.unwrap_or(4);
            ip.push((vn << 4) | (self.ihl & 15));
            ip.push(self.misc.tos);
            let optlen = (self.ihl as usize * 4).saturating_sub(20);
            let tl = self.total_len.unwrap_or((20 + optlen + tcp.len()) as u16);
            ip.extend(tl.to_be_bytes());
            ip.extend(self.misc.id.to_be_bytes());
            ip.extend(self.frag.to_be_bytes());
            ip.push(self.misc.ttl);
            ip.push(self.proto);
            ip.extend(self.misc.ipck.to_be_bytes());
            ip.extend(self.src4.to_be_bytes());
            ip.extend(self.dst4.to_be_bytes());
            for _ in 0..optlen {
                ip.push(self.ip_fill);
            }
        }
        ip.extend(tcp);
        let mut f = Vec::new();
        match self.framing {
            Framing::Eth => {
                f.extend(self.misc.macs);
                let et = self.ethertype.unwrap_or(if self.v6 { 0x86DD } else { 0x0800 });
                f.extend(et.to_be_bytes());
            }
            Framing::Raw => {}
            Framing::Null => f.extend(self.null_hdr),
        }
        f.extend(ip);
        if let Some(c) = self.cut {
            f.truncate(c.min(f.len()));
        }
        f
    }
}

pub const TLS_PARTIAL: [u8; 9] = [0x16, 0x03, 0x01, 0x40, 0x00, 0x01, 0x00, 0x3f, 0xfc];
pub const HTTP_REQ: &[u8] = b"GET /index.html HTTP/1.1\r\nHost: example.com\r\nUser-Agent: curl/8.0\r\nAccept: */*\r\n\r\n";
pub const HTTP_RESP: &[u8] = b"HTTP/1.1 200 OK\r\nServer: nginx\r\nContent-Length: 0\r\n\r\n";

/// a minimal complete ClientHello record (TLS 1.2, one cipher suite, SNI + supported_groups)
pub fn client_hello() -> Vec<u8> {
    let mut ext = Vec::new();
    // server_name: example.com
    let name = b"example.com";
    let mut sni = Vec::new();
    sni.extend(((name.len() + 3) as u16).to_be_bytes());
    sni.push(0);
    sni.extend((name.len() as u16).to_be_bytes());
    sni.extend(name);
    ext.extend([0, 0]);
    ext.extend((sni.len() as u16).to_be_bytes());
    ext.extend(sni);
    // supported_groups: x25519
    ext.extend([0, 10, 0, 4, 0, 2, 0, 29]);
    let mut body = Vec::new();
    body.extend([3, 3]);
    body.extend([7u8; 32]);
    body.push(0);
    body.extend([0, 4, 0x13, 0x01, 0xc0, 0x2f]);
    body.extend([1, 0]);
    body.extend((ext.len() as u16).to_be_bytes());
    body.extend(ext);
    let mut hs = vec![1, 0];
    hs.extend((body.len() as u16).to_be_bytes());
    hs.extend(body);
    let mut rec = vec![0x16, 3, 1];
    rec.extend((hs.len() as u16).to_be_bytes());
    rec.extend(hs);
    rec
}

fn pick_port(r: &mut Rng) -> u16 {
    if r.chance(5, 6) {
        *r.pick(&PORTS)
    } else {
        r.next() as u16
    }
}
fn pick4(r: &mut Rng) -> u32 {
    if r.chance(7, 8) {
        *r.pick(&A4)
    } else {
        r.next() as u32
    }
}
fn pick6(r: &mut Rng) -> u128 {
    if r.chance(7, 8) {
        *r.pick(&A6)
    } else {
        ((r.next() as u128) << 64) | r.next() as u128
    }
}

pub const NULL_HDRS: [[u8; 4]; 8] = [
    [0x1e, 0, 0, 0],
    [0x02, 0, 0, 0],
    [0x1e, 0, 1, 0],
    [0x18, 0, 0, 0],
    [0x1c, 0, 0, 0],
    [0, 0, 0, 2],
    [0, 0, 0, 0x1e],
    [0x1e, 0, 0, 1],
];

/// A structured frame: every field drawn independently from {the value a well-formed frame has,
/// values the decoders branch on, uniform}.
pub fn gen_frame(r: &mut Rng) -> FrameSpec {
    let framing = match r.below(8) {
        0..=3 => Framing::Eth,
        4 | 5 => Framing::Raw,
        _ => Framing::Null,
    };
    let v6 = r.chance(1, 3);
    let mut f = FrameSpec::basic(framing, v6);
    if r.chance(1, 12) {
        f.ethertype = Some(*r.pick(&[0x0800u16, 0x86DD, 0x0806, 0x8100, 0]));
    }
    f.null_hdr = if r.chance(3, 5) { [0x1e, 0, 0, 0] } else { *r.pick(&NULL_HDRS) };
    if r.chance(1, 12) {
        f.ver_nibble = Some(*r.pick(&[4u8, 6, 0, 5, 1, 15]));
    }
    f.ihl = match r.below(10) {
        0..=4 => 5,
        5 => 6,
        6 => 15,
        _ => r.below(16) as u8,
    };
    f.total_len = match r.below(10) {
        0 => Some(0),
        1 => Some(r.below(80) as u16),
        2 => Some(65535),
        _ => None,
    };
    f.frag = *r.pick(&[0x4000u16, 0x4000, 0x4000, 0, 0x2000, 0x0001, 0x8000, 0x1fff]);
    f.proto = if r.chance(7, 8) { 6 } else { *r.pick(&[17u8, 1, 0, 41]) };
    f.src4 = pick4(r);
    f.dst4 = pick4(r);
    f.src6 = pick6(r);
    f.dst6 = pick6(r);
    f.ip_fill = *r.pick(&[1u8, 0, 0x44, 6]);
    if r.chance(1, 2) {
        f.misc = Misc::random(r);
    }
    f.sp = pick_port(r);
    f.dp = pick_port(r);
    f.seq = r.next() as u32;
    f.ack = if r.chance(1, 2) { 0 } else { r.next() as u32 };
    f.flags = *r.pick(&[0x02u8, 0x02, 0x02, 0x12, 0x10, 0x18, 0x11, 0x04, 0x03, 0x00, 0x06, 0x05, 0xc2, 0x20]);
    f.doff = match r.below(8) {
        0..=3 => 5,
        4 => 6,
        5 => 8,
        6 => 15,
        _ => r.below(16) as u8,
    };
    let ol = (f.doff as usize * 4).saturating_sub(20);
    f.tcp_opts = match r.below(3) {
        0 => vec![1u8; ol],
        1 => {
            let mut o = vec![2, 4, 5, 0xb4, 1, 3, 3, 7, 4, 2, 8, 10, 0, 0, 0, 1, 0, 0, 0, 0];
            o.resize(ol, 0);
            o
        }
        _ => r.bytes(ol),
    };
    if r.chance(1, 10) {
        let keep = r.below(ol as u64 + 1) as usize;
        f.tcp_opts.truncate(keep);
    }
    f.payload = match r.below(7) {
        0 | 1 => vec![],
        2 | 3 => TLS_PARTIAL.to_vec(),
        4 => HTTP_REQ.to_vec(),
        5 => {
            let mut p = TLS_PARTIAL.to_vec();
            let k = r.below(9) as usize;
            p[k] ^= 1 << r.below(8);
            p
        }
        _ => {
            let n = r.below(12) as usize;
            r.bytes(n)
        }
    };
    if r.chance(1, 6) {
        let full = f.build().len();
        f.cut = Some(match r.below(3) {
            0 => *r.pick(&[0usize, 1, 3, 4, 13, 14, 15, 19, 20, 23, 24, 33, 34, 37, 38, 39, 40, 43, 44, 53, 54, 57, 58, 59, 60, 63, 64]),
            _ => r.below(full as u64 + 1) as usize,
        });
    }
    f
}

// ------------------------------------------------------------------------------------------------
// observation of what the real analyzers report for one frame

pub fn ep_str(s: &IpAddr, sp: u16, d: &IpAddr, dp: u16) -> String {
    match (s, d) {
        (IpAddr::V4(a), IpAddr::V4(b)) => format!("4:{}:{}:{}:{}", hex(&a.octets()), hex(&b.octets()), sp, dp),
        (IpAddr::V6(a), IpAddr::V6(b)) => format!("6:{}:{}:{}:{}", hex(&a.octets()), hex(&b.octets()), sp, dp),
        _ => "mixed".into(),
    }
}

fn obs_tcp(frame: &[u8]) -> String {
    use huginn_net_tcp::packet_parser::{parse_packet, IpPacket};
    let mut cache = ttl_cache::TtlCache::new(16);
    let res = match parse_packet(frame) {
        IpPacket::Ipv4(ip) => huginn_net_tcp::process_ipv4_packet(&ip, &mut cache, None),
        IpPacket::Ipv6(ip) => huginn_net_tcp::process_ipv6_packet(&ip, &mut cache, None),
        IpPacket::None => return "-".into(),
    };
    match res {
        Ok(r) => {
            let mut eps: Vec<String> = vec![];
            if let Some(x) = &r.syn {
                eps.push(ep_str(&x.source.ip, x.source.port, &x.destination.ip, x.destination.port));
            }
            if let Some(x) = &r.syn_ack {
                eps.push(ep_str(&x.source.ip, x.source.port, &x.destination.ip, x.destination.port));
            }
            if let Some(x) = &r.mtu {
                eps.push(ep_str(&x.source.ip, x.source.port, &x.destination.ip, x.destination.port));
            }
            eps.dedup();
            match eps.len() {
                0 => "empty".into(),
                1 => eps.remove(0),
                _ => format!("INCONSISTENT[{}]", eps.join(",")),
            }
        }
        Err(_) => "-".into(),
    }
}

fn obs_http(frame: &[u8]) -> String {
    use huginn_net_http::packet_parser::{parse_packet, IpPacket};
    let mut flows: ttl_cache::TtlCache<huginn_net_http::http_process::FlowKey, huginn_net_http::http_process::TcpFlow> =
        ttl_cache::TtlCache::new(16);
    let procs = huginn_net_http::http_process::HttpProcessors::new();
    let res = match parse_packet(frame) {
        IpPacket::Ipv4(ip) => huginn_net_http::process_ipv4_packet(&ip, &mut flows, &procs, None),
        IpPacket::Ipv6(ip) => huginn_net_http::process_ipv6_packet(&ip, &mut flows, &procs, None),
        IpPacket::None => return "-".into(),
    };
    if res.is_err() {
        return "-".into();
    }
    let keys: Vec<String> = flows.iter().map(|(k, _)| ep_str(&k.0, k.2, &k.1, k.3)).collect();
    match keys.len() {
        0 => "-".into(),
        1 => keys[0].clone(),
        _ => "MANYFLOWS".into(),
    }
}

fn obs_tls(frame: &[u8]) -> String {
    use huginn_net_tls::packet_parser::{parse_packet, IpPacket};
    let mut flows: ttl_cache::TtlCache<huginn_net_tls::FlowKey, huginn_net_tls::TlsClientHelloReader> =
        ttl_cache::TtlCache::new(16);
    // a complete first record makes the reader parse (and possibly drop the flow): not an observation point
    let tcp_payload: Option<Vec<u8>> = match parse_packet(frame) {
        IpPacket::Ipv4(ip) => pnet::packet::tcp::TcpPacket::new(ip.payload()).map(|t| t.payload().to_vec()),
        IpPacket::Ipv6(ip) => pnet::packet::tcp::TcpPacket::new(ip.payload()).map(|t| t.payload().to_vec()),
        IpPacket::None => None,
    };
    let res = match parse_packet(frame) {
        IpPacket::Ipv4(ip) => huginn_net_tls::process_ipv4_packet(&ip, &mut flows),
        IpPacket::Ipv6(ip) => huginn_net_tls::process_ipv6_packet(&ip, &mut flows),
        IpPacket::None => return "-".into(),
    };
    match res {
        Ok(Some(out)) => ep_str(&out.source.ip, out.source.port, &out.destination.ip, out.destination.port),
        Ok(None) => {
            let keys: Vec<String> = flows.iter().map(|(k, _)| ep_str(&k.0, k.2, &k.1, k.3)).collect();
            match keys.len() {
                0 => {
                    if let Some(p) = tcp_payload {
                        if p.len() >= 5 && huginn_net_tls::tls_process::is_tls_traffic(&p) {
                            let need = u16::from_be_bytes([p[3], p[4]]) as usize + 5;
                            if p.len() >= need {
                                return "?".into();
                            }
                        }
                    }
                    "-".into()
                }
                1 => keys[0].clone(),
                _ => "MANYFLOWS".into(),
            }
        }
        Err(_) => "-".into(),
    }
}

fn apply_all(c: &UCfg, frame: &[u8]) -> String {
    let t = huginn_net_tcp::raw_filter::apply(frame, &build_cfg!(huginn_net_tcp, c));
    let h = huginn_net_http::raw_filter::apply(frame, &build_cfg!(huginn_net_http, c));
    let l = huginn_net_tls::raw_filter::apply(frame, &build_cfg!(huginn_net_tls, c));
    if t == h && h == l {
        (t as u8).to_string()
    } else {
        format!("DIVERGE(tcp={t},http={h},tls={l})")
    }
}

fn emit_frame(ctx: &mut Ctx, c: &UCfg, frame: &[u8]) {
    let fr = frame.to_vec();
    let c2 = c.clone();
    let out = crate::wr::guarded(move || {
        format!("ap={} tcp={} http={} tls={}", apply_all(&c2, &fr), obs_tcp(&fr), obs_http(&fr), obs_tls(&fr))
    });
    let mut l = Line::op("C15.frame");
    w_cfg(&mut l, c);
    l.bytes(frame);
    ctx.emit(l.finish(&out));
}

// ------------------------------------------------------------------------------------------------
// filters aimed at a frame / a trace: every extracted field can decide

/// the endpoint candidates a filter should discriminate on: what the analyzer decode and the quick
/// decode could each come up with (ports at offset 20 and at ihl*4, both framings)
fn interesting(frame: &[u8]) -> (Vec<u32>, Vec<u128>, Vec<u16>) {
    let mut a4 = vec![];
    let mut a6 = vec![];
    let mut ports = vec![];
    for off in [0usize, 4, 14] {
        if frame.len() >= off + 20 {
            let ip = &frame[off..];
            a4.push(u32::from_be_bytes([ip[12], ip[13], ip[14], ip[15]]));
            a4.push(u32::from_be_bytes([ip[16], ip[17], ip[18], ip[19]]));
            let ihl = (ip[0] & 15) as usize * 4;
            for o in [20usize, ihl, 40] {
                if ip.len() >= o + 4 {
                    ports.push(u16::from_be_bytes([ip[o], ip[o + 1]]));
                    ports.push(u16::from_be_bytes([ip[o + 2], ip[o + 3]]));
                }
            }
        }
        if frame.len() >= off + 40 {
            let ip = &frame[off..];
            let mut s = [0u8; 16];
            s.copy_from_slice(&ip[8..24]);
            a6.push(u128::from_be_bytes(s));
            s.copy_from_slice(&ip[24..40]);
            a6.push(u128::from_be_bytes(s));
        }
    }
    (a4, a6, ports)
}

pub fn gen_cfg_for(r: &mut Rng, frames: &[&[u8]]) -> UCfg {
    let mut a4 = A4.to_vec();
    let mut a6 = A6.to_vec();
    let mut ports = PORTS.to_vec();
    for f in frames {
        let (x, y, z) = interesting(f);
        a4.extend(x);
        a6.extend(y);
        ports.extend(z);
    }
    let sides = |r: &mut Rng| match r.below(3) {
        0 => (true, true),
        1 => (true, false),
        _ => (false, true),
    };
    let few = |r: &mut Rng| match r.below(4) {
        0 => 0usize,
        1 | 2 => 1,
        _ => 2,
    };
    let kind = r.below(10);
    let port = if kind < 6 || r.chance(1, 3) {
        let mut p = UPort::default();
        match r.below(5) {
            0 => p.dp.push(*r.pick(&ports)),
            1 => p.sp.push(*r.pick(&ports)),
            2 => {
                p.sp.push(*r.pick(&ports));
                p.dp.push(*r.pick(&ports));
            }
            3 => {
                let a = *r.pick(&ports);
                p.dr.push((a, a.saturating_add(1 + r.below(3) as u16)));
            }
            _ => {
                for _ in 0..few(r) {
                    p.sp.push(*r.pick(&ports));
                }
                for _ in 0..few(r) {
                    p.dp.push(*r.pick(&ports));
                }
                if r.chance(1, 2) {
                    let a = *r.pick(&ports);
                    p.sr.push((a, a.saturating_add(r.below(3) as u16)));
                }
            }
        }
        p.any = r.chance(1, 5);
        Some(p)
    } else {
        None
    };
    let ip = if (6..8).contains(&kind) || r.chance(1, 5) {
        let (cs, cd) = sides(r);
        let mut v4 = vec![];
        let mut v6 = vec![];
        for _ in 0..1 + few(r) {
            if r.chance(2, 3) {
                v4.push(*r.pick(&a4));
            } else {
                v6.push(*r.pick(&a6));
            }
        }
        Some(UIp { v4, v6, cs, cd })
    } else {
        None
    };
    let sub = if kind >= 8 || r.chance(1, 8) {
        let (cs, cd) = sides(r);
        let mut v4 = vec![];
        let mut v6 = vec![];
        for _ in 0..1 + few(r) {
            if r.chance(2, 3) {
                v4.push((*r.pick(&a4), *r.pick(&[32u8, 24, 16, 31, 8, 0])));
            } else {
                v6.push((*r.pick(&a6), *r.pick(&[128u8, 64, 127, 32, 0])));
            }
        }
        Some(USub { v4, v6, cs, cd })
    } else {
        None
    };
    UCfg { deny: r.chance(1, 3), port, ip, sub }
}

// ------------------------------------------------------------------------------------------------
// end-to-end: analyze_pcap with and without the filter

struct Scratch {
    dir: std::path::PathBuf,
}
impl Scratch {
    fn new() -> Scratch {
        use std::sync::atomic::{AtomicU64, Ordering};
        static N: AtomicU64 = AtomicU64::new(0);
        let base = if std::path::Path::new("/dev/shm").is_dir() { std::path::PathBuf::from("/dev/shm") } else { std::env::temp_dir() };
        let dir = base.join(format!("hvh-c15-{}-{}", std::process::id(), N.fetch_add(1, Ordering::SeqCst)));
        std::fs::create_dir_all(&dir).unwrap();
        Scratch { dir }
    }
    fn pcap(&self, name: &str, frames: &[Vec<u8>]) -> String {
        let mut b: Vec<u8> = Vec::new();
        b.extend(0xa1b2c3d4u32.to_le_bytes());
        b.extend(2u16.to_le_bytes());
        b.extend(4u16.to_le_bytes());
        b.extend(0i32.to_le_bytes());
        b.extend(0u32.to_le_bytes());
        b.extend(262144u32.to_le_bytes());
        b.extend(1u32.to_le_bytes());
        for (i, f) in frames.iter().enumerate() {
            b.extend(1_700_000_000u32.to_le_bytes());
            b.extend((i as u32).to_le_bytes());
            b.extend((f.len() as u32).to_le_bytes());
            b.extend((f.len() as u32).to_le_bytes());
            b.extend(f);
        }
        let p = self.dir.join(name);
        std::fs::write(&p, b).unwrap();
        p.to_string_lossy().into_owned()
    }
}
impl Drop for Scratch {
    fn drop(&mut self) {
        let _ = std::fs::remove_dir_all(&self.dir);
    }
}

fn fnv(s: &str) -> u64 {
    let mut h: u64 = 0xcbf29ce484222325;
    for b in s.bytes() {
        h ^= b as u64;
        h = h.wrapping_mul(0x100000001b3);
    }
    h
}
fn item(kind: &str, s: &IpAddr, sp: u16, d: &IpAddr, dp: u16, shown: String) -> String {
    format!("{kind}:{}#{:08x}", ep_str(s, sp, d, dp), fnv(&shown) as u32)
}

#[derive(Clone, Copy, PartialEq, Eq, Debug)]
pub enum An {
    Tcp,
    Http,
    Tls,
    Unified,
}
impl An {
    fn tok(self) -> &'static str {
        match self {
            An::Tcp => "tcp",
            An::Http => "http",
            An::Tls => "tls",
            An::Unified => "uni",
        }
    }
}

fn tcp_items(r: &huginn_net_tcp::TcpAnalysisResult, out: &mut Vec<String>) {
    if let Some(x) = &r.syn {
        out.push(item("syn", &x.source.ip, x.source.port, &x.destination.ip, x.destination.port, x.to_string()));
    }
    if let Some(x) = &r.syn_ack {
        out.push(item("synack", &x.source.ip, x.source.port, &x.destination.ip, x.destination.port, x.to_string()));
    }
    if let Some(x) = &r.mtu {
        out.push(item("mtu", &x.source.ip, x.source.port, &x.destination.ip, x.destination.port, x.to_string()));
    }
    if let Some(x) = &r.client_uptime {
        out.push(item("upc", &x.source.ip, x.source.port, &x.destination.ip, x.destination.port, x.to_string()));
    }
    if let Some(x) = &r.server_uptime {
        out.push(item("ups", &x.source.ip, x.source.port, &x.destination.ip, x.destination.port, x.to_string()));
    }
}

/// run one analyzer (sequential mode) over a pcap file; the non-empty results in order
fn run_analyzer(an: An, path: &str, c: Option<&UCfg>) -> Vec<String> {
    let mut out = vec![];
    match an {
        An::Tcp => {
            let mut a = huginn_net_tcp::HuginnNetTcp::new(None, 64).unwrap();
            if let Some(c) = c {
                a = a.with_filter(build_cfg!(huginn_net_tcp, c));
            }
            let (tx, rx) = std::sync::mpsc::channel();
            let _ = a.analyze_pcap(path, tx, None);
            for r in rx.try_iter() {
                tcp_items(&r, &mut out);
            }
        }
        An::Http => {
            let mut a = huginn_net_http::HuginnNetHttp::new(None, 64).unwrap();
            if let Some(c) = c {
                a = a.with_filter(build_cfg!(huginn_net_http, c));
            }
            let (tx, rx) = std::sync::mpsc::channel();
            let _ = a.analyze_pcap(path, tx, None);
            for r in rx.try_iter() {
                if let Some(x) = &r.http_request {
                    out.push(item("req", &x.source.ip, x.source.port, &x.destination.ip, x.destination.port, x.to_string()));
                }
                if let Some(x) = &r.http_response {
                    out.push(item("resp", &x.source.ip, x.source.port, &x.destination.ip, x.destination.port, x.to_string()));
                }
            }
        }
        An::Tls => {
            let mut a = huginn_net_tls::HuginnNetTls::new(64);
            if let Some(c) = c {
                a = a.with_filter(build_cfg!(huginn_net_tls, c));
            }
            let (tx, rx) = std::sync::mpsc::channel();
            let _ = a.analyze_pcap(path, tx, None);
            for x in rx.try_iter() {
                out.push(item("tls", &x.source.ip, x.source.port, &x.destination.ip, x.destination.port, x.to_string()));
            }
        }
        An::Unified => {
            let cfg = huginn_net::AnalysisConfig { http_enabled: true, tcp_enabled: true, tls_enabled: true, matcher_enabled: false };
            let mut a = huginn_net::HuginnNet::new(None, 64, Some(cfg)).unwrap();
            if let Some(c) = c {
                a = a.with_filter(build_cfg!(huginn_net_tcp, c));
            }
            let (tx, rx) = std::sync::mpsc::channel();
            let _ = a.analyze_pcap(path, tx, None);
            for r in rx.try_iter() {
                if let Some(x) = &r.tcp_syn {
                    out.push(item("syn", &x.source.ip, x.source.port, &x.destination.ip, x.destination.port, x.to_string()));
                }
                if let Some(x) = &r.tcp_syn_ack {
                    out.push(item("synack", &x.source.ip, x.source.port, &x.destination.ip, x.destination.port, x.to_string()));
                }
                if let Some(x) = &r.tcp_mtu {
                    out.push(item("mtu", &x.source.ip, x.source.port, &x.destination.ip, x.destination.port, x.to_string()));
                }
                if let Some(x) = &r.tcp_client_uptime {
                    out.push(item("upc", &x.source.ip, x.source.port, &x.destination.ip, x.destination.port, x.to_string()));
                }
                if let Some(x) = &r.tcp_server_uptime {
                    out.push(item("ups", &x.source.ip, x.source.port, &x.destination.ip, x.destination.port, x.to_string()));
                }
                if let Some(x) = &r.http_request {
                    out.push(item("req", &x.source.ip, x.source.port, &x.destination.ip, x.destination.port, x.to_string()));
                }
                if let Some(x) = &r.http_response {
                    out.push(item("resp", &x.source.ip, x.source.port, &x.destination.ip, x.destination.port, x.to_string()));
                }
                if let Some(x) = &r.tls_client {
                    out.push(item("tls", &x.source.ip, x.source.port, &x.destination.ip, x.destination.port, x.to_string()));
                }
            }
        }
    }
    out
}

/// The endpoints of a frame as every analyzer's `process.rs` computes them:
/// `parse_packet` (the crate's own) → protocol TCP → `TcpPacket::new(ip.payload())` → addresses and ports.
fn own_endpoints(frame: &[u8]) -> Option<(IpAddr, IpAddr, u16, u16)> {
    use huginn_net_tcp::packet_parser::{parse_packet, IpPacket};
    use pnet::packet::ip::IpNextHeaderProtocols;
    use pnet::packet::tcp::TcpPacket;
    match parse_packet(frame) {
        IpPacket::Ipv4(ip) => {
            if ip.get_next_level_protocol() != IpNextHeaderProtocols::Tcp {
                return None;
            }
            let t = TcpPacket::new(ip.payload())?;
            Some((IpAddr::V4(ip.get_source()), IpAddr::V4(ip.get_destination()), t.get_source(), t.get_destination()))
        }
        IpPacket::Ipv6(ip) => {
            if ip.get_next_header() != IpNextHeaderProtocols::Tcp {
                return None;
            }
            let t = TcpPacket::new(ip.payload())?;
            Some((IpAddr::V6(ip.get_source()), IpAddr::V6(ip.get_destination()), t.get_source(), t.get_destination()))
        }
        IpPacket::None => None,
    }
}

fn emit_run(ctx: &mut Ctx, an: An, c: &UCfg, frames: &[Vec<u8>]) {
    let fr = frames.to_vec();
    let c2 = c.clone();
    let out = crate::wr::guarded(move || {
        let sc = Scratch::new();
        let cfg = build_cfg!(huginn_net_tcp, &c2);
        let mask: Vec<bool> = fr.iter().map(|f| huginn_net_tcp::raw_filter::apply(f, &cfg)).collect();
        let adm: Vec<bool> = fr
            .iter()
            .map(|f| match own_endpoints(f) {
                Some((s, d, sp, dp)) => cfg.should_process(&s, &d, sp, dp),
                None => true,
            })
            .collect();
        let sub = |m: &Vec<bool>| -> Vec<Vec<u8>> { fr.iter().zip(m).filter(|(_, k)| **k).map(|(f, _)| f.clone()).collect() };
        let p_all = sc.pcap("all.pcap", &fr);
        let p_u = sc.pcap("u.pcap", &sub(&mask));
        let p_s = sc.pcap("s.pcap", &sub(&adm));
        let r = run_analyzer(an, &p_all, Some(&c2));
        let u = run_analyzer(an, &p_u, None);
        let s = run_analyzer(an, &p_s, None);
        let bits = |m: &Vec<bool>| -> String { m.iter().map(|b| if *b { '1' } else { '0' }).collect() };
        let j = |v: &Vec<String>| if v.is_empty() { "-".to_string() } else { v.join(",") };
        format!("m={} a={} r={} u={} s={}", bits(&mask), bits(&adm), j(&r), j(&u), j(&s))
    });
    let mut l = Line::op("C15.run");
    l.tok(an.tok());
    w_cfg(&mut l, c);
    l.list(frames, |l, f| {
        l.bytes(f);
    });
    ctx.emit(l.finish(&out));
}

/// A connection script: the frames of one flow in order, all with the same framing / IP quirks.
fn flow_script(r: &mut Rng, kind: u64) -> Vec<Vec<u8>> {
    let framing = match r.below(6) {
        0..=2 => Framing::Eth,
        3 | 4 => Framing::Raw,
        _ => Framing::Null,
    };
    let mut b = FrameSpec::basic(framing, r.chance(1, 4));
    b.null_hdr = *r.pick(&[[0x1e, 0, 0, 0], [0x1e, 0, 0, 0], [0x1e, 0, 1, 0], [0x02, 0, 0, 0]]);
    b.ihl = *r.pick(&[5u8, 5, 5, 5, 5, 5, 6, 15, 3, 0, 4]);
    b.ip_fill = *r.pick(&[1u8, 0]);
    b.src4 = *r.pick(&A4[..3]);
    b.dst4 = *r.pick(&A4[..3]);
    b.src6 = *r.pick(&A6[..2]);
    b.dst6 = *r.pick(&A6[..2]);
    b.sp = *r.pick(&[50000u16, 1234, 40000]);
    b.dp = *r.pick(&[80u16, 443, 8080]);
    b.seq = 1000;
    let mut out = vec![];
    // SYN with the usual options
    let mut syn = b.clone();
    syn.flags = 0x02;
    syn.doff = 10;
    syn.tcp_opts = vec![2, 4, 5, 0xb4, 4, 2, 8, 10, 0, 0, 0, 9, 0, 0, 0, 0, 1, 3, 3, 7];
    out.push(syn.build());
    let mut sa = b.reversed();
    sa.flags = 0x12;
    sa.seq = 5000;
    sa.ack = 1001;
    sa.doff = 6;
    sa.tcp_opts = vec![2, 4, 5, 0xb4];
    out.push(sa.build());
    let mut ack = b.clone();
    ack.flags = 0x10;
    ack.seq = 1001;
    ack.ack = 5001;
    out.push(ack.build());
    match kind {
        0 => {
            // HTTP request (one or two segments) and response
            let cut = if r.chance(1, 2) { HTTP_REQ.len() } else { 1 + r.below(HTTP_REQ.len() as u64 - 1) as usize };
            let mut d1 = b.clone();
            d1.flags = 0x18;
            d1.seq = 1001;
            d1.ack = 5001;
            d1.payload = HTTP_REQ[..cut].to_vec();
            out.push(d1.build());
            if cut < HTTP_REQ.len() {
                let mut d2 = d1.clone();
                d2.seq = 1001 + cut as u32;
                d2.payload = HTTP_REQ[cut..].to_vec();
                out.push(d2.build());
            }
            let mut resp = b.reversed();
            resp.flags = 0x18;
            resp.seq = 5001;
            resp.ack = 1001 + HTTP_REQ.len() as u32;
            resp.payload = HTTP_RESP.to_vec();
            out.push(resp.build());
        }
        1 => {
            // TLS ClientHello in one or two segments
            let ch = client_hello();
            let cut = if r.chance(1, 2) { ch.len() } else { 6 + r.below(ch.len() as u64 - 6) as usize };
            let mut d1 = b.clone();
            d1.flags = 0x18;
            d1.seq = 1001;
            d1.ack = 5001;
            d1.payload = ch[..cut].to_vec();
            out.push(d1.build());
            if cut < ch.len() {
                let mut d2 = d1.clone();
                d2.seq = 1001 + cut as u32;
                d2.payload = ch[cut..].to_vec();
                out.push(d2.build());
            }
        }
        _ => {}
    }
    out
}

fn gen_trace(r: &mut Rng, an: An) -> Vec<Vec<u8>> {
    let nflows = 1 + r.below(3) as usize;
    let mut scripts: Vec<std::collections::VecDeque<Vec<u8>>> = (0..nflows)
        .map(|_| {
            let k = match an {
                An::Http if r.chance(3, 4) => 0,
                An::Tls if r.chance(3, 4) => 1,
                _ => r.below(3),
            };
            flow_script(r, k).into()
        })
        .collect();
    let mut tr = vec![];
    while scripts.iter().any(|s| !s.is_empty()) {
        let k = r.below(scripts.len() as u64) as usize;
        if let Some(f) = scripts[k].pop_front() {
            tr.push(f);
        }
        if r.chance(1, 10) {
            tr.push(gen_frame(r).build());
        }
    }
    tr
}

// ------------------------------------------------------------------------------------------------

pub fn witness_ihl3() -> (UCfg, Vec<u8>) {
    // DESIGN §8 #24: Ethernet IPv4, IHL = 3, SYN 1234 -> 80; filter "destination port 80"
    let mut f = FrameSpec::basic(Framing::Eth, false);
    f.ihl = 3;
    f.sp = 1234;
    f.dp = 80;
    let c = UCfg { deny: false, port: Some(UPort { dp: vec![80], ..Default::default() }), ip: None, sub: None };
    (c, f.build())
}

pub fn run(ctx: &mut Ctx) {
    let mut r = ctx.rng.fork();
    huginn_net_tcp::uptime::VERIF_CLOCK_MS.store(1_700_000_000_000, std::sync::atomic::Ordering::SeqCst);

    // 1. corpus / witnesses of the known findings, always first
    let (c, f) = witness_ihl3();
    emit_frame(ctx, &c, &f);
    emit_run(ctx, An::Tcp, &c, &[f.clone()]);
    {
        // NULL/loopback: the parser wants `1e 00`, the filter the native-endian family
        let mut n = FrameSpec::basic(Framing::Null, false);
        n.null_hdr = [0x1e, 0, 0, 0];
        n.sp = 1234;
        n.dp = 80;
        let deny80 = UCfg { deny: true, port: Some(UPort { dp: vec![80], ..Default::default() }), ip: None, sub: None };
        emit_frame(ctx, &deny80, &n.build());
        emit_run(ctx, An::Tcp, &deny80, &[n.build()]);
        n.null_hdr = [0x1e, 0, 1, 0];
        emit_frame(ctx, &deny80, &n.build());
        n.null_hdr = [0x02, 0, 0, 0];
        emit_frame(ctx, &deny80, &n.build());
        let mut n6 = FrameSpec::basic(Framing::Null, true);
        n6.dp = 80;
        emit_frame(ctx, &deny80, &n6.build()); // 1e 00 00 00 + IPv6: family 30, agrees
        n6.null_hdr = [0x1e, 0, 1, 0];
        emit_frame(ctx, &deny80, &n6.build());
    }

    // 2. exhaustive: framing x version x IHL 0..15 x {full, every truncation boundary} x
    //    filters on each extracted field (allow / deny)
    for framing in [Framing::Eth, Framing::Raw, Framing::Null] {
        for v6 in [false, true] {
            for ihl in 0..16u8 {
                if v6 && ihl != 5 {
                    continue;
                }
                let mut f = FrameSpec::basic(framing, v6);
                f.ihl = ihl;
                f.sp = 1234;
                f.dp = 80;
                f.payload = TLS_PARTIAL.to_vec();
                let full = f.build();
                let mut cuts: Vec<usize> = vec![full.len()];
                if ctx.tier == crate::Tier::Thorough || ihl % 4 == 1 || ihl == 0 {
                    cuts.extend(0..full.len());
                }
                for cut in cuts {
                    let fr = &full[..cut];
                    for k in 0..6 {
                        let c = match k {
                            0 => UCfg { deny: false, port: Some(UPort { dp: vec![80], ..Default::default() }), ip: None, sub: None },
                            1 => UCfg { deny: true, port: Some(UPort { sp: vec![1234], ..Default::default() }), ip: None, sub: None },
                            2 => UCfg { deny: false, port: None, ip: Some(UIp { v4: vec![A4[0]], v6: vec![A6[0]], cs: true, cd: false }), sub: None },
                            3 => UCfg { deny: true, port: None, ip: Some(UIp { v4: vec![A4[1]], v6: vec![A6[1]], cs: false, cd: true }), sub: None },
                            4 => UCfg { deny: false, port: None, ip: None, sub: Some(USub { v4: vec![(0x0a00_0000, 24)], v6: vec![(A6[0], 64)], cs: true, cd: true }) },
                            _ => UCfg { deny: true, port: None, ip: None, sub: None },
                        };
                        if cut < full.len() && ctx.tier == crate::Tier::Quick && k % 2 == 1 {
                            continue;
                        }
                        emit_frame(ctx, &c, fr);
                    }
                }
            }
        }
    }

    // 3. generated frames x filters aimed at the frame
    let n = ctx.n(60_000, 400_000);
    for _ in 0..n {
        let f = gen_frame(&mut r).build();
        let c = gen_cfg_for(&mut r, &[&f]);
        emit_frame(ctx, &c, &f);
    }
    // single-bit corruption of well-formed frames
    let n = ctx.n(10_000, 80_000);
    for _ in 0..n {
        let mut s = FrameSpec::basic(*r.pick(&[Framing::Eth, Framing::Raw, Framing::Null]), r.chance(1, 3));
        s.payload = TLS_PARTIAL.to_vec();
        let mut f = s.build();
        let hdr = f.len().min(70);
        let k = r.below(hdr as u64) as usize;
        f[k] ^= 1 << r.below(8);
        let c = gen_cfg_for(&mut r, &[&f]);
        emit_frame(ctx, &c, &f);
    }

    // 4. end-to-end traces through analyze_pcap (sequential mode), four analyzers
    let n = ctx.n(3_000, 16_000);
    for i in 0..n {
        let an = [An::Tcp, An::Http, An::Tls, An::Unified][i % 4];
        let tr = gen_trace(&mut r, an);
        let refs: Vec<&[u8]> = tr.iter().map(|f| f.as_slice()).collect();
        // prefer filters that split the trace (some frames through, some not)
        let mut c = gen_cfg_for(&mut r, &refs);
        for _ in 0..8 {
            let cfg = build_cfg!(huginn_net_tcp, &c);
            let through = tr.iter().filter(|f| huginn_net_tcp::raw_filter::apply(f, &cfg)).count();
            if (through != 0 && through != tr.len()) || r.chance(1, 8) {
                break;
            }
            c = gen_cfg_for(&mut r, &refs);
        }
        emit_run(ctx, an, &c, &tr);
    }
    huginn_net_tcp::uptime::VERIF_CLOCK_MS.store(u64::MAX, std::sync::atomic::Ordering::SeqCst);
    // parallel mode (real worker pools behind the analyzers' own API), filtered, against sequential filtered
    crate::registry::c10::run_pcap_filtered(ctx);
}
