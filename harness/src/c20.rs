//! C20 — unified analyzer = union of the protocol analyzers; configuration only masks.
//!
//! For every generated trace and every valid combination of the tcp/http/tls/matcher switches
//! (with and without the bundled database) the unified analyzer and the three standalone packet
//! processors (TCP and HTTP on their own flow tables, stateless TLS) are run on the same frames.
//! Op `C20.pkt`: the standalone results are the inputs, the unified result is the implementation
//! output, the model is `Unified.union` (+ `assemble` for the matcher switch).
//! Op `C20.mask`: the same packet under matcher on vs off.
use crate::registry::c07::{endpoints, http_conn, interleave, tcp_conn, Conn};
use crate::canon::{dig, fnv};
use crate::net::{self, Seg, ACK, FIN, PSH, SYN};
use crate::rng::Rng;
use crate::wr::Line;
use crate::Ctx;
use huginn_net_db::Database;
use huginn_net_tcp::packet_parser::{parse_packet, IpPacket};
use ttl_cache::TtlCache;

fn set_clock(ms: u64) {
    huginn_net_tcp::uptime::VERIF_CLOCK_MS.store(ms, std::sync::atomic::Ordering::SeqCst);
}

/// (raw signature part, label/quality part) of an optional output; "-" when absent.
fn parts<T>(o: &Option<T>, sig: impl Fn(&T) -> String, q: impl Fn(&T) -> String) -> (String, String) {
    match o {
        None => ("-".into(), "-".into()),
        Some(x) => {
            let s = sig(x);
            let qq = q(x);
            (dig("s", &s), format!("{}:{:016x}", if qq.contains("Disabled") { "D" } else if qq.contains("NotMatched") { "N" } else if qq.contains("Matched") { "M" } else { "x" }, fnv(&qq)))
        }
    }
}

struct Fields {
    sig: Vec<String>, // 8 raw-signature digests (incl. endpoints)
    q: Vec<String>,   // 8 label/quality digests
}

fn tcp_fields(syn: &Option<huginn_net_tcp::SynTCPOutput>, sa: &Option<huginn_net_tcp::SynAckTCPOutput>, mtu: &Option<huginn_net_tcp::MTUOutput>, cu: &Option<huginn_net_tcp::UptimeOutput>, su: &Option<huginn_net_tcp::UptimeOutput>) -> (Vec<String>, Vec<String>) {
    let a = parts(syn, |x| format!("{:?}{:?}{:?}", x.source, x.destination, x.sig), |x| format!("{:?}", x.os_matched));
    let b = parts(sa, |x| format!("{:?}{:?}{:?}", x.source, x.destination, x.sig), |x| format!("{:?}", x.os_matched));
    let c = parts(mtu, |x| format!("{:?}{:?}{}", x.source, x.destination, x.mtu), |x| format!("{:?}", x.link));
    let d = parts(cu, |x| format!("{x:?}"), |_| "x".into());
    let e = parts(su, |x| format!("{x:?}"), |_| "x".into());
    (vec![a.0, b.0, c.0, d.0, e.0], vec![a.1, b.1, c.1, d.1, e.1])
}

fn http_fields(req: &Option<huginn_net_http::HttpRequestOutput>, resp: &Option<huginn_net_http::HttpResponseOutput>) -> (Vec<String>, Vec<String>) {
    let a = parts(req, |x| format!("{:?}{:?}{:?}{:?}", x.source, x.destination, x.lang, x.sig), |x| format!("{:?}{:?}", x.browser_matched, x.diagnosis));
    let b = parts(resp, |x| format!("{:?}{:?}{:?}", x.source, x.destination, x.sig), |x| format!("{:?}{:?}", x.web_server_matched, x.diagnosis));
    (vec![a.0, b.0], vec![a.1, b.1])
}

fn unified_fields(o: &huginn_net::output::FingerprintResult) -> Fields {
    let (mut s, mut q) = tcp_fields(&o.tcp_syn, &o.tcp_syn_ack, &o.tcp_mtu, &o.tcp_client_uptime, &o.tcp_server_uptime);
    let (hs, hq) = http_fields(&o.http_request, &o.http_response);
    s.extend(hs);
    q.extend(hq);
    let t = parts(&o.tls_client, |x| format!("{:?}", x.sig), |_| "x".into());
    s.push(t.0);
    q.push(t.1);
    Fields { sig: s, q }
}

#[derive(Clone, Copy)]
struct Cfg {
    tcp: bool,
    http: bool,
    tls: bool,
    matcher: bool,
}

/// frames of a trace: bytes + wall time
fn build_trace(r: &mut Rng) -> Vec<(Vec<u8>, u64, &'static str)> {
    let v6 = r.chance(1, 4);
    let n = r.range(2, 4) as usize;
    let eps = endpoints(r, n, v6);
    let conns: Vec<Conn> = eps
        .into_iter()
        .map(|e| match r.below(4) {
            3 => {
                // TCP Fast Open: the SYN itself carries the ClientHello (or the HTTP request); the TCP
                // analyzer reports a pure SYN for the same packet
                let (c, s) = e;
                let mut syn = Seg::new(c, s, SYN);
                syn.options = Seg::syn_options(1460, 7, Some(r.next() as u32));
                let tls = r.chance(1, 2);
                syn.payload = if tls { net::client_hello(r) } else { net::http1_request(r) };
                let mut sa = Seg::new(s, c, SYN | ACK);
                sa.options = Seg::syn_options(1400, 6, Some(r.next() as u32));
                Conn { client: c, server: s, segs: vec![syn, sa], kind: "tfo" }
            }
            0 => {
                // single-segment ClientHello connection
                let (c, s) = e;
                let mut syn = Seg::new(c, s, SYN);
                syn.options = Seg::syn_options(1460, 7, Some(r.next() as u32));
                let mut h = Seg::new(c, s, ACK | PSH);
                h.payload = net::client_hello(r);
                Conn { client: c, server: s, segs: vec![syn, h], kind: "tls1" }
            }
            1 => http_conn(r, e),
            _ => tcp_conn(r, e),
        })
        .collect();
    let order = interleave(r, &conns);
    let mut out: Vec<(Vec<u8>, u64, &'static str)> = vec![];
    for (c, i) in order {
        let s = &conns[c].segs[i];
        let mut f = net::eth_bytes(s);
        let mut kind = "ok";
        match r.below(14) {
            0 => {
                // invalid TCP flag combination: the TCP analyzer rejects, HTTP/TLS accept
                let mut s2 = s.clone();
                s2.flags = SYN | FIN;
                f = net::eth_bytes(&s2);
                kind = "badflags";
            }
            1 => {
                let cut = r.range(1, f.len() as u64 - 1) as usize;
                f.truncate(cut);
                kind = "truncated";
            }
            2 => {
                // not TCP
                let off = 14 + if v6 { 6 } else { 9 };
                f[off] = 17;
                kind = "udp";
            }
            3 => {
                f = net::ip_bytes(s); // raw IP framing
                kind = "rawip";
            }
            4 => {
                let mut s2 = s.clone();
                s2.flags = 0;
                f = net::eth_bytes(&s2);
                kind = "noflags";
            }
            _ => {}
        }
        out.push((f, s.wall_ms, kind));
    }
    out
}

struct Standalone {
    tcp: Result<(Vec<String>, Vec<String>), ()>,
    http: Result<(Vec<String>, Vec<String>), ()>,
    tls: Result<(String, String), ()>,
    parsed: bool,
}

fn run_standalone(trace: &[(Vec<u8>, u64, &'static str)], db: Option<&Database>, matcher: bool) -> Vec<Standalone> {
    let tm = db.filter(|_| matcher).map(huginn_net_tcp::SignatureMatcher::new);
    let hm = db.filter(|_| matcher).map(huginn_net_http::SignatureMatcher::new);
    let mut tcache: TtlCache<huginn_net_tcp::ConnectionKey, huginn_net_tcp::TcpTimestamp> = TtlCache::new(256);
    let mut hcache: TtlCache<huginn_net_http::http_process::FlowKey, huginn_net_http::http_process::TcpFlow> = TtlCache::new(256);
    let procs = huginn_net_http::http_process::HttpProcessors::new();
    let mut out = vec![];
    for (f, wall, _) in trace {
        set_clock(*wall);
        let st = match parse_packet(f) {
            IpPacket::Ipv4(ip) => Standalone {
                tcp: huginn_net_tcp::process_ipv4_packet(&ip, &mut tcache, tm.as_ref()).map(|o| tcp_fields(&o.syn, &o.syn_ack, &o.mtu, &o.client_uptime, &o.server_uptime)).map_err(|_| ()),
                http: huginn_net_http::process_ipv4_packet(&ip, &mut hcache, &procs, hm.as_ref()).map(|o| http_fields(&o.http_request, &o.http_response)).map_err(|_| ()),
                tls: huginn_net_tls::tls_process::process_tls_ipv4(&ip).map(|o| parts(&o.tls_client, |x| format!("{x:?}"), |_| "x".into())).map_err(|_| ()),
                parsed: true,
            },
            IpPacket::Ipv6(ip) => Standalone {
                tcp: huginn_net_tcp::process_ipv6_packet(&ip, &mut tcache, tm.as_ref()).map(|o| tcp_fields(&o.syn, &o.syn_ack, &o.mtu, &o.client_uptime, &o.server_uptime)).map_err(|_| ()),
                http: huginn_net_http::process_ipv6_packet(&ip, &mut hcache, &procs, hm.as_ref()).map(|o| http_fields(&o.http_request, &o.http_response)).map_err(|_| ()),
                tls: huginn_net_tls::tls_process::process_tls_ipv6(&ip).map(|o| parts(&o.tls_client, |x| format!("{x:?}"), |_| "x".into())).map_err(|_| ()),
                parsed: true,
            },
            IpPacket::None => Standalone { tcp: Err(()), http: Err(()), tls: Err(()), parsed: false },
        };
        out.push(st);
    }
    out
}

fn run_unified(trace: &[(Vec<u8>, u64, &'static str)], db: Option<&Database>, c: Cfg) -> Option<Vec<Fields>> {
    let cfg = huginn_net::AnalysisConfig { http_enabled: c.http, tcp_enabled: c.tcp, tls_enabled: c.tls, matcher_enabled: c.matcher };
    let mut a = huginn_net::HuginnNet::new(db, 256, Some(cfg)).ok()?;
    Some(
        trace
            .iter()
            .map(|(f, wall, _)| {
                set_clock(*wall);
                unified_fields(&a.analyze_tcp(f))
            })
            .collect(),
    )
}

fn w_res(l: &mut Line, r: &Result<(Vec<String>, Vec<String>), ()>, n: usize) {
    match r {
        Ok((s, q)) => {
            l.bool(true);
            for i in 0..n {
                l.tok(&s[i]).tok(&q[i]);
            }
        }
        Err(()) => {
            l.bool(false);
        }
    }
}

pub fn run(ctx: &mut Ctx) {
    let mut r = ctx.rng.fork();
    let db = Database::load_default().expect("bundled database");
    let ntr = ctx.n(30, 4000);
    for _ in 0..ntr {
        let trace = build_trace(&mut r);
        for with_db in [false, true] {
            let dbo = if with_db { Some(&db) } else { None };
            let std_on = run_standalone(&trace, dbo, true);
            let std_off = run_standalone(&trace, dbo, false);
            let mut by_cfg: Vec<(Cfg, Vec<Fields>)> = vec![];
            for bits in 0..16u32 {
                let c = Cfg { tcp: bits & 1 != 0, http: bits & 2 != 0, tls: bits & 4 != 0, matcher: bits & 8 != 0 };
                let Some(u) = run_unified(&trace, dbo, c) else {
                    // constructor refused: must be exactly "matcher on, tcp or http on, no database"
                    let expected_refusal = c.matcher && (c.tcp || c.http) && !with_db;
                    let mut l = Line::op("C20.new");
                    l.bool(c.tcp).bool(c.http).bool(c.tls).bool(c.matcher).bool(with_db);
                    ctx.emit(l.finish(if expected_refusal { "refused" } else { "refused-unexpectedly" }));
                    continue;
                };
                let sa = if c.matcher { &std_on } else { &std_off };
                for (i, (f, _, kind)) in trace.iter().enumerate() {
                    let mut l = Line::op("C20.pkt");
                    l.bool(c.tcp).bool(c.http).bool(c.tls).bool(c.matcher).bool(with_db);
                    l.tok(kind).usize(f.len());
                    l.bool(sa[i].parsed);
                    w_res(&mut l, &sa[i].tcp, 5);
                    w_res(&mut l, &sa[i].http, 2);
                    match &sa[i].tls {
                        Ok((s, q)) => l.bool(true).tok(s).tok(q),
                        Err(()) => l.bool(false),
                    };
                    let out: Vec<String> = (0..8).map(|k| format!("{}/{}", u[i].sig[k], u[i].q[k])).collect();
                    ctx.emit(l.finish(&out.join(",")));
                }
                by_cfg.push((c, u));
            }
            // matcher on vs off, same protocol switches
            for (c_on, u_on) in by_cfg.iter().filter(|(c, _)| c.matcher) {
                if let Some((_, u_off)) = by_cfg.iter().find(|(c, _)| !c.matcher && c.tcp == c_on.tcp && c.http == c_on.http && c.tls == c_on.tls) {
                    for i in 0..trace.len() {
                        let mut l = Line::op("C20.mask");
                        l.bool(c_on.tcp).bool(c_on.http).bool(c_on.tls).bool(with_db);
                        for k in 0..8 {
                            l.tok(&u_on[i].sig[k]).tok(&u_on[i].q[k]);
                        }
                        // only the quality class letter of the matcher-off run is compared
                        let out: Vec<String> = (0..8).map(|k| format!("{}/{}", u_off[i].sig[k], &u_off[i].q[k][..1])).collect();
                        ctx.emit(l.finish(&out.join(",")));
                    }
                }
            }
        }
    }
    set_clock(u64::MAX);
}
