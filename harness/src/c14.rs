//! C14 — FilterConfig::should_process on all three crates (+ the unified re-export),
//! PortFilter::matches, and ipnetwork's `contains` as used by SubnetFilter.
use crate::rng::Rng;
use crate::wr::Line;
use crate::Ctx;
use std::net::{IpAddr, Ipv4Addr, Ipv6Addr};

#[derive(Clone, Default)]
struct UPort {
    sp: Vec<u16>,
    dp: Vec<u16>,
    sr: Vec<(u16, u16)>,
    dr: Vec<(u16, u16)>,
    any: bool,
}
#[derive(Clone)]
struct UIp {
    v4: Vec<u32>,
    v6: Vec<u128>,
    cs: bool,
    cd: bool,
}
#[derive(Clone)]
struct USub {
    v4: Vec<(u32, u8)>,
    v6: Vec<(u128, u8)>,
    cs: bool,
    cd: bool,
}
#[derive(Clone)]
struct UCfg {
    deny: bool,
    port: Option<UPort>,
    ip: Option<UIp>,
    sub: Option<USub>,
}

const PORTS: [u16; 12] = [0, 1, 2, 79, 80, 81, 443, 1023, 1024, 65533, 65534, 65535];
const V4: [u32; 6] = [0, 0x0a00_0001, 0x0a00_0032, 0xc0a8_0101, 0x7fff_ffff, 0xffff_ffff];
const V6: [u128; 5] = [
    0,
    1,
    0x2001_0db8_0000_0000_0000_0000_0000_0001,
    0x2001_0db8_8000_0000_0000_0000_0000_0001,
    u128::MAX,
];

fn port(r: &mut Rng) -> u16 {
    if r.chance(4, 5) {
        *r.pick(&PORTS)
    } else {
        r.next() as u16
    }
}
fn v4(r: &mut Rng) -> u32 {
    let a = *r.pick(&V4);
    match r.below(4) {
        0 => a ^ (1u32 << r.below(32)),
        1 => r.next() as u32,
        _ => a,
    }
}
fn v6(r: &mut Rng) -> u128 {
    // IPv4-mapped (::ffff:a.b.c.d) and IPv4-compatible (::a.b.c.d) forms of the IPv4 pool: an IPv6 address is its
    // 128 bits, never "the IPv4 address inside" (seeded change C14e-2 folded them with to_canonical())
    if r.chance(1, 6) {
        let a = v4(r) as u128;
        return if r.chance(3, 4) { 0xffff_0000_0000u128 | a } else { a };
    }
    let a = *r.pick(&V6);
    match r.below(4) {
        0 => a ^ (1u128 << r.below(128)),
        1 => ((r.next() as u128) << 64) | r.next() as u128,
        _ => a,
    }
}
fn range(r: &mut Rng) -> (u16, u16) {
    match r.below(8) {
        0 => (0, 0),
        1 => {
            let p = port(r);
            (p, p)
        }
        2 => (port(r), 65535),
        3 => (0, port(r)),
        _ => {
            let a = port(r);
            let b = port(r);
            if r.chance(5, 6) {
                (a.min(b), a.max(b))
            } else {
                (a.max(b), a.min(b))
            }
        }
    }
}
fn small<T>(r: &mut Rng, mut f: impl FnMut(&mut Rng) -> T) -> Vec<T> {
    let n = match r.below(6) {
        0 | 1 => 0,
        2 | 3 => 1,
        4 => 2,
        _ => 3,
    };
    (0..n).map(|_| f(r)).collect()
}

fn gen_port(r: &mut Rng) -> UPort {
    UPort {
        sp: small(r, port),
        dp: small(r, port),
        sr: small(r, range),
        dr: small(r, range),
        any: r.chance(1, 4),
    }
}
fn gen_ip(r: &mut Rng) -> UIp {
    let (cs, cd) = match r.below(3) {
        0 => (true, true),
        1 => (true, false),
        _ => (false, true),
    };
    UIp { v4: small(r, v4), v6: small(r, v6), cs, cd }
}
fn gen_sub(r: &mut Rng) -> USub {
    let (cs, cd) = match r.below(3) {
        0 => (true, true),
        1 => (true, false),
        _ => (false, true),
    };
    USub {
        v4: small(r, |r| (v4(r), pfx(r, 32))),
        v6: small(r, |r| (v6(r), pfx(r, 128))),
        cs,
        cd,
    }
}
fn pfx(r: &mut Rng, w: u8) -> u8 {
    match r.below(6) {
        0 => 0,
        1 => w,
        2 => w - 1,
        3 => 1,
        _ => r.below(w as u64 + 1) as u8,
    }
}
fn gen_cfg(r: &mut Rng) -> UCfg {
    UCfg {
        deny: r.chance(1, 2),
        port: if r.chance(2, 3) { Some(gen_port(r)) } else { None },
        ip: if r.chance(1, 2) { Some(gen_ip(r)) } else { None },
        sub: if r.chance(1, 2) { Some(gen_sub(r)) } else { None },
    }
}

fn w_port(l: &mut Line, p: &UPort) {
    l.list(&p.sp, |l, x| {
        l.nat(*x);
    });
    l.list(&p.dp, |l, x| {
        l.nat(*x);
    });
    l.list(&p.sr, |l, x| {
        l.nat(x.0).nat(x.1);
    });
    l.list(&p.dr, |l, x| {
        l.nat(x.0).nat(x.1);
    });
    l.bool(p.any);
}
fn w_cfg(l: &mut Line, c: &UCfg) {
    l.nat(c.deny as u8);
    l.bool(c.port.is_some());
    if let Some(p) = &c.port {
        w_port(l, p);
    }
    l.bool(c.ip.is_some());
    if let Some(f) = &c.ip {
        l.list(&f.v4, |l, x| {
            l.nat(*x);
        });
        l.list(&f.v6, |l, x| {
            l.nat(*x);
        });
        l.bool(f.cs).bool(f.cd);
    }
    l.bool(c.sub.is_some());
    if let Some(f) = &c.sub {
        l.list(&f.v4, |l, x| {
            l.nat(x.0).nat(x.1);
        });
        l.list(&f.v6, |l, x| {
            l.nat(x.0).nat(x.1);
        });
        l.bool(f.cs).bool(f.cd);
    }
}
fn w_addr(l: &mut Line, a: &IpAddr) {
    match a {
        IpAddr::V4(x) => l.nat(4u8).nat(u32::from(*x)),
        IpAddr::V6(x) => l.nat(6u8).nat(u128::from(*x)),
    };
}

/// The three crates have separate (textually identical) types; build each through its own
/// builder API exactly as a user would.
macro_rules! build_and_eval {
    ($krate:ident, $c:expr, $s:expr, $d:expr, $sp:expr, $dp:expr) => {{
        use $krate::{FilterConfig, FilterMode, IpFilter, PortFilter, SubnetFilter};
        let c: &UCfg = $c;
        let mut cfg = FilterConfig::new().mode(if c.deny { FilterMode::Deny } else { FilterMode::Allow });
        if let Some(p) = &c.port {
            cfg = cfg.with_port_filter(build_port!($krate, p));
        }
        if let Some(f) = &c.ip {
            let mut x = IpFilter::new();
            for a in &f.v4 {
                x = x.allow(&Ipv4Addr::from(*a).to_string()).unwrap();
            }
            for a in &f.v6 {
                x = x.allow(&Ipv6Addr::from(*a).to_string()).unwrap();
            }
            if f.cs && !f.cd {
                x = x.source_only();
            }
            if !f.cs && f.cd {
                x = x.destination_only();
            }
            cfg = cfg.with_ip_filter(x);
        }
        if let Some(f) = &c.sub {
            let mut x = SubnetFilter::new();
            for (a, p) in &f.v4 {
                x = x.allow(&format!("{}/{}", Ipv4Addr::from(*a), p)).unwrap();
            }
            for (a, p) in &f.v6 {
                x = x.allow(&format!("{}/{}", Ipv6Addr::from(*a), p)).unwrap();
            }
            if f.cs && !f.cd {
                x = x.source_only();
            }
            if !f.cs && f.cd {
                x = x.destination_only();
            }
            cfg = cfg.with_subnet_filter(x);
        }
        let _ = PortFilter::new();
        cfg.should_process($s, $d, $sp, $dp)
    }};
}
macro_rules! build_port {
    ($krate:ident, $p:expr) => {{
        let p: &UPort = $p;
        let mut x = $krate::PortFilter::new();
        // mix single-port and list builders
        if p.sp.len() == 1 {
            x = x.source(p.sp[0]);
        } else if !p.sp.is_empty() {
            x = x.source_list(p.sp.clone());
        }
        if p.dp.len() == 1 {
            x = x.destination(p.dp[0]);
        } else if !p.dp.is_empty() {
            x = x.destination_list(p.dp.clone());
        }
        for (a, b) in &p.sr {
            x = x.source_range(*a..*b);
        }
        for (a, b) in &p.dr {
            x = x.destination_range(*a..*b);
        }
        if p.any {
            x = x.any_port();
        }
        x
    }};
}

fn endpoint(r: &mut Rng, c: &UCfg, v6side: bool) -> IpAddr {
    // bias towards addresses the configuration mentions
    if v6side {
        let mut pool: Vec<u128> = vec![];
        if let Some(f) = &c.ip {
            pool.extend(&f.v6);
        }
        if let Some(f) = &c.sub {
            for (a, p) in &f.v6 {
                pool.push(*a);
                if *p < 128 {
                    pool.push(*a ^ (1u128 << (127 - *p as u32))); // first bit outside the prefix
                }
                if *p > 0 {
                    pool.push(*a ^ (1u128 << (128 - *p as u32))); // last bit inside the prefix
                }
            }
        }
        if !pool.is_empty() && r.chance(3, 4) {
            IpAddr::V6(Ipv6Addr::from(*r.pick(&pool)))
        } else {
            IpAddr::V6(Ipv6Addr::from(v6(r)))
        }
    } else {
        let mut pool: Vec<u32> = vec![];
        if let Some(f) = &c.ip {
            pool.extend(&f.v4);
        }
        if let Some(f) = &c.sub {
            for (a, p) in &f.v4 {
                pool.push(*a);
                if *p < 32 {
                    pool.push(*a ^ (1u32 << (31 - *p as u32)));
                }
                if *p > 0 {
                    pool.push(*a ^ (1u32 << (32 - *p as u32)));
                }
            }
        }
        if !pool.is_empty() && r.chance(3, 4) {
            IpAddr::V4(Ipv4Addr::from(*r.pick(&pool)))
        } else {
            IpAddr::V4(Ipv4Addr::from(v4(r)))
        }
    }
}

fn port_for(r: &mut Rng, c: &UCfg) -> u16 {
    let mut pool: Vec<u16> = vec![0, 65535];
    if let Some(p) = &c.port {
        pool.extend(&p.sp);
        pool.extend(&p.dp);
        for (a, b) in p.sr.iter().chain(p.dr.iter()) {
            pool.extend([*a, a.wrapping_sub(1), a.wrapping_add(1), *b, b.wrapping_sub(1), b.wrapping_add(1)]);
        }
    }
    if r.chance(5, 6) {
        *r.pick(&pool)
    } else {
        port(r)
    }
}

fn b(x: bool) -> &'static str {
    if x {
        "true"
    } else {
        "false"
    }
}

fn eval_all(c: &UCfg, s: &IpAddr, d: &IpAddr, sp: u16, dp: u16) -> String {
    let t = build_and_eval!(huginn_net_tcp, c, s, d, sp, dp);
    let h = build_and_eval!(huginn_net_http, c, s, d, sp, dp);
    let l = build_and_eval!(huginn_net_tls, c, s, d, sp, dp);
    // unified analyzer re-exports the TCP crate's type; evaluate through that path too
    let u = {
        use huginn_net::{FilterConfig, PortFilter};
        let _ = (FilterConfig::new(), PortFilter::new());
        build_and_eval!(huginn_net_tcp, c, s, d, sp, dp)
    };
    if t == h && h == l && l == u {
        b(t).to_string()
    } else {
        format!("DIVERGE tcp={t} http={h} tls={l} unified={u}")
    }
}

pub fn run(ctx: &mut Ctx) {
    let mut r = ctx.rng.fork();
    // 1. corpus: the (0..0) range finding (fixed) and boundary cases, always first
    let corpus: Vec<(UCfg, IpAddr, IpAddr, u16, u16)> = vec![
        (
            UCfg { deny: false, port: Some(UPort { dp: vec![80], dr: vec![(0, 0)], ..Default::default() }), ip: None, sub: None },
            IpAddr::V4(Ipv4Addr::from(1)),
            IpAddr::V4(Ipv4Addr::from(2)),
            5,
            0,
        ),
        (
            UCfg { deny: false, port: Some(UPort { sr: vec![(0, 0)], any: true, ..Default::default() }), ip: None, sub: None },
            IpAddr::V4(Ipv4Addr::from(1)),
            IpAddr::V4(Ipv4Addr::from(2)),
            0,
            7,
        ),
        (
            UCfg { deny: true, port: Some(UPort { dr: vec![(65534, 65535)], ..Default::default() }), ip: None, sub: None },
            IpAddr::V6(Ipv6Addr::from(1)),
            IpAddr::V6(Ipv6Addr::from(2)),
            1,
            65535,
        ),
    ];
    for (c, s, d, sp, dp) in &corpus {
        emit_sp(ctx, c, s, d, *sp, *dp);
    }
    // 2. exhaustive: mode x presence (2^3) x per-sub-filter match/mismatch x sides
    for deny in [false, true] {
        for mask in 0..8u32 {
            for sel in 0..27u32 {
                // sel digit per sub-filter: 0 = both sides, 1 = source only, 2 = destination only
                for hit in 0..64u32 {
                    // hit bits: port src/dst hit, ip src/dst hit, subnet src/dst hit
                    let side = |k: u32| match (sel / 3u32.pow(k)) % 3 {
                        0 => (true, true),
                        1 => (true, false),
                        _ => (false, true),
                    };
                    let port = if mask & 1 != 0 {
                        let (cs, cd) = side(0);
                        Some(UPort {
                            sp: if cs { vec![1000] } else { vec![] },
                            dp: if cd { vec![80] } else { vec![] },
                            ..Default::default()
                        })
                    } else {
                        None
                    };
                    let ip = if mask & 2 != 0 {
                        let (cs, cd) = side(1);
                        Some(UIp { v4: vec![0x0a00_0001, 0x0a00_0002], v6: vec![], cs, cd })
                    } else {
                        None
                    };
                    let sub = if mask & 4 != 0 {
                        let (cs, cd) = side(2);
                        Some(USub { v4: vec![(0x0a00_0000, 24)], v6: vec![], cs, cd })
                    } else {
                        None
                    };
                    let c = UCfg { deny, port, ip, sub };
                    let sp = if hit & 1 != 0 { 1000 } else { 1001 };
                    let dp = if hit & 2 != 0 { 80 } else { 81 };
                    // address bits: ip-listed and subnet-inside are tied for 10.0.0.1; use 10.0.0.9 for
                    // "in subnet, not listed", 10.0.1.1 for neither
                    let addr = |listed: bool, inside: bool| -> u32 {
                        match (listed, inside) {
                            (true, _) => 0x0a00_0001,
                            (false, true) => 0x0a00_0009,
                            (false, false) => 0x0a00_0101,
                        }
                    };
                    let s = IpAddr::V4(Ipv4Addr::from(addr(hit & 4 != 0, hit & 16 != 0)));
                    let d = IpAddr::V4(Ipv4Addr::from(addr(hit & 8 != 0, hit & 32 != 0)));
                    if ctx.tier == crate::Tier::Quick && (sel % 2 == 1 || hit % 3 == 1) {
                        continue;
                    }
                    emit_sp(ctx, &c, &s, &d, sp, dp);
                }
            }
        }
    }
    // 3. generated configurations
    let n = ctx.n(20_000, 2_000_000);
    for _ in 0..n {
        let c = gen_cfg(&mut r);
        let six = r.chance(1, 3);
        let s = endpoint(&mut r, &c, six);
        let dsix = if r.chance(1, 10) { !six } else { six };
        let d = endpoint(&mut r, &c, dsix);
        let sp = port_for(&mut r, &c);
        let dp = port_for(&mut r, &c);
        emit_sp(ctx, &c, &s, &d, sp, dp);
    }
    // 4. PortFilter::matches alone: every range boundary against every port of the boundary set
    let mut bounds: Vec<u16> = PORTS.to_vec();
    bounds.extend([8000, 9000]);
    for &lo in &bounds {
        for &hi in &bounds {
            for &p in &bounds {
                for dst in [false, true] {
                    for any in [false, true] {
                        let mut u = UPort { any, ..Default::default() };
                        if dst {
                            u.dr.push((lo, hi));
                        } else {
                            u.sr.push((lo, hi));
                        }
                        if ctx.tier == crate::Tier::Quick && any && dst {
                            continue;
                        }
                        emit_pm(ctx, &u, if dst { 7 } else { p }, if dst { p } else { 7 });
                    }
                }
            }
        }
    }
    let n = ctx.n(5_000, 500_000);
    for _ in 0..n {
        let u = gen_port(&mut r);
        let c = UCfg { deny: false, port: Some(u.clone()), ip: None, sub: None };
        let sp = port_for(&mut r, &c);
        let dp = port_for(&mut r, &c);
        emit_pm(ctx, &u, sp, dp);
    }
    // 5. CIDR containment: every prefix length, boundary bits
    for p in 0..=32u8 {
        for &a in &V4 {
            let mut ips = vec![a, !a, 0, u32::MAX];
            if p < 32 {
                ips.push(a ^ (1u32 << (31 - p as u32)));
            }
            if p > 0 {
                ips.push(a ^ (1u32 << (32 - p as u32)));
            }
            ips.push(a ^ 1);
            for ip in ips {
                let net: pnet::ipnetwork::Ipv4Network = format!("{}/{}", Ipv4Addr::from(a), p).parse().unwrap();
                let out = net.contains(Ipv4Addr::from(ip));
                let mut l = Line::op("C14.cidr");
                l.nat(32u8).nat(a).nat(p).nat(ip);
                ctx.emit(l.finish(b(out)));
            }
        }
    }
    for p in 0..=128u8 {
        for &a in &V6 {
            let mut ips = vec![a, !a, 0, u128::MAX, a ^ 1];
            if p < 128 {
                ips.push(a ^ (1u128 << (127 - p as u32)));
            }
            if p > 0 {
                ips.push(a ^ (1u128 << (128 - p as u32)));
            }
            for ip in ips {
                let net: pnet::ipnetwork::Ipv6Network = format!("{}/{}", Ipv6Addr::from(a), p).parse().unwrap();
                let out = net.contains(Ipv6Addr::from(ip));
                let mut l = Line::op("C14.cidr");
                l.nat(128u8).nat(a).nat(p).nat(ip);
                ctx.emit(l.finish(b(out)));
            }
        }
    }
}

fn emit_sp(ctx: &mut Ctx, c: &UCfg, s: &IpAddr, d: &IpAddr, sp: u16, dp: u16) {
    let out = eval_all(c, s, d, sp, dp);
    let mut l = Line::op("C14.sp");
    w_cfg(&mut l, c);
    w_addr(&mut l, s);
    w_addr(&mut l, d);
    l.nat(sp).nat(dp);
    ctx.emit(l.finish(&out));
}

fn emit_pm(ctx: &mut Ctx, u: &UPort, sp: u16, dp: u16) {
    let t = build_port!(huginn_net_tcp, u).matches(sp, dp);
    let h = build_port!(huginn_net_http, u).matches(sp, dp);
    let s = build_port!(huginn_net_tls, u).matches(sp, dp);
    let out = if t == h && h == s { b(t).to_string() } else { format!("DIVERGE tcp={t} http={h} tls={s}") };
    let mut l = Line::op("C14.pm");
    w_port(&mut l, u);
    l.nat(sp).nat(dp);
    ctx.emit(l.finish(&out));
}
