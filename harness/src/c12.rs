//! C12 — component distances, sums and the two score tables of huginn-net-db, through the
//! public API only: `Ttl::distance_ttl`, `WindowSize::distance_window_size`,
//! `IpVersion::distance_ip_version`, `PayloadSize::distance_payload_size`,
//! `HttpDistance::{distance_header, distance_expsw}`, `DatabaseSignature::calculate_distance`,
//! `DatabaseSignature::get_quality_score`, `MatchQuality::distance_to_score`.
//! The generators and token writers for the p0f vocabulary are shared with c02.rs.
use crate::rng::Rng;
use crate::wr::{guarded, Line};
use crate::Ctx;
use huginn_net_db::db_matching_trait::{DatabaseSignature, MatchQuality};
use huginn_net_db::http::{self, Header, HttpMatchQuality, Version};
use huginn_net_db::observable_http_signals_matching::HttpDistance;
use huginn_net_db::observable_signals::{HttpRequestObservation, HttpResponseObservation, TcpObservation};
use huginn_net_db::tcp::{self, IpVersion, PayloadSize, Quirk, TcpMatchQuality, TcpOption, Ttl, WindowSize};

// ------------------------------------------------------------------ token writers

pub fn w_ipv(l: &mut Line, v: &IpVersion) {
    l.nat(match v {
        IpVersion::V4 => 4u8,
        IpVersion::V6 => 6,
        IpVersion::Any => 0,
    });
}
pub fn w_ttl(l: &mut Line, t: &Ttl) {
    match t {
        Ttl::Value(a) => l.nat(0u8).nat(*a),
        Ttl::Distance(a, b) => l.nat(1u8).nat(*a).nat(*b),
        Ttl::Guess(a) => l.nat(2u8).nat(*a),
        Ttl::Bad(a) => l.nat(3u8).nat(*a),
    };
}
pub fn w_win(l: &mut Line, w: &WindowSize) {
    match w {
        WindowSize::Mss(a) => l.nat(0u8).nat(*a),
        WindowSize::Mtu(a) => l.nat(1u8).nat(*a),
        WindowSize::Value(a) => l.nat(2u8).nat(*a),
        WindowSize::Mod(a) => l.nat(3u8).nat(*a),
        WindowSize::Any => l.nat(4u8),
    };
}
pub fn w_opt(l: &mut Line, o: &TcpOption) {
    match o {
        TcpOption::Eol(n) => l.nat(0u8).nat(*n),
        TcpOption::Nop => l.nat(1u8),
        TcpOption::Mss => l.nat(2u8),
        TcpOption::Ws => l.nat(3u8),
        TcpOption::Sok => l.nat(4u8),
        TcpOption::Sack => l.nat(5u8),
        TcpOption::TS => l.nat(6u8),
        TcpOption::Unknown(n) => l.nat(7u8).nat(*n),
    };
}
pub fn quirk_all() -> Vec<Quirk> {
    use Quirk::*;
    vec![
        Df, NonZeroID, ZeroID, Ecn, MustBeZero, FlowID, SeqNumZero, AckNumNonZero, AckNumZero, NonZeroURG, Urg, Push,
        OwnTimestampZero, PeerTimestampNonZero, TrailinigNonZero, ExcessiveWindowScaling, OptBad,
    ]
}
pub fn w_quirk(l: &mut Line, q: &Quirk) {
    let i = quirk_all().iter().position(|x| x == q).unwrap();
    l.usize(i);
}
pub fn w_pay(l: &mut Line, p: &PayloadSize) {
    l.nat(match p {
        PayloadSize::Zero => 0u8,
        PayloadSize::NonZero => 1,
        PayloadSize::Any => 2,
    });
}
fn w_on<T: Into<u128> + Copy>(l: &mut Line, o: &Option<T>) {
    match o {
        None => l.nat(0u8),
        Some(x) => l.nat(1u8).nat(*x),
    };
}
pub fn w_tcp_sig(l: &mut Line, s: &tcp::Signature) {
    w_ipv(l, &s.version);
    w_ttl(l, &s.ittl);
    l.nat(s.olen);
    w_on(l, &s.mss);
    w_win(l, &s.wsize);
    w_on(l, &s.wscale);
    l.list(&s.olayout, |l, o| w_opt(l, o));
    l.list(&s.quirks, |l, q| w_quirk(l, q));
    w_pay(l, &s.pclass);
}
pub fn obs_as_sig(o: &TcpObservation) -> tcp::Signature {
    tcp::Signature {
        version: o.version,
        ittl: o.ittl.clone(),
        olen: o.olen,
        mss: o.mss,
        wsize: o.wsize.clone(),
        wscale: o.wscale,
        olayout: o.olayout.clone(),
        quirks: o.quirks.clone(),
        pclass: o.pclass,
    }
}
pub fn sig_as_obs(o: &tcp::Signature) -> TcpObservation {
    TcpObservation {
        version: o.version,
        ittl: o.ittl.clone(),
        olen: o.olen,
        mss: o.mss,
        wsize: o.wsize.clone(),
        wscale: o.wscale,
        olayout: o.olayout.clone(),
        quirks: o.quirks.clone(),
        pclass: o.pclass,
    }
}
pub fn w_httpv(l: &mut Line, v: &Version) {
    l.nat(match v {
        Version::V10 => 10u8,
        Version::V11 => 11,
        Version::V20 => 20,
        Version::V30 => 30,
        Version::Any => 0,
    });
}
pub fn w_header(l: &mut Line, h: &Header) {
    l.bool(h.optional);
    l.text(&h.name);
    match &h.value {
        None => l.nat(0u8),
        Some(v) => l.nat(1u8).text(v),
    };
}
pub fn w_http_sig(l: &mut Line, s: &http::Signature) {
    w_httpv(l, &s.version);
    l.list(&s.horder, |l, h| w_header(l, h));
    l.list(&s.habsent, |l, h| w_header(l, h));
    l.text(&s.expsw);
}
pub fn http_req(s: &http::Signature) -> HttpRequestObservation {
    HttpRequestObservation { version: s.version, horder: s.horder.clone(), habsent: s.habsent.clone(), expsw: s.expsw.clone() }
}
pub fn http_resp(s: &http::Signature) -> HttpResponseObservation {
    HttpResponseObservation { version: s.version, horder: s.horder.clone(), habsent: s.habsent.clone(), expsw: s.expsw.clone() }
}

pub fn show_dist(d: Option<u32>) -> String {
    match d {
        None => "none".into(),
        Some(d) => d.to_string(),
    }
}

// ------------------------------------------------------------------ generators (shared)

pub const U8B: [u8; 18] = [0, 1, 2, 29, 30, 31, 32, 33, 63, 64, 65, 127, 128, 129, 224, 225, 254, 255];
pub const U16B: [u16; 24] = [
    0, 1, 2, 255, 256, 512, 1024, 1459, 1460, 1461, 2048, 2920, 2921, 4096, 4380, 5840, 8192, 14600, 16384, 29200, 32768, 65534,
    65535, 1440,
];
pub const MSSB: [u16; 8] = [0, 1, 99, 100, 536, 1440, 1460, 65535];

pub fn gen_u8(r: &mut Rng) -> u8 {
    if r.chance(3, 4) {
        *r.pick(&U8B)
    } else {
        r.next() as u8
    }
}
pub fn gen_u16(r: &mut Rng) -> u16 {
    if r.chance(3, 4) {
        *r.pick(&U16B)
    } else {
        r.next() as u16
    }
}
pub fn gen_ttl(r: &mut Rng) -> Ttl {
    match r.below(8) {
        0 | 1 | 2 => Ttl::Value(*r.pick(&[32u8, 64, 128, 255, 0, 1, 200])),
        3 | 4 => {
            let d = r.below(36) as u8;
            let init = *r.pick(&[32u8, 64, 128, 255]);
            Ttl::Distance(init.saturating_sub(d), d)
        }
        5 => Ttl::Guess(*r.pick(&[32u8, 64, 128, 255])),
        6 => Ttl::Bad(*r.pick(&[0u8, 64, 128])),
        _ => match r.below(4) {
            0 => Ttl::Value(gen_u8(r)),
            1 => Ttl::Distance(gen_u8(r), gen_u8(r)),
            2 => Ttl::Guess(gen_u8(r)),
            _ => Ttl::Bad(gen_u8(r)),
        },
    }
}
pub fn gen_win(r: &mut Rng, allow_any: bool) -> WindowSize {
    match r.below(if allow_any { 6 } else { 5 }) {
        0 => WindowSize::Mss(*r.pick(&[1u8, 2, 4, 10, 20, 44, 45, 0, 255])),
        1 => WindowSize::Mtu(*r.pick(&[1u8, 2, 4, 10, 0, 255])),
        2 | 3 => WindowSize::Value(gen_u16(r)),
        4 => WindowSize::Mod(*r.pick(&[256u16, 512, 1024, 2048, 4096, 8192, 0, 1, 3])),
        _ => WindowSize::Any,
    }
}
const LAYOUTS: [&[u8]; 8] = [
    &[2, 4, 6, 1, 3],    // mss,sok,ts,nop,ws
    &[2, 1, 3, 1, 1, 6], // mss,nop,ws,nop,nop,ts
    &[2],
    &[],
    &[2, 1, 1, 4],
    &[2, 1, 3, 4, 6],
    &[1, 1, 6],
    &[2, 4, 6, 1, 3, 0],
];
pub fn opt_of(code: u8, r: &mut Rng) -> TcpOption {
    match code {
        0 => TcpOption::Eol(*r.pick(&[0u8, 1, 2, 10, 255])),
        1 => TcpOption::Nop,
        2 => TcpOption::Mss,
        3 => TcpOption::Ws,
        4 => TcpOption::Sok,
        5 => TcpOption::Sack,
        6 => TcpOption::TS,
        _ => TcpOption::Unknown(*r.pick(&[0u8, 8, 9, 10, 99, 100, 255])),
    }
}
pub fn gen_layout(r: &mut Rng) -> Vec<TcpOption> {
    if r.chance(3, 4) {
        r.pick(&LAYOUTS).iter().map(|c| opt_of(*c, r)).collect()
    } else {
        let n = r.below(7) as usize;
        (0..n).map(|_| opt_of(r.below(8) as u8, r)).collect()
    }
}
/// A layout close to `l`: one option dropped, added, replaced, or two swapped; eol padding changed.
pub fn near_layout(r: &mut Rng, l: &[TcpOption]) -> Vec<TcpOption> {
    let mut v = l.to_vec();
    match r.below(5) {
        0 if !v.is_empty() => {
            let i = r.below(v.len() as u64) as usize;
            v.remove(i);
        }
        1 => {
            let i = r.below(v.len() as u64 + 1) as usize;
            v.insert(i, opt_of(r.below(8) as u8, r));
        }
        2 if !v.is_empty() => {
            let i = r.below(v.len() as u64) as usize;
            v[i] = match &v[i] {
                TcpOption::Eol(n) => TcpOption::Eol(n.wrapping_add(1)),
                TcpOption::Unknown(n) => TcpOption::Unknown(n.wrapping_add(1)),
                TcpOption::Sok => TcpOption::Sack,
                TcpOption::Sack => TcpOption::Sok,
                _ => opt_of(r.below(8) as u8, r),
            };
        }
        3 if v.len() >= 2 => {
            let i = r.below(v.len() as u64 - 1) as usize;
            v.swap(i, i + 1);
        }
        _ => v.push(TcpOption::Eol(0)),
    }
    v
}
pub fn gen_quirks(r: &mut Rng) -> Vec<Quirk> {
    let all = quirk_all();
    match r.below(5) {
        0 => vec![],
        1 => vec![Quirk::Df, Quirk::NonZeroID],
        2 => vec![Quirk::Df],
        3 => vec![Quirk::Df, Quirk::NonZeroID, Quirk::Ecn],
        _ => {
            let n = r.below(4) as usize;
            (0..n).map(|_| r.pick(&all).clone()).collect()
        }
    }
}
pub fn gen_tcp_sig(r: &mut Rng) -> tcp::Signature {
    tcp::Signature {
        version: *r.pick(&[IpVersion::V4, IpVersion::V6, IpVersion::Any, IpVersion::Any]),
        ittl: if r.chance(4, 5) { Ttl::Value(*r.pick(&[32u8, 64, 128, 255])) } else { gen_ttl(r) },
        olen: if r.chance(4, 5) { 0 } else { gen_u8(r) },
        mss: if r.chance(1, 2) { None } else { Some(*r.pick(&MSSB)) },
        wsize: gen_win(r, true),
        wscale: if r.chance(1, 2) { None } else { Some(*r.pick(&[0u8, 1, 2, 7, 8, 14, 15, 255])) },
        olayout: gen_layout(r),
        quirks: gen_quirks(r),
        pclass: *r.pick(&[PayloadSize::Zero, PayloadSize::NonZero, PayloadSize::Any, PayloadSize::Any]),
    }
}
/// An observation instantiating `s` (wildcards filled with concrete values, TTL as `t+d`).
pub fn tcp_instance(r: &mut Rng, s: &tcp::Signature) -> TcpObservation {
    let mss = match s.mss {
        Some(m) => Some(m),
        None => {
            if r.chance(1, 6) {
                None
            } else {
                Some(*r.pick(&[536u16, 1440, 1460, 100, 99, 1]))
            }
        }
    };
    let ittl = match &s.ittl {
        Ttl::Value(t) => match r.below(4) {
            0 => Ttl::Value(*t),
            1 => Ttl::Guess(*t),
            _ => {
                let d = (r.below(31) as u8).min(*t);
                Ttl::Distance(t - d, d)
            }
        },
        Ttl::Distance(t, d) => {
            if r.chance(1, 2) || t.checked_add(*d).is_none() {
                Ttl::Distance(*t, *d)
            } else {
                Ttl::Value(t + d)
            }
        }
        Ttl::Guess(t) => {
            if r.chance(1, 2) {
                Ttl::Guess(*t)
            } else {
                Ttl::Value(*t)
            }
        }
        Ttl::Bad(t) => Ttl::Bad(*t),
    };
    let wsize = match &s.wsize {
        WindowSize::Any => gen_win(r, false),
        WindowSize::Mss(n) => match (mss, r.below(2)) {
            (Some(m), 0) if m > 0 && (*n as u32 * m as u32) <= 65535 => WindowSize::Value(*n as u16 * m),
            _ => WindowSize::Mss(*n),
        },
        WindowSize::Mod(n) => match r.below(3) {
            0 => WindowSize::Mod(*n),
            1 => WindowSize::Mod(n.saturating_mul(*r.pick(&[2u16, 4]))),
            _ => WindowSize::Value(n.saturating_mul(*r.pick(&[0u16, 1, 3, 5]))),
        },
        w => w.clone(),
    };
    TcpObservation {
        version: if s.version == IpVersion::Any { *r.pick(&[IpVersion::V4, IpVersion::V6]) } else { s.version },
        ittl,
        olen: s.olen,
        mss,
        wsize,
        wscale: s.wscale.or(if r.chance(1, 4) { None } else { Some(*r.pick(&[0u8, 2, 7, 8])) }),
        olayout: s.olayout.clone(),
        quirks: s.quirks.clone(),
        pclass: if s.pclass == PayloadSize::Any { *r.pick(&[PayloadSize::Zero, PayloadSize::NonZero]) } else { s.pclass },
    }
}
/// Change one field of an observation. Returns the field's name.
pub fn tcp_mutate(r: &mut Rng, o: &mut TcpObservation) -> &'static str {
    match r.below(10) {
        0 => {
            o.version = if o.version == IpVersion::V4 { IpVersion::V6 } else { IpVersion::V4 };
            "version"
        }
        1 => {
            o.ittl = match &o.ittl {
                Ttl::Value(t) => Ttl::Value(t.wrapping_add(1)),
                Ttl::Distance(t, d) => match r.below(3) {
                    0 => Ttl::Distance(t.wrapping_add(1), *d),
                    1 => Ttl::Distance(t.saturating_sub(40), d.saturating_add(40)),
                    _ => Ttl::Distance(*t, d.wrapping_add(1)),
                },
                Ttl::Guess(t) => Ttl::Guess(t.wrapping_sub(1)),
                Ttl::Bad(t) => Ttl::Bad(t.wrapping_add(1)),
            };
            "ittl"
        }
        2 => {
            o.ittl = gen_ttl(r);
            "ittl"
        }
        3 => {
            o.olen = o.olen.wrapping_add(*r.pick(&[1u8, 4, 255]));
            "olen"
        }
        4 => {
            o.mss = match o.mss {
                None => Some(1460),
                Some(m) => {
                    if r.chance(1, 4) {
                        None
                    } else {
                        Some(m.wrapping_add(*r.pick(&[1u16, 10, 65535])))
                    }
                }
            };
            "mss"
        }
        5 => {
            o.wsize = match &o.wsize {
                WindowSize::Value(w) => WindowSize::Value(w.wrapping_add(*r.pick(&[1u16, 65535, 2]))),
                WindowSize::Mss(n) => WindowSize::Mss(n.wrapping_add(1)),
                WindowSize::Mtu(n) => WindowSize::Mtu(n.wrapping_add(1)),
                WindowSize::Mod(n) => WindowSize::Mod(n.wrapping_add(*r.pick(&[1u16, 256]))),
                WindowSize::Any => WindowSize::Value(1),
            };
            "wsize"
        }
        6 => {
            o.wsize = gen_win(r, false);
            "wsize"
        }
        7 => {
            o.wscale = match o.wscale {
                None => Some(3),
                Some(w) => {
                    if r.chance(1, 4) {
                        None
                    } else {
                        Some(w.wrapping_add(1))
                    }
                }
            };
            "wscale"
        }
        8 => {
            if r.chance(1, 2) {
                o.olayout = near_layout(r, &o.olayout);
                "olayout"
            } else {
                let all = quirk_all();
                if !o.quirks.is_empty() && r.chance(1, 2) {
                    let i = r.below(o.quirks.len() as u64) as usize;
                    o.quirks.remove(i);
                } else if o.quirks.len() >= 2 && r.chance(1, 2) {
                    o.quirks.swap(0, 1);
                    if o.quirks[0] == o.quirks[1] {
                        o.quirks.push(Quirk::OptBad);
                    }
                } else {
                    o.quirks.push(r.pick(&all).clone());
                }
                "quirks"
            }
        }
        _ => {
            o.pclass = if o.pclass == PayloadSize::Zero { PayloadSize::NonZero } else { PayloadSize::Zero };
            "pclass"
        }
    }
}

pub const NAMES: [&str; 3] = ["Host", "Accept", "X-A"];
pub const VALUES: [&str; 2] = ["x", "keep-alive"];
pub const SW: [&str; 14] = [
    "",
    "a",
    "ab",
    "abc",
    "b",
    "bc",
    "Firefox/",
    "Mozilla/5.0 Firefox/3.6",
    "xFirefox/",
    "irefox",
    "Firefox",
    "Mozilla/5.0 (Windows NT 10.0) Chrome/120.0",
    "Chrome/",
    "???",
];

pub fn gen_sig_header(r: &mut Rng, names: &[&str]) -> Header {
    Header {
        optional: r.chance(2, 5),
        name: r.pick(names).to_string(),
        value: if r.chance(1, 2) { None } else { Some(r.pick(&VALUES).to_string()) },
    }
}
pub fn gen_obs_header(r: &mut Rng, names: &[&str]) -> Header {
    Header {
        optional: r.chance(1, 5),
        name: r.pick(names).to_string(),
        value: if r.chance(1, 2) { None } else { Some(r.pick(&VALUES).to_string()) },
    }
}
const MANY: [&str; 16] = ["H0", "H1", "H2", "H3", "H4", "H5", "H6", "H7", "H8", "H9", "Ha", "Hb", "Hc", "Hd", "He", "Hf"];
/// Signature header list. `distinct`: no repeated names.
pub fn gen_sig_headers(r: &mut Rng, max: usize, distinct: bool) -> Vec<Header> {
    let n = r.below(max as u64 + 1) as usize;
    if distinct {
        let mut pool: Vec<&str> = if n <= 3 { NAMES.to_vec() } else { MANY.to_vec() };
        for i in (1..pool.len()).rev() {
            let j = r.below(i as u64 + 1) as usize;
            pool.swap(i, j);
        }
        pool.truncate(n);
        pool.iter().map(|nm| gen_sig_header(r, &[nm])).collect()
    } else {
        (0..n).map(|_| gen_sig_header(r, &NAMES)).collect()
    }
}
/// An observed list instantiating `sig`: optional headers in or out, value wildcards filled
/// (`fill`: also give values to headers for which the signature has none).
pub fn hdr_instance(r: &mut Rng, sig: &[Header], fill: bool) -> Vec<Header> {
    let mut out = vec![];
    for s in sig {
        if s.optional && r.chance(1, 2) {
            continue;
        }
        let value = match &s.value {
            Some(v) => Some(v.clone()),
            None => {
                if fill && r.chance(1, 2) {
                    Some(r.pick(&VALUES).to_string())
                } else {
                    None
                }
            }
        };
        out.push(Header { optional: r.chance(1, 6), name: s.name.clone(), value });
    }
    out
}
pub fn hdr_mutate(r: &mut Rng, obs: &mut Vec<Header>) {
    match r.below(5) {
        0 if !obs.is_empty() => {
            let i = r.below(obs.len() as u64) as usize;
            obs.remove(i);
        }
        1 => {
            let i = r.below(obs.len() as u64 + 1) as usize;
            obs.insert(i, gen_obs_header(r, &["Host", "Accept", "X-A", "Zzz"]));
        }
        2 if !obs.is_empty() => {
            let i = r.below(obs.len() as u64) as usize;
            obs[i].value = match &obs[i].value {
                None => Some("x".into()),
                Some(_) => {
                    if r.chance(1, 2) {
                        None
                    } else {
                        Some("other".into())
                    }
                }
            };
        }
        3 if obs.len() >= 2 => {
            let i = r.below(obs.len() as u64 - 1) as usize;
            obs.swap(i, i + 1);
        }
        _ => {
            let k = r.range(1, 13) as usize;
            for j in 0..k {
                obs.push(Header::new(format!("Extra{j}")));
            }
        }
    }
}
pub fn gen_http_sig(r: &mut Rng, versions: &[Version]) -> http::Signature {
    let distinct = r.chance(4, 5);
    http::Signature {
        version: *r.pick(versions),
        horder: gen_sig_headers(r, 6, distinct),
        habsent: gen_sig_headers(r, 2, distinct),
        expsw: r.pick(&["", "", "Firefox/", "Chrome/", "a", "ab"]).to_string(),
    }
}
pub fn http_instance(r: &mut Rng, s: &http::Signature, versions: &[Version]) -> http::Signature {
    let fill = r.chance(1, 4);
    let expsw = match r.below(4) {
        0 => s.expsw.clone(),
        1 => format!("Mozilla/5.0 {}3.6", s.expsw),
        2 => format!("{}x", s.expsw),
        _ => format!("y{}", s.expsw),
    };
    http::Signature {
        version: if s.version == Version::Any { *r.pick(versions) } else { s.version },
        horder: hdr_instance(r, &s.horder, fill),
        habsent: hdr_instance(r, &s.habsent, fill),
        expsw,
    }
}

// ------------------------------------------------------------------ ops

fn emit_ttl(ctx: &mut Ctx, o: &Ttl, s: &Ttl) {
    let mut l = Line::op("C12.ttl");
    w_ttl(&mut l, o);
    w_ttl(&mut l, s);
    let (o2, s2) = (o.clone(), s.clone());
    let out = guarded(move || show_dist(o2.distance_ttl(&s2)));
    ctx.emit(l.finish(&out));
}
fn emit_win(ctx: &mut Ctx, o: &WindowSize, s: &WindowSize, mss: Option<u16>) {
    let mut l = Line::op("C12.win");
    w_win(&mut l, o);
    w_win(&mut l, s);
    w_on(&mut l, &mss);
    let (o2, s2) = (o.clone(), s.clone());
    let out = guarded(move || show_dist(o2.distance_window_size(&s2, mss)));
    ctx.emit(l.finish(&out));
}
pub fn tcp_dq(s: &tcp::Signature, o: &TcpObservation) -> String {
    let (s2, o2) = (s.clone(), o.clone());
    guarded(move || match s2.calculate_distance(&o2) {
        None => "none".to_string(),
        Some(d) => format!("{} {}", d, s2.get_quality_score(d)),
    })
}
fn emit_tcp(ctx: &mut Ctx, s: &tcp::Signature, o: &TcpObservation) {
    let mut l = Line::op("C12.tcp");
    w_tcp_sig(&mut l, s);
    w_tcp_sig(&mut l, &obs_as_sig(o));
    ctx.emit(l.finish(&tcp_dq(s, o)));
}
fn emit_hdr(ctx: &mut Ctx, o: &[Header], s: &[Header]) {
    let mut l = Line::op("C12.hdr");
    l.list(o, |l, h| w_header(l, h));
    l.list(s, |l, h| w_header(l, h));
    let (o2, s2) = (o.to_vec(), s.to_vec());
    let out = guarded(move || {
        let a = <HttpRequestObservation as HttpDistance>::distance_header(&o2, &s2);
        let b = <HttpResponseObservation as HttpDistance>::distance_header(&o2, &s2);
        if a == b {
            show_dist(a)
        } else {
            format!("DIFF request={} response={}", show_dist(a), show_dist(b))
        }
    });
    ctx.emit(l.finish(&out));
}
fn emit_expsw(ctx: &mut Ctx, o: &str, s: &str) {
    let mut l = Line::op("C12.expsw");
    l.text(o).text(s);
    let sig = http::Signature { version: Version::Any, horder: vec![], habsent: vec![], expsw: s.to_string() };
    let obs = http::Signature { version: Version::V11, horder: vec![], habsent: vec![], expsw: o.to_string() };
    let out = guarded(move || {
        let a = http_req(&obs).distance_expsw(&sig);
        let b = http_resp(&obs).distance_expsw(&sig);
        if a == b {
            show_dist(a)
        } else {
            format!("DIFF request={} response={}", show_dist(a), show_dist(b))
        }
    });
    ctx.emit(l.finish(&out));
}
pub fn http_dq(s: &http::Signature, o: &http::Signature) -> String {
    let (s2, o2) = (s.clone(), o.clone());
    guarded(move || {
        let rq = http_req(&o2);
        let rs = http_resp(&o2);
        let a = <http::Signature as DatabaseSignature<HttpRequestObservation>>::calculate_distance(&s2, &rq);
        let b = <http::Signature as DatabaseSignature<HttpResponseObservation>>::calculate_distance(&s2, &rs);
        if a != b {
            return format!("DIFF request={} response={}", show_dist(a), show_dist(b));
        }
        match a {
            None => "none".to_string(),
            Some(d) => {
                let qa = <http::Signature as DatabaseSignature<HttpRequestObservation>>::get_quality_score(&s2, d);
                let qb = <http::Signature as DatabaseSignature<HttpResponseObservation>>::get_quality_score(&s2, d);
                if qa.to_bits() != qb.to_bits() {
                    return format!("DIFF quality request={qa} response={qb}");
                }
                format!("{d} {qa}")
            }
        }
    })
}
fn emit_http(ctx: &mut Ctx, s: &http::Signature, o: &http::Signature) {
    let mut l = Line::op("C12.http");
    w_http_sig(&mut l, s);
    w_http_sig(&mut l, o);
    ctx.emit(l.finish(&http_dq(s, o)));
}
fn emit_score(ctx: &mut Ctx, which: u8, d: u32) {
    let mut l = Line::op("C12.score");
    l.nat(which).nat(d);
    let out = guarded(move || {
        let f = |x: u32| if which == 0 { TcpMatchQuality::distance_to_score(x) } else { HttpMatchQuality::distance_to_score(x) };
        match d.checked_add(1) {
            Some(n) => format!("{} {}", f(d), f(n)),
            None => format!("{} -", f(d)),
        }
    });
    ctx.emit(l.finish(&out));
}
fn emit_simple(ctx: &mut Ctx) {
    let vs = [IpVersion::V4, IpVersion::V6, IpVersion::Any];
    for o in &vs {
        for s in &vs {
            let mut l = Line::op("C12.ipv");
            w_ipv(&mut l, o);
            w_ipv(&mut l, s);
            let (o2, s2) = (*o, *s);
            ctx.emit(l.finish(&guarded(move || show_dist(o2.distance_ip_version(&s2)))));
        }
    }
    let ps = [PayloadSize::Zero, PayloadSize::NonZero, PayloadSize::Any];
    for o in &ps {
        for s in &ps {
            let mut l = Line::op("C12.pay");
            w_pay(&mut l, o);
            w_pay(&mut l, s);
            let (o2, s2) = (*o, *s);
            ctx.emit(l.finish(&guarded(move || show_dist(o2.distance_payload_size(&s2)))));
        }
    }
}

fn h(opt: bool, name: &str, value: Option<&str>) -> Header {
    Header { optional: opt, name: name.to_string(), value: value.map(|v| v.to_string()) }
}

fn base_tcp() -> tcp::Signature {
    tcp::Signature {
        version: IpVersion::Any,
        ittl: Ttl::Value(64),
        olen: 0,
        mss: None,
        wsize: WindowSize::Any,
        wscale: None,
        olayout: vec![TcpOption::Mss, TcpOption::Sok, TcpOption::TS, TcpOption::Nop, TcpOption::Ws],
        quirks: vec![Quirk::Df, Quirk::NonZeroID],
        pclass: PayloadSize::Zero,
    }
}

/// Witnesses of the known findings (and of their neighbours that must *not* fail), always first.
fn corpus(ctx: &mut Ctx) {
    // expsw: containment is reversed
    emit_expsw(ctx, "Mozilla Foo/1.0", "Foo");
    emit_expsw(ctx, "oo", "Foo");
    emit_expsw(ctx, "Foo", "Foo");
    emit_expsw(ctx, "anything", "");
    emit_expsw(ctx, "", "");
    // greedy walk with a repeated name: ?A,A,?B,B,?C,C against A,B,C
    let sig = vec![h(true, "A", None), h(false, "A", None), h(true, "B", None), h(false, "B", None), h(true, "C", None), h(false, "C", None)];
    let obs = vec![h(false, "A", None), h(false, "B", None), h(false, "C", None)];
    emit_hdr(ctx, &obs, &sig);
    emit_hdr(ctx, &[h(false, "A", None)], &[h(true, "A", None), h(false, "A", None)]);
    // value wildcard: signature headers without a value against observed values
    let sig = vec![h(false, "A", None), h(false, "B", None), h(false, "C", None)];
    let obs = vec![h(false, "A", Some("x")), h(false, "B", Some("x")), h(false, "C", Some("x"))];
    emit_hdr(ctx, &obs, &sig);
    // window forms
    emit_win(ctx, &WindowSize::Mod(4096), &WindowSize::Mod(1024), Some(1460));
    emit_win(ctx, &WindowSize::Value(8192), &WindowSize::Mod(1024), Some(1460));
    emit_win(ctx, &WindowSize::Value(2921), &WindowSize::Mss(2), Some(1460));
    emit_win(ctx, &WindowSize::Value(2920), &WindowSize::Mss(2), Some(1460));
    // whole signatures around the same classes
    let mut s = base_tcp();
    s.wsize = WindowSize::Mod(1024);
    let mut o = sig_as_obs(&s);
    o.version = IpVersion::V4;
    o.ittl = Ttl::Distance(57, 7);
    o.mss = Some(1460);
    o.wsize = WindowSize::Mod(4096);
    emit_tcp(ctx, &s, &o);
    o.wsize = WindowSize::Value(8192);
    emit_tcp(ctx, &s, &o);
    s.wsize = WindowSize::Mss(2);
    o.wsize = WindowSize::Value(2921);
    emit_tcp(ctx, &s, &o);
    let hs = http::Signature {
        version: Version::Any,
        horder: vec![h(false, "Host", None), h(false, "User-Agent", None), h(true, "Accept-Language", None)],
        habsent: vec![],
        expsw: "Firefox/".into(),
    };
    let ho = http::Signature {
        version: Version::V11,
        horder: vec![h(false, "Host", None), h(false, "User-Agent", None)],
        habsent: vec![],
        expsw: "Mozilla/5.0 Firefox/3.6".into(),
    };
    emit_http(ctx, &hs, &ho);
}

fn ttl_forms(f: u8, a: u8, b: u8) -> Ttl {
    match f {
        0 => Ttl::Value(a),
        1 => Ttl::Distance(a, b),
        2 => Ttl::Guess(a),
        _ => Ttl::Bad(a),
    }
}

fn ttl_pairs(ctx: &mut Ctx) {
    let thorough = ctx.tier == crate::Tier::Thorough;
    let dom: Vec<u8> = if thorough { (0..=255u8).collect() } else { U8B.to_vec() };
    for fo in 0..4u8 {
        for fs in 0..4u8 {
            match (fo == 1, fs == 1) {
                (false, false) => {
                    for &a in &dom {
                        for &b in &dom {
                            emit_ttl(ctx, &ttl_forms(fo, a, 0), &ttl_forms(fs, b, 0));
                        }
                    }
                }
                (true, false) | (false, true) => {
                    // one side is t+d: all (t, d); the single value on the other side around t+d
                    for &a in &dom {
                        for &b in &dom {
                            let sum = a.saturating_add(b);
                            let mut others = vec![sum, sum.wrapping_add(1), sum.wrapping_sub(1), a, b, a.wrapping_add(b)];
                            others.sort();
                            others.dedup();
                            for c in others {
                                if fo == 1 {
                                    emit_ttl(ctx, &Ttl::Distance(a, b), &ttl_forms(fs, c, 0));
                                } else {
                                    emit_ttl(ctx, &ttl_forms(fo, c, 0), &Ttl::Distance(a, b));
                                }
                            }
                        }
                    }
                }
                (true, true) => {
                    for &a in &dom {
                        for &b in &dom {
                            for (c, d) in [(a, b), (a.wrapping_add(1), b), (a, b.wrapping_add(1)), (b, a), (a.wrapping_add(1), b.wrapping_sub(1))] {
                                emit_ttl(ctx, &Ttl::Distance(a, b), &Ttl::Distance(c, d));
                            }
                        }
                    }
                }
            }
        }
    }
}

fn win_form(f: u8, a: u16) -> WindowSize {
    match f {
        0 => WindowSize::Mss(a as u8),
        1 => WindowSize::Mtu(a as u8),
        2 => WindowSize::Value(a),
        3 => WindowSize::Mod(a),
        _ => WindowSize::Any,
    }
}

fn win_pairs(ctx: &mut Ctx) {
    let thorough = ctx.tier == crate::Tier::Thorough;
    let small: Vec<u16> = vec![0, 1, 2, 3, 4, 10, 20, 44, 45, 255];
    let dom = |f: u8| -> Vec<u16> {
        match f {
            0 | 1 => small.clone(),
            2 | 3 => U16B.to_vec(),
            _ => vec![0],
        }
    };
    let msss: Vec<Option<u16>> = std::iter::once(None).chain(MSSB.iter().map(|m| Some(*m))).collect();
    for fo in 0..5u8 {
        for fs in 0..5u8 {
            for &a in &dom(fo) {
                for &b in &dom(fs) {
                    for m in &msss {
                        emit_win(ctx, &win_form(fo, a), &win_form(fs, b), *m);
                    }
                }
            }
        }
    }
    // raw value against mss*n: every multiplier for boundary MSS values, exact multiple and its neighbours
    for &m in &[1u16, 100, 536, 1440, 1460, 65535] {
        for n in 0..=255u16 {
            let exact = n as u32 * m as u32;
            for w in [exact.wrapping_sub(1), exact, exact + 1, exact + m as u32 - 1, exact + m as u32] {
                if w <= 65535 {
                    emit_win(ctx, &WindowSize::Value(w as u16), &WindowSize::Mss(n as u8), Some(m));
                }
            }
        }
    }
    // raw value / modulus against %n
    for &n in &[0u16, 1, 3, 256, 512, 1024, 4096, 8192, 32768] {
        for k in [0u32, 1, 2, 3, 4, 8, 15, 16, 63, 64, 255] {
            let w = k * n as u32;
            for w in [w, w + 1, w.wrapping_sub(1)] {
                if w <= 65535 {
                    emit_win(ctx, &WindowSize::Value(w as u16), &WindowSize::Mod(n), Some(1460));
                    emit_win(ctx, &WindowSize::Mod(w as u16), &WindowSize::Mod(n), None);
                }
            }
        }
    }
    if thorough {
        // all 65 536 raw windows against mss*n for n = floor, floor±1 and a boundary set of MSS values
        for w in 0..=65535u16 {
            for &m in &[0u16, 1, 536, 1460] {
                let f: u32 = if m == 0 { 0 } else { (w / m) as u32 };
                for n in [f, f + 1, f.wrapping_sub(1)] {
                    if n <= 255 {
                        emit_win(ctx, &WindowSize::Value(w), &WindowSize::Mss(n as u8), Some(m));
                    }
                }
            }
            emit_win(ctx, &WindowSize::Value(w), &WindowSize::Mod(1024), Some(1460));
            emit_win(ctx, &WindowSize::Value(w), &WindowSize::Value(w ^ 1), None);
        }
    }
}

/// All header lists of length <= `max` over the given alphabet.
fn all_lists(alpha: &[Header], max: usize) -> Vec<Vec<Header>> {
    let mut out: Vec<Vec<Header>> = vec![vec![]];
    let mut layer: Vec<Vec<Header>> = vec![vec![]];
    for _ in 0..max {
        let mut next = vec![];
        for l in &layer {
            for a in alpha {
                let mut v = l.clone();
                v.push(a.clone());
                next.push(v);
            }
        }
        out.extend(next.iter().cloned());
        layer = next;
    }
    out
}

fn hdr_pairs(ctx: &mut Ctx, r: &mut Rng) {
    let thorough = ctx.tier == crate::Tier::Thorough;
    // exhaustive part: 3 names; signature headers with optional mark x value {none, x};
    // observed headers with value {none, x, y}
    let mut sig_alpha = vec![];
    let mut obs_alpha = vec![];
    for n in ["A", "B", "C"] {
        for opt in [false, true] {
            for v in [None, Some("x")] {
                sig_alpha.push(h(opt, n, v));
            }
        }
        for v in [None, Some("x"), Some("y")] {
            obs_alpha.push(h(false, n, v));
        }
    }
    let (so, oo) = if thorough { (3, 3) } else { (2, 2) };
    let sigs = all_lists(&sig_alpha, so);
    let obss = all_lists(&obs_alpha, oo);
    for s in &sigs {
        for o in &obss {
            emit_hdr(ctx, o, s);
        }
    }
    // structured part: signature lists up to length 5 (3-name alphabet, or distinct names), their
    // instances, and instances with one edit
    let n = ctx.n(6000, 150_000);
    for i in 0..n {
        let distinct = i % 3 != 0;
        let max = if i % 7 == 0 { 14 } else { 5 };
        let s = gen_sig_headers(r, max, distinct);
        let fill = r.chance(1, 4);
        let mut o = hdr_instance(r, &s, fill);
        match r.below(4) {
            0 => {}
            1 | 2 => hdr_mutate(r, &mut o),
            _ => {
                hdr_mutate(r, &mut o);
                hdr_mutate(r, &mut o);
            }
        }
        emit_hdr(ctx, &o, &s);
    }
    // error bands: k unknown headers against k' required ones, all k, k' up to 14
    for k in 0..=14usize {
        for k2 in 0..=14usize {
            let o: Vec<Header> = (0..k).map(|j| Header::new(format!("O{j}"))).collect();
            let s: Vec<Header> = (0..k2).map(|j| Header::new(format!("S{j}"))).collect();
            emit_hdr(ctx, &o, &s);
        }
    }
}

pub fn run(ctx: &mut Ctx) {
    let mut r = ctx.rng.fork();
    corpus(ctx);
    emit_simple(ctx);
    // score tables: 0..64, the edges of MAX_DISTANCE, the u32 extremes
    for which in 0..2u8 {
        let mut ds: Vec<u32> = (0..=64).collect();
        ds.extend([1 << 31, u32::MAX - 1, u32::MAX, 65535, 65536, 255, 256]);
        for d in ds {
            emit_score(ctx, which, d);
        }
    }
    ttl_pairs(ctx);
    win_pairs(ctx);
    // software strings: all pairs of the pool
    for o in &SW {
        for s in &SW {
            emit_expsw(ctx, o, s);
        }
    }
    hdr_pairs(ctx, &mut r);
    // whole TCP signatures: instance, then one or two single-field changes
    let n = ctx.n(8000, 200_000);
    for i in 0..n {
        let s = gen_tcp_sig(&mut r);
        let mut o = tcp_instance(&mut r, &s);
        match i % 4 {
            0 => {}
            1 | 2 => {
                tcp_mutate(&mut r, &mut o);
            }
            _ => {
                tcp_mutate(&mut r, &mut o);
                tcp_mutate(&mut r, &mut o);
            }
        }
        emit_tcp(ctx, &s, &o);
    }
    // whole HTTP signatures
    let vs = [Version::V10, Version::V11, Version::V20, Version::V30, Version::Any];
    let n = ctx.n(6000, 150_000);
    for i in 0..n {
        let s = gen_http_sig(&mut r, &vs);
        let mut o = http_instance(&mut r, &s, &vs[..4]);
        match i % 4 {
            0 => {}
            1 => hdr_mutate(&mut r, &mut o.horder),
            2 => {
                o.version = *r.pick(&vs[..4]);
            }
            _ => {
                o.expsw = r.pick(&SW).to_string();
                if r.chance(1, 2) {
                    hdr_mutate(&mut r, &mut o.habsent);
                }
            }
        }
        emit_http(ctx, &s, &o);
    }
}
