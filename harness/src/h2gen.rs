//! Shared HTTP/2 input construction for C16/C17: frame serialiser, an HPACK *encoder* written from
//! RFC 7541 (static table of Appendix A, canonical Huffman code of Appendix B, integer and string
//! codecs, dynamic table bookkeeping), header-block framings (PADDED / PRIORITY / CONTINUATION).
//! Nothing here calls the crates under test.
#![allow(dead_code)]
use crate::rng::Rng;
use std::collections::VecDeque;

pub const PREFACE: &[u8] = b"PRI * HTTP/2.0\r\n\r\nSM\r\n\r\n";

pub const T_DATA: u8 = 0;
pub const T_HEADERS: u8 = 1;
pub const T_PRIORITY: u8 = 2;
pub const T_RST: u8 = 3;
pub const T_SETTINGS: u8 = 4;
pub const T_PUSH: u8 = 5;
pub const T_PING: u8 = 6;
pub const T_GOAWAY: u8 = 7;
pub const T_WINDOW: u8 = 8;
pub const T_CONT: u8 = 9;

pub const F_END_STREAM: u8 = 0x1;
pub const F_END_HEADERS: u8 = 0x4;
pub const F_PADDED: u8 = 0x8;
pub const F_PRIORITY: u8 = 0x20;

#[derive(Clone, Debug)]
pub struct GFrame {
    pub ty: u8,
    pub flags: u8,
    /// 32 bits as on the wire (reserved bit included)
    pub sid: u32,
    pub payload: Vec<u8>,
}

impl GFrame {
    pub fn new(ty: u8, flags: u8, sid: u32, payload: Vec<u8>) -> Self {
        GFrame { ty, flags, sid, payload }
    }
    pub fn ser_into(&self, out: &mut Vec<u8>) {
        let n = self.payload.len() as u32;
        out.extend_from_slice(&[(n >> 16) as u8, (n >> 8) as u8, n as u8, self.ty, self.flags]);
        out.extend_from_slice(&self.sid.to_be_bytes());
        out.extend_from_slice(&self.payload);
    }
    /// header announcing `declared` payload octets but carrying `self.payload` (for truncation / lies)
    pub fn ser_lying(&self, declared: u32, out: &mut Vec<u8>) {
        out.extend_from_slice(&[(declared >> 16) as u8, (declared >> 8) as u8, declared as u8, self.ty, self.flags]);
        out.extend_from_slice(&self.sid.to_be_bytes());
        out.extend_from_slice(&self.payload);
    }
}

pub fn ser(frames: &[GFrame], preface: bool) -> Vec<u8> {
    let mut out = Vec::new();
    if preface {
        out.extend_from_slice(PREFACE);
    }
    for f in frames {
        f.ser_into(&mut out);
    }
    out
}

// ------------------------------------------------------------------------------------------ HPACK

/// RFC 7541 Appendix A
pub const STATIC: [(&str, &str); 61] = [
    (":authority", ""),
    (":method", "GET"),
    (":method", "POST"),
    (":path", "/"),
    (":path", "/index.html"),
    (":scheme", "http"),
    (":scheme", "https"),
    (":status", "200"),
    (":status", "204"),
    (":status", "206"),
    (":status", "304"),
    (":status", "400"),
    (":status", "404"),
    (":status", "500"),
    ("accept-charset", ""),
    ("accept-encoding", "gzip, deflate"),
    ("accept-language", ""),
    ("accept-ranges", ""),
    ("accept", ""),
    ("access-control-allow-origin", ""),
    ("age", ""),
    ("allow", ""),
    ("authorization", ""),
    ("cache-control", ""),
    ("content-disposition", ""),
    ("content-encoding", ""),
    ("content-language", ""),
    ("content-length", ""),
    ("content-location", ""),
    ("content-range", ""),
    ("content-type", ""),
    ("cookie", ""),
    ("date", ""),
    ("etag", ""),
    ("expect", ""),
    ("expires", ""),
    ("from", ""),
    ("host", ""),
    ("if-match", ""),
    ("if-modified-since", ""),
    ("if-none-match", ""),
    ("if-range", ""),
    ("if-unmodified-since", ""),
    ("last-modified", ""),
    ("link", ""),
    ("location", ""),
    ("max-forwards", ""),
    ("proxy-authenticate", ""),
    ("proxy-authorization", ""),
    ("range", ""),
    ("referer", ""),
    ("refresh", ""),
    ("retry-after", ""),
    ("server", ""),
    ("set-cookie", ""),
    ("strict-transport-security", ""),
    ("transfer-encoding", ""),
    ("user-agent", ""),
    ("vary", ""),
    ("via", ""),
    ("www-authenticate", ""),
];

/// RFC 7541 Appendix B: code lengths per symbol (256 = EOS); the code itself is the canonical
/// Huffman code of these lengths (symbols ordered by (length, value)).
pub const HUFF_LEN: [u8; 257] = [
    13, 23, 28, 28, 28, 28, 28, 28, 28, 24, 30, 28, 28, 30, 28, 28, 28, 28, 28, 28, 28, 28, 30, 28, 28, 28, 28, 28,
    28, 28, 28, 28, 6, 10, 10, 12, 13, 6, 8, 11, 10, 10, 8, 11, 8, 6, 6, 6, 5, 5, 5, 6, 6, 6, 6, 6, 6, 6, 7, 8, 15,
    6, 12, 10, 13, 6, 7, 7, 7, 7, 7, 7, 7, 7, 7, 7, 7, 7, 7, 7, 7, 7, 7, 7, 7, 7, 7, 7, 8, 7, 8, 13, 19, 13, 14, 6,
    15, 5, 6, 5, 6, 5, 6, 6, 6, 5, 7, 7, 6, 6, 6, 5, 6, 7, 6, 5, 5, 6, 7, 7, 7, 7, 7, 15, 11, 14, 13, 28, 20, 22,
    20, 20, 22, 22, 22, 23, 22, 23, 23, 23, 23, 23, 24, 23, 24, 24, 22, 23, 24, 23, 23, 23, 23, 21, 22, 23, 22, 23,
    23, 24, 22, 21, 20, 22, 22, 23, 23, 21, 23, 22, 22, 24, 21, 22, 23, 23, 21, 21, 22, 21, 23, 22, 23, 23, 20, 22,
    22, 22, 23, 22, 22, 23, 26, 26, 20, 19, 22, 23, 22, 25, 26, 26, 26, 27, 27, 26, 24, 25, 19, 21, 26, 27, 27, 26,
    27, 24, 21, 21, 26, 26, 28, 27, 27, 27, 20, 24, 20, 21, 22, 21, 21, 23, 22, 22, 25, 25, 24, 24, 26, 23, 26, 27,
    26, 26, 27, 27, 27, 27, 27, 28, 27, 27, 27, 27, 27, 26, 30,
];

pub fn huff_codes() -> Vec<(u32, u8)> {
    let mut syms: Vec<usize> = (0..257).collect();
    syms.sort_by_key(|&s| (HUFF_LEN[s], s));
    let mut out = vec![(0u32, 0u8); 257];
    let mut code: u32 = 0;
    let mut prev = HUFF_LEN[syms[0]];
    for (i, &s) in syms.iter().enumerate() {
        let l = HUFF_LEN[s];
        if i > 0 {
            code = (code + 1) << (l - prev);
        }
        prev = l;
        out[s] = (code, l);
    }
    out
}

#[derive(Clone, Copy, PartialEq, Eq, Debug)]
pub enum Pad {
    /// most significant bits of EOS (all ones), as RFC 7541 §5.2 demands
    Eos,
    /// zeros (invalid)
    Zeros,
    /// a whole extra octet of ones (padding longer than 7 bits, invalid)
    ExtraOctet,
    /// the full 30-bit EOS symbol followed by regular padding (invalid)
    EosSymbol,
}

struct BitW {
    acc: u64,
    n: u32,
    out: Vec<u8>,
}
impl BitW {
    fn push(&mut self, code: u32, len: u8) {
        self.acc = (self.acc << len) | code as u64;
        self.n += len as u32;
        while self.n >= 8 {
            self.out.push((self.acc >> (self.n - 8)) as u8);
            self.n -= 8;
            self.acc &= (1u64 << self.n) - 1;
        }
    }
}

pub fn huff_encode(codes: &[(u32, u8)], s: &[u8], pad: Pad) -> Vec<u8> {
    let mut w = BitW { acc: 0, n: 0, out: Vec::new() };
    for &b in s {
        let (c, l) = codes[b as usize];
        w.push(c, l);
    }
    if pad == Pad::EosSymbol {
        let (c, l) = codes[256];
        w.push(c, l);
    }
    if w.n > 0 {
        let rem = 8 - w.n;
        let fill = if pad == Pad::Zeros { 0 } else { (1u32 << rem) - 1 };
        w.push(fill, rem as u8);
    }
    if pad == Pad::ExtraOctet {
        w.out.push(0xff);
    }
    w.out
}

/// RFC 7541 §5.1; `extra` appends that many redundant continuation octets (`0x80 … 0x00`), which
/// the RFC allows a decoder to accept or to reject beyond an implementation limit.
pub fn enc_int(out: &mut Vec<u8>, prefix_bits: u8, top: u8, mut v: usize, extra: usize) {
    let max = (1usize << prefix_bits) - 1;
    if v < max && extra == 0 {
        out.push(top | v as u8);
        return;
    }
    if v < max {
        // non-minimal form is not expressible for small values without changing the value
        out.push(top | v as u8);
        return;
    }
    out.push(top | max as u8);
    v -= max;
    while v >= 128 {
        out.push((v % 128) as u8 | 0x80);
        v /= 128;
    }
    if extra == 0 {
        out.push(v as u8);
    } else {
        out.push(v as u8 | 0x80);
        for _ in 1..extra {
            out.push(0x80);
        }
        out.push(0x00);
    }
}

pub fn enc_str(out: &mut Vec<u8>, codes: &[(u32, u8)], s: &[u8], huff: bool, pad: Pad) {
    if huff {
        let h = huff_encode(codes, s, pad);
        enc_int(out, 7, 0x80, h.len(), 0);
        out.extend_from_slice(&h);
    } else {
        enc_int(out, 7, 0x00, s.len(), 0);
        out.extend_from_slice(s);
    }
}

#[derive(Clone, Copy, PartialEq, Eq, Debug)]
pub enum Mode {
    Incremental,
    Without,
    Never,
}

pub type Hdr = (Vec<u8>, Vec<u8>);

/// Encoder-side HPACK context (RFC 7541 §2.3, §4): mirrors what a conforming decoder holds.
#[derive(Clone)]
pub struct Enc {
    pub dynamic: VecDeque<Hdr>,
    pub size: usize,
    pub max: usize,
    pub codes: Vec<(u32, u8)>,
}

/// knobs for one header block
#[derive(Clone, Copy)]
pub struct EncOpts {
    /// per mille probabilities
    pub p_indexed: u64,
    pub p_name_ref: u64,
    pub p_huff: u64,
    pub p_incremental: u64,
    pub p_never: u64,
    pub p_size_update: u64,
    /// allow index 15 (`accept-charset` in the RFC, `accept-` in the crate under test)
    pub allow_idx15: bool,
}

impl EncOpts {
    pub fn mixed() -> Self {
        EncOpts { p_indexed: 800, p_name_ref: 700, p_huff: 400, p_incremental: 400, p_never: 150, p_size_update: 100, allow_idx15: false }
    }
    pub fn plain() -> Self {
        EncOpts { p_indexed: 0, p_name_ref: 0, p_huff: 0, p_incremental: 0, p_never: 0, p_size_update: 0, allow_idx15: false }
    }
}

impl Enc {
    pub fn new() -> Self {
        Enc { dynamic: VecDeque::new(), size: 0, max: 4096, codes: huff_codes() }
    }
    fn evict(&mut self) {
        while self.size > self.max {
            if let Some((n, v)) = self.dynamic.pop_back() {
                self.size -= n.len() + v.len() + 32;
            } else {
                break;
            }
        }
    }
    pub fn insert(&mut self, h: Hdr) {
        let sz = h.0.len() + h.1.len() + 32;
        if sz > self.max {
            self.dynamic.clear();
            self.size = 0;
            return;
        }
        self.size += sz;
        self.dynamic.push_front(h);
        self.evict();
    }
    pub fn set_max(&mut self, m: usize) {
        self.max = m;
        self.evict();
    }
    pub fn get(&self, idx: usize) -> Option<Hdr> {
        if idx == 0 {
            None
        } else if idx <= 61 {
            let (n, v) = STATIC[idx - 1];
            Some((n.as_bytes().to_vec(), v.as_bytes().to_vec()))
        } else {
            self.dynamic.get(idx - 62).cloned()
        }
    }
    /// all (index, full match?) candidates for a header
    fn candidates(&self, h: &Hdr, allow15: bool) -> (Vec<usize>, Vec<usize>) {
        let mut full = Vec::new();
        let mut name = Vec::new();
        for i in 1..=61 + self.dynamic.len() {
            if i == 15 && !allow15 {
                continue;
            }
            let e = self.get(i).unwrap();
            if e.0 == h.0 {
                name.push(i);
                if e.1 == h.1 {
                    full.push(i);
                }
            }
        }
        (full, name)
    }

    /// encode one header with randomly chosen (valid) representation; updates the context
    pub fn encode_header(&mut self, r: &mut Rng, o: &EncOpts, h: &Hdr, out: &mut Vec<u8>) {
        let (full, name) = self.candidates(h, o.allow_idx15);
        if !full.is_empty() && r.chance(o.p_indexed, 1000) {
            enc_int(out, 7, 0x80, *r.pick(&full), 0);
            return;
        }
        let mode = if r.chance(o.p_incremental, 1000) {
            Mode::Incremental
        } else if r.chance(o.p_never, 1000) {
            Mode::Never
        } else {
            Mode::Without
        };
        let (bits, top) = match mode {
            Mode::Incremental => (6, 0x40),
            Mode::Without => (4, 0x00),
            Mode::Never => (4, 0x10),
        };
        if !name.is_empty() && r.chance(o.p_name_ref, 1000) {
            enc_int(out, bits, top, *r.pick(&name), 0);
        } else {
            enc_int(out, bits, top, 0, 0);
            let hf = r.chance(o.p_huff, 1000);
            enc_str(out, &self.codes.clone(), &h.0, hf, Pad::Eos);
        }
        let hf = r.chance(o.p_huff, 1000);
        enc_str(out, &self.codes.clone(), &h.1, hf, Pad::Eos);
        if mode == Mode::Incremental {
            self.insert(h.clone());
        }
    }

    /// encode a header list as one block
    pub fn encode_block(&mut self, r: &mut Rng, o: &EncOpts, hs: &[Hdr]) -> Vec<u8> {
        let mut out = Vec::new();
        if r.chance(o.p_size_update, 1000) {
            // RFC 7541 §4.2: size updates occur at the beginning of a block
            let n = match r.below(4) {
                0 => 0,
                1 => 4096,
                2 => r.below(200) as usize,
                _ => r.below(4097) as usize,
            };
            enc_int(&mut out, 5, 0x20, n, 0);
            self.set_max(n);
            if r.chance(1, 3) {
                enc_int(&mut out, 5, 0x20, 4096, 0);
                self.set_max(4096);
            }
        }
        for h in hs {
            self.encode_header(r, o, h, &mut out);
        }
        out
    }
}

pub fn h(n: &str, v: &str) -> Hdr {
    (n.as_bytes().to_vec(), v.as_bytes().to_vec())
}

// ------------------------------------------------------------------------------- header framings

#[derive(Clone, Debug)]
pub struct Framing {
    pub sid: u32,
    pub end_stream: bool,
    /// `Some(n)`: PADDED with n padding octets
    pub pad: Option<u8>,
    /// `Some((exclusive, dependency, weight))`: PRIORITY flag with these fields
    pub prio: Option<(bool, u32, u8)>,
    /// cut points inside the block (sorted, may repeat = empty CONTINUATION); k cuts → k CONTINUATIONs
    pub cuts: Vec<usize>,
    /// extra flag bits OR-ed into the HEADERS frame (undefined bits)
    pub extra_flags: u8,
    /// drop END_HEADERS on the last frame (incomplete block)
    pub unterminated: bool,
}

impl Framing {
    pub fn plain(sid: u32) -> Self {
        Framing { sid, end_stream: true, pad: None, prio: None, cuts: vec![], extra_flags: 0, unterminated: false }
    }
}

/// HEADERS (+ CONTINUATION…) frames carrying `block`
pub fn frame_block(block: &[u8], f: &Framing) -> Vec<GFrame> {
    let mut cuts: Vec<usize> = f.cuts.iter().map(|&c| c.min(block.len())).collect();
    cuts.sort();
    let mut pieces: Vec<&[u8]> = Vec::new();
    let mut prev = 0;
    for &c in &cuts {
        pieces.push(&block[prev..c]);
        prev = c;
    }
    pieces.push(&block[prev..]);
    let mut out = Vec::new();
    let last = pieces.len() - 1;
    for (i, p) in pieces.iter().enumerate() {
        let mut flags = 0u8;
        if i == last && !f.unterminated {
            flags |= F_END_HEADERS;
        }
        if i == 0 {
            let mut payload = Vec::new();
            if f.end_stream {
                flags |= F_END_STREAM;
            }
            flags |= f.extra_flags & !(F_END_HEADERS | F_PADDED | F_PRIORITY | F_END_STREAM);
            if let Some(n) = f.pad {
                flags |= F_PADDED;
                payload.push(n);
            }
            if let Some((e, dep, w)) = f.prio {
                flags |= F_PRIORITY;
                let d = (dep & 0x7fff_ffff) | if e { 0x8000_0000 } else { 0 };
                payload.extend_from_slice(&d.to_be_bytes());
                payload.push(w);
            }
            payload.extend_from_slice(p);
            if let Some(n) = f.pad {
                payload.extend(std::iter::repeat(0u8).take(n as usize));
            }
            out.push(GFrame::new(T_HEADERS, flags, f.sid, payload));
        } else {
            out.push(GFrame::new(T_CONT, flags, f.sid, p.to_vec()));
        }
    }
    out
}

pub fn settings_frame(pairs: &[(u16, u32)]) -> GFrame {
    let mut p = Vec::new();
    for (id, v) in pairs {
        p.extend_from_slice(&id.to_be_bytes());
        p.extend_from_slice(&v.to_be_bytes());
    }
    GFrame::new(T_SETTINGS, 0, 0, p)
}
pub fn window_frame(sid: u32, inc: u32) -> GFrame {
    GFrame::new(T_WINDOW, 0, sid, inc.to_be_bytes().to_vec())
}
pub fn priority_frame(sid: u32, excl: bool, dep: u32, weight: u8) -> GFrame {
    let d = (dep & 0x7fff_ffff) | if excl { 0x8000_0000 } else { 0 };
    let mut p = d.to_be_bytes().to_vec();
    p.push(weight);
    GFrame::new(T_PRIORITY, 0, sid, p)
}
pub fn ping_frame() -> GFrame {
    GFrame::new(T_PING, 0, 0, vec![1, 2, 3, 4, 5, 6, 7, 8])
}

// ------------------------------------------------------------------------------------ mini JSON

#[derive(Debug, Clone)]
pub enum J {
    Null,
    Bool(bool),
    Num(f64),
    Str(String),
    Arr(Vec<J>),
    Obj(Vec<(String, J)>),
}

impl J {
    pub fn get(&self, k: &str) -> Option<&J> {
        match self {
            J::Obj(kv) => kv.iter().find(|(a, _)| a == k).map(|(_, v)| v),
            _ => None,
        }
    }
    pub fn arr(&self) -> &[J] {
        match self {
            J::Arr(v) => v,
            _ => &[],
        }
    }
    pub fn num(&self) -> Option<f64> {
        match self {
            J::Num(n) => Some(*n),
            _ => None,
        }
    }
    pub fn str(&self) -> Option<&str> {
        match self {
            J::Str(s) => Some(s),
            _ => None,
        }
    }
}

pub fn parse_json(s: &str) -> Option<J> {
    let b = s.as_bytes();
    let mut i = 0;
    let v = pj(b, &mut i)?;
    Some(v)
}
fn ws(b: &[u8], i: &mut usize) {
    while *i < b.len() && (b[*i] as char).is_whitespace() {
        *i += 1;
    }
}
fn pj(b: &[u8], i: &mut usize) -> Option<J> {
    ws(b, i);
    if *i >= b.len() {
        return None;
    }
    match b[*i] {
        b'{' => {
            *i += 1;
            let mut kv = Vec::new();
            loop {
                ws(b, i);
                if b.get(*i) == Some(&b'}') {
                    *i += 1;
                    break;
                }
                let k = match pj(b, i)? {
                    J::Str(s) => s,
                    _ => return None,
                };
                ws(b, i);
                if b.get(*i) != Some(&b':') {
                    return None;
                }
                *i += 1;
                let v = pj(b, i)?;
                kv.push((k, v));
                ws(b, i);
                if b.get(*i) == Some(&b',') {
                    *i += 1;
                }
            }
            Some(J::Obj(kv))
        }
        b'[' => {
            *i += 1;
            let mut v = Vec::new();
            loop {
                ws(b, i);
                if b.get(*i) == Some(&b']') {
                    *i += 1;
                    break;
                }
                v.push(pj(b, i)?);
                ws(b, i);
                if b.get(*i) == Some(&b',') {
                    *i += 1;
                }
            }
            Some(J::Arr(v))
        }
        b'"' => {
            *i += 1;
            let mut out = Vec::new();
            while *i < b.len() && b[*i] != b'"' {
                if b[*i] == b'\\' {
                    *i += 1;
                    match b.get(*i)? {
                        b'n' => out.push(b'\n'),
                        b'r' => out.push(b'\r'),
                        b't' => out.push(b'\t'),
                        b'u' => {
                            let hx = std::str::from_utf8(b.get(*i + 1..*i + 5)?).ok()?;
                            let c = char::from_u32(u32::from_str_radix(hx, 16).ok()?)?;
                            let mut buf = [0u8; 4];
                            out.extend_from_slice(c.encode_utf8(&mut buf).as_bytes());
                            *i += 4;
                        }
                        c => out.push(*c),
                    }
                } else {
                    out.push(b[*i]);
                }
                *i += 1;
            }
            *i += 1;
            Some(J::Str(String::from_utf8(out).ok()?))
        }
        b't' => {
            *i += 4;
            Some(J::Bool(true))
        }
        b'f' => {
            *i += 5;
            Some(J::Bool(false))
        }
        b'n' => {
            *i += 4;
            Some(J::Null)
        }
        _ => {
            let st = *i;
            while *i < b.len() && (b[*i] == b'-' || b[*i] == b'+' || b[*i] == b'.' || b[*i] == b'e' || b[*i] == b'E' || b[*i].is_ascii_digit()) {
                *i += 1;
            }
            std::str::from_utf8(&b[st..*i]).ok()?.parse::<f64>().ok().map(J::Num)
        }
    }
}

pub fn repo_root() -> String {
    std::env::var("VERIF_REPO").unwrap_or_else(|_| "/repo".to_string())
}
