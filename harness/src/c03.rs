//! C03 — TCP packets are rendered into the p0f signature their headers define.
//! Pure level: `ttl::calculate_ttl`, `window_size::detect_win_multiplicator`, the role / flag-sanity
//! predicates of `tcp_process`, `SignatureMatcher::matching_by_mtu`.
//! Packet level: IP packets assembled field by field → `process_ipv4_packet` / `process_ipv6_packet`
//! (fresh `TtlCache`, matcher `None`), output = structured signature tokens + the `Display` string.
use crate::rng::Rng;
use crate::wr::{guarded, hex, Line};
use crate::{Ctx, Tier};
use huginn_net_db::tcp::{IpVersion, PayloadSize, Quirk, TcpOption, Ttl, WindowSize};
use huginn_net_tcp::{ConnectionKey, HuginnNetTcpError, ObservableTcp, TcpAnalysisResult, TcpTimestamp};
use pnet::packet::ipv4::Ipv4Packet;
use pnet::packet::ipv6::Ipv6Packet;
use std::fmt::Write as _;
use std::sync::atomic::Ordering;
use ttl_cache::TtlCache;

// ------------------------------------------------------------------ token rendering (see Drv/C03.lean)

pub fn tok_ttl(t: &Ttl) -> String {
    match t {
        Ttl::Value(t) => format!("tv {t} 0"),
        Ttl::Distance(t, d) => format!("td {t} {d}"),
        Ttl::Guess(t) => format!("tg {t} 0"),
        Ttl::Bad(t) => format!("tb {t} 0"),
    }
}
pub fn tok_win(w: &WindowSize) -> String {
    match w {
        WindowSize::Mss(n) => format!("wm {n}"),
        WindowSize::Mtu(n) => format!("wt {n}"),
        WindowSize::Value(n) => format!("wv {n}"),
        WindowSize::Mod(n) => format!("wo {n}"),
        WindowSize::Any => "wa 0".to_string(),
    }
}
fn tok_opt<T: std::fmt::Display>(o: &Option<T>) -> String {
    match o {
        None => "0".into(),
        Some(v) => format!("1 {v}"),
    }
}
fn tok_layout(o: &TcpOption) -> String {
    match o {
        TcpOption::Eol(n) => format!("e{n}"),
        TcpOption::Nop => "n".into(),
        TcpOption::Mss => "m".into(),
        TcpOption::Ws => "w".into(),
        TcpOption::Sok => "k".into(),
        TcpOption::Sack => "a".into(),
        TcpOption::TS => "t".into(),
        TcpOption::Unknown(k) => format!("u{k}"),
    }
}
fn tok_sig(s: &ObservableTcp) -> String {
    let m = &s.matching;
    let mut out = String::new();
    let ver = match m.version {
        IpVersion::V4 => "4",
        IpVersion::V6 => "6",
        IpVersion::Any => "*",
    };
    write!(out, "{ver} {} {} {} {} {}", tok_ttl(&m.ittl), m.olen, tok_opt(&m.mss), tok_win(&m.wsize), tok_opt(&m.wscale)).unwrap();
    write!(out, " {}", m.olayout.len()).unwrap();
    for o in &m.olayout {
        write!(out, " {}", tok_layout(o)).unwrap();
    }
    write!(out, " {}", m.quirks.len()).unwrap();
    for q in &m.quirks {
        let q: &Quirk = q;
        write!(out, " {q}").unwrap();
    }
    let pc = match m.pclass {
        PayloadSize::Zero => "0",
        PayloadSize::NonZero => "+",
        PayloadSize::Any => "*",
    };
    write!(out, " {pc}").unwrap();
    // the Display string of the observation, as hex text
    write!(out, " {}", hex(s.to_string().as_bytes())).unwrap();
    out
}
fn tok_opt_sig(s: Option<&ObservableTcp>) -> String {
    match s {
        None => "0".into(),
        Some(s) => format!("1 {}", tok_sig(s)),
    }
}
pub fn tok_result(r: &Result<TcpAnalysisResult, HuginnNetTcpError>) -> String {
    match r {
        Err(HuginnNetTcpError::Parse(_)) => "err:parse".into(),
        Err(HuginnNetTcpError::UnsupportedProtocol(_)) => "err:proto".into(),
        Err(HuginnNetTcpError::UnexpectedPackage(_)) => "err:frag".into(),
        Err(HuginnNetTcpError::InvalidTcpFlags(_)) => "err:flags".into(),
        Err(HuginnNetTcpError::Misconfiguration(_)) => "err:misconfig".into(),
        Ok(r) => format!(
            "ok syn {} synack {} mtu {} up {}{}",
            tok_opt_sig(r.syn.as_ref().map(|s| &s.sig)),
            tok_opt_sig(r.syn_ack.as_ref().map(|s| &s.sig)),
            tok_opt(&r.mtu.as_ref().map(|m| m.mtu)),
            r.client_uptime.is_some() as u8,
            r.server_uptime.is_some() as u8
        ),
    }
}

// ------------------------------------------------------------------ frame assembly

#[derive(Clone)]
pub struct V4 {
    pub ihl: u8,
    pub dscp: u8,
    pub ecn: u8,
    pub total_len: Option<u16>,
    pub id: u16,
    pub flags: u8,
    pub frag: u16,
    pub ttl: u8,
    pub proto: u8,
    pub src: [u8; 4],
    pub dst: [u8; 4],
}
impl Default for V4 {
    fn default() -> Self {
        V4 { ihl: 5, dscp: 0, ecn: 0, total_len: None, id: 0x1234, flags: 2, frag: 0, ttl: 64, proto: 6, src: [10, 0, 0, 1], dst: [10, 0, 0, 2] }
    }
}
#[derive(Clone)]
pub struct V6 {
    pub tc: u8,
    pub flow: u32,
    pub payload_len: Option<u16>,
    pub next: u8,
    pub hop: u8,
    pub src: [u8; 16],
    pub dst: [u8; 16],
}
impl Default for V6 {
    fn default() -> Self {
        let mut s = [0u8; 16];
        s[0] = 0x20;
        s[1] = 0x01;
        s[15] = 1;
        let mut d = s;
        d[15] = 2;
        V6 { tc: 0, flow: 0, payload_len: None, next: 6, hop: 64, src: s, dst: d }
    }
}
#[derive(Clone)]
pub struct Tcp {
    pub sport: u16,
    pub dport: u16,
    pub seq: u32,
    pub ack: u32,
    /// None: derived from the option bytes (padded to a multiple of 4 with `pad`)
    pub doff: Option<u8>,
    pub flags: u8,
    pub window: u16,
    pub urg: u16,
    pub opts: Vec<u8>,
    pub payload: Vec<u8>,
}
impl Default for Tcp {
    fn default() -> Self {
        Tcp { sport: 40000, dport: 80, seq: 1000, ack: 0, doff: None, flags: 2, window: 65535, urg: 0, opts: vec![], payload: vec![] }
    }
}

pub fn tcp_bytes(t: &Tcp) -> Vec<u8> {
    let mut o = t.opts.clone();
    let doff = match t.doff {
        Some(d) => d,
        None => {
            while o.len() % 4 != 0 {
                o.push(0);
            }
            5 + (o.len() / 4) as u8
        }
    };
    let mut b = Vec::with_capacity(20 + o.len() + t.payload.len());
    b.extend(t.sport.to_be_bytes());
    b.extend(t.dport.to_be_bytes());
    b.extend(t.seq.to_be_bytes());
    b.extend(t.ack.to_be_bytes());
    b.push((doff & 15) << 4);
    b.push(t.flags);
    b.extend(t.window.to_be_bytes());
    b.extend([0, 0]);
    b.extend(t.urg.to_be_bytes());
    b.extend(&o);
    b.extend(&t.payload);
    b
}
pub fn v4_bytes(ip: &V4, l4: &[u8]) -> Vec<u8> {
    let hdr = 20 + (ip.ihl as usize * 4).saturating_sub(20);
    let total = ip.total_len.unwrap_or((hdr + l4.len()).min(65535) as u16);
    let mut b = Vec::with_capacity(hdr + l4.len());
    b.push(0x40 | (ip.ihl & 15));
    b.push((ip.dscp << 2) | (ip.ecn & 3));
    b.extend(total.to_be_bytes());
    b.extend(ip.id.to_be_bytes());
    b.extend((((ip.flags as u16 & 7) << 13) | (ip.frag & 0x1fff)).to_be_bytes());
    b.push(ip.ttl);
    b.push(ip.proto);
    b.extend([0, 0]);
    b.extend(ip.src);
    b.extend(ip.dst);
    while b.len() < hdr {
        b.push(1); // IP NOP options
    }
    b.extend(l4);
    b
}
pub fn v6_bytes(ip: &V6, l4: &[u8]) -> Vec<u8> {
    let mut b = Vec::with_capacity(40 + l4.len());
    let w0: u32 = (6u32 << 28) | ((ip.tc as u32) << 20) | (ip.flow & 0xfffff);
    b.extend(w0.to_be_bytes());
    b.extend(ip.payload_len.unwrap_or(l4.len().min(65535) as u16).to_be_bytes());
    b.push(ip.next);
    b.push(ip.hop);
    b.extend(ip.src);
    b.extend(ip.dst);
    b.extend(l4);
    b
}

/// Run the real per-packet processor on a fresh tracker. `None` = pnet refuses the buffer.
pub fn run_packet(v6: bool, bytes: &[u8], tracker: &mut TtlCache<ConnectionKey, TcpTimestamp>) -> String {
    let b = bytes.to_vec();
    let mut tr = std::panic::AssertUnwindSafe(tracker);
    guarded(move || {
        if v6 {
            match Ipv6Packet::new(&b) {
                None => "noip".to_string(),
                Some(p) => tok_result(&huginn_net_tcp::process_ipv6_packet(&p, &mut tr, None)),
            }
        } else {
            match Ipv4Packet::new(&b) {
                None => "noip".to_string(),
                Some(p) => tok_result(&huginn_net_tcp::process_ipv4_packet(&p, &mut tr, None)),
            }
        }
    })
}

fn emit_pkt(ctx: &mut Ctx, v6: bool, bytes: &[u8]) {
    let mut tracker: TtlCache<ConnectionKey, TcpTimestamp> = TtlCache::new(16);
    let out = run_packet(v6, bytes, &mut tracker);
    let mut l = Line::op("C03.pkt");
    l.nat(if v6 { 6u8 } else { 4u8 }).bytes(bytes);
    ctx.emit(l.finish(&out));
}
fn emit4(ctx: &mut Ctx, ip: &V4, t: &Tcp) {
    let b = v4_bytes(ip, &tcp_bytes(t));
    emit_pkt(ctx, false, &b);
}
fn emit6(ctx: &mut Ctx, ip: &V6, t: &Tcp) {
    let b = v6_bytes(ip, &tcp_bytes(t));
    emit_pkt(ctx, true, &b);
}

// ------------------------------------------------------------------ option grammar

const MSS_SET: [u16; 14] = [0, 1, 99, 100, 536, 1024, 1200, 1380, 1440, 1452, 1460, 8960, 65495, 65535];

fn gen_mss(r: &mut Rng) -> u16 {
    if r.chance(5, 6) {
        *r.pick(&MSS_SET)
    } else {
        r.next() as u16
    }
}
fn ts_field(r: &mut Rng) -> u32 {
    match r.below(4) {
        0 => 0,
        1 => 1,
        2 => u32::MAX,
        _ => r.next() as u32,
    }
}
/// One well-formed option.
fn gen_option(r: &mut Rng, out: &mut Vec<u8>) {
    match r.below(12) {
        0 | 1 => out.push(1),
        2 | 3 => {
            out.extend([2, 4]);
            out.extend(gen_mss(r).to_be_bytes());
        }
        4 | 5 => out.extend([3, 3, *r.pick(&[0u8, 1, 7, 8, 14, 15, 16, 255])]),
        6 => out.extend([4, 2]),
        7 | 8 => {
            out.extend([8, 10]);
            out.extend(ts_field(r).to_be_bytes());
            out.extend(ts_field(r).to_be_bytes());
        }
        9 => {
            let n = r.range(1, 3) as usize;
            out.extend([5, (2 + 8 * n) as u8]);
            out.extend(r.bytes(8 * n));
        }
        _ => {
            let k = *r.pick(&[6u8, 7, 9, 19, 28, 30, 34, 253, 254, 255]);
            let n = r.below(5) as usize;
            out.extend([k, (2 + n) as u8]);
            out.extend(r.bytes(n));
        }
    }
}
/// One malformed option: every kind of malformation the option grammar distinguishes.
fn gen_bad_tail(r: &mut Rng, out: &mut Vec<u8>) {
    match r.below(14) {
        0 => out.push(*r.pick(&[2u8, 3, 4, 5, 8, 77])), // kind without a length byte (only malformed as the last byte)
        1 => out.extend([*r.pick(&[2u8, 3, 8, 77]), 0]),
        2 => out.extend([*r.pick(&[2u8, 3, 8, 77]), 1, 9]),
        3 => out.extend([2, 4, 5]),                      // runs past the end (as a tail)
        4 => out.extend([8, 10, 0, 0, 0, 1]),           // truncated timestamp
        5 => out.extend([2, 3, 5]),                      // wrong fixed length
        6 => out.extend([3, 2]),                         // window scale without payload
        7 => out.extend([8, 6, 0, 0, 0, 0]),            // timestamp with 4 bytes only
        8 => out.extend([4, 3, 9]),                      // SACK-permitted with a payload
        9 => {
            // SACK whose size is not 2 + 8n
            let l = *r.pick(&[2u8, 4, 9, 11, 12]);
            out.extend([5, l]);
            out.extend(r.bytes(l as usize - 2));
        }
        10 => out.extend([5, 42]),                       // SACK with five blocks / running past the end
        11 => out.extend([2, 5, 5, 0xb4, 0]),           // MSS one byte too long
        12 => out.extend([3, 4, 15, 15]),                // window scale one byte too long
        _ => out.extend([*r.pick(&[6u8, 30, 77, 254]), *r.pick(&[40u8, 41, 255])]), // unknown kind running past the end
    }
}
pub fn gen_opts(r: &mut Rng) -> Vec<u8> {
    let mut o = vec![];
    let n = match r.below(8) {
        0 => 0,
        1 | 2 => 1,
        3 | 4 => r.range(2, 4),
        _ => r.range(3, 7),
    };
    for _ in 0..n {
        let mut one = vec![];
        gen_option(r, &mut one);
        if o.len() + one.len() <= 40 {
            o.extend(one);
        }
    }
    match r.below(10) {
        0 | 1 => {
            // EOL then padding
            if o.len() < 40 {
                o.push(0);
                let room = 40 - o.len();
                let n = r.below(room.min(5) as u64 + 1) as usize;
                for _ in 0..n {
                    o.push(if r.chance(1, 4) { r.range(1, 255) as u8 } else { 0 });
                }
            }
        }
        2 => {
            let mut t = vec![];
            gen_bad_tail(r, &mut t);
            if o.len() + t.len() <= 40 {
                o.extend(t);
            }
        }
        3 if r.chance(1, 2) => {
            // a malformed option first, well-formed ones (also a second timestamp / window scale / EOL) after it
            let mut t = vec![];
            gen_bad_tail(r, &mut t);
            for _ in 0..r.range(1, 3) {
                gen_option(r, &mut t);
            }
            if r.chance(1, 3) {
                t.extend([0, *r.pick(&[0u8, 1, 7])]);
            }
            if o.len() + t.len() <= 40 {
                o.extend(t);
            } else if t.len() <= 40 {
                o = t;
            }
        }
        3 => {
            // one byte of a well-formed area replaced (mostly hits a kind or length byte)
            if !o.is_empty() {
                let i = r.below(o.len() as u64) as usize;
                o[i] = *r.pick(&[0u8, 1, 2, 3, 4, 5, 8, 10, 12, 40, 255]);
            }
        }
        _ => {}
    }
    // alignment: NOPs, zeros (EOL + padding) or left to tcp_bytes (zeros)
    if r.chance(1, 2) {
        while o.len() % 4 != 0 {
            o.push(1);
        }
    }
    o
}

fn gen_window(r: &mut Rng, mss: u16, ihl: u8, v6: bool) -> u16 {
    let m = mss as u32;
    let n = r.range(1, 60) as u32;
    let w: u32 = match r.below(16) {
        0 => 0,
        1 => m * n,
        2 => m.saturating_sub(12) * n,
        3 => *r.pick(&[256u32, 512, 1024, 2048, 4096, 8192, 16384, 32768, 65535, 5840, 14600, 29200]),
        4 => 256 * r.range(1, 255) as u32,
        5 => 1500 * n,
        6 => (if v6 { 1440 } else { 1460 }) * n,
        7 => (if v6 { 1428 } else { 1448 }) * n,
        8 => (m + if v6 { 60 } else { 40 }) * n,
        9 => (m + if v6 { 40 } else { ihl as u32 }) * n,
        10 => (m + 20) * n,
        11 => m * 256,
        12 => m * n + 1,
        _ => r.next() as u32 & 0xffff,
    };
    (w & 0xffff) as u16
}

fn first_mss(opts: &[u8]) -> u16 {
    let mut i = 0;
    while i < opts.len() {
        match opts[i] {
            0 => break,
            1 => i += 1,
            2 if i + 3 < opts.len() && opts[i + 1] == 4 => return u16::from_be_bytes([opts[i + 2], opts[i + 3]]),
            _ => {
                if i + 1 >= opts.len() || opts[i + 1] < 2 {
                    break;
                }
                i += opts[i + 1] as usize;
            }
        }
    }
    1460
}

fn gen_tcp(r: &mut Rng, ihl: u8, v6: bool) -> Tcp {
    let opts = gen_opts(r);
    let mss = first_mss(&opts);
    let flags = match r.below(10) {
        0..=3 => 0x02,
        4 | 5 => 0x12,
        6 => 0x10,
        7 => *r.pick(&[0x02u8 | 0x40 | 0x80, 0x12 | 0x40, 0x02 | 0x20, 0x02 | 0x08, 0x18, 0x11, 0x04, 0x14, 0x01]),
        _ => r.next() as u8,
    };
    let z32 = |r: &mut Rng| if r.chance(1, 2) { 0 } else { r.range(1, u32::MAX as u64) as u32 };
    let doff = match r.below(12) {
        0 => Some(r.below(16) as u8),
        _ => None,
    };
    Tcp {
        sport: *r.pick(&[0u16, 1, 80, 443, 1023, 1024, 1025, 40000, 65535]),
        dport: *r.pick(&[0u16, 1, 80, 443, 1023, 1024, 1025, 40000, 65535]),
        seq: z32(r),
        ack: z32(r),
        doff,
        flags,
        window: gen_window(r, mss, ihl, v6),
        urg: if r.chance(2, 3) { 0 } else { r.range(1, 65535) as u16 },
        opts,
        payload: if r.chance(3, 4) { vec![] } else { r.bytes(r.clone().range(1, 8) as usize) },
    }
}
fn gen_v4(r: &mut Rng) -> V4 {
    V4 {
        ihl: match r.below(8) {
            0 => r.below(16) as u8,
            1 => r.range(6, 15) as u8,
            _ => 5,
        },
        dscp: if r.chance(1, 4) { r.below(64) as u8 } else { 0 },
        ecn: if r.chance(1, 3) { r.below(4) as u8 } else { 0 },
        total_len: match r.below(16) {
            0 => Some(r.below(80) as u16),
            1 => Some(65535),
            _ => None,
        },
        id: if r.chance(1, 3) { 0 } else { r.range(1, 65535) as u16 },
        flags: match r.below(6) {
            0 => r.below(8) as u8,
            1 => 0,
            _ => 2,
        },
        frag: if r.chance(1, 16) { r.range(1, 8191) as u16 } else { 0 },
        ttl: match r.below(4) {
            0 => r.next() as u8,
            _ => *r.pick(&[0u8, 1, 2, 32, 33, 34, 63, 64, 65, 98, 127, 128, 129, 224, 225, 254, 255]),
        },
        proto: if r.chance(1, 20) { *r.pick(&[17u8, 1, 0, 41, 255]) } else { 6 },
        ..Default::default()
    }
}
fn gen_v6(r: &mut Rng) -> V6 {
    V6 {
        tc: if r.chance(1, 3) { r.next() as u8 } else { 0 },
        flow: match r.below(4) {
            0 => 1,
            1 => 0xfffff,
            2 => r.next() as u32 & 0xfffff,
            _ => 0,
        },
        payload_len: match r.below(16) {
            0 => Some(r.below(80) as u16),
            1 => Some(65535),
            _ => None,
        },
        next: if r.chance(1, 20) { *r.pick(&[17u8, 0, 43, 44, 58, 60]) } else { 6 },
        hop: match r.below(4) {
            0 => r.next() as u8,
            _ => *r.pick(&[0u8, 1, 32, 33, 64, 65, 128, 129, 225, 255]),
        },
        ..Default::default()
    }
}

// ------------------------------------------------------------------ pure level

fn emit_ttl(ctx: &mut Ctx, t: u8) {
    let out = guarded(move || tok_ttl(&huginn_net_tcp::ttl::calculate_ttl(t)));
    let mut l = Line::op("C03.ttl");
    l.nat(t);
    ctx.emit(l.finish(&out));
}
fn emit_win(ctx: &mut Ctx, w: u16, mss: u16, hdr: u16, ts: bool, ver: u8) {
    let out = guarded(move || {
        let v = match ver {
            4 => IpVersion::V4,
            6 => IpVersion::V6,
            _ => IpVersion::Any,
        };
        tok_win(&huginn_net_tcp::window_size::detect_win_multiplicator(w, mss, hdr, ts, &v))
    });
    let mut l = Line::op("C03.win");
    l.nat(w).nat(mss).nat(hdr).bool(ts).nat(ver);
    ctx.emit(l.finish(&out));
}
fn emit_flags(ctx: &mut Ctx, fl: u8, sp: u16, dp: u16) {
    use huginn_net_tcp::tcp_process::{from_client, from_server, is_packet_from_client, is_valid};
    let out = guarded(move || {
        let ty = fl & 0x17;
        format!(
            "{} {} {} {}",
            from_client(fl) as u8,
            from_server(fl) as u8,
            is_valid(fl, ty) as u8,
            is_packet_from_client(fl, sp, dp) as u8
        )
    });
    let mut l = Line::op("C03.flags");
    l.nat(fl).nat(sp).nat(dp);
    ctx.emit(l.finish(&out));
}

const WIN_MSS: [u16; 13] = [0, 99, 100, 536, 1024, 1200, 1380, 1440, 1452, 1460, 8960, 65495, 65535];

pub fn run(ctx: &mut Ctx) {
    let mut r = ctx.rng.fork();
    huginn_net_tcp::uptime::VERIF_CLOCK_MS.store(1_700_000_000_000, Ordering::SeqCst);

    // ---- 1. corpus: witnesses of the known findings (DESIGN §8 #3–#7) and of the fixed WSCALE panic
    {
        let ip = V4::default();
        let mut o: Vec<u8>;
        // a well-formed Linux-like SYN and its SYN+ACK, v4 and v6
        o = vec![2, 4, 5, 0xb4, 4, 2, 8, 10, 0, 0, 0, 9, 0, 0, 0, 0, 1, 3, 3, 7];
        emit4(ctx, &ip, &Tcp { window: 29200, opts: o.clone(), ..Default::default() });
        emit4(ctx, &ip, &Tcp { window: 28960, flags: 0x12, ack: 5, opts: o.clone(), ..Default::default() });
        emit6(ctx, &V6::default(), &Tcp { window: 28800, opts: vec![2, 4, 5, 0xa0, 4, 2, 8, 10, 0, 0, 0, 9, 0, 0, 0, 0, 1, 3, 3, 7], ..Default::default() });
        // #3 options mss,nop,ws,nop,nop,ts,sok,eol,00
        o = vec![2, 4, 5, 0xb4, 1, 3, 3, 6, 1, 1, 8, 10, 0, 0, 0, 9, 0, 0, 0, 0, 4, 2, 0, 0];
        emit4(ctx, &ip, &Tcp { opts: o.clone(), ..Default::default() });
        // #4 plain ACK without options
        emit4(ctx, &ip, &Tcp { flags: 0x10, ack: 77, window: 4096, ..Default::default() });
        // #5 MSS 1460 with 24 / 8 / 4 option bytes
        emit4(ctx, &ip, &Tcp { opts: vec![2, 4, 5, 0xb4, 1, 1, 1, 1, 1, 1, 1, 1, 1, 1, 1, 1, 1, 1, 1, 1, 1, 1, 1, 1], ..Default::default() });
        emit4(ctx, &ip, &Tcp { opts: vec![2, 4, 5, 0xb4, 1, 1, 4, 2], ..Default::default() });
        emit4(ctx, &ip, &Tcp { opts: vec![2, 4, 5, 0xb4], ..Default::default() });
        // #6 ECT in the IP header and ECE+CWR
        emit4(ctx, &V4 { ecn: 2, ..Default::default() }, &Tcp { flags: 0xc2, opts: vec![2, 4, 5, 0xb4], ..Default::default() });
        // #7 window 7400 = 5*1480 and 7325 = 5*1465, 4320 = 3*1440 with MSS 1400
        emit4(ctx, &ip, &Tcp { window: 7400, opts: vec![2, 4, 5, 0xb4], ..Default::default() });
        emit4(ctx, &ip, &Tcp { window: 7325, opts: vec![2, 4, 5, 0xb4], ..Default::default() });
        emit4(ctx, &ip, &Tcp { window: 4320, opts: vec![2, 4, 5, 0x78], ..Default::default() });
        // fixed: WSCALE without payload (`03 02`), lone trailing `03` — since fixes/C03-bad-quirk-for-malformed-options.patch
        // also the witness of the repaired finding "bad never reported": quirks df,id+,bad
        emit4(ctx, &ip, &Tcp { opts: vec![3, 2, 1, 1], ..Default::default() });
        emit4(ctx, &ip, &Tcp { opts: vec![1, 1, 1, 3], ..Default::default() });
        // one witness per kind of malformation the option grammar distinguishes (SYN and SYN+ACK, v4 and v6):
        // no length byte; length byte 0 / 1; running past the area; wrong size of MSS / WS / SOK / SACK / TS;
        // and well-formed neighbours of each (no `bad`)
        let bad: [&[u8]; 17] = [
            &[1, 1, 1, 2], &[77, 0, 1, 1], &[77, 1, 1, 1], &[77, 5, 1, 1], &[1, 2, 4, 5], &[2, 4, 5, 0xb4, 1, 8, 10, 0], &[2, 3, 5, 1], &[2, 5, 5, 0xb4, 1, 1, 1, 1],
            &[3, 2, 1, 1], &[3, 4, 7, 7], &[4, 3, 1, 1], &[4, 4, 1, 1], &[5, 2, 1, 1], &[5, 4, 1, 1, 1, 1, 1, 1],
            &[5, 11, 1, 2, 3, 4, 5, 6, 7, 8, 9, 1], &[8, 6, 0, 0, 0, 1, 1, 1], &[8, 11, 0, 0, 0, 1, 0, 0, 0, 0, 7, 1],
        ];
        let good: [&[u8]; 8] = [
            &[77, 2, 1, 1], &[77, 4, 1, 1], &[2, 4, 5, 0xb4], &[3, 3, 7, 1], &[4, 2, 1, 1], &[5, 10, 1, 2, 3, 4, 5, 6, 7, 8, 1, 1],
            &[8, 10, 0, 0, 0, 1, 0, 0, 0, 0, 1, 1], &[2, 4, 5, 0xb4, 0, 2, 9, 9],
        ];
        for o in bad.iter().chain(good.iter()) {
            emit4(ctx, &ip, &Tcp { opts: o.to_vec(), ..Default::default() });
            emit4(ctx, &ip, &Tcp { opts: o.to_vec(), flags: 0x12, ack: 9, ..Default::default() });
            emit6(ctx, &V6::default(), &Tcp { opts: o.to_vec(), ..Default::default() });
        }
        // a malformed option is not the end of the walk: what follows it is still listed (layout, MSS, quirks) and `bad` comes last
        emit4(ctx, &ip, &Tcp { opts: vec![3, 2, 2, 4, 5, 0xb4, 3, 3, 15, 8, 10, 0, 0, 0, 0, 0, 0, 0, 5], ..Default::default() });
        // repaired finding KF-C03-malformed-repeats-quirk: `03 02`, then two window-scale options with shift 15: exws once;
        // likewise a second timestamp option (ts1-, ts2+) and a second EOL with a non-zero byte after it (opt+)
        emit4(ctx, &ip, &Tcp { opts: vec![3, 2, 3, 3, 15, 3, 3, 15], ..Default::default() });
        emit4(ctx, &ip, &Tcp { opts: vec![3, 2, 8, 10, 0, 0, 0, 0, 0, 0, 0, 5, 8, 10, 0, 0, 0, 0, 0, 0, 0, 6, 1, 1], ..Default::default() });
        emit4(ctx, &ip, &Tcp { opts: vec![3, 2, 0, 1, 0, 1, 1, 1], ..Default::default() });
        // the same repetitions in well-formed areas (unspecified / options-after-EOL class): compared against the model
        emit4(ctx, &ip, &Tcp { opts: vec![3, 3, 15, 3, 3, 15, 1, 1], ..Default::default() });
        emit4(ctx, &ip, &Tcp { opts: vec![8, 10, 0, 0, 0, 0, 0, 0, 0, 5, 8, 10, 0, 0, 0, 0, 0, 0, 0, 6], ..Default::default() });
        emit4(ctx, &ip, &Tcp { opts: vec![2, 4, 5, 0xb4, 0, 1, 0, 1], ..Default::default() });
        // the option area clipped by the buffer (IP total length ends inside the options): what is there is judged
        {
            let full = v4_bytes(&ip, &tcp_bytes(&Tcp { opts: vec![2, 4, 5, 0xb4, 8, 10, 0, 0, 0, 1, 0, 0, 0, 0, 1, 1], ..Default::default() }));
            for cut in 41..=56usize {
                emit_pkt(ctx, false, &full[..cut]);
            }
        }
    }

    // ---- 2. exhaustive sub-enumerations
    for t in 0..=255u8 {
        emit_ttl(ctx, t);
    }
    for fl in 0..=255u8 {
        for (sp, dp) in [(40000u16, 80u16), (80, 40000), (1024, 1024), (1025, 1024), (1025, 1025), (0, 0)] {
            emit_flags(ctx, fl, sp, dp);
        }
    }
    // every TTL / hop limit on a SYN
    for t in 0..=255u8 {
        emit4(ctx, &V4 { ttl: t, ..Default::default() }, &Tcp { opts: vec![2, 4, 5, 0xb4], ..Default::default() });
        if t % 3 == 0 || ctx.tier == Tier::Thorough {
            emit6(ctx, &V6 { hop: t, ..Default::default() }, &Tcp::default());
        }
    }
    // all 256 flag bytes x seq/ack/urg zero vs non-zero, v4 and v6
    for fl in 0..=255u8 {
        for z in 0..8u8 {
            let t = Tcp {
                flags: fl,
                seq: if z & 1 != 0 { 0 } else { 7 },
                ack: if z & 2 != 0 { 0 } else { 9 },
                urg: if z & 4 != 0 { 0 } else { 3 },
                opts: vec![2, 4, 5, 0xb4, 8, 10, 0, 0, 0, 1, 0, 0, 0, 2],
                window: 1460 * 4,
                ..Default::default()
            };
            emit4(ctx, &V4::default(), &t);
            if ctx.tier == Tier::Thorough || (fl as u32 + z as u32) % 4 == 0 {
                emit6(ctx, &V6::default(), &t);
            }
        }
    }
    // all DF/MF/reserved x ID zero/non-zero x IP ECN x ECE/CWR x fragment offset
    for fl3 in 0..8u8 {
        for id in [0u16, 1, 65535] {
            for ecn in 0..4u8 {
                for ec in [0u8, 0x40, 0x80, 0xc0] {
                    for frag in [0u16, 1] {
                        if frag == 1 && (ecn != 0 || ec != 0) {
                            continue;
                        }
                        emit4(
                            ctx,
                            &V4 { flags: fl3, id, ecn, frag, ..Default::default() },
                            &Tcp { flags: 0x02 | ec, ..Default::default() },
                        );
                    }
                }
            }
        }
    }
    for tc in [0u8, 1, 2, 3, 4, 0xfc, 0xff] {
        for flow in [0u32, 1, 0x80000, 0xfffff] {
            for ec in [0u8, 0x40, 0x80, 0xc0] {
                emit6(ctx, &V6 { tc, flow, ..Default::default() }, &Tcp { flags: 0x02 | ec, ..Default::default() });
            }
        }
    }
    // IHL 0..15 with and without the option bytes being present, data offset 0..15
    for ihl in 0..16u8 {
        for doff in 0..16u8 {
            let o = vec![2, 4, 5, 0xb4, 1, 3, 3, 2];
            let t = Tcp { doff: Some(doff), opts: o, window: 1460 * 3, ..Default::default() };
            emit4(ctx, &V4 { ihl, ..Default::default() }, &t);
            if ihl == 5 {
                emit6(ctx, &V6::default(), &t);
            }
        }
        // truncated: total_length / buffer shorter than the headers
        let l4 = tcp_bytes(&Tcp::default());
        let full = v4_bytes(&V4 { ihl, ..Default::default() }, &l4);
        for cut in [20usize, 24, 39, 40, 44, 59, 60, 79] {
            if cut <= full.len() {
                emit_pkt(ctx, false, &full[..cut]);
            }
        }
    }
    // every single option (kind x length byte) followed by NOPs, and as the last bytes of the area
    let kinds: Vec<u8> = if ctx.tier == Tier::Thorough { (0..=255).collect() } else { vec![0, 1, 2, 3, 4, 5, 6, 8, 9, 30, 254, 255] };
    for &k in &kinds {
        for len in 0..=13u8 {
            for tail in 0..3u8 {
                let mut o = vec![k, len];
                match tail {
                    0 => o.extend([0x05, 0xb4, 0, 0, 0, 0, 0, 1, 1, 1]),
                    1 => o.extend([0, 0]),
                    _ => {}
                }
                emit4(ctx, &V4::default(), &Tcp { opts: o.clone(), ..Default::default() });
                let mut p = vec![1u8, 1];
                p.extend(&o);
                emit4(ctx, &V4::default(), &Tcp { opts: p, flags: 0x12, ..Default::default() });
            }
        }
    }

    // every 4-byte option area over an alphabet of kinds / length bytes (exhaustive for short areas: every way a
    // short area can be malformed or well-formed), as SYN; thorough: 16 symbols, and 8-byte areas = 6 free bytes + tail
    let alpha: Vec<u8> = if ctx.tier == Tier::Thorough { vec![0, 1, 2, 3, 4, 5, 6, 7, 8, 9, 10, 11, 18, 77, 254, 255] } else { vec![0, 1, 2, 3, 4, 5, 8, 10, 18, 77, 255] };
    for &a in &alpha {
        for &b in &alpha {
            for &c in &alpha {
                for &d in &alpha {
                    emit4(ctx, &V4::default(), &Tcp { opts: vec![a, b, c, d], ..Default::default() });
                }
            }
        }
    }
    if ctx.tier == Tier::Thorough {
        let al6: [u8; 7] = [0, 1, 2, 3, 4, 8, 77];
        let mut idx = [0usize; 6];
        'outer: loop {
            let free: Vec<u8> = idx.iter().map(|&i| al6[i]).collect();
            for tail in [[1u8, 1], [0, 0], [3, 3]] {
                let mut o = free.clone();
                o.extend(tail);
                emit4(ctx, &V4::default(), &Tcp { opts: o, flags: 0x12, ..Default::default() });
            }
            let mut k = 0;
            loop {
                idx[k] += 1;
                if idx[k] < al6.len() {
                    break;
                }
                idx[k] = 0;
                k += 1;
                if k == idx.len() {
                    break 'outer;
                }
            }
        }
    }

    // ---- 3. window classifier, pure level
    if ctx.tier == Tier::Thorough {
        let more: [u16; 18] = [101, 112, 256, 512, 1000, 1220, 1360, 1400, 1412, 1414, 1448, 4096, 9000, 16384, 32768, 65476, 65494, 65496];
        for &mss in WIN_MSS.iter().chain(more.iter()) {
            for ts in [false, true] {
                for (ver, hdr) in [(4u8, 40u16), (6, 60)] {
                    for w in 0..=65535u16 {
                        emit_win(ctx, w, mss, hdr, ts, ver);
                    }
                }
            }
        }
    }
    let n = ctx.n(30_000, 300_000);
    for _ in 0..n {
        let mss = if r.chance(3, 4) { *r.pick(&WIN_MSS) } else { r.next() as u16 };
        let v6 = r.chance(1, 3);
        let ihl = *r.pick(&[5u8, 5, 5, 6, 15]);
        let w = gen_window(&mut r, mss, ihl, v6);
        let hdr = match r.below(6) {
            0 => 0,
            1 => ihl as u16,
            2 => 20,
            3 => r.below(70) as u16,
            _ => if v6 { 60 } else { 40 },
        };
        let ver = if r.chance(1, 30) { 0 } else if v6 { 6 } else { 4 };
        emit_win(ctx, w, mss, hdr, r.chance(1, 2), ver);
    }

    // ---- 4. generated packets: every header field drawn independently
    let n = ctx.n(25_000, 400_000);
    for _ in 0..n {
        if r.chance(2, 3) {
            let ip = gen_v4(&mut r);
            let t = gen_tcp(&mut r, ip.ihl, false);
            let mut b = v4_bytes(&ip, &tcp_bytes(&t));
            if r.chance(1, 40) {
                let cut = r.below(b.len() as u64 + 1) as usize;
                b.truncate(cut.max(20));
            }
            emit_pkt(ctx, false, &b);
        } else {
            let ip = gen_v6(&mut r);
            let t = gen_tcp(&mut r, 5, true);
            let mut b = v6_bytes(&ip, &tcp_bytes(&t));
            if r.chance(1, 40) {
                let cut = r.below(b.len() as u64 + 1) as usize;
                b.truncate(cut.max(40));
            }
            emit_pkt(ctx, true, &b);
        }
    }

    // ---- 5. link label lookup on the bundled database
    if let Ok(db) = huginn_net_db::Database::load_default() {
        let m = huginn_net_tcp::SignatureMatcher::new(&db);
        let all: Vec<u16> = if ctx.tier == Tier::Thorough { (0..=65535).collect() } else { (0..=2000).chain([3924, 9000, 16384, 16436, 65535]).collect() };
        for v in all {
            let out = match m.matching_by_mtu(&v) {
                Some((l, _)) => hex(l.as_bytes()),
                None => "-".to_string(),
            };
            let mut l = Line::op("C03.link");
            l.nat(v);
            ctx.emit(l.finish(&out));
        }
    }
    huginn_net_tcp::uptime::VERIF_CLOCK_MS.store(u64::MAX, Ordering::SeqCst);
}
