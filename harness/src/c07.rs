//! C07 — connections are analysed in isolation.
//!
//! For each generated set of connections and each order-preserving interleaving the REAL analyzers
//! (TLS, HTTP, TCP packet processors on one shared flow table; the unified analyzer) are run on the
//! interleaved trace and on each connection alone (fresh instance). The case line carries the
//! trace plus *oracle tables* for everything that is not flow-table logic (ClientHello parser,
//! HTTP parsers, frequency estimation — each evaluated on a fresh, isolated instance), so that the
//! Lean driver can run the flow-logic model (Model/FlowProgs.lean) on the same interleaving.
//!
//! impl output = `<model view of interleaved outputs>|<full interleaved outputs>|<isolated c0>|<isolated c1>|…`
use crate::canon;
use crate::net::{self, Seg, ACK, FIN, PSH, RST, SYN};
use crate::rng::Rng;
use crate::wr::Line;
use crate::Ctx;
use pnet::packet::ipv4::Ipv4Packet;
use pnet::packet::ipv6::Ipv6Packet;
use std::net::IpAddr;
use ttl_cache::TtlCache;

#[derive(Clone)]
pub struct Conn {
    pub client: (IpAddr, u16),
    pub server: (IpAddr, u16),
    pub segs: Vec<Seg>,
    pub kind: &'static str,
}

pub fn endpoints(r: &mut Rng, n: usize, v6: bool) -> Vec<((IpAddr, u16), (IpAddr, u16))> {
    // small pools so that connections share hosts, ports and mirrored port pairs
    let hosts: Vec<IpAddr> = if v6 {
        vec![net::v6(0x2001_0db8_0000_0000_0000_0000_0000_0001), net::v6(0x2001_0db8_0000_0000_0000_0000_0000_0002), net::v6(0xfe80_0000_0000_0000_0000_0000_0000_0003)]
    } else {
        vec![net::v4(0x0a00_0001), net::v4(0x0a00_0002), net::v4(0xc0a8_0101)]
    };
    let cports = [40000u16, 40001, 443, 80, 50000];
    let sports = [443u16, 80, 8080, 40000];
    let mut out: Vec<((IpAddr, u16), (IpAddr, u16))> = vec![];
    let mut guard = 0;
    while out.len() < n && guard < 1000 {
        guard += 1;
        let c = (*r.pick(&hosts), *r.pick(&cports));
        let s = (*r.pick(&hosts), *r.pick(&sports));
        if c == s {
            continue;
        }
        // distinct undirected 4-tuples
        if out.iter().any(|(a, b)| (*a == c && *b == s) || (*a == s && *b == c)) {
            continue;
        }
        out.push((c, s));
    }
    out
}

/// Random order-preserving interleaving: returns (conn index, seg index) pairs.
pub fn interleave(r: &mut Rng, conns: &[Conn]) -> Vec<(usize, usize)> {
    let mut pos = vec![0usize; conns.len()];
    let total: usize = conns.iter().map(|c| c.segs.len()).sum();
    let mut out = Vec::with_capacity(total);
    let bursty = r.chance(1, 3);
    let mut last = 0usize;
    while out.len() < total {
        let live: Vec<usize> = (0..conns.len()).filter(|&i| pos[i] < conns[i].segs.len()).collect();
        let i = if bursty && live.contains(&last) && r.chance(2, 3) { last } else { *r.pick(&live) };
        out.push((i, pos[i]));
        pos[i] += 1;
        last = i;
    }
    out
}

fn w_ep(l: &mut Line, e: &(IpAddr, u16)) {
    l.nat(net::addr_nat(&e.0)).nat(e.1);
}

fn parse_ip<'a>(bytes: &'a [u8]) -> (Option<Ipv4Packet<'a>>, Option<Ipv6Packet<'a>>) {
    if bytes[0] >> 4 == 4 {
        (Ipv4Packet::new(bytes), None)
    } else {
        (None, Ipv6Packet::new(bytes))
    }
}

// ------------------------------------------------------------------------------------- TLS

type TlsCache = TtlCache<huginn_net_tls::FlowKey, huginn_net_tls::TlsClientHelloReader>;

fn tls_step(cache: &mut TlsCache, s: &Seg) -> String {
    let b = net::ip_bytes(s);
    let res = match parse_ip(&b) {
        (Some(ip), _) => huginn_net_tls::process_ipv4_packet(&ip, cache),
        (_, Some(ip)) => huginn_net_tls::process_ipv6_packet(&ip, cache),
        _ => return "err:frame".into(),
    };
    match res {
        Ok(o) => canon::tls(&o),
        Err(_) => "err".into(),
    }
}

fn tls_conn(r: &mut Rng, ep: ((IpAddr, u16), (IpAddr, u16))) -> Conn {
    let (c, s) = ep;
    let mut segs = vec![];
    let mut seq = r.next() as u32;
    let kind;
    let mut stream: Vec<Vec<u8>> = vec![];
    let mut reuse_at: Option<usize> = None;
    match r.below(9) {
        8 => {
            // two connections one after the other on the same 4-tuple: the first leaves an unfinished
            // ClientHello behind, the second opens with its SYN
            kind = "tls-reuse";
            let h = net::client_hello(r);
            let cut = r.range(5, h.len() as u64 - 1) as usize;
            stream.extend(net::split_random(r, &h[..cut], 2));
            reuse_at = Some(stream.len());
            let h2 = net::client_hello(r);
            let k = r.range(1, 3) as usize;
            stream.extend(net::split_random(r, &h2, k));
        }
        0 => {
            kind = "tls-nonhello";
            // a complete handshake record that is not a ClientHello, then a hello
            let mut rec = vec![0x16, 0x03, 0x03, 0, 6, 2, 0, 0, 2, 3, 3];
            if r.chance(1, 2) {
                rec = vec![0x16, 0x03, 0x03, 0, 4, 0, 0, 0, 0]; // HelloRequest
            }
            stream.push(rec);
            let h = net::client_hello(r);
            let k = r.range(1, 3) as usize;
            stream.extend(net::split_random(r, &h, k));
        }
        1 => {
            kind = "tls-garbage";
            stream.push(r.bytes_in(1, 40));
            let h = net::client_hello(r);
            stream.extend(net::split_random(r, &h, 2));
        }
        2 => {
            kind = "tls-appdata";
            let mut rec = vec![0x17, 0x03, 0x03, 0, 20];
            rec.extend(r.bytes(20));
            stream.push(rec);
            stream.push(r.bytes(30));
        }
        3 => {
            kind = "tls-truncated";
            let h = net::client_hello(r);
            let cut = r.range(5, h.len() as u64 - 1) as usize;
            stream.extend(net::split_random(r, &h[..cut], 2));
        }
        _ => {
            kind = "tls-hello";
            let h = net::client_hello(r);
            let k = r.range(1, 4) as usize;
            stream.extend(net::split_random(r, &h, k));
            if r.chance(1, 2) {
                let mut rec = vec![0x17, 0x03, 0x03, 0, 8];
                rec.extend(r.bytes(8));
                stream.push(rec); // bytes after the record
            }
            if r.chance(1, 4) {
                // a second hello on the same connection afterwards
                stream.push(net::client_hello(r));
            }
        }
    }
    if r.chance(1, 2) {
        let mut syn = Seg::new(c, s, SYN);
        syn.seq = seq;
        segs.push(syn);
        seq = seq.wrapping_add(1);
    }
    for (pi, p) in stream.into_iter().enumerate() {
        if reuse_at == Some(pi) {
            seq = r.next() as u32;
            let mut syn = Seg::new(c, s, SYN);
            syn.seq = seq;
            if r.chance(1, 4) {
                // Fast Open: the SYN itself carries the first bytes
                syn.payload = p.clone();
                segs.push(syn);
                seq = seq.wrapping_add(1).wrapping_add(p.len() as u32);
                continue;
            }
            segs.push(syn);
            seq = seq.wrapping_add(1);
        }
        let mut g = Seg::new(c, s, ACK | PSH);
        g.seq = seq;
        seq = seq.wrapping_add(p.len() as u32);
        g.payload = p;
        segs.push(g);
        if r.chance(1, 5) {
            // a server segment in between (different directed key)
            let mut x = Seg::new(s, c, ACK);
            x.payload = if r.chance(1, 2) { vec![] } else { vec![0x16, 0x03, 0x03, 0, 2, 2, 0] };
            segs.push(x);
        }
    }
    Conn { client: c, server: s, segs, kind }
}

/// Oracle: every buffer the reader can hold starts at a payload boundary of its own directed flow.
fn tls_oracle(conn: &Conn) -> Vec<(Vec<u8>, String)> {
    let mut out: Vec<(Vec<u8>, String)> = vec![];
    // per direction
    for dir in [conn.client, conn.server] {
        let pay: Vec<&Vec<u8>> = conn.segs.iter().filter(|s| s.src == dir && !s.payload.is_empty()).map(|s| &s.payload).collect();
        for i in 0..pay.len() {
            let stream: Vec<u8> = pay[i..].iter().flat_map(|p| p.iter().copied()).collect();
            if stream.len() < 5 {
                continue;
            }
            let needed = u16::from_be_bytes([stream[3], stream[4]]) as usize + 5;
            if needed > stream.len() || needed > 65536 {
                continue;
            }
            let pre = stream[..needed].to_vec();
            if out.iter().any(|(b, _)| *b == pre) {
                continue;
            }
            let res = match huginn_net_tls::tls_process::parse_tls_client_hello(&pre) {
                Ok(Some(sig)) => {
                    // what process_tcp_packet builds from the signature
                    let ja4 = sig.generate_ja4();
                    let ja4_original = sig.generate_ja4_original();
                    let o = huginn_net_tls::ObservableTlsClient {
                        version: sig.version,
                        sni: sig.sni,
                        alpn: sig.alpn,
                        cipher_suites: sig.cipher_suites,
                        extensions: sig.extensions,
                        signature_algorithms: sig.signature_algorithms,
                        elliptic_curves: sig.elliptic_curves,
                        ja4,
                        ja4_original,
                    };
                    canon::tls_sig(&o)
                }
                Ok(None) => "none".to_string(),
                Err(_) => "err".to_string(),
            };
            out.push((pre, res));
        }
    }
    out
}

fn emit_tls(ctx: &mut Ctx, conns: &[Conn], order: &[(usize, usize)], cap: usize) {
    let mut cache: TlsCache = TtlCache::new(cap);
    let inter: Vec<String> = order.iter().map(|&(c, i)| tls_step(&mut cache, &conns[c].segs[i])).collect();
    let mut iso: Vec<String> = vec![];
    for c in conns {
        let mut cache: TlsCache = TtlCache::new(cap);
        iso.push(c.segs.iter().map(|s| tls_step(&mut cache, s)).collect::<Vec<_>>().join(";"));
    }
    let mut l = Line::op("C07.tls");
    l.usize(cap);
    l.list(conns, |l, c| {
        w_ep(l, &c.client);
        w_ep(l, &c.server);
        l.tok(c.kind);
        let o = tls_oracle(c);
        l.list(&o, |l, (b, r)| {
            l.bytes(b).tok(r);
        });
    });
    l.list(order, |l, &(c, i)| {
        let s = &conns[c].segs[i];
        l.usize(c);
        w_ep(l, &s.src);
        w_ep(l, &s.dst);
        l.bytes(&s.payload);
        l.bool(huginn_net_tls::tls_process::is_tls_traffic(&s.payload));
        l.bool(s.flags & SYN != 0);
    });
    let out = format!("{}|{}|{}", inter.join(";"), inter.join(";"), iso.join("|"));
    ctx.emit(l.finish(&out));
}

// ------------------------------------------------------------------------------------- HTTP

type HttpCache = TtlCache<huginn_net_http::http_process::FlowKey, huginn_net_http::http_process::TcpFlow>;

fn http_step(cache: &mut HttpCache, procs: &huginn_net_http::http_process::HttpProcessors, s: &Seg) -> String {
    let b = net::ip_bytes(s);
    let res = match parse_ip(&b) {
        (Some(ip), _) => huginn_net_http::process_ipv4_packet(&ip, cache, procs, None),
        (_, Some(ip)) => huginn_net_http::process_ipv6_packet(&ip, cache, procs, None),
        _ => return "err:frame".into(),
    };
    match res {
        Ok(o) => canon::http_result(&o),
        Err(_) => "err".into(),
    }
}

pub fn http_conn(r: &mut Rng, ep: ((IpAddr, u16), (IpAddr, u16))) -> Conn {
    let (c, s) = ep;
    let kind: &'static str;
    let (req, resp) = match r.below(6) {
        0 | 1 => {
            kind = "http1";
            (net::http1_request(r), net::http1_response(r))
        }
        2 => {
            kind = "h2";
            (net::h2_request(r, false), net::h2_response(r, false))
        }
        3 | 4 => {
            kind = "h2-adversarial";
            (net::h2_request(r, true), net::h2_response(r, true))
        }
        _ => {
            kind = "http-binary";
            (r.bytes_in(4, 80), r.bytes_in(4, 80))
        }
    };
    let mut segs = vec![];
    let isn_c = match r.below(4) {
        0 => 0u32,
        1 => u32::MAX - r.below(200) as u32,
        _ => r.next() as u32,
    };
    let isn_s = r.next() as u32;
    let mut kind = kind;
    if r.chance(1, 7) {
        // an earlier connection on the same 4-tuple that left an unfinished request behind; the connection
        // proper then opens with its own SYN (another ISN)
        kind = "http-reuse";
        let isn_old = isn_c.wrapping_add(1_000_000 + r.below(1000) as u32);
        let mut syn = Seg::new(c, s, SYN);
        syn.seq = isn_old;
        segs.push(syn);
        if r.chance(1, 2) {
            let mut sa = Seg::new(s, c, SYN | ACK);
            sa.seq = r.next() as u32;
            segs.push(sa);
        }
        let old = net::http1_request(r);
        let cut = r.range(1, old.len() as u64 - 1) as usize;
        let mut g = Seg::new(c, s, ACK | PSH);
        g.seq = isn_old.wrapping_add(1);
        g.payload = old[..cut].to_vec();
        segs.push(g);
        if r.chance(1, 4) {
            // the SYN of the connection proper is retransmitted
            let mut syn = Seg::new(c, s, SYN);
            syn.seq = isn_c;
            segs.push(syn);
        }
    }
    let mut syn = Seg::new(c, s, SYN);
    syn.seq = isn_c;
    segs.push(syn);
    let mut sa = Seg::new(s, c, SYN | ACK);
    sa.seq = isn_s;
    segs.push(sa);
    let mut seq = isn_c.wrapping_add(1);
    let kreq = r.range(1, 3) as usize;
    let mut creq: Vec<Seg> = vec![];
    for p in net::split_random(r, &req, kreq) {
        let mut g = Seg::new(c, s, ACK | PSH);
        g.seq = seq;
        seq = seq.wrapping_add(p.len() as u32);
        g.payload = p;
        creq.push(g);
    }
    if creq.len() >= 2 && r.chance(1, 4) {
        let n = creq.len();
        creq.swap(n - 1, n - 2); // out-of-order arrival
    }
    segs.extend(creq);
    let mut seq = isn_s.wrapping_add(1);
    let kresp = r.range(1, 3) as usize;
    let parts = net::split_random(r, &resp, kresp);
    let np = parts.len();
    for (i, p) in parts.into_iter().enumerate() {
        let mut g = Seg::new(s, c, ACK | PSH);
        g.seq = seq;
        seq = seq.wrapping_add(p.len() as u32);
        g.payload = p;
        if i + 1 == np && r.chance(1, 3) {
            g.flags |= FIN;
        }
        segs.push(g);
    }
    if r.chance(1, 4) {
        // trailing traffic after the exchange (more request bytes, a RST)
        let mut g = Seg::new(c, s, ACK | PSH);
        g.seq = isn_c.wrapping_add(5000);
        g.payload = net::http1_request(r);
        segs.push(g);
        if r.chance(1, 2) {
            let mut x = Seg::new(c, s, RST);
            x.payload = vec![1];
            segs.push(x);
        }
    }
    Conn { client: c, server: s, segs, kind }
}

/// What `TcpFlow::get_full_data` returns (fix C09-1): segments ordered by their offset from ISN+1
/// modulo 2^32 (stable), the gap-free run from the first byte, bytes already present skipped.
/// Without an ISN the lowest stored sequence number is the base.
pub fn full_data(isn: Option<u32>, parts: &[(u32, Vec<u8>)]) -> Vec<u8> {
    let base = match isn {
        Some(i) => i.wrapping_add(1),
        None => parts.iter().map(|p| p.0).min().unwrap_or(0),
    };
    let mut v: Vec<&(u32, Vec<u8>)> = parts.iter().filter(|p| !p.1.is_empty()).collect();
    v.sort_by_key(|p| p.0.wrapping_sub(base));
    let mut out: Vec<u8> = vec![];
    let mut next: u32 = 0;
    for p in v {
        let off = p.0.wrapping_sub(base);
        if off > next {
            break;
        }
        let have = next.wrapping_sub(off) as usize;
        if have < p.1.len() {
            out.extend_from_slice(&p.1[have..]);
            next = next.wrapping_add((p.1.len() - have) as u32);
        }
    }
    out
}

/// Oracle: request/response parse results (fresh processors) for every buffer a direction can hold.
fn http_oracle(conn: &Conn) -> Vec<(Vec<u8>, String, String)> {
    let mut out: Vec<(Vec<u8>, String, String)> = vec![];
    let mut add = |buf: Vec<u8>, out: &mut Vec<(Vec<u8>, String, String)>| {
        if buf.len() < 4 || out.iter().any(|(b, _, _)| *b == buf) {
            return;
        }
        let p = huginn_net_http::http_process::HttpProcessors::new();
        let q = canon::http_req(&p.parse_request(&buf));
        let p = huginn_net_http::http_process::HttpProcessors::new();
        let a = canon::http_resp(&p.parse_response(&buf));
        out.push((buf, q, a));
    };
    // the flow may have been opened by any SYN-flagged segment of the connection (first one wins while
    // it lives); enumerate both directions as potential "client" and every accumulation prefix. The
    // server's ISN is the sequence number of the first SYN-flagged segment of the other direction
    // seen while the flow lives.
    for first in 0..conn.segs.len() {
        if conn.segs[first].flags & SYN == 0 {
            continue;
        }
        let opener = conn.segs[first].src;
        let cisn = conn.segs[first].seq;
        let mut sisn: Option<u32> = None;
        let mut cl: Vec<(u32, Vec<u8>)> = vec![(cisn.wrapping_add(1), conn.segs[first].payload.clone())];
        let mut sv: Vec<(u32, Vec<u8>)> = vec![];
        add(full_data(Some(cisn), &cl), &mut out);
        for s in &conn.segs[first + 1..] {
            if s.src != opener && s.flags & SYN != 0 && sisn.is_none() {
                sisn = Some(s.seq);
            }
            if s.payload.is_empty() {
                continue;
            }
            if s.src == opener {
                cl.push((s.seq, s.payload.clone()));
                add(full_data(Some(cisn), &cl), &mut out);
            } else {
                sv.push((s.seq, s.payload.clone()));
                add(full_data(sisn, &sv), &mut out);
            }
        }
    }
    out
}

fn emit_http(ctx: &mut Ctx, conns: &[Conn], order: &[(usize, usize)], cap: usize) {
    let procs = huginn_net_http::http_process::HttpProcessors::new();
    let mut cache: HttpCache = TtlCache::new(cap);
    let inter: Vec<String> = order.iter().map(|&(c, i)| http_step(&mut cache, &procs, &conns[c].segs[i])).collect();
    let mut iso: Vec<String> = vec![];
    for c in conns {
        let procs = huginn_net_http::http_process::HttpProcessors::new();
        let mut cache: HttpCache = TtlCache::new(cap);
        iso.push(c.segs.iter().map(|s| http_step(&mut cache, &procs, s)).collect::<Vec<_>>().join(";"));
    }
    let mut l = Line::op("C07.http");
    l.usize(cap);
    l.list(conns, |l, c| {
        w_ep(l, &c.client);
        w_ep(l, &c.server);
        l.tok(c.kind);
        let o = http_oracle(c);
        l.list(&o, |l, (b, q, a)| {
            l.bytes(b).tok(q).tok(a);
        });
    });
    l.list(order, |l, &(c, i)| {
        let s = &conns[c].segs[i];
        l.usize(c);
        w_ep(l, &s.src);
        w_ep(l, &s.dst);
        l.nat(s.seq).nat(s.flags);
        l.bytes(&s.payload);
    });
    let out = format!("{}|{}|{}", inter.join(";"), inter.join(";"), iso.join("|"));
    ctx.emit(l.finish(&out));
}

// ------------------------------------------------------------------------------------- TCP (uptime tracker)

type TcpCache = TtlCache<huginn_net_tcp::ConnectionKey, huginn_net_tcp::TcpTimestamp>;

fn set_clock(ms: u64) {
    huginn_net_tcp::uptime::VERIF_CLOCK_MS.store(ms, std::sync::atomic::Ordering::SeqCst);
}

/// returns (uptime view, full digest)
fn tcp_step(cache: &mut TcpCache, s: &Seg) -> (String, String) {
    set_clock(s.wall_ms);
    let b = net::ip_bytes(s);
    let res = match parse_ip(&b) {
        (Some(ip), _) => huginn_net_tcp::process_ipv4_packet(&ip, cache, None),
        (_, Some(ip)) => huginn_net_tcp::process_ipv6_packet(&ip, cache, None),
        _ => return ("err:frame".into(), "err:frame".into()),
    };
    match res {
        Ok(o) => {
            let up = format!("{},{}", canon::uptime(&o.client_uptime), canon::uptime(&o.server_uptime));
            let full = canon::dig(&up, &format!("{o:?}"));
            (up, full)
        }
        Err(_) => ("err".into(), "err".into()),
    }
}

pub fn tcp_conn(r: &mut Rng, ep: ((IpAddr, u16), (IpAddr, u16))) -> Conn {
    let (c, s) = ep;
    let mut segs = vec![];
    let hz_c = *r.pick(&[100u64, 250, 1000, 300, 10, 2000]);
    let hz_s = *r.pick(&[100u64, 250, 1000, 64]);
    let t0: u64 = 1_700_000_000_000 + r.below(1000);
    let ts_c0 = r.next() as u32;
    let ts_s0 = r.next() as u32;
    let mut t = t0;
    let mut syn = Seg::new(c, s, SYN);
    syn.options = Seg::syn_options(1460, 7, if r.chance(5, 6) { Some(ts_c0) } else { None });
    syn.wall_ms = t;
    segs.push(syn);
    t += r.range(1, 80);
    let mut sa = Seg::new(s, c, SYN | ACK);
    sa.options = Seg::syn_options(1460, 7, Some(ts_s0));
    sa.wall_ms = t;
    segs.push(sa);
    let n = r.range(1, 5);
    for _ in 0..n {
        t += *r.pick(&[1u64, 20, 30, 100, 500, 5000, 700_000]);
        let from_client = r.chance(1, 2);
        let (a, b, hz, base) = if from_client { (c, s, hz_c, ts_c0) } else { (s, c, hz_s, ts_s0) };
        let mut g = Seg::new(a, b, ACK);
        let dt = t - t0;
        let mut tsv = base.wrapping_add((dt * hz / 1000) as u32);
        if r.chance(1, 8) {
            tsv = base.wrapping_sub(r.below(50) as u32); // backward
        }
        g.options = Seg::ts_option(tsv, 1);
        g.wall_ms = t;
        if r.chance(1, 4) {
            g.payload = vec![b'x'; 3];
        }
        segs.push(g);
    }
    Conn { client: c, server: s, segs, kind: "tcp-ts" }
}

fn tsval_of(s: &Seg) -> Option<u32> {
    // the harness only builds options with well-formed kind 8 length 10
    let o = &s.options;
    let mut i = 0;
    while i < o.len() {
        match o[i] {
            0 => return None,
            1 => i += 1,
            8 if i + 10 <= o.len() && o[i + 1] == 10 => return Some(u32::from_be_bytes([o[i + 2], o[i + 3], o[i + 4], o[i + 5]])),
            _ => {
                if i + 1 >= o.len() || o[i + 1] < 2 {
                    return None;
                }
                i += o[i + 1] as usize;
            }
        }
    }
    None
}

/// Oracle: for every ordered pair (reference i, current j) of segments with the same tracker key,
/// what a fresh tracker reports for j after having stored i.
fn tcp_oracle(conn: &Conn) -> Vec<(u32, u64, u32, u64, String)> {
    let mut out = vec![];
    for (i, a) in conn.segs.iter().enumerate() {
        for b in conn.segs.iter().skip(i + 1) {
            if a.src != b.src || a.dst != b.dst {
                continue;
            }
            let (Some(ta), Some(tb)) = (tsval_of(a), tsval_of(b)) else { continue };
            let fa = huginn_net_tcp::is_packet_from_client(a.flags, a.src.1, a.dst.1);
            let fb = huginn_net_tcp::is_packet_from_client(b.flags, b.src.1, b.dst.1);
            if fa != fb {
                continue;
            }
            if out.iter().any(|(x, y, z, w, _): &(u32, u64, u32, u64, String)| *x == tb && *y == b.wall_ms && *z == ta && *w == a.wall_ms) {
                continue;
            }
            let mut cache: TcpCache = TtlCache::new(8);
            let conn_key = huginn_net_tcp::uptime::Connection { src_ip: a.src.0, src_port: a.src.1, dst_ip: a.dst.0, dst_port: a.dst.1 };
            set_clock(a.wall_ms);
            let _ = huginn_net_tcp::uptime::check_ts_tcp(&mut cache, &conn_key, fa, ta);
            set_clock(b.wall_ms);
            let (cu, su) = huginn_net_tcp::uptime::check_ts_tcp(&mut cache, &conn_key, fb, tb);
            let res = match cu.or(su) {
                Some(u) => format!("{}d{}h{}m/{}@{}", u.days, u.hours, u.min, u.up_mod_days, u.freq),
                None => "-".to_string(),
            };
            out.push((tb, b.wall_ms, ta, a.wall_ms, res));
        }
    }
    out
}

fn emit_tcp(ctx: &mut Ctx, conns: &[Conn], order: &[(usize, usize)], cap: usize) {
    let mut cache: TcpCache = TtlCache::new(cap);
    let inter: Vec<(String, String)> = order.iter().map(|&(c, i)| tcp_step(&mut cache, &conns[c].segs[i])).collect();
    let mut iso: Vec<String> = vec![];
    for c in conns {
        let mut cache: TcpCache = TtlCache::new(cap);
        iso.push(c.segs.iter().map(|s| tcp_step(&mut cache, s).1).collect::<Vec<_>>().join(";"));
    }
    let mut l = Line::op("C07.tcp");
    l.usize(cap);
    l.list(conns, |l, c| {
        w_ep(l, &c.client);
        w_ep(l, &c.server);
        l.tok(c.kind);
        let o = tcp_oracle(c);
        l.list(&o, |l, (a, b, c2, d, r)| {
            l.nat(*a).nat(*b).nat(*c2).nat(*d).tok(r);
        });
    });
    l.list(order, |l, &(c, i)| {
        let s = &conns[c].segs[i];
        l.usize(c);
        w_ep(l, &s.src);
        w_ep(l, &s.dst);
        l.bool(huginn_net_tcp::is_packet_from_client(s.flags, s.src.1, s.dst.1));
        match tsval_of(s) {
            Some(t) => l.nat(1u8).nat(t),
            None => l.nat(0u8),
        };
        l.nat(s.wall_ms);
    });
    let out = format!(
        "{}|{}|{}",
        inter.iter().map(|x| x.0.clone()).collect::<Vec<_>>().join(";"),
        inter.iter().map(|x| x.1.clone()).collect::<Vec<_>>().join(";"),
        iso.join("|")
    );
    ctx.emit(l.finish(&out));
}

// ------------------------------------------------------------------------------------- unified analyzer

fn uni_step(a: &mut huginn_net::HuginnNet, s: &Seg) -> String {
    set_clock(s.wall_ms);
    let f = net::eth_bytes(s);
    let o = a.analyze_tcp(&f);
    let dbg = format!(
        "{:?}{:?}{:?}{:?}{:?}{:?}{:?}{:?}",
        o.tcp_syn, o.tcp_syn_ack, o.tcp_mtu, o.tcp_client_uptime, o.tcp_server_uptime, o.http_request, o.http_response, o.tls_client.as_ref().map(|t| (t.source.clone(), t.destination.clone(), t.sig.clone()))
    );
    let readable = format!(
        "{}{}{}{}{}{}{}{}",
        if o.tcp_syn.is_some() { "S" } else { "" },
        if o.tcp_syn_ack.is_some() { "A" } else { "" },
        if o.tcp_mtu.is_some() { "M" } else { "" },
        if o.tcp_client_uptime.is_some() { "u" } else { "" },
        if o.tcp_server_uptime.is_some() { "U" } else { "" },
        if o.http_request.is_some() { "Q" } else { "" },
        if o.http_response.is_some() { "R" } else { "" },
        if o.tls_client.is_some() { "T" } else { "" }
    );
    canon::dig(if readable.is_empty() { "-" } else { &readable }, &dbg)
}

fn emit_uni(ctx: &mut Ctx, conns: &[Conn], order: &[(usize, usize)], cap: usize) {
    let cfg = huginn_net::AnalysisConfig { http_enabled: true, tcp_enabled: true, tls_enabled: true, matcher_enabled: false };
    let mut a = huginn_net::HuginnNet::new(None, cap, Some(cfg.clone())).unwrap();
    let inter: Vec<String> = order.iter().map(|&(c, i)| uni_step(&mut a, &conns[c].segs[i])).collect();
    let mut iso: Vec<String> = vec![];
    for c in conns {
        let mut a = huginn_net::HuginnNet::new(None, cap, Some(cfg.clone())).unwrap();
        iso.push(c.segs.iter().map(|s| uni_step(&mut a, s)).collect::<Vec<_>>().join(";"));
    }
    let mut l = Line::op("C07.uni");
    l.usize(cap);
    l.list(conns, |l, c| {
        w_ep(l, &c.client);
        w_ep(l, &c.server);
        l.tok(c.kind);
        l.usize(c.segs.len());
    });
    l.list(order, |l, &(c, _)| {
        l.usize(c);
    });
    let out = format!("{}|{}|{}", inter.join(";"), inter.join(";"), iso.join("|"));
    ctx.emit(l.finish(&out));
}

// ------------------------------------------------------------------------------------- the TtlCache model itself

/// `C07.ttl`: a random operation sequence on a real `ttl_cache::TtlCache<u8, u32>` on its own clock
/// (`Instant::now()`, not injectable): the harness sleeps to a 40 ms grid, entries live k*40+20 ms, and
/// every operation is reported with the time at which it actually ran, so the model (Model/Flow.lean
/// `TtlMap`: insertion order, capacity counted over expired entries too, lazy expiry, `get_mut` does not
/// refresh) is driven with the same instants. Validates the third-party interface model every
/// flow theorem stands on, expiry included.
fn emit_ttlcache(ctx: &mut Ctx, r: &mut Rng, script: Option<(usize, Vec<(u64, u8, u8, u32, u64)>)>) {
    let cap = match &script { Some(s) => s.0, None => r.range(1, 4) as usize };
    let nops = match &script { Some(s) => s.1.len(), None => r.range(6, 14) as usize };
    let mut cache: TtlCache<u8, u32> = TtlCache::new(cap);
    let start = std::time::Instant::now();
    let mut l = Line::op("C07.ttl");
    l.usize(cap);
    let mut ops: Vec<(u64, u8, u8, u32, u64)> = vec![]; // (time ms, op, key, value, ttl ms)
    let mut outs: Vec<String> = vec![];
    let mut slot = 0u64;
    for i in 0..nops {
        let scripted = script.as_ref().map(|s| s.1[i]);
        if let Some(sc) = scripted {
            slot = sc.0;
        } else if r.chance(1, 2) {
            slot += r.range(1, 3);
        }
        let target = std::time::Duration::from_millis(slot * 40);
        let el = start.elapsed();
        if el < target {
            std::thread::sleep(target - el);
        }
        let (key, val, ttl, op) = match scripted {
            Some(sc) => (sc.2, sc.3, sc.4, sc.1),
            None => (r.below(4) as u8, r.below(1000) as u32, r.range(0, 3) * 40 + 20, *r.pick(&[0u8, 0, 0, 0, 1, 1, 1, 2, 3, 4])),
        };
        let before = start.elapsed().as_micros() as u64;
        let out = match op {
            0 => {
                cache.insert(key, val, std::time::Duration::from_millis(ttl));
                "i".to_string()
            }
            1 => match cache.get(&key) {
                Some(v) => format!("{v}"),
                None => "-".into(),
            },
            2 => match cache.get_mut(&key) {
                Some(v) => {
                    *v = val;
                    "1".into()
                }
                None => "0".into(),
            },
            3 => {
                cache.remove(&key);
                "r".into()
            }
            _ => if cache.contains_key(&key) { "1".into() } else { "0".into() },
        };
        let after = start.elapsed().as_micros() as u64;
        // the operation ran somewhere in [before, after]; report the midpoint in ms (the driver treats an
        // operation closer than 3 ms to an expiry instant as unspecified)
        let t = (before + after) / 2000;
        ops.push((t, op, key, val, ttl));
        outs.push(out);
        let _ = after;
    }
    l.list(&ops, |l, o| {
        l.nat(o.0).nat(o.1).nat(o.2).nat(o.3).nat(o.4);
    });
    ctx.emit(l.finish(&outs.join(",")));
}

pub fn run(ctx: &mut Ctx) {
    let mut r = ctx.rng.fork();
    // scripted: an expired read, an expired entry still holding its slot, eviction of the oldest, re-insertion
    // moving to the back, get_mut not refreshing the lifetime
    emit_ttlcache(ctx, &mut r, Some((2, vec![
        (0, 0, 0, 10, 20), (0, 0, 1, 11, 100), (1, 1, 0, 0, 0), (1, 4, 1, 0, 0), (1, 0, 2, 12, 60), (1, 1, 1, 0, 0),
        (1, 0, 1, 13, 60), (1, 0, 3, 14, 60), (1, 1, 2, 0, 0), (1, 2, 1, 99, 0), (3, 1, 1, 0, 0), (3, 1, 3, 0, 0),
    ])));
    for _ in 0..ctx.n(12, 120) {
        emit_ttlcache(ctx, &mut r, None);
    }
    let n = ctx.n(400, 40000);
    for k in 0..n {
        let v6 = r.chance(1, 4);
        let nconn = r.range(2, 6) as usize;
        // capacity: mostly ample (the property's domain), sometimes tight (eviction: model still must agree)
        let cap = if r.chance(1, 6) { r.range(1, 3) as usize } else { 64 };
        let eps = endpoints(&mut r, nconn, v6);
        match k % 4 {
            0 => {
                let conns: Vec<Conn> = eps.into_iter().map(|e| tls_conn(&mut r, e)).collect();
                let order = interleave(&mut r, &conns);
                emit_tls(ctx, &conns, &order, cap);
            }
            1 => {
                let conns: Vec<Conn> = eps.into_iter().map(|e| http_conn(&mut r, e)).collect();
                let order = interleave(&mut r, &conns);
                emit_http(ctx, &conns, &order, cap);
            }
            2 => {
                let conns: Vec<Conn> = eps.into_iter().map(|e| tcp_conn(&mut r, e)).collect();
                let order = interleave(&mut r, &conns);
                emit_tcp(ctx, &conns, &order, cap);
            }
            _ => {
                let conns: Vec<Conn> = eps
                    .into_iter()
                    .map(|e| match r.below(3) {
                        0 => {
                            // single-segment hello: the unified analyzer's TLS path is stateless
                            let mut c = tls_conn(&mut r, e);
                            c.kind = "tls";
                            c
                        }
                        1 => http_conn(&mut r, e),
                        _ => tcp_conn(&mut r, e),
                    })
                    .collect();
                let order = interleave(&mut r, &conns);
                emit_uni(ctx, &conns, &order, cap);
            }
        }
    }
    // the parallel path: connections concurrently live on ONE worker of a real pool whose configured capacity
    // is exactly what they need, against each connection analysed alone
    let rounds = ctx.n(12, 600);
    for _ in 0..rounds {
        use crate::registry::c10::{conns_for, group, round_robin, run_pool, sequential, worker_of, Kind};
        for kind in [Kind::Http, Kind::Tls] {
            let n = *r.pick(&[2usize, 3, 4]);
            let mut same: Vec<Conn> = vec![];
            let mut guard = 0;
            while same.len() < 5 && guard < 400 {
                guard += 1;
                for c in conns_for(kind, &mut r) {
                    let f0 = net::eth_bytes(&c.segs[0]);
                    let dup = same.iter().any(|x| (x.client == c.client && x.server == c.server) || (x.client == c.server && x.server == c.client));
                    if !dup && worker_of(kind, &f0, n) == Some(0) && same.len() < 5 {
                        same.push(c);
                    }
                }
            }
            if same.len() < 3 {
                continue;
            }
            let frames: Vec<Vec<u8>> = round_robin(&same).iter().map(|&(c, i)| net::eth_bytes(&same[c].segs[i])).collect();
            let mut iso = vec![];
            for c in &same {
                let fr: Vec<Vec<u8>> = c.segs.iter().map(net::eth_bytes).collect();
                iso.extend(sequential(kind, &fr, same.len()));
            }
            let run = run_pool(kind, n, frames.len() + 64, 8, 2, same.len(), vec![frames], &mut r);
            let mut l = Line::op("C07.pool");
            l.tok(&format!("{kind:?}")).usize(n).usize(same.len());
            l.text(&group(&iso));
            let out = if run.timed_out { "TIMEOUT".to_string() } else { group(&run.results) };
            ctx.emit(l.finish(&out));
        }
    }
    set_clock(u64::MAX);
}
