//! Canonical one-token digests of analyzer outputs (no addresses of memory, no timing fields).
#![allow(dead_code)]

pub fn fnv(s: &str) -> u64 {
    let mut h: u64 = 0xcbf29ce484222325;
    for b in s.as_bytes() {
        h ^= *b as u64;
        h = h.wrapping_mul(0x100000001b3);
    }
    h
}

/// `<readable>#<hash of the full debug rendering>`; the readable part never contains spaces.
pub fn dig(readable: &str, full: &str) -> String {
    // the readable part is only a label (the digest decides equality): nothing that a line protocol uses as a
    // separator may survive in it — a URI or an ALPN value can contain `,`, `;`, `|`, `#`, `@`, `/`
    let r: String = readable.chars().map(|c| if c.is_ascii_alphanumeric() || c == '_' || c == '.' || c == ':' || c == '-' { c } else { '_' }).take(60).collect();
    format!("{}#{:016x}", r, fnv(full))
}

pub fn tls(o: &Option<huginn_net_tls::TlsClientOutput>) -> String {
    match o {
        None => "-".into(),
        Some(t) => dig(&format!("{}", t.sig.ja4.full), &format!("{:?}", t.sig)),
    }
}
pub fn tls_sig(s: &huginn_net_tls::ObservableTlsClient) -> String {
    dig(&format!("{}", s.ja4.full), &format!("{s:?}"))
}

pub fn http_req(o: &Option<huginn_net_http::ObservableHttpRequest>) -> String {
    match o {
        None => "-".into(),
        Some(q) => dig(&format!("{}_{}", q.method.clone().unwrap_or_default(), q.uri.clone().unwrap_or_default()), &format!("{q:?}")),
    }
}
pub fn http_resp(o: &Option<huginn_net_http::ObservableHttpResponse>) -> String {
    match o {
        None => "-".into(),
        Some(q) => dig(&format!("{}", q.status_code.unwrap_or(0)), &format!("{q:?}")),
    }
}
pub fn http_result(r: &huginn_net_http::HttpAnalysisResult) -> String {
    format!(
        "{},{}",
        http_req(&r.http_request.as_ref().map(|x| x.sig.clone())),
        http_resp(&r.http_response.as_ref().map(|x| x.sig.clone()))
    )
}

pub fn uptime(u: &Option<huginn_net_tcp::UptimeOutput>) -> String {
    match u {
        None => "-".into(),
        Some(u) => format!("{}d{}h{}m/{}@{}", u.days, u.hours, u.min, u.up_mod_days, u.freq),
    }
}
