//! hvh — correspondence harness: runs the real huginn-net crates (path dependencies on
//! /repo, rebuilt from the working tree) and prints one case per line in the line
//! protocol understood by the Lean driver `hdrv`.
//!
//!   hvh <property> <quick|thorough> <seed>          generate cases
//! A replay regenerates the same stream from (property, tier, seed) and selects the case.
mod alloc;
mod canon;
mod net;
mod rng;
mod wr;
mod registry;

use std::io::{BufWriter, Write};

#[global_allocator]
static GLOBAL: alloc::Counting = alloc::Counting;

#[derive(Clone, Copy, PartialEq, Eq)]
pub enum Tier {
    Quick,
    Thorough,
}

pub struct Ctx<'a> {
    pub out: &'a mut dyn Write,
    pub tier: Tier,
    pub rng: rng::Rng,
}

impl Ctx<'_> {
    pub fn emit(&mut self, line: String) {
        writeln!(self.out, "{line}").unwrap();
    }
    pub fn n(&self, quick: usize, thorough: usize) -> usize {
        if self.tier == Tier::Quick {
            quick
        } else {
            thorough
        }
    }
}

fn main() {
    std::panic::set_hook(Box::new(|_| {}));
    let args: Vec<String> = std::env::args().collect();
    let stdout = std::io::stdout();
    let mut out = BufWriter::with_capacity(1 << 20, stdout.lock());
    if args.len() < 4 {
        eprintln!("usage: hvh <property> <quick|thorough> <seed>");
        std::process::exit(2);
    }
    let tier = if args[2] == "thorough" { Tier::Thorough } else { Tier::Quick };
    let seed: u64 = args[3].parse().unwrap_or(0);
    let mut ctx = Ctx { out: &mut out, tier, rng: rng::Rng::new(seed) };
    if !registry::run(args[1].as_str(), &mut ctx) {
        eprintln!("unknown property {}", args[1]);
        std::process::exit(2);
    }
}
